(* C13, part 1: Python's argument binding (Spec.bind) and forwarding.

   Main result [forward_structured]: for a signature
        P ++ va? ++ K ++ vk?         (P positional-or-keyword, K keyword-only)
   with distinct names, and any call with distinct keywords that binds to a
   frame [env], evaluating the invocation  _call(p.., *va, k=k.., **vk)  in
   that frame yields a call that binds to the same frame again.  *)
From Boltons Require Import Lib.Prelude Spec.C13_Spec Model.C13_Model.

Definition keys (kw : list (name * value)) : list name := map fst kw.

(* ---- NoDup and append ------------------------------------------------------------ *)
Lemma NoDup_app_iff {A} (l1 l2 : list A) :
  NoDup (l1 ++ l2) <-> NoDup l1 /\ NoDup l2 /\ (forall a, In a l1 -> ~ In a l2).
Proof.
  induction l1 as [|x r IH]; simpl.
  - split; [intro H; repeat split; [constructor | exact H | intros a []] | intros [_ [H _]]; exact H].
  - split.
    + intro H. inversion H; subst. apply IH in H3 as [N1 [N2 D]]. repeat split.
      * constructor; [|exact N1]. intro Hin. apply H2. apply in_or_app. left. exact Hin.
      * exact N2.
      * intros a [<-|Ha]; [intro Hin; apply H2; apply in_or_app; right; exact Hin | apply D; exact Ha].
    + intros [N1 [N2 D]]. inversion N1; subst. constructor.
      * intro Hin. apply in_app_or in Hin as [Hin|Hin]; [contradiction | apply (D x); [left; reflexivity | exact Hin]].
      * apply IH. repeat split; [assumption | assumption | intros a Ha; apply D; right; exact Ha].
Qed.

Lemma NoDup_app_l {A} (l1 l2 : list A) : NoDup (l1 ++ l2) -> NoDup l1.
Proof. intro H. apply NoDup_app_iff in H. tauto. Qed.
Lemma NoDup_app_r {A} (l1 l2 : list A) : NoDup (l1 ++ l2) -> NoDup l2.
Proof. intro H. apply NoDup_app_iff in H. tauto. Qed.
Lemma NoDup_app_disj {A} (l1 l2 : list A) a : NoDup (l1 ++ l2) -> In a l1 -> ~ In a l2.
Proof. intro H. apply NoDup_app_iff in H. destruct H as [_ [_ D]]. apply D. Qed.

(* ---- booleans <-> propositions ------------------------------------------------ *)
Lemma existsb_eqb_In x l : existsb (Nat.eqb x) l = true <-> In x l.
Proof.
  rewrite existsb_exists. split.
  - intros [y [Hy E]]. apply Nat.eqb_eq in E. subst. exact Hy.
  - intro H. exists x. split; [exact H | apply Nat.eqb_refl].
Qed.

Lemma nodup_b_NoDup l : nodup_b l = true <-> NoDup l.
Proof.
  induction l as [|x r IH]; simpl.
  - split; [constructor | reflexivity].
  - rewrite andb_true_iff, negb_true_iff, IH. split.
    + intros [H1 H2]. constructor; [|exact H2]. intro Hin.
      apply existsb_eqb_In in Hin. congruence.
    + intro H. inversion H; subst. split; [|assumption].
      destruct (existsb (Nat.eqb x) r) eqn:E; [|reflexivity].
      apply existsb_eqb_In in E. contradiction.
Qed.

Lemma kw_mem_In n kw : kw_mem n kw = true <-> In n (keys kw).
Proof.
  unfold kw_mem, keys. rewrite existsb_exists, in_map_iff. split.
  - intros [e [He E]]. apply Nat.eqb_eq in E. exists e. split; [symmetry; exact E | exact He].
  - intros [e [E He]]. exists e. split; [exact He | subst; apply Nat.eqb_refl].
Qed.

Lemma kw_mem_false n kw : kw_mem n kw = false <-> ~ In n (keys kw).
Proof.
  rewrite <- kw_mem_In. destruct (kw_mem n kw); split; intro H.
  - discriminate.
  - exfalso. apply H. reflexivity.
  - intro. discriminate.
  - reflexivity.
Qed.

(* ---- kw_take ------------------------------------------------------------------------ *)
Lemma kw_take_none n kw : kw_take n kw = None <-> ~ In n (keys kw).
Proof.
  induction kw as [|[k v] r IH]; simpl.
  - split; [intros _ [] | reflexivity].
  - destruct (Nat.eqb n k) eqn:E.
    + apply Nat.eqb_eq in E. subst. split; [discriminate | intro H; exfalso; apply H; left; reflexivity].
    + apply Nat.eqb_neq in E. destruct (kw_take n r) as [[x r']|].
      * split; [discriminate|]. intro H. exfalso.
        assert (Hn : ~ In n (keys r)) by (intro; apply H; right; assumption).
        apply IH in Hn. discriminate.
      * split; [|reflexivity]. intros _ [H|H]; [congruence|]. apply (proj1 IH); [reflexivity | exact H].
Qed.

Lemma kw_take_some n kw v kw' :
  kw_take n kw = Some (v, kw') ->
  incl (keys kw') (keys kw) /\ (NoDup (keys kw) -> NoDup (keys kw') /\ ~ In n (keys kw')).
Proof.
  revert v kw'. induction kw as [|[k x] r IH]; simpl; intros v kw' H; [discriminate|].
  destruct (Nat.eqb n k) eqn:E.
  - apply Nat.eqb_eq in E. inversion H; subst. split.
    + intros a Ha. right. exact Ha.
    + intro ND. inversion ND; subst. split; assumption.
  - apply Nat.eqb_neq in E. destruct (kw_take n r) as [[y r']|] eqn:T; [|discriminate].
    inversion H; subst. destruct (IH _ _ eq_refl) as [I1 I2]. split.
    + intros a [Ha|Ha]; [left; exact Ha | right; apply I1; exact Ha].
    + intro ND. inversion ND; subst. destruct (I2 H3) as [N1 N2]. split.
      * simpl. constructor; [|exact N1]. intro Hin. apply H2. apply I1. exact Hin.
      * simpl. intros [Hk|Hk]; [congruence | contradiction].
Qed.

Lemma kw_take_head n v r : kw_take n ((n, v) :: r) = Some (v, r).
Proof. simpl. rewrite Nat.eqb_refl. reflexivity. Qed.

(* ---- bind_go: composition and invariants ----------------------------------------------- *)
Lemma bcons_ok n bv r b pos kw :
  bcons n bv r = Ok (b, pos, kw) -> exists b', r = Ok (b', pos, kw) /\ b = (n, bv) :: b'.
Proof.
  destruct r as [[[b' p'] k']|e]; simpl; intro H; [|discriminate].
  inversion H; subst. eexists. split; reflexivity.
Qed.

Lemma bind_go_app ps1 : forall ps2 pos kw,
  bind_go (ps1 ++ ps2) pos kw =
  match bind_go ps1 pos kw with
  | Ok (b1, pos1, kw1) =>
      match bind_go ps2 pos1 kw1 with
      | Ok (b2, pos2, kw2) => Ok (b1 ++ b2, pos2, kw2)
      | Raise e => Raise e
      end
  | Raise e => Raise e
  end.
Proof.
  induction ps1 as [|p r IH]; intros ps2 pos kw.
  - simpl. destruct (bind_go ps2 pos kw) as [[[b p'] k']|e]; reflexivity.
  - cbn [app bind_go].
    assert (BC : forall n bv pos kw,
      bcons n bv (bind_go (r ++ ps2) pos kw) =
      match bcons n bv (bind_go r pos kw) with
      | Ok (b1, pos1, kw1) =>
          match bind_go ps2 pos1 kw1 with
          | Ok (b2, pos2, kw2) => Ok (b1 ++ b2, pos2, kw2)
          | Raise e => Raise e
          end
      | Raise e => Raise e
      end).
    { intros n bv pos0 kw0. rewrite IH.
      destruct (bind_go r pos0 kw0) as [[[b1 p1] k1]|e]; simpl; [|reflexivity].
      destruct (bind_go ps2 p1 k1) as [[[b2 p2] k2]|e]; reflexivity. }
    destruct (p_kind p).
    + destruct pos as [|v pos'].
      * destruct (kw_take (p_name p) kw) as [[v kw']|]; [apply BC|].
        destruct (p_default p); [apply BC | reflexivity].
      * destruct (kw_mem (p_name p) kw); [reflexivity | apply BC].
    + apply BC.
    + destruct (kw_take (p_name p) kw) as [[v kw']|]; [apply BC|].
      destruct (p_default p); [apply BC | reflexivity].
    + apply BC.
Qed.

Definition ordinary (p : param) : bool :=
  match p_kind p with PosOrKw | KwOnly => true | _ => false end.

(* after binding, no ordinary parameter's name is left among the keywords *)
Lemma bind_go_inv ps : forall pos kw b pos' kw',
  bind_go ps pos kw = Ok (b, pos', kw') -> NoDup (keys kw) ->
  NoDup (keys kw') /\ incl (keys kw') (keys kw) /\
  (forall p, In p ps -> ordinary p = true -> ~ In (p_name p) (keys kw')) /\
  map fst b = map p_name ps.
Proof.
  induction ps as [|p r IH]; intros pos kw b pos' kw' H ND.
  - simpl in H. inversion H; subst. repeat split; try assumption.
    + apply incl_refl.
    + intros p [].
  - cbn [bind_go] in H.
    (* the three ways an ordinary parameter gets its value *)
    assert (STEP : forall bv pos0 kw0,
      bcons (p_name p) bv (bind_go r pos0 kw0) = Ok (b, pos', kw') ->
      NoDup (keys kw0) -> incl (keys kw0) (keys kw) ->
      (ordinary p = true -> ~ In (p_name p) (keys kw0)) ->
      NoDup (keys kw') /\ incl (keys kw') (keys kw) /\
      (forall q, In q (p :: r) -> ordinary q = true -> ~ In (p_name q) (keys kw')) /\
      map fst b = map p_name (p :: r)).
    { intros bv pos0 kw0 HB ND0 I0 Hp.
      apply bcons_ok in HB as [b' [HB ->]].
      destruct (IH _ _ _ _ _ HB ND0) as [N1 [I1 [O1 M1]]].
      repeat split.
      - exact N1.
      - eapply incl_tran; eassumption.
      - intros q [<-|Hq] Oq; [|apply O1; assumption].
        intro Hin. apply (Hp Oq). apply I1. exact Hin.
      - simpl. f_equal. exact M1. }
    assert (BYKW : forall pos0,
      match kw_take (p_name p) kw with
      | Some (v, kw'0) => bcons (p_name p) (BV v) (bind_go r pos0 kw'0)
      | None => match p_default p with
                | Some d => bcons (p_name p) (BV d) (bind_go r pos0 kw)
                | None => Raise TypeError
                end
      end = Ok (b, pos', kw') ->
      NoDup (keys kw') /\ incl (keys kw') (keys kw) /\
      (forall q, In q (p :: r) -> ordinary q = true -> ~ In (p_name q) (keys kw')) /\
      map fst b = map p_name (p :: r)).
    { intros pos0 HB. destruct (kw_take (p_name p) kw) as [[v kw0]|] eqn:T.
      - destruct (kw_take_some _ _ _ _ T) as [I0 N0]. destruct (N0 ND) as [N1 N2].
        eapply STEP; try eassumption. intros _. exact N2.
      - destruct (p_default p); [|discriminate].
        eapply STEP; try eassumption; [apply incl_refl|]. intros _. apply kw_take_none. exact T. }
    destruct (p_kind p) eqn:Kd.
    + destruct pos as [|v pos0]; [apply (BYKW [] H)|].
      destruct (kw_mem (p_name p) kw) eqn:M; [discriminate|].
      eapply STEP; try eassumption; [apply incl_refl|]. intros _. apply kw_mem_false. exact M.
    + eapply STEP; try eassumption; [apply incl_refl|].
      unfold ordinary. rewrite Kd. discriminate.
    + apply (BYKW pos H).
    + eapply STEP; try eassumption.
      * constructor.
      * intros a [].
      * unfold ordinary. rewrite Kd. discriminate.
Qed.

(* keyword-only parameters and **kwargs leave the positional values alone *)
Lemma bind_go_pos_through ps : forall pos kw b pos' kw',
  forallb (fun p => match p_kind p with KwOnly | VarKw => true | _ => false end) ps = true ->
  bind_go ps pos kw = Ok (b, pos', kw') -> pos' = pos.
Proof.
  induction ps as [|p r IH]; intros pos kw b pos' kw' A H.
  - simpl in H. inversion H. reflexivity.
  - simpl in A. apply andb_true_iff in A as [A1 A2]. cbn [bind_go] in H.
    destruct (p_kind p); try discriminate.
    + destruct (kw_take (p_name p) kw) as [[v kw0]|].
      * apply bcons_ok in H as [b' [H _]]. eapply IH; eassumption.
      * destruct (p_default p); [|discriminate].
        apply bcons_ok in H as [b' [H _]]. eapply IH; eassumption.
    + apply bcons_ok in H as [b' [H _]]. eapply IH; eassumption.
Qed.

(* ---- the values a frame holds --------------------------------------------------------- *)
Definition bvals (b : binding) : list value :=
  flat_map (fun e => match snd e with BV v => [v] | _ => [] end) b.
Definition bpairs (b : binding) : list (name * value) :=
  flat_map (fun e => match snd e with BV v => [(fst e, v)] | _ => [] end) b.

Definition all_kind (k : kind) (ps : list param) : bool :=
  forallb (fun p => kind_eqb (p_kind p) k) ps.

Lemma kind_eqb_eq a b : kind_eqb a b = true <-> a = b.
Proof. destruct a, b; simpl; split; intro H; try reflexivity; try discriminate. Qed.

(* positional-or-keyword parameters, called again with their values by position *)
Lemma rebind_pos P : forall pos kw b pos1 kw1,
  all_kind PosOrKw P = true ->
  bind_go P pos kw = Ok (b, pos1, kw1) ->
  forall X kw2, (forall p, In p P -> ~ In (p_name p) (keys kw2)) ->
  bind_go P (bvals b ++ X) kw2 = Ok (b, X, kw2).
Proof.
  induction P as [|p r IH]; intros pos kw b pos1 kw1 A H X kw2 F.
  - simpl in H. inversion H; subst. reflexivity.
  - simpl in A. apply andb_true_iff in A as [A1 A2]. apply kind_eqb_eq in A1.
    cbn [bind_go] in H. rewrite A1 in H.
    assert (Fp : kw_mem (p_name p) kw2 = false) by (apply kw_mem_false; apply F; left; reflexivity).
    assert (Fr : forall q, In q r -> ~ In (p_name q) (keys kw2)) by (intros q Hq; apply F; right; exact Hq).
    assert (GO : forall v pos0 kw0,
      bcons (p_name p) (BV v) (bind_go r pos0 kw0) = Ok (b, pos1, kw1) ->
      bind_go (p :: r) (bvals b ++ X) kw2 = Ok (b, X, kw2)).
    { intros v pos0 kw0 HB. apply bcons_ok in HB as [b' [HB ->]].
      cbn [bind_go]. rewrite A1. cbn [bvals flat_map snd app]. rewrite Fp.
      fold (bvals b'). rewrite (IH _ _ _ _ _ A2 HB X kw2 Fr). reflexivity. }
    destruct pos as [|v pos0].
    + destruct (kw_take (p_name p) kw) as [[v kw0]|]; [eapply GO; eassumption|].
      destruct (p_default p); [eapply GO; eassumption | discriminate].
    + destruct (kw_mem (p_name p) kw); [discriminate | eapply GO; eassumption].
Qed.

(* keyword-only parameters, called again with name=value for each *)
Lemma rebind_kw Kp : forall pos kw b pos1 kw1,
  all_kind KwOnly Kp = true ->
  bind_go Kp pos kw = Ok (b, pos1, kw1) ->
  forall pos2 Y, bind_go Kp pos2 (bpairs b ++ Y) = Ok (b, pos2, Y).
Proof.
  induction Kp as [|p r IH]; intros pos kw b pos1 kw1 A H pos2 Y.
  - simpl in H. inversion H; subst. reflexivity.
  - simpl in A. apply andb_true_iff in A as [A1 A2]. apply kind_eqb_eq in A1.
    cbn [bind_go] in H. rewrite A1 in H.
    assert (GO : forall v pos0 kw0,
      bcons (p_name p) (BV v) (bind_go r pos0 kw0) = Ok (b, pos1, kw1) ->
      bind_go (p :: r) pos2 (bpairs b ++ Y) = Ok (b, pos2, Y)).
    { intros v pos0 kw0 HB. apply bcons_ok in HB as [b' [HB ->]].
      cbn [bind_go]. rewrite A1. cbn [bpairs flat_map snd fst app].
      rewrite kw_take_head. fold (bpairs b').
      rewrite (IH _ _ _ _ _ A2 HB pos2 Y). reflexivity. }
    destruct (kw_take (p_name p) kw) as [[v kw0]|]; [eapply GO; eassumption|].
    destruct (p_default p); [eapply GO; eassumption | discriminate].
Qed.

(* all entries of a frame of ordinary parameters are plain values *)
Lemma bind_go_ordinary_bv ps : forall pos kw b pos' kw',
  forallb ordinary ps = true ->
  bind_go ps pos kw = Ok (b, pos', kw') ->
  Forall (fun e => exists v, snd e = BV v) b.
Proof.
  induction ps as [|p r IH]; intros pos kw b pos' kw' A H.
  - simpl in H. inversion H. constructor.
  - simpl in A. apply andb_true_iff in A as [A1 A2]. cbn [bind_go] in H.
    assert (GO : forall v pos0 kw0,
      bcons (p_name p) (BV v) (bind_go r pos0 kw0) = Ok (b, pos', kw') ->
      Forall (fun e => exists v, snd e = BV v) b).
    { intros v pos0 kw0 HB. apply bcons_ok in HB as [b' [HB ->]].
      constructor; [exists v; reflexivity | eapply IH; eassumption]. }
    unfold ordinary in A1. destruct (p_kind p); try discriminate.
    + destruct pos as [|v pos0].
      * destruct (kw_take (p_name p) kw) as [[v kw0]|]; [eapply GO; eassumption|].
        destruct (p_default p); [eapply GO; eassumption | discriminate].
      * destruct (kw_mem (p_name p) kw); [discriminate | eapply GO; eassumption].
    + destruct (kw_take (p_name p) kw) as [[v kw0]|]; [eapply GO; eassumption|].
      destruct (p_default p); [eapply GO; eassumption | discriminate].
Qed.

(* ---- evaluating the invocation in a frame ------------------------------------------------ *)
Lemma env_get_in (env : binding) n bv :
  NoDup (map fst env) -> In (n, bv) env -> env_get env n = Some bv.
Proof.
  unfold env_get. induction env as [|[m x] r IH]; simpl; intros ND Hin; [contradiction|].
  inversion ND; subst. destruct Hin as [E|Hin].
  - inversion E; subst. rewrite Nat.eqb_refl. reflexivity.
  - destruct (Nat.eqb n m) eqn:E.
    + apply Nat.eqb_eq in E. subst. exfalso. apply H1. apply in_map_iff. exists (m, bv). split; [reflexivity|exact Hin].
    + apply IH; assumption.
Qed.

Lemma eval_names_frame (env b : binding) :
  NoDup (map fst env) -> incl b env -> Forall (fun e => exists v, snd e = BV v) b ->
  eval_names env (map fst b) = Ok (bvals b).
Proof.
  intros ND. induction b as [|[n x] r IH]; intros I F; [reflexivity|].
  inversion F as [|? ? [v Hv] Fr]; subst. simpl in Hv. subst x.
  cbn [map fst eval_names].
  rewrite (env_get_in env n (BV v) ND) by (apply I; left; reflexivity).
  rewrite IH; [reflexivity | intros a Ha; apply I; right; exact Ha | exact Fr].
Qed.

Lemma eval_kws_frame (env b : binding) :
  NoDup (map fst env) -> incl b env -> Forall (fun e => exists v, snd e = BV v) b ->
  eval_kws env (map (fun n => (n, n)) (map fst b)) = Ok (bpairs b).
Proof.
  intros ND. induction b as [|[n x] r IH]; intros I F; [reflexivity|].
  inversion F as [|? ? [v Hv] Fr]; subst. simpl in Hv. subst x.
  cbn [map fst eval_kws].
  rewrite (env_get_in env n (BV v) ND) by (apply I; left; reflexivity).
  rewrite IH; [reflexivity | intros a Ha; apply I; right; exact Ha | exact Fr].
Qed.

Lemma keys_bpairs_incl b : incl (keys (bpairs b)) (map fst b).
Proof.
  induction b as [|[n x] r IH]; simpl; [apply incl_refl|].
  destruct x; simpl; intros a Ha.
  - destruct Ha as [Ha|Ha]; [left; exact Ha | right; apply IH; exact Ha].
  - right. apply IH. exact Ha.
  - right. apply IH. exact Ha.
Qed.

(* ---- structured signatures ------------------------------------------------------------------ *)
Definition sparams (P : list param) (va : option param) (Kp : list param) (vk : option param)
  : list param := P ++ olist va ++ Kp ++ olist vk.

Definition inv_of (P : list param) (va : option param) (Kp : list param) (vk : option param)
  : invocation :=
  mkInv (map p_name P) (option_map p_name va)
        (map (fun n => (n, n)) (map p_name Kp)) (option_map p_name vk).

Definition okind (k : kind) (o : option param) : bool :=
  match o with Some p => kind_eqb (p_kind p) k | None => true end.

Definition forwarded_call (P : list param) (Kp : list param) (env : binding) : call :=
  let bP := firstn (length P) env in
  let rest := skipn (length P) env in
  mkCall (bvals bP ++ flat_map (fun e => match snd e with BTuple vs => vs | _ => [] end) rest)
         (bpairs rest ++ flat_map (fun e => match snd e with BDict kvs => kvs | _ => [] end) rest).

Theorem forward_structured P va Kp vk c env :
  all_kind PosOrKw P = true -> okind VarPos va = true ->
  all_kind KwOnly Kp = true -> okind VarKw vk = true ->
  NoDup (map p_name (sparams P va Kp vk)) ->
  NoDup (keys (c_kw c)) ->
  bind (sparams P va Kp vk) c = Ok env ->
  exists c', eval_inv (inv_of P va Kp vk) env = Ok c' /\
             bind (sparams P va Kp vk) c' = Ok env /\
             NoDup (keys (c_kw c')).
Proof.
  intros AP AVA AK AVK NDn NDk HB.
  unfold bind in HB.
  destruct (bind_go (sparams P va Kp vk) (c_pos c) (c_kw c)) as [[[b posf] kwf]|e] eqn:G; [|discriminate].
  destruct posf; [|discriminate]. destruct kwf; [|discriminate]. inversion HB; subst b. clear HB.
  (* split the run into its four phases *)
  unfold sparams in G. rewrite bind_go_app in G.
  destruct (bind_go P (c_pos c) (c_kw c)) as [[[bP pos1] kw1]|e] eqn:GP; [|discriminate].
  rewrite bind_go_app in G.
  destruct (bind_go (olist va) pos1 kw1) as [[[bVA pos2] kw1']|e] eqn:GVA; [|discriminate].
  rewrite bind_go_app in G.
  destruct (bind_go Kp pos2 kw1') as [[[bK pos3] kw2]|e] eqn:GK; [|discriminate].
  destruct (bind_go (olist vk) pos3 kw2) as [[[bVK pos4] kw3]|e] eqn:GVK; [|discriminate].
  inversion G; subst env pos4 kw3. clear G.
  (* positional values pass through the keyword-only phase *)
  assert (pos3 = pos2) by (eapply bind_go_pos_through; [|exact GK];
    unfold all_kind in AK; rewrite forallb_forall in *; intros p Hp;
    specialize (AK p Hp); apply kind_eqb_eq in AK; rewrite AK; reflexivity).
  subst pos3.
  (* invariants of each phase *)
  destruct (bind_go_inv _ _ _ _ _ _ GP NDk) as [ND1 [I1 [O1 M1]]].
  assert (E1 : kw1' = kw1 /\ bVA = map (fun p => (p_name p, BTuple pos1)) (olist va) /\
               (va = None -> pos2 = pos1) /\ (va <> None -> pos2 = [])).
  { destruct va as [p|]; simpl in GVA.
    - simpl in AVA. apply kind_eqb_eq in AVA. rewrite AVA in GVA. simpl in GVA.
      inversion GVA; subst. repeat split; try reflexivity. intro; congruence.
    - inversion GVA; subst. repeat split; try reflexivity. intro; congruence. }
  destruct E1 as [-> [EVA [Pn Ps]]].
  destruct (bind_go_inv _ _ _ _ _ _ GK ND1) as [ND2 [I2 [O2 M2]]].
  assert (E2 : bVK = map (fun p => (p_name p, BDict kw2)) (olist vk) /\ (vk = None -> kw2 = []) /\ pos2 = []).
  { destruct vk as [p|]; simpl in GVK.
    - simpl in AVK. apply kind_eqb_eq in AVK. rewrite AVK in GVK. simpl in GVK.
      inversion GVK; subst. repeat split; try reflexivity. intro; congruence.
    - inversion GVK; subst. repeat split; reflexivity. }
  destruct E2 as [EVK [Kn P2z]].
  subst pos2.
  (* no positional value is left when there is no *args *)
  assert (Pz : va = None -> pos1 = []) by (intro Hv; symmetry; apply Pn; exact Hv).
  (* frames hold plain values for ordinary parameters *)
  assert (FP : Forall (fun e => exists v, snd e = BV v) bP).
  { eapply bind_go_ordinary_bv; [|exact GP]. unfold all_kind in AP. rewrite forallb_forall in *.
    intros p Hp. specialize (AP p Hp). apply kind_eqb_eq in AP. unfold ordinary. rewrite AP. reflexivity. }
  assert (FK : Forall (fun e => exists v, snd e = BV v) bK).
  { eapply bind_go_ordinary_bv; [|exact GK]. unfold all_kind in AK. rewrite forallb_forall in *.
    intros p Hp. specialize (AK p Hp). apply kind_eqb_eq in AK. unfold ordinary. rewrite AK. reflexivity. }
  set (env := bP ++ bVA ++ bK ++ bVK).
  assert (NDe : NoDup (map fst env)).
  { unfold env. rewrite !map_app, M1, M2, EVA, EVK, !map_map. simpl.
    unfold sparams in NDn. rewrite !map_app in NDn.
    replace (map (fun x : param => p_name x) (olist va)) with (map p_name (olist va)) by reflexivity.
    replace (map (fun x : param => p_name x) (olist vk)) with (map p_name (olist vk)) by reflexivity.
    exact NDn. }
  (* names of the signature are pairwise different *)
  unfold sparams in NDn. rewrite !map_app in NDn.
  (* the names of K are not keys of kw2, nor are the names of P *)
  assert (KK : forall p, In p Kp -> ~ In (p_name p) (keys kw2)).
  { intros p Hp. apply O2; [exact Hp|]. unfold all_kind in AK. rewrite forallb_forall in AK.
    specialize (AK p Hp). apply kind_eqb_eq in AK. unfold ordinary. rewrite AK. reflexivity. }
  assert (PK : forall p, In p P -> ~ In (p_name p) (keys kw2)).
  { intros p Hp Hin. apply I2 in Hin. revert Hin. apply O1; [exact Hp|].
    unfold all_kind in AP. rewrite forallb_forall in AP.
    specialize (AP p Hp). apply kind_eqb_eq in AP. unfold ordinary. rewrite AP. reflexivity. }
  (* evaluate the invocation *)
  exists (mkCall (bvals bP ++ pos1) (bpairs bK ++ kw2)).
  assert (EV : eval_inv (inv_of P va Kp vk) env = Ok (mkCall (bvals bP ++ pos1) (bpairs bK ++ kw2))).
  { unfold eval_inv, inv_of. cbn [i_pos i_star i_kw i_dstar].
    rewrite <- M1, <- M2.
    rewrite (eval_names_frame env bP NDe) by (try exact FP; unfold env; intros a Ha; apply in_or_app; left; exact Ha).
    rewrite (eval_kws_frame env bK NDe) by
      (try exact FK; unfold env; intros a Ha; apply in_or_app; right; apply in_or_app; right;
       apply in_or_app; left; exact Ha).
    assert (ST : match option_map p_name va with
                 | Some n => match env_get env n with
                             | Some (BTuple vs) => Ok vs
                             | Some _ => Raise OutOfDomain
                             | None => Raise NameErr
                             end
                 | None => Ok []
                 end = Ok pos1).
    { destruct va as [p|]; simpl.
      - rewrite (env_get_in env (p_name p) (BTuple pos1) NDe); [reflexivity|].
        unfold env. apply in_or_app. right. apply in_or_app. left. rewrite EVA. left. reflexivity.
      - rewrite (Pz eq_refl). reflexivity. }
    rewrite ST.
    assert (DS : match option_map p_name vk with
                 | Some n => match env_get env n with
                             | Some (BDict kvs) => Ok kvs
                             | Some _ => Raise OutOfDomain
                             | None => Raise NameErr
                             end
                 | None => Ok []
                 end = Ok kw2).
    { destruct vk as [p|]; simpl.
      - rewrite (env_get_in env (p_name p) (BDict kw2) NDe); [reflexivity|].
        unfold env. apply in_or_app. right. apply in_or_app. right. apply in_or_app. right.
        rewrite EVK. left. reflexivity.
      - rewrite (Kn eq_refl). reflexivity. }
    rewrite DS.
    (* no key of **kw repeats an explicit keyword *)
    assert (NX : existsb (fun kv : name * value => kw_mem (fst kv) (bpairs bK)) kw2 = false).
    { destruct (existsb _ kw2) eqn:EX; [|reflexivity]. exfalso.
      apply existsb_exists in EX as [[k v] [Hkv Hm]]. simpl in Hm.
      apply kw_mem_In in Hm. apply keys_bpairs_incl in Hm. rewrite M2 in Hm.
      apply in_map_iff in Hm as [p [Hn Hp]]. apply (KK p Hp). rewrite Hn.
      unfold keys. apply in_map_iff. exists (k, v). split; [reflexivity | exact Hkv]. }
    rewrite NX. reflexivity. }
  split; [exact EV|].
  (* keys of the new call are distinct *)
  assert (NDK : NoDup (keys (bpairs bK ++ kw2))).
  { unfold keys. rewrite map_app. apply NoDup_app_iff. repeat split.
    - (* keys of bpairs bK = names of K, distinct *)
      assert (EK : map fst (bpairs bK) = map fst bK).
      { clear - FK. induction bK as [|[n x] r IH]; [reflexivity|].
        inversion FK as [|? ? [v Hv] Fr]; subst. simpl in Hv. subst x. simpl. f_equal. apply IH. exact Fr. }
      rewrite EK, M2.
      apply NoDup_app_r in NDn. apply NoDup_app_r in NDn.
      apply NoDup_app_l in NDn. exact NDn.
    - exact ND2.
    - intros a Ha Hb. apply keys_bpairs_incl in Ha. rewrite M2 in Ha.
      apply in_map_iff in Ha as [p [Hn Hp]]. apply (KK p Hp). rewrite Hn. exact Hb. }
  split; [|exact NDK].
  (* bind the forwarded call *)
  unfold bind. cbn [c_pos c_kw]. unfold sparams.
  rewrite bind_go_app.
  rewrite (rebind_pos P _ _ _ _ _ AP GP pos1 (bpairs bK ++ kw2)).
  2:{ intros p Hp Hin. unfold keys in Hin. rewrite map_app in Hin. apply in_app_or in Hin as [Hin|Hin].
      - apply keys_bpairs_incl in Hin. rewrite M2 in Hin.
        apply in_map_iff in Hin as [q [Hn Hq]].
        (* a name of P equal to a name of K contradicts distinctness *)
        apply (NoDup_app_disj _ _ (p_name p) NDn).
        + apply in_map. exact Hp.
        + apply in_or_app. right. apply in_or_app. left. rewrite <- Hn.
          apply in_map. exact Hq.
      - exact (PK p Hp Hin). }
  rewrite bind_go_app.
  assert (GVA' : bind_go (olist va) pos1 (bpairs bK ++ kw2) = Ok (bVA, [], bpairs bK ++ kw2)).
  { destruct va as [p|]; simpl.
    - simpl in AVA. apply kind_eqb_eq in AVA. rewrite AVA. simpl. rewrite EVA. reflexivity.
    - rewrite (Pz eq_refl), EVA. reflexivity. }
  rewrite GVA'.
  rewrite bind_go_app.
  rewrite (rebind_kw Kp _ _ _ _ _ AK GK [] kw2).
  assert (GVK' : bind_go (olist vk) [] kw2 = Ok (bVK, [], [])).
  { destruct vk as [p|]; simpl.
    - simpl in AVK. apply kind_eqb_eq in AVK. rewrite AVK. simpl. rewrite EVK. reflexivity.
    - rewrite (Kn eq_refl), EVK. reflexivity. }
  rewrite GVK'. reflexivity.
Qed.
