(* C12: obligations over the constants regenerated from the source (Gen/C12_Gen.v). *)
From Boltons Require Import Lib.Prelude Model.C12_Model Gen.C12_Gen.

Lemma constants_current :
  N.of_nat DEFAULT_MAXSIZE = gen_DEFAULT_MAXSIZE /\ (2 ^ 50 <= gen_RECV_LARGE_MAXSIZE)%N.
Proof. split; [vm_compute; reflexivity|apply N.leb_le; vm_compute; reflexivity]. Qed.
