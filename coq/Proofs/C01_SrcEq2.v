(* C01, (T) tie from the Python source, layers 1-3: the regenerated programs of the methods that call
   other methods (add, addlist, clear, __setitem__, __delitem__, popall, poplast; setdefault, pop;
   popitem), interpreted by Model/C01_SrcLang.v with the callees interpreted one layer below, compute
   exactly the pointer-level model's methods. *)
From Boltons Require Import Lib.Prelude Spec.C01_Spec Model.C01_Model Model.C01_Ptr Model.C01_PModel
  Model.C01_SrcLang Gen.C01_Src Proofs.C01_Base Proofs.C01_Prim Proofs.C01_Ptr Proofs.C01_PtrLink
  Proofs.C01_PSimDefs Proofs.C01_PSim1 Proofs.C01_SrcDefs Proofs.C01_SrcInv Proofs.C01_SrcEq1.

Local Arguments d_get : simpl never.
Local Arguments d_set : simpl never.
Local Arguments d_del : simpl never.
Local Arguments set_next : simpl never.
Local Arguments set_prev : simpl never.
Local Arguments rev : simpl never.
Local Arguments sem : simpl never.
Local Arguments pl_insert : simpl never.
Local Arguments pl_remove : simpl never.
Local Arguments pl_remove_all : simpl never.
Local Arguments fuel_of : simpl never.

Definition ok_or_same (p : pomd) (r : res pomd) : res pv * pomd :=
  match r with Ok p' => (Ok (VTok none_tok), p') | Raise e => (Raise e, p) end.

Lemma sem_S n m args s : sem (S n) m args s = run_body (sem n) (fuel_of s) (gen_prog m) args s.
Proof. reflexivity. Qed.

(* ---- record facts ---------------------------------------------------------------------------- *)
Lemma pstore_insert p k v : pstore (pl_insert p k v) = pstore p.
Proof. reflexivity. Qed.

Lemma pl_insert_set_store p st k v : pl_insert (pset_store p st) k v = pset_store (pl_insert p k v) st.
Proof. reflexivity. Qed.

Lemma pset_store_twice p a b : pset_store (pset_store p a) b = pset_store p b.
Proof. reflexivity. Qed.

Lemma pstore_set_store p st : pstore (pset_store p st) = st.
Proof. reflexivity. Qed.

Lemma good_set p st : Good p -> Good (pset_store p st).
Proof. intro G. apply good_set_store. exact G. Qed.

Lemma good_ins p k v : Good p -> Good (pl_insert p k v).
Proof. intro G. apply good_insert. exact G. Qed.

Lemma source_add n p k v : Good p ->
  sem (S (S n)) MAdd [VTok k; VTok v] p = (Ok (VTok none_tok), pm_add p k v).
Proof.
  intro G. rewrite sem_S. unfold run_body, gen_prog, gen_add. cbn.
  destruct (d_get (pstore p) k) as [vs|] eqn:E.
  - rewrite source_insert by exact G. cbn. rewrite pstore_insert, E.
    unfold pm_add, d_getd. rewrite pstore_insert, E. reflexivity.
  - rewrite source_insert by (apply good_set; exact G). cbn.
    rewrite pl_insert_set_store, pstore_set_store, d_get_set, Nat.eqb_refl, pset_store_twice, d_set_d_set.
    unfold pm_add, d_getd. rewrite pstore_insert, E. reflexivity.
Qed.

(* ---- addlist: the loop  for x in v: self._insert(k, x) ------------------------------------------- *)
Definition ins_all (k : K) (vs : list V) (s : pomd) : pomd := fold_left (fun s v => pl_insert s k v) vs s.

Lemma ins_all_store k vs : forall s, pstore (ins_all k vs s) = pstore s.
Proof. induction vs as [|v r IH]; intro s; simpl; [reflexivity|]. unfold ins_all in *. simpl. rewrite IH. reflexivity. Qed.

Lemma ins_all_set_store k vs : forall s st, ins_all k vs (pset_store s st) = pset_store (ins_all k vs s) st.
Proof.
  induction vs as [|v r IH]; intros s st; [reflexivity|].
  unfold ins_all in *. simpl. rewrite pl_insert_set_store. apply IH.
Qed.

Definition insert_stmt : stmt := SExpr (ECall2 MInsert (EVar 0) (EVar 3)).

Lemma exec_insert_stmt n fu en s k v : Good s ->
  env_get en 0 = Ok (VTok k) -> env_get en 3 = Ok (VTok v) ->
  exec (sem (S n)) fu insert_stmt en s = (ONormal, en, pl_insert s k v).
Proof.
  intros G E0 E3. unfold insert_stmt. cbn. rewrite E0, E3. rewrite source_insert by exact G. reflexivity.
Qed.
Local Arguments insert_stmt : simpl never.

Lemma for_insert n fu k : forall vs en s, Good s -> env_get en 0 = Ok (VTok k) ->
  exists en', for_each 3 vs (exec (sem (S n)) fu insert_stmt) en s = (ONormal, en', ins_all k vs s)
              /\ env_get en' 0 = env_get en 0 /\ env_get en' 1 = env_get en 1 /\ env_get en' 2 = env_get en 2.
Proof.
  induction vs as [|v r IH]; intros en s G E0.
  - exists en. repeat split; reflexivity.
  - cbn [for_each]. rewrite (exec_insert_stmt n fu _ s k v G); [|exact E0|reflexivity].
    destruct (IH (env_set en 3 (VTok v)) (pl_insert s k v)) as (en' & EL & H0 & H1 & H2).
    + apply good_ins. exact G.
    + exact E0.
    + exists en'. rewrite EL. repeat split; assumption.
Qed.


Local Arguments for_each : simpl never.

Lemma source_addlist n p k vs : Good p ->
  sem (S (S n)) MAddList [VTok k; VToks vs] p = (Ok (VTok none_tok), pm_addlist p k vs).
Proof.
  intro G. rewrite sem_S. unfold run_body, gen_prog, gen_addlist. fold insert_stmt.
  destruct vs as [|v0 vr]; [reflexivity|].
  assert (Hne : match v0 :: vr with [] => false | _ => true end = true) by reflexivity.
  unfold pm_addlist. fold (ins_all k (v0 :: vr) p).
  remember (v0 :: vr) as vs eqn:Evs. cbn. rewrite Hne. cbn. clear Hne Evs.
  set (en0 := env_set (env_set [(0, VTok k); (1, VToks vs)] 1 (VToks vs)) 2 (VStoreRef k)).
  destruct (d_get (pstore p) k) as [l|] eqn:E.
  - destruct (for_insert n (fuel_of p) k vs en0 p G eq_refl) as (en' & EL & _ & H1 & H2).
    rewrite EL, H1, H2. cbn. rewrite ins_all_store, E. unfold d_getd. rewrite E. reflexivity.
  - destruct (for_insert n (fuel_of p) k vs en0 (pset_store p (d_set (pstore p) k []))
                (good_set _ _ G) eq_refl) as (en' & EL & _ & H1 & H2).
    rewrite EL, H1, H2. cbn. rewrite ins_all_store, pstore_set_store, d_get_set, Nat.eqb_refl.
    rewrite ins_all_set_store, pset_store_twice, d_set_d_set, ins_all_store.
    unfold d_getd. rewrite E. reflexivity.
Qed.


Lemma source_clear n p :
  sem (S (S n)) MClear [] p = (Ok (VTok none_tok), mkPomd [] h_clear [] (pnxt p)).
Proof.
  rewrite sem_S. unfold run_body, gen_prog, gen_clear. cbn. rewrite source_clear_ll. reflexivity.
Qed.

Lemma good_remove_all_ok p k p1 : Good p -> pl_remove_all p k = Ok p1 -> Good p1.
Proof.
  intros G E. pose proof (good_remove_all p k G) as H. rewrite E in H. unfold rel_state in H.
  destruct (ll_remove_all (lift p) k); [apply H | contradiction].
Qed.

Lemma good_remove_ok p k p1 : Good p -> pl_remove p k = Ok p1 -> Good p1.
Proof.
  intros G E. pose proof (good_remove p k G) as H. rewrite E in H. unfold rel_state in H.
  destruct (ll_remove (lift p) k); [apply H | contradiction].
Qed.

Lemma source_setitem n p k v : Good p ->
  sem (S (S n)) MSetItem [VTok k; VTok v] p = ok_or_same p (pm_setitem p k v).
Proof.
  intro G. rewrite sem_S. unfold run_body, gen_prog, gen_setitem, pm_setitem. cbn.
  destruct (d_mem (pstore p) k) eqn:Em; cbn.
  - rewrite source_remove_all by exact G.
    destruct (pl_remove_all p k) as [p1|e] eqn:Er; cbn; [|reflexivity].
    rewrite source_insert by (apply (good_remove_all_ok p k); assumption). reflexivity.
  - rewrite source_insert by exact G. reflexivity.
Qed.

(* under the invariant, a key of the dict storage has a non-empty _map entry, and conversely *)
Lemma pinv_cmap p k : PInv p ->
  d_get (pcmap p) k = match d_get (pstore p) k with
                      | Some _ => Some (ids_of (p_cells p) k)
                      | None => None
                      end
  /\ (d_mem (pstore p) k = true -> ids_of (p_cells p) k <> []).
Proof.
  intros [G HS]. destruct (good_lift p G) as [_ [HC _]].
  destruct HC as [_ [_ [_ Hget]]]. pose proof (store_get (lift p) k HS) as Hs.
  change (store (lift p)) with (pstore p) in Hs. change (cmap (lift p)) with (pcmap p) in Hget.
  change (ll (lift p)) with (p_cells p) in Hget.
  change (abs (lift p)) with (map ckv (p_cells p)) in Hs.
  rewrite Hget. unfold d_mem. rewrite Hs.
  destruct (has_key (map ckv (p_cells p)) k) eqn:Hk.
  - assert (Hne : ids_of (p_cells p) k <> []).
    { intro H. apply ids_vals_nil in H. apply has_key_vals in H. congruence. }
    split; [|intros _; exact Hne]. destruct (ids_of (p_cells p) k); [contradiction | reflexivity].
  - split; [|discriminate]. apply has_key_vals in Hk. apply ids_vals_nil in Hk. rewrite Hk. reflexivity.
Qed.

Lemma source_delitem n p k : PInv p ->
  sem (S (S n)) MDelItem [VTok k] p = ok_or_same p (pm_delitem p k).
Proof.
  intro I. pose proof I as [G HS]. rewrite sem_S. unfold run_body, gen_prog, gen_delitem, pm_delitem. cbn.
  destruct (pinv_cmap p k I) as [Hc _]. unfold d_mem.
  destruct (d_get (pstore p) k) as [vs|] eqn:E; cbn; [|reflexivity].
  rewrite source_remove_all by (apply good_set; exact G).
  unfold pl_remove_all. cbn. rewrite Hc. reflexivity.
Qed.

Lemma remove_all_store p k p1 : pl_remove_all p k = Ok p1 -> pstore p1 = pstore p.
Proof.
  unfold pl_remove_all. destruct (d_get (pcmap p) k); [|discriminate].
  intro H. injection H as H. subst p1. reflexivity.
Qed.

Lemma remove_store p k p1 : pl_remove p k = Ok p1 -> pstore p1 = pstore p.
Proof.
  unfold pl_remove. destruct (d_get (pcmap p) k) as [cells|]; [|discriminate].
  destruct (rev cells); [discriminate|].
  intro H. injection H as H. subst p1. reflexivity.
Qed.

Lemma source_popall n p q k d : Good p ->
  sem (S (S n)) MPopAll [VTok k; pv_of_opt d] p = of_op p (pm_op p q (PopAll k d)).
Proof.
  intro G. rewrite sem_S. unfold run_body, gen_prog, gen_popall, pm_op. cbn.
  unfold d_mem. destruct (d_get (pstore p) k) as [vs|] eqn:E; cbn.
  - rewrite source_remove_all by exact G.
    destruct (pl_remove_all p k) as [p1|e] eqn:Er; cbn; [|reflexivity].
    rewrite (remove_all_store _ _ _ Er), E.
    destruct d; cbn; rewrite (remove_all_store _ _ _ Er), E; reflexivity.
  - rewrite E. destruct d; cbn; rewrite E; reflexivity.
Qed.

(* ---- poplast -------------------------------------------------------------------------------------- *)
Definition fin (r : outcome * env * pomd) : res pv * pomd :=
  match r with
  | (ONormal, _, s1) => (Ok (VTok none_tok), s1)
  | (OReturn v, _, s1) => (Ok v, s1)
  | (ORaise x, _, s1) => (Raise x, s1)
  end.

Lemma run_body_fin callee fu body args s :
  run_body callee fu body args s = fin (exec callee fu body (bind_params 0 args) s).
Proof. unfold run_body, fin. destruct (exec callee fu body (bind_params 0 args) s) as [[o e] s1]. reflexivity. Qed.

Lemma pinv_store_ne p k vs : PInv p -> d_get (pstore p) k = Some vs -> vs <> [].
Proof.
  intros [_ [_ H]] E. change (store (lift p)) with (pstore p) in H. rewrite H in E.
  destruct (vals_of (abs (lift p)) k); [discriminate|]. injection E as E. subst vs. discriminate.
Qed.

Lemma rev_cons_ne {A} (l : list A) : l <> [] -> exists x r, rev l = x :: r.
Proof.
  intro H. destruct (rev l) as [|x r] eqn:E; [|eauto].
  apply (f_equal (@rev A)) in E. rewrite rev_involutive in E. contradiction.
Qed.

(* the part of poplast after the key has been determined *)
Definition poplast_tail : stmt :=
  (SSeq (STryKeyError (SExpr (ECall1 MRemove (EVar 0))) (SSeq (SIf (EIsMissing (EVar 1)) SRaiseKeyError SPass) (SReturn (EVar 1)))) (SSeq (SAssign 2 (EStoreGetitem (EVar 0))) (SSeq (SAssign 3 (EPop (EVar 2))) (SSeq (SIf (ENot (EVar 2)) (SStoreDel (EVar 0)) SPass) (SReturn (EVar 3)))))).

Definition poplast_model (s : pomd) (k : K) (d : option V) : res (pomd * out) :=
  match pl_remove s k with
  | Raise KeyError => do x <- dflt_res d; Ok (s, x)
  | Raise e => Raise e
  | Ok s1 =>
      match d_get (pstore s1) k with
      | None => Raise KeyError
      | Some values =>
          match rev values with
          | [] => Raise IndexError
          | v :: rrest =>
              let rest := rev rrest in
              Ok (pset_store s1 (match rest with
                                | [] => d_del (pstore s1) k
                                | _ => d_set (pstore s1) k rest
                                end), OVal v)
          end
      end
  end.

Lemma exec_poplast_tail n fu en p k d : PInv p ->
  env_get en 0 = Ok (VTok k) -> env_get en 1 = Ok (pv_of_opt d) ->
  fin (exec (sem (S n)) fu poplast_tail en p) = of_op p (poplast_model p k d).
Proof.
  intros I E0 E1. pose proof I as [G HS]. unfold poplast_tail, poplast_model. cbn. rewrite E0.
  rewrite source_remove by exact G.
  destruct (pl_remove p k) as [p1|e] eqn:Er.
  - cbn. rewrite E0. cbn.
    rewrite (remove_store _ _ _ Er).
    assert (Hs : exists vs, d_get (pstore p) k = Some vs).
    { destruct (pinv_cmap p k I) as [Hc _]. unfold pl_remove in Er.
      destruct (d_get (pstore p) k) as [vs|]; [eauto|]. rewrite Hc in Er. discriminate. }
    destruct Hs as [vs Es]. rewrite Es. cbn.
    rewrite (remove_store _ _ _ Er), Es.
    destruct (rev_cons_ne vs (pinv_store_ne p k vs I Es)) as (x & rr & Erv). rewrite Erv.
    cbn. unfold eval_truth. cbn. rewrite d_get_set, Nat.eqb_refl.
    destruct (rev rr) as [|y r2] eqn:Err; cbn.
    + rewrite E0. cbn. rewrite d_get_set, Nat.eqb_refl. cbn.
      rewrite (d_del_d_set _ _ _ _ Es). reflexivity.
    + reflexivity.
  - destruct e; cbn; try reflexivity. unfold eval_truth. cbn.
    rewrite E1. destruct d; cbn; rewrite ?E1; reflexivity.
Qed.
Local Arguments poplast_tail : simpl never.

(* with a non-empty dict storage, root[PREV] is a real cell and root[PREV][KEY] is the model's last key *)
Lemma pinv_last p : PInv p -> pstore p <> [] ->
  exists r c, d_get (pheap p) root = Some r /\ d_get (pheap p) (p_prev r) = Some c
              /\ p_last_key p = Ok (p_key c).
Proof.
  intros [G HS] Hne. destruct (good_lift p G) as [R _].
  assert (Hl : ll (lift p) <> []).
  { destruct (pstore p) as [|[k0 vs0] st] eqn:Est; [contradiction|].
    pose proof (store_get (lift p) k0 HS) as Hg. change (store (lift p)) with (pstore p) in Hg.
    rewrite Est in Hg. unfold d_get in Hg. rewrite Nat.eqb_refl in Hg.
    intro El. unfold abs, m_items in Hg. rewrite El in Hg. discriminate. }
  destruct (rev_cons_ne _ Hl) as (c & rr & Erv).
  pose proof (Rep_last _ _ R) as HL. rewrite Erv in HL.
  assert (Hc : In c (ll (lift p))) by (apply in_rev; rewrite Erv; left; reflexivity).
  destruct R as (_ & _ & _ & KV). destruct (KV c Hc) as (pc & E1 & _).
  unfold p_last_key. rewrite HL. unfold h_last in HL.
  destruct (d_get (pheap p) root) as [r|] eqn:Er; [|discriminate].
  injection HL as HL. exists r, pc. rewrite HL. unfold addr in *. cbn. rewrite E1.
  repeat split; reflexivity.
Qed.

Lemma source_poplast n p q ko d : PInv p ->
  sem (S (S n)) MPopLast [match ko with Some k => VTok k | None => VMissing end; pv_of_opt d] p
  = of_op p (pm_op p q (PopLast ko d)).
Proof.
  intro I. rewrite sem_S, run_body_fin. unfold gen_prog, gen_poplast. fold poplast_tail.
  destruct ko as [k|].
  - cbn. unfold eval_truth. cbn. apply (exec_poplast_tail n _ _ p k d I); reflexivity.
  - cbn. unfold eval_truth. cbn.
    destruct (pstore p) as [|kv st] eqn:Est.
    + cbn. unfold eval_truth. cbn. destruct d; reflexivity.
    + destruct (pinv_last p I) as (r & c & Er & Ec & EL); [rewrite Est; discriminate|].
      cbn. rewrite Er. cbn. rewrite Ec. cbn. rewrite EL. cbn.
      apply (exec_poplast_tail n _ _ p (p_key c) d I); reflexivity.
Qed.

(* ---- layer 2 --------------------------------------------------------------------------------------- *)
Lemma source_setdefault n p q k d : PInv p ->
  sem (S (S (S n))) MSetDefault [VTok k; pv_of_opt d] p = of_op p (pm_op p q (SetDefault k d)).
Proof.
  intros [G HS]. rewrite sem_S, run_body_fin. unfold gen_prog, gen_setdefault, pm_op.
  cbn. unfold eval_truth. cbn.
  destruct (d_mem (pstore p) k) eqn:Em; cbn.
  - rewrite (source_getitem (S n) p q k). cbn.
    destruct (pm_getitem p k); reflexivity.
  - assert (Hset : sem (S (S n)) MSetItem [VTok k; VTok (dflt d)] p
                   = (Ok (VTok none_tok), pset_store (pl_insert p k (dflt d)) (d_set (pstore p) k [dflt d]))).
    { rewrite source_setitem by exact G. unfold pm_setitem. rewrite Em. reflexivity. }
    assert (Hget : pm_getitem (pset_store (pl_insert p k (dflt d)) (d_set (pstore p) k [dflt d])) k
                   = Ok (dflt d)).
    { unfold pm_getitem. cbn. rewrite d_get_set, Nat.eqb_refl. reflexivity. }
    unfold pm_setitem. rewrite Em. cbn. rewrite pstore_insert, Hget. cbn.
    destruct d as [v|]; cbn; cbn in Hset; rewrite Hset; cbn;
      rewrite (source_getitem (S n) _ q k); cbn; cbn in Hget; rewrite Hget; reflexivity.
Qed.

Lemma source_popall_missing n p k : Good p ->
  sem (S (S n)) MPopAll [VTok k; VMissing] p
  = match pm_popall p k with Ok (s1, vs) => (Ok (VToks vs), s1) | Raise e => (Raise e, p) end.
Proof.
  intro G. change VMissing with (pv_of_opt None). rewrite (source_popall n p p k None G).
  unfold pm_op, pm_popall.
  destruct (if d_mem (pstore p) k then pl_remove_all p k else Ok p) as [s1|e]; cbn; [|reflexivity].
  destruct (d_get (pstore s1) k); reflexivity.
Qed.

Lemma popall_ok_store p k s1 vs : pm_popall p k = Ok (s1, vs) -> d_get (pstore p) k = Some vs.
Proof.
  unfold pm_popall. destruct (d_mem (pstore p) k).
  - destruct (pl_remove_all p k) as [p1|e] eqn:Er; cbn; [|discriminate].
    rewrite (remove_all_store _ _ _ Er). destruct (d_get (pstore p) k); [|discriminate].
    intro H. injection H as _ H. subst. reflexivity.
  - cbn. destruct (d_get (pstore p) k); [|discriminate].
    intro H. injection H as _ H. subst. reflexivity.
Qed.

Lemma source_pop n p q k d : PInv p ->
  sem (S (S (S n))) MPop [VTok k; pv_of_opt d] p = of_op p (pm_op p q (Pop k d)).
Proof.
  intro I. pose proof I as [G HS]. rewrite sem_S, run_body_fin. unfold gen_prog, gen_pop, pm_op.
  cbn. rewrite (source_popall_missing n p k G).
  destruct (pm_popall p k) as [[s1 vs]|e] eqn:Ep.
  - cbn. pose proof (popall_ok_store _ _ _ _ Ep) as Es.
    destruct (rev_cons_ne vs (pinv_store_ne p k vs I Es)) as (x & rr & Erv).
    unfold last_res. unfold V in *. rewrite Erv. reflexivity.
  - destruct e; cbn; try reflexivity. unfold eval_truth. cbn.
    destruct d; reflexivity.
Qed.

(* ---- layer 3 --------------------------------------------------------------------------------------- *)
Lemma source_popitem n p q : PInv p ->
  sem (S (S (S (S n)))) MPopItem [] p = of_op p (pm_op p q PopItem).
Proof.
  intro I. rewrite sem_S, run_body_fin. unfold gen_prog, gen_popitem, pm_op.
  cbn. unfold eval_truth. cbn.
  destruct (pstore p) as [|kv st] eqn:Est; [reflexivity|].
  destruct (pinv_last p I) as (r & c & Er & Ec & EL); [rewrite Est; discriminate|].
  cbn. rewrite Er. cbn. rewrite Ec. cbn. rewrite EL. cbn.
  change VMissing with (pv_of_opt None). rewrite (source_pop n p q (p_key c) None I).
  unfold pm_op.
  destruct (pm_popall p (p_key c)) as [[s1 vs]|e]; cbn.
  - destruct (last_res vs); reflexivity.
  - destruct e; reflexivity.
Qed.

Print Assumptions source_add.
Print Assumptions source_addlist.
Print Assumptions source_clear.
Print Assumptions source_setitem.
Print Assumptions source_delitem.
Print Assumptions source_popall.
Print Assumptions source_setdefault.
Print Assumptions source_pop.
Print Assumptions source_popitem.
Print Assumptions source_poplast.
