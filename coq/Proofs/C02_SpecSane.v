(* C02: the reference cache of Spec/C02_Spec.v is sane on its own: whatever
   outcomes it accepts, its states keep distinct keys, at most max_size items
   and soft <= miss.  (Independent of both models.) *)
From Boltons Require Import Lib.Prelude Lib.C02_Syntax Spec.C02_Spec Proofs.C02_Lists.
Close Scope N_scope.
Open Scope nat_scope.

Record SInv (c : cfg) (r : rcache) : Prop := mkSInv {
  s_nodup : NoDup (keys (r_items r));
  s_cap   : length (r_items r) <= c_max c;
  s_soft  : (r_soft r <= r_miss r)%N
}.

Lemma items_set_sane max (l : list (K * V)) k v :
  1 <= max -> NoDup (keys l) -> length l <= max ->
  NoDup (keys (items_set max l k v)) /\ length (items_set max l k v) <= max.
Proof.
  intros Hmax ND LE. unfold items_set. destruct (d_mem l k) eqn:M.
  - apply d_mem_iff in M. split.
    + apply nodup_keys_snoc; [now apply nodup_del|now apply not_in_keys_del].
    + rewrite app_length. simpl. pose proof (length_del_in l k M). lia.
  - apply d_mem_false_iff in M. destruct (Nat.ltb_spec (length l) max).
    + split; [now apply nodup_keys_snoc|]. rewrite app_length. simpl. lia.
    + destruct l as [|[e ve] r]; simpl in *.
      * split; [constructor; [tauto|constructor]|lia].
      * apply NoDup_cons_iff in ND as [NE NDr]. split.
        -- apply nodup_keys_snoc; [assumption|tauto].
        -- rewrite app_length. simpl. lia.
Qed.

Lemma r_set_sane c r k v : 1 <= c_max c -> SInv c r -> SInv c (r_set c r k v).
Proof.
  intros Hmax [ND LE SO]. destruct (items_set_sane (c_max c) (r_items r) k v Hmax ND LE) as [A B].
  constructor; simpl; assumption.
Qed.

Lemma r_sets_sane c kvs : forall r, 1 <= c_max c -> SInv c r -> SInv c (r_sets c r kvs).
Proof.
  induction kvs as [|[k v] rest IH]; intros r Hmax S; [exact S|].
  unfold r_sets in *. simpl. apply IH; [assumption|]. now apply r_set_sane.
Qed.

Lemma r_remove_sane c r k : SInv c r -> SInv c (r_remove r k).
Proof.
  intros [ND LE SO]. constructor; simpl; [now apply nodup_del| |assumption].
  destruct (d_mem (r_items r) k) eqn:M.
  - apply d_mem_iff in M. pose proof (length_del_in _ _ M). lia.
  - apply d_mem_false_iff in M. now rewrite d_del_notin.
Qed.

(* a lookup: sane again; when it finds nothing and there is no on_miss, one more
   miss than soft misses is available for the caller's default *)
Lemma r_lookup_sane c r k :
  1 <= c_max c -> SInv c r ->
  SInv c (fst (r_lookup c r k))
  /\ (snd (r_lookup c r k) = None -> (r_soft (fst (r_lookup c r k)) < r_miss (fst (r_lookup c r k)))%N).
Proof.
  intros Hmax S. pose proof S as [ND LE SO]. unfold r_lookup.
  destruct (d_get (r_items r) k) as [v|] eqn:G.
  - split; [|discriminate]. destruct (c_cls c); constructor; simpl; try assumption.
    + assert (Hk : In k (keys (r_items r))) by (eapply d_get_some_keys; eauto).
      apply nodup_keys_snoc; [now apply nodup_del|now apply not_in_keys_del].
    + assert (Hk : In k (keys (r_items r))) by (eapply d_get_some_keys; eauto).
      rewrite app_length. simpl. pose proof (length_del_in _ _ Hk). lia.
  - destruct (c_on_miss c) as [f|]; simpl.
    + split; [|discriminate]. apply r_set_sane; [assumption|]. constructor; simpl; try assumption. lia.
    + split; [constructor; simpl; try assumption; lia|]. intros _. lia.
Qed.

Lemma spec_accept_sane c r o out r' :
  1 <= c_max c -> SInv c r -> spec_accept c r o out = Some r' -> SInv c r'.
Proof.
  intros Hmax S A. pose proof S as [ND LE SO].
  destruct o; unfold spec_accept in A; simpl in A;
    try (destruct (res_eqb outv_eqb out _); [|discriminate]; inversion A; subst; clear A).
  - now apply r_set_sane.
  - destruct (r_lookup_sane c r k Hmax S) as [S1 _]. destruct (r_lookup c r k) as [r1 [v|]];
      simpl in *; destruct (res_eqb outv_eqb out _); try discriminate; inversion A; subst; assumption.
  - destruct (r_lookup_sane c r k Hmax S) as [S1 LT]. destruct (r_lookup c r k) as [r1 [v|]];
      simpl in *; destruct (res_eqb outv_eqb out _); try discriminate; inversion A; subst; [assumption|].
    destruct S1. specialize (LT eq_refl). constructor; simpl; try assumption. lia.
  - destruct (r_lookup_sane c r k Hmax S) as [S1 LT]. destruct (r_lookup c r k) as [r1 [v|]];
      simpl in *; destruct (res_eqb outv_eqb out _); try discriminate; inversion A; subst; [assumption|].
    apply r_set_sane; [assumption|]. destruct S1. specialize (LT eq_refl). constructor; simpl; try assumption. lia.
  - destruct (r_has r k); simpl in A; destruct (res_eqb outv_eqb out _); try discriminate; inversion A; subst;
      [now apply r_remove_sane|assumption].
  - destruct (d_get (r_items r) k); [|destruct d]; simpl in A; destruct (res_eqb outv_eqb out _);
      try discriminate; inversion A; subst; [now apply r_remove_sane|assumption|assumption].
  - (* PopItem *)
    destruct out as [[| | | |k v| |]|[]]; try discriminate.
    + destruct (option_eqb Nat.eqb (d_get (r_items r) k) (Some v)); [|discriminate]. inversion A; subst.
      now apply r_remove_sane.
    + destruct (r_items r); [|discriminate]. inversion A; subst. assumption.
  - constructor; simpl; [constructor|lia|assumption].
  - now apply r_sets_sane.
  - now apply r_sets_sane.
  - assumption.
  - assumption.
  - destruct out as [[| | | | |ks|]|]; try discriminate.
    destruct (same_keys ks (r_items r)); [|discriminate]. inversion A; subst. assumption.
  - destruct out as [[| | | | | |l]|]; try discriminate.
    destruct (same_map l (r_items r)); [|discriminate]. inversion A; subst. assumption.
  - assumption.
  - assumption.
  - now apply r_sets_sane.
  - assumption.
  - assumption.
Qed.

Lemma r_upd_from_sane c ks : forall ri rj ri' rj' x,
  1 <= c_max c -> SInv c ri -> SInv c rj -> r_upd_from c ri rj ks = (ri', rj', x) -> SInv c ri' /\ SInv c rj'.
Proof.
  induction ks as [|k rest IH]; intros ri rj ri' rj' x Hmax Si Sj E; simpl in E.
  - inversion E; subst. auto.
  - destruct (r_lookup_sane c rj k Hmax Sj) as [S1 _].
    destruct (r_lookup c rj k) as [rj1 [v|]]; simpl in *.
    + eapply IH; [assumption| |exact S1|exact E]. now apply r_set_sane.
    + inversion E; subst. auto.
Qed.

Lemma upd_nth_Forall' {A} (P : A -> Prop) i x l : Forall P l -> P x -> Forall P (upd_nth i x l).
Proof.
  revert i. induction l; intros i F Px; destruct i; simpl; auto; inversion F; subst; constructor; auto.
Qed.

Lemma nth_error_Forall' {A} (P : A -> Prop) l i x : Forall P l -> nth_error l i = Some x -> P x.
Proof. intros F H. rewrite Forall_forall in F. apply F. eapply nth_error_In; eauto. Qed.

Lemma spec_ok_step_sane c rh o ob rh' :
  1 <= c_max c -> Forall (SInv c) rh -> spec_ok_step c rh o ob = Some rh' -> Forall (SInv c) rh'.
Proof.
  intros Hmax F E. destruct o as [i o1|i|i j|i j]; simpl in E.
  - destruct (nth_error rh i) as [r|] eqn:N; [|discriminate].
    destruct (spec_accept c r o1 (o_out ob)) as [r'|] eqn:A; [|discriminate].
    destruct (view_ok c (r_calls r) r' ob); [|discriminate]. inversion E; subst.
    apply upd_nth_Forall'; [assumption|]. eapply spec_accept_sane; eauto. eapply nth_error_Forall'; eauto.
  - destruct (nth_error rh i) as [r|] eqn:N; [|discriminate].
    match type of E with (if ?b then _ else _) = _ => destruct b end; [|discriminate]. inversion E; subst.
    apply Forall_app. split; [assumption|]. constructor; [|constructor].
    destruct (nth_error_Forall' _ _ _ _ F N) as [ND LE SO]. constructor; simpl; try assumption. lia.
  - destruct (nth_error rh i); [|discriminate]. destruct (nth_error rh j); [|discriminate].
    match type of E with (if ?b then _ else _) = _ => destruct b end; [|discriminate]. now inversion E; subst.
  - destruct (nth_error rh i) as [ri|] eqn:Ni; [|discriminate].
    destruct (nth_error rh j) as [rj|] eqn:Nj; [|discriminate].
    destruct (o_out ob) as [[| | | | |order|]|]; try discriminate.
    destruct (same_keys order (r_items rj)); [|discriminate].
    destruct (Nat.eqb i j).
    + destruct (view_ok c (r_calls ri) ri ob); [|discriminate]. now inversion E; subst.
    + destruct (r_upd_from c ri rj order) as [[ri' rj'] [[]|ex]] eqn:U; [|discriminate].
      destruct (view_ok c (r_calls ri) ri' ob); [|discriminate]. inversion E; subst.
      destruct (r_upd_from_sane c order ri rj ri' rj' _ Hmax
                  (nth_error_Forall' _ _ _ _ F Ni) (nth_error_Forall' _ _ _ _ F Nj) U) as [S1 S2].
      apply upd_nth_Forall'; [apply upd_nth_Forall'|]; assumption.
Qed.

(* the reference states reached along an accepted list of observations *)
Fixpoint spec_final (c : cfg) (rh : list rcache) (steps : list (hop * obs)) : option (list rcache) :=
  match steps with
  | [] => Some rh
  | (o, ob) :: rest =>
      match spec_ok_step c rh o ob with
      | Some rh' => spec_final c rh' rest
      | None => None
      end
  end.

Lemma spec_final_sane c steps : forall rh rh',
  1 <= c_max c -> Forall (SInv c) rh -> spec_final c rh steps = Some rh' -> Forall (SInv c) rh'.
Proof.
  induction steps as [|[o ob] rest IH]; intros rh rh' Hmax F E; simpl in E.
  - now inversion E; subst.
  - destruct (spec_ok_step c rh o ob) as [rh1|] eqn:S; [|discriminate].
    eapply IH; [assumption| |exact E]. eapply spec_ok_step_sane; eauto.
Qed.

Lemma spec_sane c init steps rh' :
  1 <= c_max c -> spec_final c [r_init c init] steps = Some rh' -> Forall (SInv c) rh'.
Proof.
  intros Hmax E. eapply spec_final_sane; [assumption| |exact E].
  constructor; [|constructor]. unfold r_init. apply r_sets_sane; [assumption|].
  constructor; simpl; [constructor|lia|lia].
Qed.
