(* What the Spec's line lists are, independently of how they are computed ("never splits
   anywhere else"): no line contains a break character, there is one more line than there are
   breaks, and joining the lines with exactly the breaks of the text, in order, gives the text
   back. *)
From Boltons Require Import Lib.Prelude Spec.C19_Spec Model.C19_Model Proofs.C19_Split Proofs.C19_IterSplit.
Open Scope N_scope.

(* the break strings of a text, in order; \r\n is one break *)
Fixpoint breaks_of (brk : N -> bool) (t : text) : list text :=
  match t with
  | [] => []
  | c :: t' =>
      if brk c then
        (if c =? CR
         then match t' with
              | d :: t'' => if d =? LF then [CR; LF] :: breaks_of brk t'' else [c] :: breaks_of brk t'
              | [] => [[c]]
              end
         else [c] :: breaks_of brk t')
      else breaks_of brk t'
  end.

(* l0 s0 l1 s1 ... ln *)
Fixpoint interleave (ls seps : list text) : text :=
  match ls, seps with
  | l :: ls', s :: seps' => l ++ s ++ interleave ls' seps'
  | l :: _, [] => l
  | [], _ => []
  end.

(* all k+1 pieces around the k breaks *)
Definition all_pieces (brk : N -> bool) (t : text) : list text :=
  splitlines brk t ++ (if ends_with brk t || is_nil t then [[]] else []).

Section Brk.
  Variable brk : N -> bool.
  Hypothesis brk_LF : brk LF = true.

  Lemma bo_nobrk c t : brk c = false -> breaks_of brk (c :: t) = breaks_of brk t.
  Proof. intros H. cbn [breaks_of]. rewrite H. reflexivity. Qed.
  Lemma bo_brk c t : brk c = true -> (c =? CR) = false -> breaks_of brk (c :: t) = [c] :: breaks_of brk t.
  Proof. intros H E. cbn [breaks_of]. rewrite H, E. reflexivity. Qed.
  Lemma bo_crlf t : brk CR = true -> breaks_of brk (CR :: LF :: t) = [CR; LF] :: breaks_of brk t.
  Proof. intros H. cbn [breaks_of]. rewrite H. reflexivity. Qed.
  Lemma bo_cr t : brk CR = true -> starts_lf t = false -> breaks_of brk (CR :: t) = [CR] :: breaks_of brk t.
  Proof.
    intros H E. cbn [breaks_of]. rewrite H. change (CR =? CR) with true. cbv iota.
    destruct t as [|d t]; [reflexivity|]. cbn [starts_lf] in E. rewrite E. reflexivity.
  Qed.

  Lemma all_pieces_nonempty t : all_pieces brk t <> [].
  Proof.
    unfold all_pieces. destruct t as [|c t].
    - discriminate.
    - intros Q. apply app_eq_nil in Q as [Q _]. revert Q. apply sl_nonempty. discriminate.
  Qed.

  Lemma ap_nobrk c t : brk c = false -> all_pieces brk (c :: t) = cons_head c (all_pieces brk t).
  Proof.
    intros B. unfold all_pieces. rewrite sl_nobrk by assumption. rewrite ends_with_cons. cbn [is_nil].
    destruct t as [|d t].
    - cbn [is_nil splitlines cons_head app ends_with rev]. rewrite B. reflexivity.
    - cbn [is_nil]. rewrite !orb_false_r.
      symmetry. apply cons_head_app. apply sl_nonempty. discriminate.
  Qed.

  Lemma ap_after_break b t : b <> [] -> ends_with brk b = true ->
    splitlines brk (b ++ t) = [] :: splitlines brk t ->
    all_pieces brk (b ++ t) = [] :: all_pieces brk t.
  Proof.
    intros N0 Eb S. unfold all_pieces. rewrite S.
    assert (N1 : is_nil (b ++ t) = false) by (destruct b; [congruence|reflexivity]).
    rewrite N1, orb_false_r. cbn [app]. f_equal. f_equal.
    destruct t as [|d t].
    - rewrite app_nil_r, Eb. reflexivity.
    - rewrite ends_with_app by discriminate. cbn [is_nil]. rewrite orb_false_r. reflexivity.
  Qed.

  Lemma ap_brk c t : brk c = true -> (c =? CR) = false -> all_pieces brk (c :: t) = [] :: all_pieces brk t.
  Proof. intros B E. apply (ap_after_break [c] t); [discriminate|cbn; exact B|apply sl_brk; assumption]. Qed.
  Lemma ap_crlf t : brk CR = true -> all_pieces brk (CR :: LF :: t) = [] :: all_pieces brk t.
  Proof. intros B. apply (ap_after_break [CR; LF] t); [discriminate|exact brk_LF|apply sl_crlf; assumption]. Qed.
  Lemma ap_cr t : brk CR = true -> starts_lf t = false -> all_pieces brk (CR :: t) = [] :: all_pieces brk t.
  Proof. intros B E. apply (ap_after_break [CR] t); [discriminate|cbn; exact B|apply sl_cr; assumption]. Qed.

  Lemma interleave_cons_head c ls seps : ls <> [] ->
    interleave (cons_head c ls) seps = c :: interleave ls seps.
  Proof. destruct ls as [|l r]; [congruence|]. intros _. destruct seps; reflexivity. Qed.

  (* joining the pieces with the breaks gives the text back *)
  Theorem pieces_rebuild : forall t, interleave (all_pieces brk t) (breaks_of brk t) = t.
  Proof.
    intros t. pattern t. apply (split_ind brk); clear t.
    - reflexivity.
    - intros c t B IH. rewrite ap_nobrk, bo_nobrk by assumption.
      rewrite interleave_cons_head by apply all_pieces_nonempty. rewrite IH. reflexivity.
    - intros c t B E IH. rewrite bo_brk by assumption.
      rewrite ap_brk by assumption.
      cbn [interleave app]. rewrite IH. reflexivity.
    - intros t B IH. rewrite bo_crlf by assumption.
      rewrite ap_crlf by assumption. cbn [interleave app]. rewrite IH. reflexivity.
    - intros t B E IH. rewrite bo_cr by assumption.
      rewrite ap_cr by assumption.
      cbn [interleave app]. rewrite IH. reflexivity.
  Qed.

  (* one more piece than breaks *)
  Theorem pieces_count : forall t, length (all_pieces brk t) = S (length (breaks_of brk t)).
  Proof.
    intros t. pattern t. apply (split_ind brk); clear t.
    - reflexivity.
    - intros c t B IH. rewrite ap_nobrk, bo_nobrk by assumption. rewrite <- IH.
      pose proof (all_pieces_nonempty t). destruct (all_pieces brk t); [congruence|reflexivity].
    - intros c t B E IH. rewrite bo_brk by assumption.
      rewrite ap_brk by assumption.
      cbn [length]. rewrite IH. reflexivity.
    - intros t B IH. rewrite bo_crlf by assumption.
      rewrite ap_crlf by assumption.
      cbn [length]. rewrite IH. reflexivity.
    - intros t B E IH. rewrite bo_cr by assumption.
      rewrite ap_cr by assumption.
      cbn [length]. rewrite IH. reflexivity.
  Qed.

  (* no piece contains a break character *)
  Theorem pieces_breakfree : forall t, forallb (nobrk brk) (all_pieces brk t) = true.
  Proof.
    intros t. pattern t. apply (split_ind brk); clear t.
    - reflexivity.
    - intros c t B IH. rewrite ap_nobrk by assumption.
      pose proof (all_pieces_nonempty t). destruct (all_pieces brk t) as [|l r]; [congruence|].
      cbn [cons_head forallb nobrk] in *. rewrite B. exact IH.
    - intros c t B E IH.
      rewrite ap_brk by assumption. exact IH.
    - intros t B IH.
      rewrite ap_crlf by assumption. exact IH.
    - intros t B E IH.
      rewrite ap_cr by assumption. exact IH.
  Qed.

  (* every separator is \r\n or a single break character *)
  Definition is_sep (s : text) : bool :=
    teqb s [CR; LF] || match s with [c] => brk c | _ => false end.
  Theorem breaks_are_breaks : forall t, forallb is_sep (breaks_of brk t) = true.
  Proof.
    intros t. pattern t. apply (split_ind brk); clear t.
    - reflexivity.
    - intros c t B IH. rewrite bo_nobrk by assumption. exact IH.
    - intros c t B E IH. rewrite bo_brk by assumption. cbn [forallb]. rewrite IH.
      unfold is_sep. rewrite B, orb_true_r. reflexivity.
    - intros t B IH. rewrite bo_crlf by assumption. cbn [forallb]. rewrite IH. reflexivity.
    - intros t B E IH. rewrite bo_cr by assumption. cbn [forallb]. rewrite IH.
      unfold is_sep. rewrite B, orb_true_r. reflexivity.
  Qed.
End Brk.

(* iter_splitlines' reference is "all pieces" for every non-empty text *)
Lemma spec_is_all_pieces t : t <> [] -> iter_splitlines_spec t = all_pieces is_break t.
Proof.
  intros H. unfold iter_splitlines_spec, all_pieces.
  destruct t; [congruence|]. cbn [is_nil]. rewrite orb_false_r. reflexivity.
Qed.

Theorem spec_lines_characterised : forall t, t <> [] ->
  let ls := iter_splitlines_spec t in
  forallb (nobrk is_break) ls = true /\
  length ls = S (length (breaks_of is_break t)) /\
  forallb (is_sep is_break) (breaks_of is_break t) = true /\
  interleave ls (breaks_of is_break t) = t.
Proof.
  intros t H. cbv zeta. rewrite spec_is_all_pieces by assumption.
  repeat split.
  - apply pieces_breakfree. reflexivity.
  - apply pieces_count. reflexivity.
  - apply breaks_are_breaks.
  - apply pieces_rebuild. reflexivity.
Qed.

(* two break classes that agree on the characters of a text split it alike *)
Lemma splitlines_ext brk1 brk2 : forall t, forallb (fun c => Bool.eqb (brk1 c) (brk2 c)) t = true ->
  splitlines brk1 t = splitlines brk2 t.
Proof.
  intros t. pattern t. apply (split_ind brk1); clear t.
  - reflexivity.
  - intros c t B IH H. cbn [forallb] in H. apply andb_true_iff in H as [Hc Ht].
    apply Bool.eqb_prop in Hc. rewrite !sl_nobrk by congruence. rewrite IH by exact Ht. reflexivity.
  - intros c t B E IH H. cbn [forallb] in H. apply andb_true_iff in H as [Hc Ht].
    apply Bool.eqb_prop in Hc. rewrite !sl_brk by congruence. rewrite IH by exact Ht. reflexivity.
  - intros t B IH H. cbn [forallb] in H. apply andb_true_iff in H as [Hc H]. apply andb_true_iff in H as [_ Ht].
    apply Bool.eqb_prop in Hc. rewrite !sl_crlf by congruence. rewrite IH by exact Ht. reflexivity.
  - intros t B E IH H. cbn [forallb] in H. apply andb_true_iff in H as [Hc Ht].
    apply Bool.eqb_prop in Hc. rewrite !sl_cr by congruence. rewrite IH by exact Ht. reflexivity.
Qed.

(* on the property's texts (no \x1c \x1d \x1e) the Spec's splitlines is CPython's str.splitlines *)
Theorem spec_is_python_splitlines : forall t, forallb (fun c => negb (is_sep_ctl c)) t = true ->
  splitlines is_break t = splitlines is_py_break t /\ ends_with is_break t = ends_with is_py_break t.
Proof.
  intros t H. split.
  - apply splitlines_ext. rewrite forallb_forall in *. intros c I. specialize (H c I).
    unfold is_py_break. apply negb_true_iff in H. rewrite H, orb_false_r. apply Bool.eqb_reflx.
  - unfold ends_with. destruct (rev t) as [|c r] eqn:R; [reflexivity|].
    assert (I : In c t) by (apply in_rev; rewrite R; left; reflexivity).
    rewrite forallb_forall in H. specialize (H c I). apply negb_true_iff in H.
    unfold is_py_break. rewrite H, orb_false_r. reflexivity.
Qed.
