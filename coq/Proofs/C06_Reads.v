(* C06: what the model's URL(t) reads out of a well-formed reference is the Spec's reading (Spec.reads_ok):
   the RFC 3986 Appendix B pieces of t, percent-decoded by the reference decoder, the query read as a form. *)
From Coq Require Import Lia.
From Boltons Require Import Lib.Prelude Lib.C06_Text Spec.C06_Spec Model.C06_Model Proofs.C06_Codec
  Proofs.C06_Quote Proofs.C06_Refine.
Open Scope N_scope.

(* _URL_RE (as span functions) computes the Appendix B split *)
Lemma url_re_rfc s :
  rfc_split s = (g_scheme (url_re s), g_authority (url_re s), g_path (url_re s), g_query (url_re s),
                 g_fragment (url_re s)).
Proof.
  unfold rfc_split, url_re. change nin with not_in.
  repeat match goal with |- context [match ?x with (_, _) => _ end] => destruct x end.
  reflexivity.
Qed.

Lemma partition_nosep c s : snd (fst (partition c s)) = false -> snd (partition c s) = [].
Proof.
  induction s as [|x r IH]; [reflexivity|]. cbn [partition]. destruct (x =? c); [discriminate|].
  destruct (partition c r) as [[a f] b]. cbn [fst snd] in *. exact IH.
Qed.

Lemma count0_rpartition c s : count_char c s = 0%nat -> rpartition c s = None.
Proof.
  unfold count_char. induction s as [|x r IH]; [reflexivity|]. cbn [filter rpartition].
  rewrite (N.eqb_sym c x). destruct (x =? c); [discriminate|]. intro H. rewrite (IH H). reflexivity.
Qed.

Lemma rpartition_partition c s : (count_char c s <= 1)%nat ->
  match rpartition c s with
  | Some (a, b) => partition c s = (a, true, b)
  | None => snd (fst (partition c s)) = false
  end.
Proof.
  unfold count_char. induction s as [|x r IH]; [reflexivity|]. cbn [filter rpartition partition].
  rewrite (N.eqb_sym c x). destruct (x =? c) eqn:E.
  - cbn [length]. intro H. assert (Z : count_char c r = 0%nat) by (unfold count_char; lia).
    rewrite (count0_rpartition c r Z). reflexivity.
  - intro H. specialize (IH H). destruct (rpartition c r) as [[a b]|].
    + rewrite IH. reflexivity.
    + destruct (partition c r) as [[a f] b]. cbn [fst snd] in *. exact IH.
Qed.

Lemma userinfo_of_split au : (count_char 64 au <= 1)%nat ->
  userinfo_of au = (fst (fst (split_userinfo au)), snd (fst (split_userinfo au))).
Proof.
  intro H. unfold userinfo_of, split_userinfo. pose proof (rpartition_partition 64 au H) as R.
  destruct au as [|a0 ar]; [reflexivity|].
  destruct (rpartition 64 (a0 :: ar)) as [[ui hi]|].
  - rewrite R. destruct (partition 58 ui) as [[u s] p]. reflexivity.
  - destruct (partition 64 (a0 :: ar)) as [[a f] b]. cbn [fst snd] in R. rewrite R. reflexivity.
Qed.

Lemma wf_ref_one_at iri t : wf_ref iri t = true ->
  (count_char 64 (otx (g_authority (url_re t))) <= 1)%nat.
Proof.
  unfold wf_ref. rewrite url_re_rfc. intro H. do 3 (apply andb_true_iff in H as [H _]).
  apply andb_true_iff in H as [_ H]. destruct (g_authority (url_re t)) as [a|]; [|cbn; lia].
  cbn [otx]. unfold authority_ok in H. destruct (count_char 64 a) as [|[|n]]; [lia|lia|discriminate].
Qed.

Section Reads.
Variable T : tables.
Variable O : oracles.
Hypothesis TOK : tables_ok T = true.

Lemma unq_if_ref s : unq_if_pct T s = ref_unquote s.
Proof.
  unfold unq_if_pct. destruct (memN 37 s) eqn:E; [apply unquote_is_ref; exact TOK|].
  symmetry. apply ref_unquote_nopct. exact E.
Qed.

(* parse_qsl reads the query as a form *)
Lemma parse_qsl_form qs : parse_qsl T qs = form_pairs qs.
Proof.
  unfold parse_qsl, form_pairs. generalize (flat_map (split_on 59) (split_on 38 qs)). intro l.
  induction l as [|p r IH]; [reflexivity|]. cbn [filter flat_map]. destruct p as [|p0 pr]; [exact IH|].
  cbn [map app]. rewrite IH. f_equal. unfold qsl_pair.
  pose proof (partition_nosep 61 (p0 :: pr)) as NS.
  destruct (partition 61 (p0 :: pr)) as [[k sep] v]. cbn [fst snd] in NS.
  unfold form_text. change (map (fun c : N => if c =? 43 then 32 else c)) with (replace_char 43 32).
  rewrite !(unquote_is_ref T TOK). destruct v as [|v0 vr].
  - destruct sep; reflexivity.
  - destruct sep; [reflexivity|]. discriminate (NS eq_refl).
Qed.

(* URL(t) = u for a well-formed reference t: the components of u are the Spec's reading of t *)
Theorem parse_reads t u : wf_ref true t = true -> url_init T O t = MOk u -> reads_ok t (observe_url T u) = true.
Proof.
  intros WF U. pose proof (wf_ref_one_at true t WF) as AT.
  unfold reads_ok. rewrite url_re_rfc. rewrite (userinfo_of_split _ AT).
  unfold url_init in U. destruct t as [|t0 tr].
  - cbv beta iota in U. injection U as <-. vm_compute. reflexivity.
  - cbv beta iota in U. set (t := t0 :: tr) in *. clearbody t. clear t0 tr.
    destruct (parse_url O t) as [p| |] eqn:P; cbn [mbind] in U; try discriminate.
    destruct (decode_host O (pu_host p)) as [h| |]; cbn [mbind] in U; try discriminate.
    injection U as <-. unfold parse_url in P.
    change (match g_authority (url_re t) with Some a => a | None => [] end) with (otx (g_authority (url_re t))) in P.
    destruct (split_userinfo (otx (g_authority (url_re t)))) as [[user pw] hostinfo].
    destruct (split_hostport O hostinfo) as [[host port]| |]; cbn [mbind] in P; try discriminate.
    destruct (parse_host O host) as [[fam host']| |]; cbn [mbind] in P; try discriminate.
    injection P as <-. unfold observe_url.
    cbn [uo_scheme uo_user uo_pass uo_path uo_query uo_frag u_scheme u_user u_pass u_path u_query u_frag
         pu_scheme pu_user pu_pass pu_path pu_query pu_fragment fst snd].
    rewrite !unq_if_ref, parse_qsl_form.
    rewrite (map_ext (unq_if_pct T) ref_unquote unq_if_ref).
    change opt_text with otx.
    rewrite !text_eqb_refl, texts_eqb_refl, pairs_eqb_refl. reflexivity.
Qed.
End Reads.
