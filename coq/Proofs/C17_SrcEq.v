(* (T) tie: the Gallina regenerated from the CURRENT source of OneToOne's methods
   (Gen/C17_Src.v) equals the hand-written model's operation on every state that
   satisfies the invariant and holds hashable objects only.  In particular the
   KeyErrors hidden in the paired writes (dict.__delitem__(self.inv, self[key]),
   del self.inv[val], dict.__delitem__(self.inv, val)) never fire. *)
From Boltons Require Import Lib.Prelude Model.C17_Model Lib.C17_Py Gen.C17_Src
  Proofs.C17_Dict Proofs.C17_OTO.

(* every stored key and value is a hashable object *)
Definition OtoH (o : oto) : Prop :=
  forall k v, d_get (o_fwd o) k = Some v -> unhashable k = false /\ unhashable v = false.

Lemma OtoH_swap o : OtoInv o -> OtoH o -> OtoH (oto_swap o).
Proof. intros [_ _ B] H k v E. simpl in E. apply B in E. destruct (H _ _ E). tauto. Qed.

(* __delitem__ evaluated on ANY record where the two lookups succeed *)
Lemma src_delitem_eval a b x y z :
  unhashable x = false -> unhashable y = false -> d_get a x = Some y -> d_get b y = Some z ->
  src_delitem (mkOto a b) x = Ok (VNone, mkOto (d_rm a x) (d_rm b y)).
Proof.
  intros Hx Hy Ea Eb. unfold src_delitem, py_getitem, py_dict_delitem. simpl.
  rewrite Hx, Ea. simpl. rewrite Hy, Eb. simpl. rewrite ?Hx, ?Ea. reflexivity.
Qed.

Theorem src_delitem_eq o k : OtoInv o -> OtoH o -> src_delitem o k = lift_step o (ODel k).
Proof.
  intros I H. unfold lift_step. simpl. destruct o as [f i]. simpl in *.
  destruct (unhashable k) eqn:Uk.
  - unfold src_delitem, py_getitem. simpl. now rewrite Uk.
  - destruct (d_get f k) as [v|] eqn:E.
    + destruct (H _ _ E) as [_ Uv]. apply (src_delitem_eval f i k v k); trivial. now apply (oi_bij _ I).
    + unfold src_delitem, py_getitem. simpl. now rewrite Uk, E.
Qed.

Theorem src_setitem_eq o k v : OtoInv o -> OtoH o -> src_setitem o k v = lift_step o (OSet k v).
Proof.
  intros I H. unfold lift_step. simpl. destruct o as [f i]. pose proof (oi_bij _ I) as B. simpl in *.
  unfold src_setitem, py_hash. destruct (unhashable v) eqn:Uv; simpl; trivial.
  unfold py_contains at 1. simpl. destruct (unhashable k) eqn:Uk; simpl; trivial.
  unfold oto_setitem, d_mem. simpl.
  assert (Set2 : forall a b, bind (py_dict_setitem (mkOto a b) DSelf k v) (fun self =>
                   bind (py_dict_setitem self DInv v k) (fun self => Ok (VNone, self))) =
                 Ok (VNone, mkOto (d_set a k v) (d_set b v k))).
  { intros a b. unfold py_dict_setitem. simpl. rewrite Uk. simpl. rewrite Uv. reflexivity. }
  assert (Evict : forall i1 : dict, (forall k2, d_get i1 v = Some k2 -> d_get f k2 = Some v /\ unhashable k2 = false) ->
            bind (py_contains (mkOto f i1) DInv v) (fun c =>
              if c then bind (on_inv (fun o => src_delitem o v) (mkOto f i1)) (fun r => let self := snd r in
                     bind (py_dict_setitem self DSelf k v) (fun self =>
                     bind (py_dict_setitem self DInv v k) (fun self => Ok (VNone, self))))
              else bind (py_dict_setitem (mkOto f i1) DSelf k v) (fun self =>
                   bind (py_dict_setitem self DInv v k) (fun self => Ok (VNone, self)))) =
            Ok (VNone, let '(fwd2, inv2) := match d_get i1 v with
                                            | Some k2 => (d_rm f k2, d_rm i1 v)
                                            | None => (f, i1) end in
                       mkOto (d_set fwd2 k v) (d_set inv2 v k))).
  { intros i1 Hi1. unfold py_contains, d_mem. simpl. rewrite Uv. simpl.
    destruct (d_get i1 v) as [k2|] eqn:E2; simpl.
    - destruct (Hi1 k2 eq_refl) as [Ef Uk2].
      unfold on_inv, oto_swap. simpl.
      rewrite (src_delitem_eval i1 f v k2 v Uv Uk2 E2 Ef). simpl. apply Set2.
    - apply Set2. }
  destruct (d_get f k) as [v0|] eqn:Ek; simpl.
  - (* key present: its old value leaves the inverse first *)
    unfold py_getitem. simpl. rewrite Uk, Ek. simpl.
    destruct (H _ _ Ek) as [_ Uv0]. unfold py_dict_delitem at 1. simpl. rewrite Uv0.
    rewrite (proj1 (B k v0) Ek). simpl. unfold put. simpl.
    apply Evict. intros k2 E2. rewrite get_rm in E2. destruct (Nat.eqb v v0); [discriminate|].
    apply B in E2. split; trivial. now destruct (H _ _ E2).
  - apply Evict. intros k2 E2. apply B in E2. split; trivial. now destruct (H _ _ E2).
Qed.

Theorem src_pop_eq o k d : OtoInv o -> OtoH o -> src_pop o k d = lift_step o (OPop k d).
Proof.
  intros I H. unfold lift_step. simpl. destruct o as [f i]. pose proof (oi_bij _ I) as B. simpl in *.
  unfold src_pop, py_contains, d_mem. simpl. destruct (unhashable k) eqn:Uk; simpl; trivial.
  destruct (d_get f k) as [v|] eqn:E; simpl.
  - unfold py_getitem. simpl. rewrite Uk, E. simpl. destruct (H _ _ E) as [_ Uv].
    unfold py_dict_delitem. simpl. rewrite Uv, (proj1 (B k v) E). simpl.
    unfold py_dict_pop. simpl. rewrite Uk, E. reflexivity.
  - destruct d; reflexivity.
Qed.

Theorem src_popitem_eq o : OtoInv o -> OtoH o -> src_popitem o = lift_step o OPopitem.
Proof.
  intros I H. unfold lift_step. simpl. destruct o as [f i]. pose proof (oi_bij _ I) as B. simpl in *.
  unfold src_popitem, py_dict_popitem. simpl.
  destruct (rev f) as [|[k v] r] eqn:E; simpl; trivial.
  destruct (popitem_shape (mkOto f i) k v r (oi_ndf _ I) E) as [_ Hg]. simpl in Hg.
  destruct (H _ _ Hg) as [_ Uv]. unfold py_dict_delitem. simpl. rewrite Uv, (proj1 (B k v) Hg). reflexivity.
Qed.

Theorem src_clear_eq o : src_clear o = lift_step o OClear.
Proof. reflexivity. Qed.

Theorem src_setdefault_eq o k d : OtoInv o -> OtoH o -> src_setdefault o k d = lift_step o (OSetdefault k d).
Proof.
  intros I H. unfold src_setdefault. rewrite (src_setitem_eq o k d I H).
  unfold lift_step. simpl. unfold py_contains, d_mem. simpl.
  destruct (unhashable k) eqn:Uk; simpl; trivial.
  destruct (d_get (o_fwd o) k) as [v|] eqn:E; simpl.
  - unfold py_getitem. simpl. now rewrite Uk, E.
  - rewrite ?Uk, ?orb_false_r. destruct (unhashable d) eqn:Ud; simpl; trivial.
    unfold py_getitem. simpl. rewrite ?Uk.
    assert (G : d_get (o_fwd (oto_setitem o k d)) k = Some d).
    { apply (setitem_fwd o k d k d (oi_bij _ I)). now left. }
    now rewrite G.
Qed.
