(* C01, (T) tie from the Python source, the methods that build new objects / plain dicts from the readers:
   __getstate__, __setstate__, copy, inverted, sorted, counts, todict.  The regenerated programs,
   interpreted by Model/C01_SrcLang.v with the callees interpreted one layer below, compute exactly the
   pointer-level model's results. *)
From Boltons Require Import Lib.Prelude Spec.C01_Spec Model.C01_Model Model.C01_Ptr Model.C01_PModel
  Model.C01_SrcLang Gen.C01_Src Proofs.C01_Base Proofs.C01_PSimDefs Proofs.C01_PSim1
  Proofs.C01_SrcDefs Proofs.C01_SrcInv Proofs.C01_SrcEq1 Proofs.C01_SrcEq2 Proofs.C01_SrcEq3 Proofs.C01_SrcEq4.

Local Arguments d_get : simpl never.
Local Arguments d_set : simpl never.
Local Arguments d_del : simpl never.
Local Arguments rev : simpl never.
Local Arguments sem : simpl never.
Local Arguments fuel_of : simpl never.
Local Arguments pm_items : simpl never.
Local Arguments pm_iterkeys : simpl never.
Local Arguments pm_items1 : simpl never.
Local Arguments pm_from_pairs : simpl never.
Local Arguments py_sorted : simpl never.
Local Arguments existsb : simpl never.

Definition swap_kv (kv : K * V) : K * V := (snd kv, fst kv).
(* self.__class__(pairs): a new object, unless a key is unhashable *)
Definition new_from (l : pairs) : res pv :=
  if existsb unhashable (map fst l) then Raise TypeError else Ok (VOtherObj (pm_from_pairs l)).

(* ---- the loops of the comprehensions, named ---------------------------------------------------------- *)
Definition comp2_go (callee : meth -> list pv -> pomd -> res pv * pomd) (en : env) (x y : nat) (a b : ex) :=
  fix go (l : pairs) (s0 : pomd) {struct l} : res pairs * pomd :=
    match l with
    | [] => (Ok [], s0)
    | (t, u) :: r =>
        let en' := env_set (env_set en x (VTok t)) y (VTok u) in
        match eval callee en' a s0 with
        | (Ok (VTok ka), s2) =>
            match eval callee en' b s2 with
            | (Ok (VTok vb), s3) =>
                match go r s3 with
                | (Ok rest, s4) => (Ok ((ka, vb) :: rest), s4)
                | (Raise x0, s4) => (Raise x0, s4)
                end
            | (Ok _, s3) => (Raise type_error, s3)
            | (Raise x0, s3) => (Raise x0, s3)
            end
        | (Ok _, s2) => (Raise type_error, s2)
        | (Raise x0, s2) => (Raise x0, s2)
        end
    end.

Definition comp1f_go (callee : meth -> list pv -> pomd -> res pv * pomd) (en : env) (x : nat) (a b : ex) :=
  fix go (l : list nat) (s0 : pomd) {struct l} : res pairs * pomd :=
    match l with
    | [] => (Ok [], s0)
    | t :: r =>
        match eval callee (env_set en x (VTok t)) a s0 with
        | (Ok (VTok ka), s2) =>
            match eval callee (env_set en x (VTok t)) b s2 with
            | (Ok (VTok vb), s3) | (Ok (VNat vb), s3) =>
                match go r s3 with
                | (Ok rest, s4) => (Ok ((ka, vb) :: rest), s4)
                | (Raise x0, s4) => (Raise x0, s4)
                end
            | (Ok _, s3) => (Raise type_error, s3)
            | (Raise x0, s3) => (Raise x0, s3)
            end
        | (Ok _, s2) => (Raise type_error, s2)
        | (Raise x0, s2) => (Raise x0, s2)
        end
    end.

Definition comp1t_go (callee : meth -> list pv -> pomd -> res pv * pomd) (en : env) (x : nat) (a b : ex) :=
  fix go (l : list nat) (s0 : pomd) {struct l} : res (list (K * list V)) * pomd :=
    match l with
    | [] => (Ok [], s0)
    | t :: r =>
        match eval callee (env_set en x (VTok t)) a s0 with
        | (Ok (VTok ka), s2) =>
            match eval callee (env_set en x (VTok t)) b s2 with
            | (Ok (VToks vb), s3) =>
                match go r s3 with
                | (Ok rest, s4) => (Ok ((ka, vb) :: rest), s4)
                | (Raise x0, s4) => (Raise x0, s4)
                end
            | (Ok _, s3) => (Raise type_error, s3)
            | (Raise x0, s3) => (Raise x0, s3)
            end
        | (Ok _, s2) => (Raise type_error, s2)
        | (Raise x0, s2) => (Raise x0, s2)
        end
    end.

Lemma eval_comp2_unfold callee en x y src a b s :
  eval callee en (EComp2 x y src a b) s
  = match eval callee en src s with
    | (Ok (VPairs l), s1) =>
        match comp2_go callee en x y a b l s1 with
        | (Ok r, s5) => (Ok (VPairs r), s5)
        | (Raise x0, s5) => (Raise x0, s5)
        end
    | (Ok _, s1) => raise type_error s1
    | r => r
    end.
Proof. reflexivity. Qed.

Lemma eval_comp1_unfold callee en (multi : bool) x src a b s :
  eval callee en (EComp1 multi x src a b) s
  = match eval callee en src s with
    | (Ok (VToks l), s1) =>
        if multi then
          match comp1t_go callee en x a b l s1 with
          | (Ok r, s5) => (Ok (VMulti r), s5)
          | (Raise x0, s5) => (Raise x0, s5)
          end
        else
          match comp1f_go callee en x a b l s1 with
          | (Ok r, s5) => (Ok (VPairs r), s5)
          | (Raise x0, s5) => (Raise x0, s5)
          end
    | (Ok _, s1) => raise type_error s1
    | r => r
    end.
Proof. reflexivity. Qed.

Lemma comp2_go_cons callee en x y a b t u r s0 :
  comp2_go callee en x y a b ((t, u) :: r) s0
  = let en' := env_set (env_set en x (VTok t)) y (VTok u) in
    match eval callee en' a s0 with
    | (Ok (VTok ka), s2) =>
        match eval callee en' b s2 with
        | (Ok (VTok vb), s3) =>
            match comp2_go callee en x y a b r s3 with
            | (Ok rest, s4) => (Ok ((ka, vb) :: rest), s4)
            | (Raise x0, s4) => (Raise x0, s4)
            end
        | (Ok _, s3) => (Raise type_error, s3)
        | (Raise x0, s3) => (Raise x0, s3)
        end
    | (Ok _, s2) => (Raise type_error, s2)
    | (Raise x0, s2) => (Raise x0, s2)
    end.
Proof. reflexivity. Qed.

Lemma comp1f_go_cons callee en x a b t r s0 :
  comp1f_go callee en x a b (t :: r) s0
  = match eval callee (env_set en x (VTok t)) a s0 with
    | (Ok (VTok ka), s2) =>
        match eval callee (env_set en x (VTok t)) b s2 with
        | (Ok (VTok vb), s3) | (Ok (VNat vb), s3) =>
            match comp1f_go callee en x a b r s3 with
            | (Ok rest, s4) => (Ok ((ka, vb) :: rest), s4)
            | (Raise x0, s4) => (Raise x0, s4)
            end
        | (Ok _, s3) => (Raise type_error, s3)
        | (Raise x0, s3) => (Raise x0, s3)
        end
    | (Ok _, s2) => (Raise type_error, s2)
    | (Raise x0, s2) => (Raise x0, s2)
    end.
Proof. reflexivity. Qed.

Lemma comp1t_go_cons callee en x a b t r s0 :
  comp1t_go callee en x a b (t :: r) s0
  = match eval callee (env_set en x (VTok t)) a s0 with
    | (Ok (VTok ka), s2) =>
        match eval callee (env_set en x (VTok t)) b s2 with
        | (Ok (VToks vb), s3) =>
            match comp1t_go callee en x a b r s3 with
            | (Ok rest, s4) => (Ok ((ka, vb) :: rest), s4)
            | (Raise x0, s4) => (Raise x0, s4)
            end
        | (Ok _, s3) => (Raise type_error, s3)
        | (Raise x0, s3) => (Raise x0, s3)
        end
    | (Ok _, s2) => (Raise type_error, s2)
    | (Raise x0, s2) => (Raise x0, s2)
    end.
Proof. reflexivity. Qed.

Local Arguments comp2_go : simpl never.
Local Arguments comp1f_go : simpl never.
Local Arguments comp1t_go : simpl never.

(* every element expression reads only: the loop is a map *)
Lemma comp2_go_map callee en x y a b s (f : K * V -> K * V) :
  (forall t u, eval callee (env_set (env_set en x (VTok t)) y (VTok u)) a s = (Ok (VTok (fst (f (t, u)))), s)) ->
  (forall t u, eval callee (env_set (env_set en x (VTok t)) y (VTok u)) b s = (Ok (VTok (snd (f (t, u)))), s)) ->
  forall l, comp2_go callee en x y a b l s = (Ok (map f l), s).
Proof.
  intros Ha Hb. induction l as [|[t u] r IH]; [reflexivity|].
  rewrite comp2_go_cons. cbv zeta. rewrite Ha, Hb, IH. cbn [map]. rewrite <- surjective_pairing. reflexivity.
Qed.

Lemma comp1f_go_map callee en x a b s (w : nat -> pv) (g : K -> res nat) :
  w = VTok \/ w = VNat ->
  (forall t, eval callee (env_set en x (VTok t)) a s = (Ok (VTok t), s)) ->
  (forall t, eval callee (env_set en x (VTok t)) b s
             = match g t with Ok v => (Ok (w v), s) | Raise e => (Raise e, s) end) ->
  forall l, comp1f_go callee en x a b l s = (map_res (fun k => do v <- g k; Ok (k, v)) l, s).
Proof.
  intros Hw Ha Hb. induction l as [|t r IH]; [reflexivity|].
  rewrite comp1f_go_cons, Ha, Hb. cbn [map_res].
  destruct (g t) as [v|e]; cbn [bind]; [|reflexivity].
  destruct Hw as [Hw|Hw]; subst w; rewrite IH;
    destruct (map_res (fun k => do v0 <- g k; Ok (k, v0)) r); reflexivity.
Qed.

Lemma comp1t_go_map callee en x a b s (g : K -> list V) :
  (forall t, eval callee (env_set en x (VTok t)) a s = (Ok (VTok t), s)) ->
  (forall t, eval callee (env_set en x (VTok t)) b s = (Ok (VToks (g t)), s)) ->
  forall l, comp1t_go callee en x a b l s = (Ok (map (fun k => (k, g k)) l), s).
Proof.
  intros Ha Hb. induction l as [|t r IH]; [reflexivity|].
  rewrite comp1t_go_cons, Ha, Hb, IH. reflexivity.
Qed.

Lemma map_res_ext {A B} (f g : A -> res B) : (forall x, f x = g x) -> forall l, map_res f l = map_res g l.
Proof. intros H l. induction l as [|x r IH]; [reflexivity|]. cbn [map_res]. rewrite H, IH. reflexivity. Qed.

Lemma new_from_eq (l : pairs) (p : pomd) :
  (if existsb unhashable (map fst l) then raise TypeError p else (Ok (VOtherObj (pm_from_pairs l)), p))
  = (new_from l, p).
Proof. unfold new_from, raise. destruct (existsb unhashable (map fst l)); reflexivity. Qed.

Lemma fin_ret (r : res pv) (en : env) (p : pomd) :
  fin match r with Ok v => (OReturn v, en, p) | Raise x0 => (ORaise x0, en, p) end = (r, p).
Proof. destruct r; reflexivity. Qed.

(* ---- __getstate__ / copy / sorted -------------------------------------------------------------------- *)
Lemma source_getstate n p : Good p ->
  sem (S (S (S n))) MGetState [] p = (Ok (VPairs (pm_items p)), p).
Proof.
  intro G. rewrite sem_S, run_body_fin. unfold gen_prog, gen_getstate. cbn [bind_params].
  cbn [exec eval]. rewrite (source_iteritems n p true G). reflexivity.
Qed.

Lemma source_copy n p : Good p ->
  sem (S (S (S n))) MCopy [] p = (new_from (pm_items p), p).
Proof.
  intro G. rewrite sem_S, run_body_fin. unfold gen_prog, gen_copy. cbn [bind_params].
  cbn [exec eval]. rewrite (source_iteritems n p true G). rewrite new_from_eq. apply fin_ret.
Qed.

Lemma source_sorted n p f rv : Good p ->
  sem (S (S (S n))) MSorted [VKeyFn f; VBool rv] p = (new_from (py_sorted (kf_item f) rv (pm_items p)), p).
Proof.
  intro G. rewrite sem_S, run_body_fin. unfold gen_prog, gen_sorted. cbn [bind_params].
  cbn [exec eval]. rewrite (source_iteritems n p true G). cbn [env_get Nat.eqb].
  rewrite new_from_eq. apply fin_ret.
Qed.

(* ---- return / self.__class__(...) of a reading expression ------------------------------------------- *)
Lemma exec_return_res callee fu e en s (r : res pv) :
  eval callee en e s = (r, s) -> fin (exec callee fu (SReturn e) en s) = (r, s).
Proof. intro H. cbn [exec]. rewrite H. destruct r; reflexivity. Qed.

Lemma eval_newfrom_res callee en e s (r : res pairs) :
  eval callee en e s = (match r with Ok l => Ok (VPairs l) | Raise x => Raise x end, s) ->
  eval callee en (ENewFrom e) s = (match r with Ok l => new_from l | Raise x => Raise x end, s).
Proof.
  intro H. cbn [eval]. rewrite H. destruct r as [l|x]; [|reflexivity]. apply new_from_eq.
Qed.

Lemma eval_items_true n p en : Good p ->
  eval (sem (S (S n))) en (ECall1 MIterItems ETrue) p = (Ok (VPairs (pm_items p)), p).
Proof. intro G. cbn [eval]. apply (source_iteritems n p true G). Qed.

Lemma eval_iter n p en : Good p ->
  eval (sem (S (S n))) en (ECall0 MIter) p = (Ok (VToks (pm_iterkeys p)), p).
Proof. intro G. cbn [eval]. apply (source_iter n p G). Qed.

(* ---- inverted ---------------------------------------------------------------------------------------- *)
Lemma source_inverted n p : Good p ->
  sem (S (S (S n))) MInverted [] p = (new_from (map swap_kv (pm_items p)), p).
Proof.
  intro G. rewrite sem_S, run_body_fin. unfold gen_prog, gen_inverted. cbn [bind_params].
  apply exec_return_res. apply (eval_newfrom_res _ _ _ _ (Ok (map swap_kv (pm_items p)))).
  rewrite eval_comp2_unfold, (eval_items_true n p _ G).
  rewrite (comp2_go_map _ _ _ _ _ _ _ swap_kv); [reflexivity | |]; intros t u; reflexivity.
Qed.

(* ---- counts ------------------------------------------------------------------------------------------ *)
Definition count_of (p : pomd) (k : K) : res nat :=
  match d_get (pstore p) k with None => Raise KeyError | Some vs => Ok (length vs) end.

Lemma eval_count callee en p t : env_get en 0 = Ok (VTok t) ->
  eval callee en (ELen (EStoreGetitem (EVar 0))) p
  = match count_of p t with Ok v => (Ok (VNat v), p) | Raise e => (Raise e, p) end.
Proof.
  intro E. unfold count_of. cbn. rewrite E.
  destruct (d_get (pstore p) t) as [vs|] eqn:Eg; cbn; [rewrite Eg|]; reflexivity.
Qed.

Lemma source_counts n p : Good p ->
  sem (S (S (S n))) MCounts [] p
  = (match map_res (fun k => match d_get (pstore p) k with
                             | None => Raise KeyError
                             | Some vs => Ok (k, length vs)
                             end) (pm_iterkeys p) with
     | Ok l => new_from l
     | Raise e => Raise e
     end, p).
Proof.
  intro G. rewrite sem_S, run_body_fin. unfold gen_prog, gen_counts. cbn [bind_params].
  apply exec_return_res. apply eval_newfrom_res.
  rewrite eval_comp1_unfold, (eval_iter n p _ G).
  rewrite (comp1f_go_map _ _ _ _ _ _ VNat (count_of p)).
  - rewrite (map_res_ext _ (fun k => match d_get (pstore p) k with
                                     | None => Raise KeyError
                                     | Some vs => Ok (k, length vs)
                                     end)).
    + destruct (map_res _ (pm_iterkeys p)); reflexivity.
    + intro k. unfold count_of. destruct (d_get (pstore p) k); reflexivity.
  - right. reflexivity.
  - intro t. reflexivity.
  - intro t. apply eval_count. reflexivity.
Qed.

(* ---- todict ------------------------------------------------------------------------------------------ *)
Lemma eval_getlist n p en x t : env_get en x = Ok (VTok t) ->
  eval (sem (S (S n))) en (ECall2 MGetList (EVar x) EMissing) p = (Ok (VToks (pm_getlist p t)), p).
Proof.
  intro E. cbn [eval]. rewrite E.
  rewrite (source_getlist (S n) p p t None : sem (S (S n)) MGetList [VTok t; VMissing] p = _).
  unfold pm_op, of_op, pm_getlist, d_getd. destruct (d_get (pstore p) t); reflexivity.
Qed.

Lemma eval_getitem n p en x t : env_get en x = Ok (VTok t) ->
  eval (sem (S (S n))) en (ECall1 MGetItem (EVar x)) p
  = match pm_getitem p t with Ok v => (Ok (VTok v), p) | Raise e => (Raise e, p) end.
Proof.
  intro E. cbn [eval]. rewrite E. rewrite (source_getitem (S n) p p t). unfold pm_op.
  destruct (pm_getitem p t); reflexivity.
Qed.

Lemma source_todict n p multi : Good p ->
  sem (S (S (S n))) MToDict [VBool multi] p
  = (if multi then Ok (VMulti (map (fun k => (k, pm_getlist p k)) (pm_iterkeys p)))
     else match map_res (fun k => do v <- pm_getitem p k; Ok (k, v)) (pm_iterkeys p) with
          | Ok l => Ok (VPairs l)
          | Raise e => Raise e
          end, p).
Proof.
  intro G. rewrite sem_S, run_body_fin. unfold gen_prog, gen_todict. cbn [bind_params].
  rewrite exec_seq, exec_if.
  assert (Ht : eval_truth (sem (S (S n))) (EVar 0) [(0, VBool multi)] p = (Ok multi, p)) by reflexivity.
  rewrite Ht. destruct multi.
  - cbn [exec]. rewrite eval_comp1_unfold, (eval_iter n p _ G).
    rewrite (comp1t_go_map _ _ _ _ _ _ (pm_getlist p)); [reflexivity | |].
    + intro t. reflexivity.
    + intro t. apply eval_getlist. reflexivity.
  - change (exec (sem (S (S n))) (fuel_of p) SPass [(0, VBool false)] p) with (ONormal, [(0, VBool false)], p).
    cbv iota. apply exec_return_res.
    rewrite eval_comp1_unfold, (eval_iter n p _ G).
    rewrite (comp1f_go_map _ _ _ _ _ _ VTok (pm_getitem p)).
    + destruct (map_res _ (pm_iterkeys p)); reflexivity.
    + left. reflexivity.
    + intro t. reflexivity.
    + intro t. apply eval_getitem. reflexivity.
Qed.

(* ---- __setstate__ ------------------------------------------------------------------------------------ *)
Lemma pinv_clear n : PInv (mkPomd [] h_clear [] n).
Proof.
  destruct (good_clear n) as [G E]. split; [exact G|]. rewrite E.
  split; [constructor | intro k; reflexivity].
Qed.

Lemma source_setstate n p l : Good p ->
  sem (S (S (S (S n)))) MSetState [VArg (APairs l)] p
  = (Ok (VTok none_tok), p_add_all (mkPomd [] h_clear [] (pnxt p)) l).
Proof.
  intros _. rewrite sem_S, run_body_fin. unfold gen_prog, gen_setstate. cbn [bind_params].
  cbn [exec eval]. rewrite (source_clear (S n) p). cbn [env_get Nat.eqb].
  set (c := mkPomd [] h_clear [] (pnxt p)).
  rewrite (source_update_extend n c c (APairs l) [] (pinv_clear (pnxt p)) (proj1 (pinv_clear (pnxt p))) eq_refl
           : sem (S (S (S n))) MUpdateExtend [VArg (APairs l); VKw []] c = _).
  reflexivity.
Qed.

Print Assumptions source_getstate.
Print Assumptions source_copy.
Print Assumptions source_sorted.
Print Assumptions source_inverted.
Print Assumptions source_counts.
Print Assumptions source_todict.
Print Assumptions source_setstate.
