(* C08 (T) tie: the decision structure of default_enter / default_exit /
   default_visit regenerated from the current source (Gen/C08_Src.v) coincides with
   what the model of remap assumes about them. *)
From Boltons Require Import Lib.Prelude Lib.C08_Py Spec.C08_Spec Model.C08_Model Gen.C08_Src.

(* default_enter: which values are traversed, and with which iterator - for every
   Python type of the universe (str and bytes are Sequences: the order of the
   tests matters) *)
Theorem source_enter : forall t, src_default_enter t = model_enter t.
Proof. intros []; reflexivity. Qed.

(* the machine's case analysis "container of kind k: enter it / anything else:
   visit it as a leaf" is default_enter's answer *)
Theorem source_enter_kind : forall k,
  src_default_enter (ty_of_kind k) = Traverse (match k with KDict => ItItems | _ => ItEnumerate end)
  /\ src_default_enter TyStr = NoTraverse /\ src_default_enter TyBytes = NoTraverse
  /\ src_default_enter TyOther = NoTraverse.
Proof. intros []; repeat split; reflexivity. Qed.

(* default_exit: per kind, filled in place (list.extend / set.update / dict.update)
   or rebuilt by the constructor (tuple, frozenset: no extend/update attribute) *)
Theorem source_exit : forall k,
  resolve_exit gen_hasattr (ty_of_kind k) (src_default_exit (ty_of_kind k)) = Some (model_exit k).
Proof. intros []; reflexivity. Qed.

(* anything that is not a Mapping/Sequence/Set: RuntimeError *)
Theorem source_exit_other : resolve_exit gen_hasattr TyOther (src_default_exit TyOther) = None.
Proof. reflexivity. Qed.

(* the blank registered at enter is the final object exactly when exit fills in
   place: this is the single place where the code deviates from the Spec *)
Theorem blank_from_exit : forall id k,
  impl_blank id k = if in_place (model_exit k) then ORef id k else OBlank k.
Proof. intros id []; reflexivity. Qed.

(* default_visit returns the pair unchanged = the action "keep" *)
Theorem source_visit : forall (ky : key) (v : obj),
  apply_action oval (Put None None) ky v = Some (src_default_visit ky v).
Proof. reflexivity. Qed.

(* get_path: the source's lookup step (subscript, the two except clauses, the
   int(seg) retry) is the model's [getitem], every failure being PathAccessError *)
Theorem source_get_path_step : forall defs cur seg,
  src_get_path_step defs cur seg =
  match getitem defs cur seg with Ok c => Ok c | Raise _ => Raise PathAccessError end.
Proof.
  intros defs cur seg. unfold src_get_path_step, raw_getitem, getitem.
  destruct (resolve defs cur) as [n|id k items|id k|k|id k|w];
    try (destruct seg as [|i|t|i]; reflexivity).
  destruct k.
  - destruct seg as [|i|t|i]; cbn; try reflexivity; destruct (nth_error items i) as [[k' c]|]; reflexivity.
  - destruct seg as [|i|t|i]; cbn; try reflexivity; destruct (nth_error items i) as [[k' c]|]; reflexivity.
  - destruct (kd_get items seg); reflexivity.
  - destruct seg as [|i|t|i]; reflexivity.
  - destruct seg as [|i|t|i]; reflexivity.
Qed.

(* research: the enter wrapper, folded over the enter calls, is [reported_x] *)
Fixpoint research_fold (q : mquery_fn) (reraise : bool) (lg : list event) : res (list (path * oref)) :=
  match lg with
  | [] => Ok []
  | EEnter p k r s :: rest =>
      match src_research_enter (q p k s) reraise p k r with
      | RReport p' r' => match research_fold q reraise rest with Ok l => Ok ((p', r') :: l) | Raise e => Raise e end
      | RSkip => research_fold q reraise rest
      | RRaise => Raise QueryError
      end
  | _ :: rest => research_fold q reraise rest
  end.

Theorem source_research : forall q reraise lg, research_fold q reraise lg = reported_x q reraise lg.
Proof.
  intros q reraise. induction lg as [|e rest IH]; [reflexivity|].
  destruct e as [p k r s| |]; cbn [research_fold reported_x]; try exact IH.
  unfold src_research_enter. destruct (q p k s) as [[|]|]; [rewrite IH; reflexivity|exact IH|].
  destruct reraise; [reflexivity|exact IH].
Qed.
