(* C02: the pointer-level linked list: chains of cells, the representation
   predicate, linking a cell before the anchor, unlinking a cell. *)
From Boltons Require Import Lib.Prelude Lib.C02_Syntax Spec.C02_Spec Model.C02_Model Proofs.C02_Lists.
From Boltons Require Import Model.C02_PtrModel.
Close Scope N_scope.
Open Scope nat_scope.

(* ---- heap updates ------------------------------------------------------------- *)
Lemma upd_same h i c : upd h i c i = c.
Proof. unfold upd. now rewrite Nat.eqb_refl. Qed.
Lemma upd_other h i c j : j <> i -> upd h i c j = h j.
Proof. unfold upd. intro H. destruct (Nat.eqb_spec j i); [congruence|reflexivity]. Qed.

Ltac heap_simpl :=
  repeat (unfold set_prev, set_next, set_key, set_val;
          first [rewrite upd_same | rewrite upd_other by congruence]; simpl).

(* ---- chains --------------------------------------------------------------------- *)
(* consecutive cells of the list point at each other *)
Fixpoint chain (h : heap) (l : list id) : Prop :=
  match l with
  | x :: r => match r with
              | y :: _ => c_next (h x) = y /\ c_prev (h y) = x /\ chain h r
              | [] => True
              end
  | [] => True
  end.

Lemma chain_cons2 h x y r : chain h (x :: y :: r) <-> c_next (h x) = y /\ c_prev (h y) = x /\ chain h (y :: r).
Proof. simpl. tauto. Qed.

Lemma chain_app_mid h l1 : forall m l2,
  chain h (l1 ++ m :: l2) <-> chain h (l1 ++ [m]) /\ chain h (m :: l2).
Proof.
  induction l1 as [|x r IH]; intros m l2.
  - simpl. tauto.
  - destruct r as [|y r'].
    + simpl. tauto.
    + change ((x :: y :: r') ++ m :: l2) with (x :: y :: (r' ++ m :: l2)).
      change ((x :: y :: r') ++ [m]) with (x :: y :: (r' ++ [m])).
      rewrite !chain_cons2. specialize (IH m l2). simpl app in IH. rewrite IH. tauto.
Qed.

(* what a chain reads: NEXT of all but the last, PREV of all but the first *)
Lemma chain_frame h h' l :
  (forall j, In j (removelast l) -> c_next (h' j) = c_next (h j)) ->
  (forall j, In j (tl l) -> c_prev (h' j) = c_prev (h j)) ->
  chain h l -> chain h' l.
Proof.
  induction l as [|x r IH]; intros HN HP C; [exact I|].
  destruct r as [|y r']; [exact I|].
  apply chain_cons2 in C as [C1 [C2 C3]]. apply chain_cons2. repeat split.
  - rewrite HN; [assumption|]. simpl. now left.
  - rewrite HP; [assumption|]. simpl. now left.
  - apply IH; try assumption.
    + intros j Hj. apply HN. simpl. right. exact Hj.
    + intros j Hj. apply HP. simpl. right. exact Hj.
Qed.

Lemma removelast_snoc {A} (l : list A) x : removelast (l ++ [x]) = l.
Proof. apply removelast_last. Qed.

(* ---- the representation -------------------------------------------------------------- *)
Fixpoint cells_hold (h : heap) (ids : list id) (l : list (K * V)) : Prop :=
  match ids, l with
  | [], [] => True
  | i :: ir, (k, v) :: lr => c_key (h i) = Some k /\ c_val (h i) = Some v /\ cells_hold h ir lr
  | _, _ => False
  end.

Lemma cells_hold_length h ids : forall l, cells_hold h ids l -> length ids = length l.
Proof.
  induction ids as [|i ir IH]; destruct l as [|[k v] lr]; simpl; try tauto.
  intros [_ [_ H]]. f_equal. now apply IH.
Qed.

Lemma cells_hold_frame h h' ids : forall l,
  (forall j, In j ids -> c_key (h' j) = c_key (h j) /\ c_val (h' j) = c_val (h j)) ->
  cells_hold h ids l -> cells_hold h' ids l.
Proof.
  induction ids as [|i ir IH]; destruct l as [|[k v] lr]; simpl; try tauto.
  intros F [H1 [H2 H3]]. destruct (F i (or_introl eq_refl)) as [E1 E2].
  repeat split; try congruence. apply IH; [|assumption]. intros j Hj. apply F. now right.
Qed.

Lemma cells_hold_app h ids1 : forall l1 ids2 l2,
  cells_hold h ids1 l1 -> cells_hold h ids2 l2 -> cells_hold h (ids1 ++ ids2) (l1 ++ l2).
Proof.
  induction ids1 as [|i ir IH]; destruct l1 as [|[k v] lr]; simpl; try tauto.
  intros ids2 l2 [H1 [H2 H3]] H. repeat split; auto.
Qed.

Lemma cells_hold_split h ids1 : forall l ids2,
  cells_hold h (ids1 ++ ids2) l ->
  cells_hold h ids1 (firstn (length ids1) l) /\ cells_hold h ids2 (skipn (length ids1) l).
Proof.
  induction ids1 as [|i ir IH]; intros l ids2 H; simpl in *.
  - split; [exact I|exact H].
  - destruct l as [|[k v] lr]; [tauto|]. destruct H as [H1 [H2 H3]].
    destruct (IH lr ids2 H3) as [A B]. simpl. repeat split; assumption.
Qed.

Record Rep (pr : pring) (l : list (K * V)) (ids : list id) : Prop := mkRep {
  rep_nodup : NoDup (pr_anchor pr :: ids);
  rep_chain : chain (pr_heap pr) (pr_anchor pr :: ids ++ [pr_anchor pr]);
  rep_cells : cells_hold (pr_heap pr) ids l;
  rep_lookup : map_eq (pr_lookup pr) (combine (keys l) ids);
  rep_lookup_nd : NoDup (keys (pr_lookup pr));
  rep_fresh : Forall (fun i => i < pr_fresh pr) (pr_anchor pr :: ids)
}.

(* PREV of the anchor is the last cell (the newest), or the anchor itself *)
Lemma chain_last_prev h a ids : chain h (a :: ids ++ [a]) -> c_prev (h a) = last ids a /\ c_next (h (last ids a)) = a.
Proof.
  intro C. destruct (@exists_last _ (a :: ids)) as [L [s E]]; [discriminate|].
  assert (S : last ids a = s).
  { destruct ids as [|i r]; [destruct L; inversion E; [reflexivity|destruct L; discriminate]|].
    change (last (i :: r) a) with (last (a :: i :: r) a). rewrite E. apply last_last. }
  change (a :: ids ++ [a]) with ((a :: ids) ++ [a]) in C. rewrite E, <- app_assoc in C. simpl in C.
  apply chain_app_mid in C as [_ C]. apply chain_cons2 in C as [C1 [C2 _]]. rewrite S. auto.
Qed.

(* ---- linking a cell n before the anchor (it becomes the newest) ------------------ *)
Lemma chain_link_last h h' a ids n s :
  NoDup (a :: ids) -> ~ In n (a :: ids) -> chain h (a :: ids ++ [a]) -> s = c_prev (h a) ->
  (forall j, j <> s -> j <> n -> c_next (h' j) = c_next (h j)) ->
  (forall j, j <> a -> j <> n -> c_prev (h' j) = c_prev (h j)) ->
  c_next (h' s) = n -> c_prev (h' a) = n -> c_prev (h' n) = s -> c_next (h' n) = a ->
  chain h' (a :: (ids ++ [n]) ++ [a]).
Proof.
  intros ND NI C Es FN FP N1 P1 P2 N2.
  destruct (chain_last_prev h a ids C) as [Ls _].
  destruct (@exists_last _ (a :: ids)) as [L [s' E]]; [discriminate|].
  assert (S : last ids a = s').
  { destruct ids as [|i r]; [destruct L; inversion E; [reflexivity|destruct L; discriminate]|].
    change (last (i :: r) a) with (last (a :: i :: r) a). rewrite E. apply last_last. }
  assert (Q : s' = s) by congruence. rewrite Q in *. clear Q Ls S s'.
  replace (a :: (ids ++ [n]) ++ [a]) with (L ++ s :: [n; a])
    by (change (a :: (ids ++ [n]) ++ [a]) with ((a :: ids ++ [n]) ++ [a]);
        rewrite app_comm_cons, E, <- !app_assoc; reflexivity).
  change (a :: ids ++ [a]) with ((a :: ids) ++ [a]) in C. rewrite E, <- app_assoc in C. simpl in C.
  apply chain_app_mid in C as [C1 _].
  apply chain_app_mid. split.
  - (* the old part, untouched *)
    rewrite <- E in *. eapply chain_frame; [| |exact C1].
    + intros j Hj. rewrite E, removelast_snoc in Hj. apply FN.
      * intro; subst j. rewrite E in ND. apply NoDup_remove_2 in ND. rewrite app_nil_r in ND. tauto.
      * intro; subst j. apply NI. rewrite E. apply in_or_app. now left.
    + intros j Hj. simpl in Hj. apply FP.
      * intro; subst j. inversion ND; subst. tauto.
      * intro; subst j. apply NI. now right.
  - simpl. repeat split; assumption.
Qed.

Lemma nodup_app_inv {A} (l1 l2 : list A) :
  NoDup (l1 ++ l2) -> NoDup l1 /\ NoDup l2 /\ (forall x, In x l1 -> In x l2 -> False).
Proof.
  induction l1 as [|x r IH]; simpl; intro ND.
  - repeat split; [constructor|assumption|tauto].
  - inversion ND as [|? ? NI NDr]; subst. destruct (IH NDr) as [A1 [A2 A3]].
    repeat split; [|assumption|].
    + constructor; [|assumption]. intro H. apply NI. apply in_or_app. now left.
    + intros y [->|Hy] Hy2; [apply NI; apply in_or_app; now right|eauto].
Qed.

(* ---- unlinking a cell n ----------------------------------------------------------- *)
Lemma chain_unlink h h' a ids1 n ids2 p q :
  NoDup (a :: ids1 ++ n :: ids2) -> chain h (a :: (ids1 ++ n :: ids2) ++ [a]) ->
  p = c_prev (h n) -> q = c_next (h n) ->
  (forall j, j <> p -> c_next (h' j) = c_next (h j)) ->
  (forall j, j <> q -> c_prev (h' j) = c_prev (h j)) ->
  c_next (h' p) = q -> c_prev (h' q) = p ->
  chain h' (a :: (ids1 ++ ids2) ++ [a]).
Proof.
  intros ND C Ep Eq FN FP N1 P1.
  destruct (@exists_last _ (a :: ids1)) as [L [p' E]]; [discriminate|].
  (* q' :: R = ids2 ++ [a] *)
  set (T := ids2 ++ [a]). assert (ET : exists q' R, T = q' :: R).
  { unfold T. destruct ids2; simpl; eauto. }
  destruct ET as [q' [R ET]].
  assert (F1 : a :: (ids1 ++ n :: ids2) ++ [a] = L ++ p' :: n :: q' :: R).
  { rewrite <- app_assoc. simpl. rewrite app_comm_cons, E, <- app_assoc. simpl. fold T. now rewrite ET. }
  assert (F2 : a :: (ids1 ++ ids2) ++ [a] = L ++ p' :: q' :: R).
  { rewrite <- app_assoc. rewrite app_comm_cons, E, <- app_assoc. simpl. fold T. now rewrite ET. }
  rewrite F1 in C. rewrite F2.
  apply chain_app_mid in C as [C1 C2]. apply chain_cons2 in C2 as [A1 [A2 C3]].
  apply chain_cons2 in C3 as [A3 [A4 C4]].
  assert (Qp : p' = p) by congruence. assert (Qq : q' = q) by congruence.
  rewrite Qp, Qq in *. clear Qp Qq p' q'.
  (* membership facts *)
  assert (NDa : NoDup ((a :: ids1) ++ n :: ids2)) by exact ND.
  destruct (nodup_app_inv _ _ NDa) as [ND1 [ND2 D1]].
  assert (Pin : In p (a :: ids1)) by (rewrite E; apply in_or_app; right; now left).
  assert (Qin : In q T) by (rewrite ET; now left).
  apply chain_app_mid. split; [|apply chain_cons2; repeat split; try assumption].
  - eapply chain_frame; [| |exact C1].
    + intros j Hj. rewrite removelast_snoc in Hj. apply FN. intro; subst j.
      rewrite E in ND1. apply NoDup_remove_2 in ND1. rewrite app_nil_r in ND1. tauto.
    + intros j Hj. apply FP. intro; subst j.
      assert (Hj' : In q ids1).
      { assert (tl (L ++ [p]) = ids1) by (rewrite <- E; reflexivity). now rewrite <- H. }
      unfold T in Qin. apply in_app_or in Qin as [Qin|[Qin|[]]].
      * apply (D1 q); [now right|now right].
      * subst q. inversion ND1; subst. tauto.
  - eapply chain_frame; [| |exact C4].
    + intros j Hj. apply FN. intro; subst j.
      assert (Hj' : In p ids2).
      { assert (removelast (q :: R) = ids2) by (rewrite <- ET; unfold T; apply removelast_snoc). now rewrite <- H. }
      apply (D1 p); [assumption|now right].
    + intros j Hj. simpl in Hj. apply FP. intro; subst j.
      (* q is the head of q :: R = ids2 ++ [a] and occurs again in R *)
      unfold T in ET. destruct ids2 as [|i r]; simpl in ET; inversion ET; subst.
      * destruct Hj.
      * apply in_app_or in Hj as [Hj|[Hj|[]]].
        -- inversion ND2 as [|? ? _ ND3]; subst. inversion ND3; subst. tauto.
        -- apply (D1 a); [now left|right; left; now rewrite <- Hj].
Qed.
