(* C10 - the reference's choice, characterised declaratively: [best] returns a
   live task of highest priority, and every task inserted before it has a
   strictly lower priority (first-in first-out among equals). *)
From Boltons Require Import Lib.Prelude Spec.C10_Spec.
Local Open Scope Z_scope.

Lemma best_from_split : forall r d1 cur d2 x,
  (forall y, In y d1 -> snd y < snd cur) ->
  (forall y, In y d2 -> snd y <= snd cur) ->
  best_from cur r = x ->
  exists l1 l2, d1 ++ cur :: d2 ++ r = l1 ++ x :: l2 /\
                (forall y, In y l1 -> snd y < snd x) /\
                (forall y, In y l2 -> snd y <= snd x).
Proof.
  induction r as [|a r IH]; intros d1 cur d2 x H1 H2 E.
  - simpl in E. subst x. exists d1, d2. rewrite app_nil_r. auto.
  - simpl in E. destruct (Z.ltb_spec (snd cur) (snd a)) as [Hlt|Hge].
    + destruct (IH (d1 ++ cur :: d2) a [] x) as (l1 & l2 & Eq & A & B); auto.
      * intros y Hy. apply in_app_iff in Hy as [Hy|[Hy|Hy]].
        -- specialize (H1 y Hy). lia.
        -- subst y. lia.
        -- specialize (H2 y Hy). lia.
      * intros y [].
      * exists l1, l2. split; [|auto]. rewrite <- Eq. simpl. rewrite <- app_assoc. reflexivity.
    + destruct (IH d1 cur (d2 ++ [a]) x) as (l1 & l2 & Eq & A & B); auto.
      * intros y Hy. apply in_app_iff in Hy as [Hy|[Hy|[]]]; [auto|subst y; lia].
      * exists l1, l2. split; [|auto]. rewrite <- Eq. rewrite <- app_assoc. reflexivity.
Qed.

Theorem best_highest_then_earliest (s : spec_state) (x : K * Z) :
  best s = Some x ->
  exists earlier later, s = earlier ++ x :: later /\
                        (forall y, In y earlier -> snd y < snd x) /\
                        (forall y, In y later -> snd y <= snd x).
Proof.
  destruct s as [|c r]; [discriminate|]. simpl. intro E. inversion E as [E'].
  destruct (best_from_split r [] c [] x) as (l1 & l2 & Eq & A & B); auto.
  - intros y [].
  - intros y [].
  - exists l1, l2. rewrite E'. auto.
Qed.

Theorem best_none_iff_empty (s : spec_state) : best s = None <-> s = [].
Proof. destruct s; simpl; split; congruence. Qed.
