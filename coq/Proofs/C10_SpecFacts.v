(* C10 - the reference's choice, characterised declaratively: [best] returns a
   live task of highest priority, and every task inserted before it has a
   strictly lower priority (first-in first-out among equals). *)
From Boltons Require Import Lib.Prelude Spec.C10_Spec.
Local Open Scope Z_scope.

Lemma best_from_split : forall r d1 cur d2 x,
  (forall y, In y d1 -> snd y < snd cur) ->
  (forall y, In y d2 -> snd y <= snd cur) ->
  best_from cur r = x ->
  exists l1 l2, d1 ++ cur :: d2 ++ r = l1 ++ x :: l2 /\
                (forall y, In y l1 -> snd y < snd x) /\
                (forall y, In y l2 -> snd y <= snd x).
Proof.
  induction r as [|a r IH]; intros d1 cur d2 x H1 H2 E.
  - simpl in E. subst x. exists d1, d2. rewrite app_nil_r. auto.
  - simpl in E. destruct (Z.ltb_spec (snd cur) (snd a)) as [Hlt|Hge].
    + destruct (IH (d1 ++ cur :: d2) a [] x) as (l1 & l2 & Eq & A & B); auto.
      * intros y Hy. apply in_app_iff in Hy as [Hy|[Hy|Hy]].
        -- specialize (H1 y Hy). lia.
        -- subst y. lia.
        -- specialize (H2 y Hy). lia.
      * intros y [].
      * exists l1, l2. split; [|auto]. rewrite <- Eq. simpl. rewrite <- app_assoc. reflexivity.
    + destruct (IH d1 cur (d2 ++ [a]) x) as (l1 & l2 & Eq & A & B); auto.
      * intros y Hy. apply in_app_iff in Hy as [Hy|[Hy|[]]]; [auto|subst y; lia].
      * exists l1, l2. split; [|auto]. rewrite <- Eq. rewrite <- app_assoc. reflexivity.
Qed.

Theorem best_highest_then_earliest (s : spec_state) (x : K * Z) :
  best s = Some x ->
  exists earlier later, s = earlier ++ x :: later /\
                        (forall y, In y earlier -> snd y < snd x) /\
                        (forall y, In y later -> snd y <= snd x).
Proof.
  destruct s as [|c r]; [discriminate|]. simpl. intro E. inversion E as [E'].
  destruct (best_from_split r [] c [] x) as (l1 & l2 & Eq & A & B); auto.
  - intros y [].
  - intros y [].
  - exists l1, l2. rewrite E'. auto.
Qed.

Theorem best_none_iff_empty (s : spec_state) : best s = None <-> s = [].
Proof. destruct s; simpl; split; congruence. Qed.

(* ---- what the reference guarantees, in the words of the property ---------------------- *)
Lemma best_from_In (r : spec_state) cur : In (best_from cur r) (cur :: r).
Proof.
  revert cur. induction r as [|x r IH]; intro cur; simpl; [now left|].
  destruct (snd cur <? snd x).
  - right. apply IH.
  - destruct (IH cur) as [E|H]; [left; exact E|right; right; exact H].
Qed.

Lemma s_mem_In (s : spec_state) t : s_mem s t = true <-> In t (map fst s).
Proof.
  unfold s_mem. rewrite existsb_exists, in_map_iff. split.
  - intros (x & Hx & E). apply Nat.eqb_eq in E. eauto.
  - intros (x & E & Hx). exists x. split; [exact Hx|]. now apply Nat.eqb_eq.
Qed.

Lemma s_del_not_mem (s : spec_state) t : s_mem (s_del s t) t = false.
Proof.
  apply not_true_is_false. rewrite s_mem_In, in_map_iff. intros (x & E & Hx).
  unfold s_del in Hx. apply filter_In in Hx as [_ Hx]. apply negb_true_iff, Nat.eqb_neq in Hx. exact (Hx E).
Qed.

(* pop/peek only ever return a live task (or, on an empty queue, the caller's own
   default); pop removes what it returns *)
Theorem pop_returns_live s d s' t :
  spec_step s (Pop d) = (s', OTask t) ->
  (s_mem s t = true /\ s_mem s' t = false /\ s' = s_del s t) \/ (s = [] /\ s' = [] /\ d = Some (DTask t)).
Proof.
  simpl. destruct (best s) as [[t0 p0]|] eqn:B.
  - intros [= <- <-]. left. split; [|split; [apply s_del_not_mem|reflexivity]].
    apply s_mem_In. destruct s as [|c r]; [discriminate|]. simpl in B. inversion B as [E].
    pose proof (best_from_In r c) as H. rewrite E in H. apply (in_map fst) in H. exact H.
  - apply best_none_iff_empty in B. subst s. destruct d as [[t0|v0]|]; intros [= <- E]; try discriminate.
    right. inversion E. auto.
Qed.

Theorem peek_returns_live s d s' t :
  spec_step s (Peek d) = (s', OTask t) ->
  s' = s /\ (s_mem s t = true \/ (s = [] /\ d = Some (DTask t))).
Proof.
  simpl. destruct (best s) as [[t0 p0]|] eqn:B.
  - intros [= <- <-]. split; [reflexivity|]. left.
    apply s_mem_In. destruct s as [|c r]; [discriminate|]. simpl in B. inversion B as [E].
    pose proof (best_from_In r c) as H. rewrite E in H. apply (in_map fst) in H. exact H.
  - apply best_none_iff_empty in B. subst s. destruct d as [[t0|v0]|]; intros [= <- E]; try discriminate.
    split; [reflexivity|]. right. inversion E. auto.
Qed.

(* a pop that returns the default leaves the queue as it was: empty *)
Theorem pop_default_only_when_empty s d s' v :
  spec_step s (Pop d) = (s', ODefault v) -> s = [] /\ s' = [].
Proof.
  simpl. destruct (best s) as [[t0 p0]|] eqn:B; [intros [= _ E]; discriminate|].
  apply best_none_iff_empty in B. subst s. destruct d as [[t0|v0]|]; intros [= <- E]; auto.
Qed.

Theorem remove_makes_dead s t s' o : spec_step s (Remove t) = (s', o) -> s_mem s' t = false.
Proof.
  simpl. destruct (s_mem s t) eqn:M; intros [= <- _]; [apply s_del_not_mem|exact M].
Qed.

(* the live tasks are pairwise distinct, so len counts tasks *)
Theorem tasks_unique_step s op : NoDup (map fst s) -> NoDup (map fst (fst (spec_step s op))).
Proof.
  intro ND.
  assert (Hdel : forall t, NoDup (map fst (s_del s t))).
  { intro t. unfold s_del. clear -ND. induction s as [|[k z] r IH]; simpl; [constructor|].
    simpl in ND. inversion ND as [|? ? Hx ND']; subst. destruct (Nat.eqb k t); simpl; [auto|].
    constructor; [|auto]. intro H. apply Hx. apply in_map_iff in H as (y & E & Hy).
    apply filter_In in Hy as [Hy _]. apply in_map_iff. eauto. }
  destruct op as [t p|t e|t|d|d|]; simpl.
  - rewrite map_app. simpl.
    assert (Hn : ~ In t (map fst (s_del s t))) by (rewrite <- s_mem_In, s_del_not_mem; discriminate).
    specialize (Hdel t). revert Hdel Hn. generalize (map fst (s_del s t)). intros l.
    induction l as [|a l IH]; simpl; intros ND1 Hn; [constructor; [tauto|constructor]|].
    inversion ND1; subst. constructor.
    + rewrite in_app_iff. simpl. intuition congruence.
    + apply IH; tauto.
  - exact ND.
  - destruct (s_mem s t); simpl; auto.
  - destruct (best s) as [[t0 p0]|]; simpl; auto.
  - destruct (best s) as [[t0 p0]|]; simpl; auto.
  - exact ND.
Qed.

(* an operation that raises leaves the queue unchanged (add with a rejected priority - fresh or
   live task -, remove of an absent task, pop/peek on an empty queue without default) *)
Theorem error_leaves_unchanged s op s' e : spec_step s op = (s', OErr e) -> s' = s.
Proof.
  destruct op as [t p|t e0|t|d|d|]; simpl.
  - intro H; inversion H.
  - now intros [= <- _].
  - destruct (s_mem s t); intro H; inversion H; reflexivity.
  - destruct (best s) as [[t0 p0]|]; [intro H; inversion H|]. now intros [= <- _].
  - destruct (best s) as [[t0 p0]|]; [intro H; inversion H|]. now intros [= <- _].
  - intro H; inversion H.
Qed.

(* ... and so does every operation that does not return normally-with-effect: the only
   observations after which the state differs are ONone (add/remove) and OTask (pop) *)
Theorem only_add_remove_pop_change s op s' o :
  spec_step s op = (s', o) -> s' <> s ->
  (exists t p, op = Add t p /\ o = ONone) \/ (exists t, op = Remove t /\ o = ONone) \/
  (exists d t, op = Pop d /\ o = OTask t).
Proof.
  destruct op as [t p|t e0|t|d|d|]; simpl.
  - intros [= <- <-] _. left. eauto.
  - intros [= <- _] H. congruence.
  - destruct (s_mem s t); intros [= <- <-] H; [right; left; eauto|congruence].
  - destruct (best s) as [[t0 p0]|]; intros [= <- <-] H; [right; right; eauto|congruence].
  - destruct (best s) as [[t0 p0]|]; intros [= <- _] H; congruence.
  - intros [= <- _] H. congruence.
Qed.
