(* C01: the three primitives _insert / _remove / _remove_all keep the cell map in step with
   the linked list, and what they do to the abstract pair list. *)
From Boltons Require Import Lib.Prelude Spec.C01_Spec Model.C01_Model Proofs.C01_Base.

Definition cells_of (l : list cell) (k : K) : list cell := filter (fun c => Nat.eqb (c_key c) k) l.

Lemma ids_of_cells l k : ids_of l k = map c_id (cells_of l k).
Proof. reflexivity. Qed.

Lemma vals_of_cells l k : vals_of (map ckv l) k = map c_val (cells_of l k).
Proof.
  unfold vals_of, cells_of. induction l as [|c r IH]; simpl; [reflexivity|].
  unfold keyb at 1. simpl. destruct (Nat.eqb (c_key c) k); simpl; rewrite IH; reflexivity.
Qed.

Lemma has_key_cells l k : has_key (map ckv l) k = false <-> cells_of l k = [].
Proof.
  rewrite has_key_vals, vals_of_cells. destruct (cells_of l k); simpl; split; intro H; try reflexivity; discriminate.
Qed.

Lemma ids_vals_nil l k : ids_of l k = [] <-> vals_of (map ckv l) k = [].
Proof.
  rewrite ids_of_cells, vals_of_cells. destruct (cells_of l k); simpl; split; intro H; try reflexivity; discriminate.
Qed.

Lemma cells_of_app l1 l2 k : cells_of (l1 ++ l2) k = cells_of l1 k ++ cells_of l2 k.
Proof. apply filter_app. Qed.

Lemma ids_of_app l1 l2 k : ids_of (l1 ++ l2) k = ids_of l1 k ++ ids_of l2 k.
Proof. unfold ids_of. rewrite filter_app, map_app. reflexivity. Qed.

Lemma d_getd_ne_opt {B} (d : pydict (list B)) k l : d_get d k = ne_opt l -> d_getd d k = l.
Proof. unfold d_getd. intro H. rewrite H. destruct l; reflexivity. Qed.

Lemma ne_opt_app_single {A} (l : list A) x : ne_opt (l ++ [x]) = Some (l ++ [x]).
Proof. destruct l; reflexivity. Qed.

Lemma NoDup_snoc {A} (l : list A) x : NoDup l -> ~ In x l -> NoDup (l ++ [x]).
Proof.
  induction l as [|y r IH]; simpl; intros H1 H2.
  - constructor; [tauto | constructor].
  - inversion H1; subst. constructor.
    + rewrite in_app_iff. simpl. intros [H|[H|[]]]; [contradiction | subst; tauto].
    + apply IH; [assumption | tauto].
Qed.

(* ---- _insert ------------------------------------------------------------------------------ *)
Lemma abs_insert s k v : abs (ll_insert s k v) = abs s ++ [(k, v)].
Proof. unfold abs, m_items, ll_insert. simpl. rewrite map_app. reflexivity. Qed.

Lemma store_insert s k v : store (ll_insert s k v) = store s.
Proof. reflexivity. Qed.

Lemma CmapOk_insert s k v : CmapOk s -> CmapOk (ll_insert s k v).
Proof.
  intros [Hid [Hfresh [Hnd Hget]]]. unfold CmapOk, ll_insert. simpl. repeat split.
  - rewrite map_app. simpl. apply NoDup_snoc; [assumption|].
    intro Hin. apply in_map_iff in Hin as [c [E Hc]]. apply Hfresh in Hc. lia.
  - intros c Hc. apply in_app_iff in Hc as [Hc|[Hc|[]]].
    + apply Hfresh in Hc. lia.
    + subst c. simpl. lia.
  - apply d_set_NoDup. assumption.
  - intro k'. rewrite d_get_set, ids_of_app. unfold ids_of at 2. simpl.
    destruct (Nat.eqb k' k) eqn:E.
    + apply Nat.eqb_eq in E. subst k'. rewrite Nat.eqb_refl. simpl.
      rewrite (d_getd_ne_opt _ _ _ (Hget k)). symmetry. apply ne_opt_app_single.
    + rewrite Nat.eqb_sym, E. simpl. rewrite app_nil_r. apply Hget.
Qed.

(* ---- unlink -------------------------------------------------------------------------------- *)
Lemma fold_unlink ids l :
  fold_left unlink ids l = filter (fun c => negb (mem_nat (c_id c) ids)) l.
Proof.
  revert l. induction ids as [|i r IH]; intro l; simpl.
  - symmetry. apply filter_all. reflexivity.
  - rewrite IH. unfold unlink. rewrite filter_filter. apply filter_ext. intro c.
    rewrite negb_orb. reflexivity.
Qed.

Lemma NoDup_map_inj (l : list cell) c c' :
  NoDup (map c_id l) -> In c l -> In c' l -> c_id c = c_id c' -> c = c'.
Proof.
  induction l as [|x r IH]; simpl; intros H Hc Hc' E; [contradiction|].
  inversion H; subst.
  destruct Hc as [Hc|Hc], Hc' as [Hc'|Hc'].
  - congruence.
  - subst x. exfalso. apply H2. rewrite E. apply in_map. assumption.
  - subst x. exfalso. apply H2. rewrite <- E. apply in_map. assumption.
  - apply IH; assumption.
Qed.

Lemma NoDup_map_filter (p : cell -> bool) l : NoDup (map c_id l) -> NoDup (map c_id (filter p l)).
Proof.
  induction l as [|x r IH]; simpl; intro H; [constructor|].
  inversion H; subst. destruct (p x); simpl; [constructor|]; try (apply IH; assumption).
  intro Hin. apply H2. apply in_map_iff in Hin as [c [E Hc]]. apply filter_In in Hc as [Hc _].
  rewrite <- E. apply in_map. assumption.
Qed.

(* membership of a cell's id among the ids of key k = the cell has key k *)
Lemma id_in_ids_of l k c : NoDup (map c_id l) -> In c l ->
  mem_nat (c_id c) (ids_of l k) = Nat.eqb (c_key c) k.
Proof.
  intros Hnd Hc. destruct (Nat.eqb (c_key c) k) eqn:E.
  - apply mem_nat_In. unfold ids_of. apply in_map. apply filter_In. split; assumption.
  - apply mem_nat_false. intro Hin. unfold ids_of in Hin. apply in_map_iff in Hin as [c' [E' Hc']].
    apply filter_In in Hc' as [Hc' Hk]. assert (c' = c) by (apply (NoDup_map_inj l); assumption).
    subst c'. congruence.
Qed.

Lemma abs_filter_key (l : list cell) k :
  map ckv (filter (fun c => negb (Nat.eqb (c_key c) k)) l) = remove_key (map ckv l) k.
Proof.
  unfold remove_key. induction l as [|c r IH]; simpl; [reflexivity|].
  unfold keyb at 1. simpl. destruct (Nat.eqb (c_key c) k); simpl; rewrite IH; reflexivity.
Qed.

Lemma ids_of_filter_key l k k' :
  ids_of (filter (fun c => negb (Nat.eqb (c_key c) k)) l) k' = if Nat.eqb k' k then [] else ids_of l k'.
Proof.
  unfold ids_of. rewrite filter_filter. destruct (Nat.eqb k' k) eqn:E.
  - apply Nat.eqb_eq in E. subst. rewrite filter_none; [reflexivity|].
    intros c _. destruct (Nat.eqb (c_key c) k); reflexivity.
  - f_equal. apply filter_ext. intro c.
    destruct (Nat.eqb (c_key c) k) eqn:E1, (Nat.eqb (c_key c) k') eqn:E2; try reflexivity.
    apply Nat.eqb_eq in E1, E2. subst. rewrite Nat.eqb_refl in E. discriminate.
Qed.

(* ---- _remove_all ---------------------------------------------------------------------------- *)
Lemma remove_all_ok s k : CmapOk s -> has_key (abs s) k = true ->
  exists s', ll_remove_all s k = Ok s' /\ CmapOk s' /\ store s' = store s /\
             abs s' = remove_key (abs s) k.
Proof.
  intros [Hid [Hfresh [Hnd Hget]]] Hk.
  assert (Hne : ids_of (ll s) k <> []).
  { intro H. apply ids_vals_nil in H. apply has_key_vals in H. unfold abs, m_items in Hk. congruence. }
  unfold ll_remove_all. rewrite Hget. destruct (ids_of (ll s) k) as [|i0 ir] eqn:Eids; [contradiction|].
  simpl ne_opt. cbv iota. eexists. split; [reflexivity|].
  assert (Hll : fold_left unlink (rev (i0 :: ir)) (ll s)
                = filter (fun c => negb (Nat.eqb (c_key c) k)) (ll s)).
  { rewrite fold_unlink. apply filter_ext_in. intros c Hc. f_equal.
    assert (mem_nat (c_id c) (rev (i0 :: ir)) = mem_nat (c_id c) (ids_of (ll s) k)).
    { rewrite Eids. destruct (mem_nat (c_id c) (i0 :: ir)) eqn:E1.
      - apply mem_nat_In. apply in_rev. rewrite rev_involutive. apply mem_nat_In. assumption.
      - apply mem_nat_false. intro H. apply in_rev in H. apply mem_nat_false in E1. contradiction. }
    rewrite H. apply id_in_ids_of; assumption. }
  rewrite Hll. repeat split; simpl.
  - apply NoDup_map_filter. assumption.
  - intros c Hc. apply filter_In in Hc as [Hc _]. apply Hfresh. assumption.
  - apply d_del_NoDup. assumption.
  - intro k'. rewrite d_get_del by assumption. rewrite ids_of_filter_key.
    destruct (Nat.eqb k' k); [reflexivity | apply Hget].
  - unfold abs, m_items. simpl. apply abs_filter_key.
Qed.

Lemma remove_all_absent s k : CmapOk s -> has_key (abs s) k = false -> ll_remove_all s k = Raise KeyError.
Proof.
  intros [_ [_ [_ Hget]]] Hk. unfold ll_remove_all. rewrite Hget.
  assert (ids_of (ll s) k = []) as ->; [|reflexivity].
  apply ids_vals_nil. apply has_key_vals. exact Hk.
Qed.

(* ---- _remove ----------------------------------------------------------------------------------- *)
Lemma filter_snoc_split {A} (p : A -> bool) l a x :
  filter p l = a ++ [x] ->
  exists l1 l2, l = l1 ++ x :: l2 /\ filter p l1 = a /\ filter p l2 = [] /\ p x = true.
Proof.
  revert a. induction l as [|y r IH]; intros a H; simpl in H.
  - destruct a; discriminate.
  - destruct (p y) eqn:E.
    + destruct a as [|a0 ar].
      * simpl in H. injection H as E0 E1. subst y. exists [], r. simpl.
        repeat split; assumption || reflexivity.
      * simpl in H. injection H as E0 E1. subst y. destruct (IH ar E1) as [l1 [l2 [F1 [F2 [F3 F4]]]]].
        exists (a0 :: l1), l2. subst r. simpl. rewrite E. repeat split; try assumption.
        f_equal. assumption.
    + destruct (IH a H) as [l1 [l2 [E1 [E2 [E3 E4]]]]].
      exists (y :: l1), l2. subst r. simpl. rewrite E. repeat split; assumption.
Qed.

(* the last cell of key k *)
Lemma last_cell_split l k rest id :
  ids_of l k = rest ++ [id] ->
  exists l1 c l2, l = l1 ++ c :: l2 /\ c_id c = id /\ c_key c = k /\
                  cells_of l2 k = [] /\ ids_of l1 k = rest.
Proof.
  intro H. unfold ids_of in H.
  destruct (map_eq_app _ _ _ _ H) as [fr [fc [E1 [E2 E3]]]].
  destruct fc as [|c [|]]; try discriminate. simpl in E3. inversion E3; subst.
  destruct (filter_snoc_split _ _ _ _ E1) as [l1 [l2 [F1 [F2 [F3 F4]]]]].
  exists l1, c, l2. repeat split; try assumption.
  - apply Nat.eqb_eq. assumption.
  - unfold ids_of. rewrite F2. reflexivity.
Qed.

Lemma unlink_split l1 c l2 : NoDup (map c_id (l1 ++ c :: l2)) -> unlink (l1 ++ c :: l2) (c_id c) = l1 ++ l2.
Proof.
  intro H. unfold unlink. rewrite filter_app. simpl. rewrite Nat.eqb_refl. simpl.
  rewrite !filter_all; [reflexivity | |]; intros x Hx; apply negb_true_iff, Nat.eqb_neq; intro E.
  - assert (x = c); [|subst x].
    { apply (NoDup_map_inj (l1 ++ c :: l2)); try assumption; apply in_app_iff; simpl; tauto. }
    rewrite map_app in H. simpl in H. apply NoDup_remove_2 in H. apply H. apply in_app_iff. right. apply in_map. assumption.
  - assert (x = c); [|subst x].
    { apply (NoDup_map_inj (l1 ++ c :: l2)); try assumption; apply in_app_iff; simpl; tauto. }
    rewrite map_app in H. simpl in H. apply NoDup_remove_2 in H. apply H. apply in_app_iff. left. apply in_map. assumption.
Qed.

Lemma remove_last_of_split l1 k v l2 :
  has_key l2 k = false -> remove_last_of (l1 ++ (k, v) :: l2) k = l1 ++ l2.
Proof.
  intro H. induction l1 as [|p r IH]; simpl.
  - unfold keyb at 1. simpl. rewrite Nat.eqb_refl, H. reflexivity.
  - rewrite has_key_app. simpl. unfold keyb at 2. simpl. rewrite Nat.eqb_refl, orb_true_r, andb_false_r.
    f_equal. exact IH.
Qed.

Lemma visible_split l1 k v l2 : has_key l2 k = false -> visible (l1 ++ (k, v) :: l2) k = v.
Proof.
  intro H. unfold visible. rewrite vals_of_app, vals_of_cons. simpl. rewrite Nat.eqb_refl.
  apply has_key_vals in H. rewrite H. simpl. apply last_last.
Qed.

Lemma remove_ok s k : CmapOk s -> has_key (abs s) k = true ->
  exists s' l1 v l2, ll_remove s k = Ok s' /\ CmapOk s' /\ store s' = store s /\
             abs s = l1 ++ (k, v) :: l2 /\ has_key l2 k = false /\ abs s' = l1 ++ l2.
Proof.
  intros [Hid [Hfresh [Hnd Hget]]] Hk.
  assert (Hne : ids_of (ll s) k <> []).
  { intro H. apply ids_vals_nil in H. apply has_key_vals in H. unfold abs, m_items in Hk. congruence. }
  destruct (exists_last Hne) as [rest [id Eids]].
  destruct (last_cell_split _ _ _ _ Eids) as [l1 [c [l2 [Ell [Eid [Ekey [Ec2 Ei1]]]]]]].
  unfold ll_remove. rewrite Hget, Eids. rewrite ne_opt_app_single. rewrite rev_app_distr. simpl.
  rewrite rev_involutive.
  eexists. exists (map ckv l1), (c_val c), (map ckv l2). split; [reflexivity|].
  assert (Hun : unlink (ll s) id = l1 ++ l2).
  { rewrite Ell, <- Eid. apply unlink_split. rewrite <- Ell. assumption. }
  rewrite Hun.
  assert (Hk2 : has_key (map ckv l2) k = false) by (apply has_key_cells; assumption).
  repeat split; simpl.
  - rewrite Ell in Hid. rewrite map_app in *. simpl in Hid. apply NoDup_remove_1 in Hid. assumption.
  - intros x Hx. apply Hfresh. rewrite Ell. apply in_app_iff in Hx as [Hx|Hx]; apply in_app_iff; simpl; tauto.
  - destruct rest; [apply d_del_NoDup | apply d_set_NoDup]; assumption.
  - intro k'.
    assert (Hids : ids_of (l1 ++ l2) k' = if Nat.eqb k' k then rest else ids_of (ll s) k').
    { rewrite ids_of_app. destruct (Nat.eqb k' k) eqn:E.
      - apply Nat.eqb_eq in E. subst k'. rewrite Ei1, ids_of_cells, Ec2. apply app_nil_r.
      - rewrite Ell, ids_of_app. unfold ids_of at 4. simpl. rewrite Ekey, Nat.eqb_sym, E. reflexivity. }
    rewrite Hids. destruct rest as [|r0 rr].
    + rewrite d_get_del by assumption. destruct (Nat.eqb k' k); [reflexivity | apply Hget].
    + rewrite d_get_set. destruct (Nat.eqb k' k); [reflexivity | apply Hget].
  - unfold abs, m_items. rewrite Ell, map_app. simpl. unfold ckv at 2. rewrite Ekey. reflexivity.
  - assumption.
  - unfold abs, m_items. simpl. apply map_app.
Qed.

Lemma remove_absent s k : CmapOk s -> has_key (abs s) k = false -> ll_remove s k = Raise KeyError.
Proof.
  intros [_ [_ [_ Hget]]] Hk. unfold ll_remove. rewrite Hget.
  assert (ids_of (ll s) k = []) as ->; [|reflexivity].
  apply ids_vals_nil. apply has_key_vals. exact Hk.
Qed.
