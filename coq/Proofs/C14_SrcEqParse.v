(* (T) tie: the Gallina text regenerated from the current source of
   strutils.parse_int_list (loop body with an explicit pending-exception flag) computes the
   same function as the model. *)
From Boltons Require Import Lib.Prelude Lib.C14_Text Model.C14_Model.
From Boltons Require Import Gen.C14_Src.
Open Scope Z_scope.

Theorem src_parse_int_list_eq s delim rdelim : src_parse_int_list s delim rdelim = parse_int_list s delim rdelim.
Proof.
  unfold src_parse_int_list, parse_int_list.
  destruct (py_split delim (strip_by py_isspace s)) as [parts|e]; [|reflexivity].
  unfold src_parse_parts.
  match goal with |- context [fold_left ?f parts ?i] => set (F := f) end.
  (* once an exception is pending nothing changes any more *)
  assert (Herr : forall xs e rl out, exists rl' out', fold_left F xs (Some e, rl, out) = (Some e, rl', out')).
  { induction xs as [|x xs IH]; intros e rl out; [eexists; eexists; reflexivity|].
    cbn [fold_left].
    assert (E : exists rl' out', F (Some e, rl, out) x = (Some e, rl', out')).
    { subst F. cbv beta iota zeta. destruct (contains rdelim x); [eexists; eexists; reflexivity|].
      destruct (negb (src_nonempty x)); eexists; eexists; reflexivity. }
    destruct E as (rl' & out' & E). rewrite E. apply IH. }
  (* without a pending exception the loop is the model's recursion *)
  assert (Hok : forall xs rl out,
             (let '(err, _, o) := fold_left F xs (None, rl, out) in
              match err with Some e => Raise e | None => Ok (sortZ o) end) = parse_parts rdelim xs out).
  { induction xs as [|x xs IH]; intros rl out; [reflexivity|].
    cbn [fold_left parse_parts].
    destruct (contains rdelim x) eqn:Ec.
    - destruct (py_split rdelim x) as [ws|e] eqn:Es.
      + destruct (map_res py_int ws) as [lims|e] eqn:Em.
        * assert (E : F (None, rl, out) x = (None, lims, out ++ zrange (list_minZ lims) (list_maxZ lims + 1))).
          { subst F. cbv beta iota zeta. rewrite Ec, Es, Em. reflexivity. }
          rewrite E. apply IH.
        * assert (E : F (None, rl, out) x = (Some e, rl, out)).
          { subst F. cbv beta iota zeta. rewrite Ec, Es, Em. reflexivity. }
          rewrite E. destruct (Herr xs e rl out) as (rl' & out' & H). rewrite H. reflexivity.
      + assert (E : F (None, rl, out) x = (Some e, rl, out)).
        { subst F. cbv beta iota zeta. rewrite Ec, Es. reflexivity. }
        rewrite E. destruct (Herr xs e rl out) as (rl' & out' & H). rewrite H. reflexivity.
    - destruct x as [|c x'].
      + assert (E : F (None, rl, out) [] = (None, rl, out)).
        { subst F. cbv beta iota zeta. rewrite Ec. reflexivity. }
        rewrite E. cbn [is_nil]. apply IH.
      + cbn [is_nil]. destruct (py_int (c :: x')) as [v|e] eqn:Ei.
        * assert (E : F (None, rl, out) (c :: x') = (None, rl, out ++ [v])).
          { subst F. cbv beta iota zeta. rewrite Ec, Ei. reflexivity. }
          rewrite E. apply IH.
        * assert (E : F (None, rl, out) (c :: x') = (Some e, rl, out)).
          { subst F. cbv beta iota zeta. rewrite Ec, Ei. reflexivity. }
          rewrite E. destruct (Herr xs e rl out) as (rl' & out' & H). rewrite H. reflexivity. }
  specialize (Hok parts [] []).
  match goal with |- context [fold_left F parts ?i] => change i with (@None exn, @nil Z, @nil Z) end.
  destruct (fold_left F parts (None, [], [])) as [[err rl] o]. rewrite <- Hok.
  destruct err; reflexivity.
Qed.
