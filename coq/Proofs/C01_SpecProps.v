(* C01: the reference definitions of Spec/C01_Spec.v mean what the English property says,
   and the reads are mutually consistent.  Pure list facts about the Spec only. *)
From Boltons Require Import Lib.Prelude Spec.C01_Spec Proofs.C01_Base.

(* ---- helpers ------------------------------------------------------------------------ *)
Lemma opt_eqb_v_eq x y : opt_eqb_v x y = true <-> x = y.
Proof.
  unfold opt_eqb_v, option_eqb. destruct x, y; split; intro H; try discriminate; try reflexivity.
  - apply Nat.eqb_eq in H. congruence.
  - inversion H. apply Nat.eqb_refl.
Qed.

Lemma lookup_None l k : ~ In k (map fst l) -> lookup l k = None.
Proof.
  intro H. unfold lookup. destruct (has_key l k) eqn:E; [|reflexivity].
  apply has_key_In in E. contradiction.
Qed.

Lemma vals_of_In l k v : In v (vals_of l k) <-> In (k, v) l.
Proof.
  unfold vals_of. rewrite in_map_iff. split.
  - intros [[k' v'] [E H]]. apply filter_In in H as [H1 H2]. unfold keyb in H2. simpl in *.
    apply Nat.eqb_eq in H2. subst. exact H1.
  - intro H. exists (k, v). split; [reflexivity|]. apply filter_In. split; [exact H|].
    unfold keyb. simpl. apply Nat.eqb_refl.
Qed.

Lemma last_In {A} (l : list A) d : l <> [] -> In (last l d) l.
Proof.
  intro H. destruct (exists_last H) as [l' [x E]]. subst. rewrite last_last.
  apply in_or_app. right. left. reflexivity.
Qed.

Lemma has_key_mem_nat l k : has_key l k = mem_nat k (map fst l).
Proof.
  destruct (has_key l k) eqn:E1, (mem_nat k (map fst l)) eqn:E2; try reflexivity.
  - apply has_key_In, mem_nat_In in E1. congruence.
  - apply mem_nat_In, has_key_In in E2. congruence.
Qed.

(* ---- equality with a plain mapping ----------------------------------------------------- *)
Lemma eq_map_spec_iff l m : eq_map_spec l m = true <-> (forall k, d_get m k = lookup l k).
Proof.
  unfold eq_map_spec. rewrite forallb_forall. split.
  - intros H k. destruct (in_dec Nat.eq_dec k (map fst m ++ map fst l)) as [Hi|Hi].
    + apply opt_eqb_v_eq, H, Hi.
    + rewrite in_app_iff in Hi. rewrite lookup_None by tauto. apply d_get_None. tauto.
  - intros H k _. apply opt_eqb_v_eq, H.
Qed.

(* ---- the visible value of a key is the value of its LAST pair ---------------------------- *)
Lemma visible_last_pair l1 k v l2 : has_key l2 k = false -> visible (l1 ++ (k, v) :: l2) k = v.
Proof.
  intro H. apply has_key_vals in H. unfold visible.
  rewrite vals_of_app, vals_of_cons, H, app_nil_r. simpl. rewrite Nat.eqb_refl. apply last_last.
Qed.

Lemma lookup_Some_In l k v : lookup l k = Some v -> In (k, v) l.
Proof.
  unfold lookup. destruct (has_key l k) eqn:E; [|discriminate]. intro H. inversion H; subst.
  apply vals_of_In. unfold visible. apply last_In. apply has_key_vals_true. exact E.
Qed.

(* ---- single-valued views ------------------------------------------------------------------- *)
Lemma items1_keys l : map fst (items1 l) = keys1 l.
Proof. unfold items1. rewrite map_map. simpl. apply map_id. Qed.

Lemma items1_NoDup l : NoDup (map fst (items1 l)).
Proof. rewrite items1_keys. apply keys1_NoDup. Qed.

Lemma items1_In l k v : In (k, v) (items1 l) <-> lookup l k = Some v.
Proof.
  unfold items1, lookup. rewrite in_map_iff. split.
  - intros [k' [E H]]. inversion E; subst. apply keys1_has_key in H. rewrite H. reflexivity.
  - destruct (has_key l k) eqn:E; [|discriminate]. intro H. inversion H; subst.
    exists k. split; [reflexivity|]. apply keys1_has_key. exact E.
Qed.

Lemma nodup_nat_app a b :
  nodup_nat (a ++ b) = nodup_nat a ++ filter (fun x => negb (mem_nat x a)) (nodup_nat b).
Proof.
  induction a as [|y r IH]; simpl.
  - symmetry. apply filter_all. reflexivity.
  - f_equal. rewrite IH, filter_app, filter_filter. f_equal. apply filter_ext. intro x.
    rewrite (Nat.eqb_sym x y). destruct (Nat.eqb y x), (mem_nat x r); reflexivity.
Qed.

Lemma nodup_nat_filter p l : nodup_nat (filter p l) = filter p (nodup_nat l).
Proof.
  induction l as [|y r IH]; simpl; [reflexivity|].
  destruct (p y) eqn:E; simpl.
  - f_equal. rewrite IH, !filter_filter. apply filter_ext. intro x. apply andb_comm.
  - rewrite IH, filter_filter. apply filter_ext_in. intros x _.
    destruct (Nat.eqb y x) eqn:E1; simpl; [|reflexivity].
    apply Nat.eqb_eq in E1. subst. exact E.
Qed.

Lemma map_fst_filter {A B} (p : A -> bool) (l : list (A * B)) :
  map fst (filter (fun q => p (fst q)) l) = filter p (map fst l).
Proof.
  induction l as [|q r IH]; simpl; [reflexivity|].
  destruct (p (fst q)); simpl; rewrite IH; reflexivity.
Qed.

Lemma keys1_first_occurrence l1 k v l2 : has_key l1 k = false ->
  keys1 (l1 ++ (k, v) :: l2) = keys1 l1 ++ k :: filter (fun x => negb (Nat.eqb k x)) (keys1 (filter (fun p => negb (mem_nat (fst p) (map fst l1))) l2)).
Proof.
  intro H. unfold keys1. rewrite map_app, nodup_nat_app. f_equal. simpl.
  rewrite <- has_key_mem_nat, H. simpl. f_equal.
  rewrite (map_fst_filter (fun x => negb (mem_nat x (map fst l1)))), nodup_nat_filter, !filter_filter.
  apply filter_ext. intro x. apply andb_comm.
Qed.

(* ---- removing a key / replacing ---------------------------------------------------------------- *)
Lemma remove_key_no_key l k : has_key (remove_key l k) k = false.
Proof. apply has_key_vals. rewrite vals_of_remove_key, Nat.eqb_refl. reflexivity. Qed.

Lemma remove_key_other l k k' : k' <> k -> vals_of (remove_key l k) k' = vals_of l k'.
Proof. intro H. rewrite vals_of_remove_key. apply Nat.eqb_neq in H. rewrite H. reflexivity. Qed.

Lemma vals_of_remove_keys l ks k :
  vals_of (remove_keys l ks) k = if mem_nat k ks then [] else vals_of l k.
Proof.
  unfold vals_of, remove_keys. rewrite filter_filter. destruct (mem_nat k ks) eqn:E.
  - rewrite filter_none; [reflexivity|]. intros [a b] _. unfold keyb. simpl.
    destruct (Nat.eqb a k) eqn:E1; [|apply andb_false_r].
    apply Nat.eqb_eq in E1. subst a. rewrite E. reflexivity.
  - f_equal. apply filter_ext. intros [a b]. unfold keyb. simpl.
    destruct (Nat.eqb a k) eqn:E1; [|apply andb_false_r].
    apply Nat.eqb_eq in E1. subst a. rewrite E. reflexivity.
Qed.

Lemma replace_with_vals l new k :
  vals_of (replace_with l new) k = if has_key new k then vals_of new k else vals_of l k.
Proof.
  unfold replace_with. rewrite vals_of_app, vals_of_remove_keys, <- has_key_mem_nat.
  destruct (has_key new k) eqn:E; [reflexivity|].
  apply has_key_vals in E. rewrite E. apply app_nil_r.
Qed.

(* ---- poplast removes exactly one pair: the last one of that key ----------------------------------- *)
Lemma remove_last_of_vals l k k' : has_key l k = true ->
  vals_of (remove_last_of l k) k' = if Nat.eqb k' k then removelast (vals_of l k) else vals_of l k'.
Proof.
  induction l as [|p r IH]; [discriminate|]. intro H.
  change (has_key (p :: r) k) with (keyb k p || has_key r k) in H. simpl.
  destruct (keyb k p && negb (has_key r k)) eqn:E.
  - apply andb_true_iff in E as [E1 E2]. apply negb_true_iff in E2.
    unfold keyb in E1. apply Nat.eqb_eq in E1.
    rewrite !vals_of_cons, E1. destruct (Nat.eqb k' k) eqn:E3.
    + apply Nat.eqb_eq in E3. subst k'. rewrite Nat.eqb_refl.
      apply has_key_vals in E2. rewrite E2. reflexivity.
    + rewrite Nat.eqb_sym, E3. reflexivity.
  - assert (Hr : has_key r k = true).
    { destruct (keyb k p), (has_key r k); simpl in *; congruence. }
    specialize (IH Hr). rewrite (vals_of_cons p (remove_last_of r k)), IH.
    destruct (Nat.eqb k' k) eqn:E3.
    + apply Nat.eqb_eq in E3. subst k'. rewrite (vals_of_cons p r).
      symmetry. apply removelast_app. apply has_key_vals_true. exact Hr.
    + rewrite (vals_of_cons p r). reflexivity.
Qed.

(* ---- sortedvalues ------------------------------------------------------------------------------------ *)
Lemma sv_walk_keys full f rv l : forall seen, map fst (sv_walk full f rv seen l) = map fst l.
Proof.
  induction l as [|[k v] r IH]; intro seen; simpl; [reflexivity|]. rewrite IH. reflexivity.
Qed.

Lemma sortedvalues_keys l f rv : map fst (sortedvalues_spec l f rv) = map fst l.
Proof. apply sv_walk_keys. Qed.

Lemma ins_asc_length {A} (key : A -> nat) x l : length (ins_asc key x l) = S (length l).
Proof.
  induction l as [|y r IH]; simpl; [reflexivity|].
  destruct (Nat.leb (key x) (key y)); simpl; [reflexivity | rewrite IH; reflexivity].
Qed.

Lemma ins_desc_length {A} (key : A -> nat) x l : length (ins_desc key x l) = S (length l).
Proof.
  induction l as [|y r IH]; simpl; [reflexivity|].
  destruct (Nat.leb (key y) (key x)); simpl; [reflexivity | rewrite IH; reflexivity].
Qed.

Lemma py_sorted_length {A} (key : A -> nat) rv l : length (py_sorted key rv l) = length l.
Proof.
  unfold py_sorted. induction l as [|x r IH]; simpl; [reflexivity|].
  destruct rv; [rewrite ins_desc_length | rewrite ins_asc_length]; rewrite IH; reflexivity.
Qed.

Lemma skipn_nth {A} (s : list A) d : forall j, j < length s -> skipn j s = nth j s d :: skipn (S j) s.
Proof.
  induction s as [|x r IH]; simpl; intros j H; [lia|].
  destruct j as [|j]; [reflexivity|]. apply IH. lia.
Qed.

Lemma sv_walk_vals full f rv k : forall suf pre seen,
  full = pre ++ suf ->
  (forall k', count_occ_nat k' seen = length (vals_of pre k')) ->
  vals_of (sv_walk full f rv seen suf) k =
  firstn (length (vals_of suf k))
         (skipn (length (vals_of pre k)) (py_sorted (kf_val f) rv (vals_of full k))).
Proof.
  induction suf as [|[k0 v0] r IH]; intros pre seen Hf Hc; [reflexivity|].
  simpl sv_walk. rewrite vals_of_cons. simpl fst. simpl snd.
  rewrite (IH (pre ++ [(k0, v0)]) (k0 :: seen)).
  - rewrite vals_of_app, vals_of_single, (vals_of_cons (k0, v0) r). simpl fst. simpl snd.
    destruct (Nat.eqb k0 k) eqn:E.
    + apply Nat.eqb_eq in E. subst k0. rewrite Hc, app_length. simpl length.
      rewrite Nat.add_1_r.
      rewrite (skipn_nth _ none_tok (length (vals_of pre k))).
      * reflexivity.
      * rewrite py_sorted_length, Hf, vals_of_app, vals_of_cons, app_length. simpl.
        rewrite Nat.eqb_refl. simpl. lia.
    + rewrite app_nil_r. reflexivity.
  - rewrite Hf, <- app_assoc. reflexivity.
  - intro k'. simpl. rewrite Hc, vals_of_app, vals_of_single, app_length.
    destruct (Nat.eqb k0 k'); simpl; lia.
Qed.

Lemma sortedvalues_vals l f rv k :
  vals_of (sortedvalues_spec l f rv) k = py_sorted (kf_val f) rv (vals_of l k).
Proof.
  unfold sortedvalues_spec.
  etransitivity; [apply (sv_walk_vals l f rv k l [] []); reflexivity|].
  simpl. rewrite <- (py_sorted_length (kf_val f) rv (vals_of l k)). apply firstn_all.
Qed.

Print Assumptions sortedvalues_vals.
Print Assumptions eq_map_spec_iff.
