(* C03: the reference of Spec/C03_Spec.v (what `holds` evaluates) against C02's reference
   (Spec/C02_Spec.v): two independent transcriptions of the same sequential cache.  Every
   outcome C02's reference accepts for an operation is accepted by C03's, with the same next
   state -- so the serial order found by the atomicity theorem is a witness for C03's Spec. *)
From Boltons Require Import Lib.Prelude Lib.C03_Syntax Lib.C03_Conc Model.C03_Model Spec.C03_Spec
     Proofs.C03_Link1 Proofs.C03_Link2.
From Boltons Require Lib.C02_Syntax Spec.C02_Spec Model.C02_Model.
From Boltons Require Proofs.C02_Lists Proofs.C02_Eqb Proofs.C02_Recency.

Module Sp2 := Boltons.Spec.C02_Spec.
Module E2 := Boltons.Proofs.C02_Eqb.
Module Rc2 := Boltons.Proofs.C02_Recency.

Definition rc_of (c : config) : rcfg := mkRcfg (cf_kind c) (cf_max c) (cf_miss c).

(* ---- list facts --------------------------------------------------------------------------- *)
Lemma r_remove_notin (l : list (K * V)) k : ~ In k (Li2.keys l) -> r_remove l k = l.
Proof.
  induction l as [|[k0 v0] r IH]; simpl; intro H; [reflexivity|].
  destruct (Nat.eqb_spec k0 k) as [->|NE]; [exfalso; apply H; now left|].
  simpl. f_equal. apply IH. intro. apply H. now right.
Qed.

Lemma r_remove_del (l : list (K * V)) k : NoDup (Li2.keys l) -> r_remove l k = d_del l k.
Proof.
  induction l as [|[k0 v0] r IH]; simpl; intro ND; [reflexivity|].
  inversion ND as [|? ? NI ND']; subst.
  destruct (Nat.eqb_spec k0 k) as [->|NE]; simpl.
  - rewrite Nat.eqb_refl. apply r_remove_notin. exact NI.
  - destruct (Nat.eqb_spec k k0) as [->|_]; [congruence|]. f_equal. apply IH. exact ND'.
Qed.

Lemma r_insert_items_set c (l : list (K * V)) k v :
  NoDup (Li2.keys l) -> r_insert (rc_of c) l k v = Sp2.items_set (cf_max c) l k v.
Proof.
  intro ND. unfold r_insert, Sp2.items_set, r_lookup, d_mem. simpl r_max.
  destruct (d_get l k); [now rewrite r_remove_del|]. destruct (length l <? cf_max c); reflexivity.
Qed.

Lemma fold_insert_sets c (kvs : list (K * V)) : forall (l : list (K * V)) r,
  NoDup (Li2.keys l) -> Sp2.r_items r = l ->
  fold_left (fun s p => r_insert (rc_of c) s (fst p) (snd p)) kvs l
  = Sp2.r_items (Sp2.r_sets (cfg2 c) r kvs).
Proof.
  induction kvs as [|[k v] rest IH]; intros l r ND E; simpl; [now symmetry|].
  unfold Sp2.r_sets in *. simpl. apply IH.
  - rewrite r_insert_items_set by exact ND. apply Rc2.items_set_nodup. exact ND.
  - simpl. rewrite E. symmetry. apply r_insert_items_set. exact ND.
Qed.

Lemma getitem_lookup c r k :
  NoDup (Li2.keys (Sp2.r_items r)) ->
  r_getitem (rc_of c) (Sp2.r_items r) k
  = (Sp2.r_items (fst (Sp2.r_lookup (cfg2 c) r k)),
     match snd (Sp2.r_lookup (cfg2 c) r k) with Some v => Ok v | None => Raise KeyError end).
Proof.
  intro ND. unfold r_getitem, Sp2.r_lookup, r_lookup, r_touch. simpl r_kind. simpl r_miss.
  change (S2.c_cls (cfg2 c)) with (cls2 (cf_kind c)). change (S2.c_on_miss (cfg2 c)) with (cf_miss c).
  unfold r_lookup.
  destruct (d_get (Sp2.r_items r) k) as [v|] eqn:G.
  - destruct (cf_kind c); simpl; [reflexivity|]. now rewrite r_remove_del.
  - destruct (cf_miss c) as [f|]; simpl; [|reflexivity].
    unfold Sp2.r_set, Sp2.r_with_items. simpl. now rewrite r_insert_items_set.
Qed.

Lemma kv_eqb_refl p : kv_eqb p p = true.
Proof. unfold kv_eqb. now rewrite !Nat.eqb_refl. Qed.

Lemma rv_eqb_refl r : rv_eqb r r = true.
Proof.
  destruct r; simpl; try apply Nat.eqb_refl; try reflexivity.
  - destruct b; reflexivity.
  - now rewrite !Nat.eqb_refl.
  - induction l as [|p t IH]; simpl; [reflexivity|]. now rewrite kv_eqb_refl, IH.
  - destruct e; simpl; try reflexivity; apply Nat.eqb_refl.
Qed.

(* a well-formed operation: the dict literal of `c == {...}` has distinct keys *)
Definition wf_op (o : op) : Prop :=
  match o with EqDict l | NeDict l => NoDup (map fst l) | _ => True end.

Lemma same_items_same_map (s l : list (K * V)) :
  NoDup (map fst l) -> same_items s l = Sp2.same_map l s.
Proof.
  intro ND. unfold same_items, Sp2.same_map.
  rewrite (proj2 (Li2.nodup_keys_spec (map fst l)) ND). simpl.
  rewrite (Nat.eqb_sym (length s)). f_equal.
Qed.

(* every deterministic operation: C03's reference computes what C02's computes *)
Lemma step_match c r o o1 :
  NoDup (Li2.keys (Sp2.r_items r)) -> wf_op o -> tr o = Some o1 -> o <> PopItem ->
  r_step (rc_of c) (Sp2.r_items r) o
  = (Sp2.r_items (fst (Sp2.spec_step (cfg2 c) r o1)), conv_out o (snd (Sp2.spec_step (cfg2 c) r o1))).
Proof.
  intros ND WF T NP.
  destruct o; simpl in T; inversion T; subst o1; clear T; simpl r_step; simpl Sp2.spec_step.
  - (* SetItem *) unfold Sp2.r_set, Sp2.r_with_items. simpl. now rewrite r_insert_items_set.
  - (* GetItem *) rewrite getitem_lookup by exact ND.
    destruct (Sp2.r_lookup (cfg2 c) r k) as [r' [v|]]; reflexivity.
  - (* Get *) rewrite getitem_lookup by exact ND.
    destruct (Sp2.r_lookup (cfg2 c) r k) as [r' [v|]]; reflexivity.
  - (* DelItem *) unfold Sp2.r_has, d_mem, r_lookup.
    destruct (d_get (Sp2.r_items r) k); simpl; [|reflexivity]. now rewrite r_remove_del.
  - (* Pop *) unfold r_lookup.
    destruct (d_get (Sp2.r_items r) k); simpl; [now rewrite r_remove_del|]. destruct d; reflexivity.
  - congruence.
  - (* Clear *) reflexivity.
  - (* SetDefault *) rewrite getitem_lookup by exact ND.
    destruct (Sp2.r_lookup (cfg2 c) r k) as [r' [v|]] eqn:EL; simpl; [reflexivity|].
    (* a miss without on_miss leaves the items unchanged *)
    assert (H : Sp2.r_items r' = Sp2.r_items r).
    { unfold Sp2.r_lookup in EL. destruct (d_get (Sp2.r_items r) k); [inversion EL|].
      destruct (S2.c_on_miss (cfg2 c)); inversion EL; reflexivity. }
    unfold Sp2.r_set, Sp2.r_with_items, Sp2.r_soft_miss. simpl. rewrite H.
    now rewrite r_insert_items_set.
  - (* Update *) rewrite app_nil_r. simpl. f_equal. now apply fold_insert_sets.
  - (* Ior *) simpl. f_equal. now apply fold_insert_sets.
  - (* EqDict *) simpl. f_equal. f_equal. apply same_items_same_map. exact WF.
  - (* Len *) reflexivity.
  - (* Contains *) unfold Sp2.r_has, d_mem, r_lookup. reflexivity.
  - (* NeDict *) simpl. f_equal. f_equal. f_equal. apply same_items_same_map. exact WF.
Qed.

Lemma op_eq_popitem (o : op) : o = PopItem \/ o <> PopItem.
Proof. destruct o; try (right; discriminate). now left. Qed.

(* what C02's reference accepts, C03's reference accepts, with the same items afterwards *)
Theorem spec_accept_link c r o o1 out r' :
  NoDup (Li2.keys (Sp2.r_items r)) -> wf_op o -> tr o = Some o1 ->
  Sp2.spec_accept (cfg2 c) r o1 out = Some r' ->
  r_accepts (rc_of c) (Sp2.r_items r) o (conv_out o out) = Some (Sp2.r_items r').
Proof.
  intros ND WF T A.
  destruct (op_eq_popitem o) as [->|NP].
  - simpl in T. inversion T; subst o1. simpl in A.
    destruct out as [[| | | |k v| |]|e]; try discriminate.
    + (* an item *)
      destruct (option_eqb Nat.eqb (d_get (Sp2.r_items r) k) (Some v)) eqn:E; [|discriminate].
      inversion A; subst r'. simpl.
      destruct (d_get (Sp2.r_items r) k) as [v'|] eqn:G; [|discriminate]. simpl in E.
      destruct (Sp2.r_items r) as [|p t] eqn:EI; [discriminate|].
      simpl conv_out. unfold r_accepts. unfold r_lookup. rewrite G.
      rewrite Nat.eqb_sym, E. f_equal. now apply r_remove_del.
    + (* KeyError on an empty cache *)
      destruct e; try discriminate. destruct (Sp2.r_items r) eqn:EI; [|discriminate].
      inversion A; subst r'. rewrite EI. reflexivity.
  - pose proof (step_match c r o o1 ND WF T NP) as SM.
    assert (A' : (let '(r1, out1) := Sp2.spec_step (cfg2 c) r o1 in
                  if res_eqb S2.outv_eqb out out1 then Some r1 else None) = Some r').
    { destruct o; simpl in T; inversion T; subst o1; try exact A. congruence. }
    destruct (Sp2.spec_step (cfg2 c) r o1) as [r1 out1]. simpl in SM.
    destruct (res_eqb S2.outv_eqb out out1) eqn:E; [|discriminate].
    apply E2.res_eqb_eq in E. subst out1. inversion A'; subst r1.
    unfold r_accepts.
    assert (RS : (let '(s', r'0) := r_step (rc_of c) (Sp2.r_items r) o in
                  if rv_eqb (conv_out o out) r'0 then Some s' else None) = Some (Sp2.r_items r')).
    { rewrite SM. now rewrite rv_eqb_refl. }
    destruct o; try exact RS; try congruence. simpl in T. discriminate.
Qed.
