(* C06: the full-quoting fixed point stated, as the property does, for a URL obtained by PARSING a
   text: whenever URL(t) has a scheme and an authority with a name/IPv4 host, rendering it, parsing
   the result and rendering again gives the same text. *)
From Boltons Require Import Lib.Prelude Lib.C06_Text Spec.C06_Spec Model.C06_Model
  Proofs.C06_Codec Proofs.C06_Quote Proofs.C06_Lists Proofs.C06_Round Proofs.C06_Shape
  Proofs.C06_QuoteMin Proofs.C06_Parts Proofs.C06_RoundMin Proofs.C06_NoAuth Proofs.C06_NoAuthMin.
Open Scope N_scope.

Theorem fixpoint_full_parsed T O :
  tables_ok T = true ->
  forall t u ht b4 h2,
  let nfc := o_nfc O in
  url_init T O t = MOk u ->
  (* the text had an authority ('//'), with or without a scheme *)
  u_sep u = true ->
  (* NFC laws; decoded components are scalar-value strings; a parameter without value has a key *)
  nfc [] = [] -> (forall x, nfc (nfc x) = nfc x) -> (forall x, nfc x = [] -> x = []) ->
  all_scalar (nfc (u_user u)) = true -> all_scalar (nfc (u_pass u)) = true -> all_scalar (nfc (u_frag u)) = true ->
  Forall (fun s => all_scalar (nfc s) = true) (tl (u_path u)) ->
  Forall (C06_Round.pair_ok O) (u_query u) ->
  (* host: name / IPv4, encodable; port as parsed is 0..65535 *)
  u_host u <> [] -> (u_family u =? 6) = false -> memN 58 (u_host u) = false -> o_idna_enc O (u_host u) = MOk ht ->
  ht <> [] -> forallb (not_in [58; 64; 47; 63; 35]) ht = true -> o_inet4 O ht = MOk b4 ->
  (if all_ascii ht then o_idna_dec O ht = MOk h2 else h2 = ht) ->
  h2 <> [] -> memN 58 h2 = false -> o_idna_enc O h2 = MOk ht ->
  port_wf (u_port u) = true ->
  forall t1 u1, to_text T O true u = MOk t1 -> url_init T O t1 = MOk u1 -> to_text T O true u1 = MOk t1.
Proof.
  intros TOK t u ht b4 h2 nfc P SEP N0 IDEM NN Su Sp Sf Fr Fq HNE F6 M58 ENC HTNE HTC I4 DEC H2NE H2M ENC2 PV.
  destruct (parsed_shape T O t u P) as [S1' S2]. destruct (S2 SEP) as [rest ER].
  assert (S1 : forallb (not_in [58; 47; 63; 35]) (u_scheme u) = true).
  { destruct (u_scheme u) as [|c0 cr] eqn:ES; [reflexivity|]. apply S1'. discriminate. }
  clear S1'.
  destruct u as [scheme sep user pw fam host port path q frag]. cbn in *. subst path. cbn [tl] in Fr.
  apply (fixpoint_full_class T O TOK scheme sep user pw fam host port rest q frag ht b4 h2
           S1 N0 IDEM NN Su Sp Sf Fr Fq HNE F6 M58 ENC HTNE HTC I4 DEC H2NE H2M ENC2 PV).
Qed.

(* the same for minimal quoting, "whenever no decoded component contains a '%'" *)
Theorem fixpoint_min_parsed T O :
  tables_ok T = true -> delims_ok T = true ->
  forall t u b4,
  let nfc := o_nfc O in
  url_init T O t = MOk u ->
  u_sep u = true ->
  nfc [] = [] -> (forall x, nfc (nfc x) = nfc x) -> (forall x, nfc x = [] -> x = []) ->
  all_scalar (nfc (u_user u)) = true -> all_scalar (nfc (u_pass u)) = true ->
  Forall nopct (tl (u_path u)) -> Forall pair_okm (u_query u) -> nopct (u_frag u) ->
  u_host u <> [] -> (u_family u =? 6) = false -> forallb (not_in [58; 64; 47; 63; 35]) (u_host u) = true ->
  o_inet4 O (u_host u) = MOk b4 -> decode_host O (u_host u) = MOk (u_host u) ->
  port_wf (u_port u) = true ->
  forall m u1, to_text T O false u = MOk m -> url_init T O m = MOk u1 -> to_text T O false u1 = MOk m.
Proof.
  intros TOK DOK t u b4 nfc P SEP N0 IDEM NN Su Sp Fr Fq Sf HNE F6 HC I4 DEC PV.
  destruct (parsed_shape T O t u P) as [S1' S2]. destruct (S2 SEP) as [rest ER].
  assert (S1 : forallb (not_in [58; 47; 63; 35]) (u_scheme u) = true).
  { destruct (u_scheme u) as [|c0 cr] eqn:ES; [reflexivity|]. apply S1'. discriminate. }
  clear S1'.
  destruct u as [scheme sep user pw fam host port path q frag]. cbn in *. subst path. cbn [tl] in Fr.
  apply (fixpoint_min_class T O TOK DOK scheme sep user pw fam host port rest q frag b4
           S1 N0 IDEM NN Su Sp Fr Fq Sf HNE F6 HC I4 DEC PV).
Qed.

(* references without userinfo and host (mailto:x, urn:a:b, /abs, rel/path?q#f, x:///p ...): for u = URL(t) *)
Theorem fixpoint_full_parsed_na T O :
  tables_ok T = true ->
  forall t u,
  let nfc := o_nfc O in
  url_init T O t = MOk u ->
  u_user u = [] -> u_pass u = [] -> u_host u = [] -> u_path u <> [] ->
  nfc [] = [] -> (forall x, nfc (nfc x) = nfc x) ->
  Forall (fun s => all_scalar (nfc s) = true) (u_path u) -> Forall (C06_Round.pair_ok O) (u_query u) ->
  all_scalar (nfc (u_frag u)) = true ->
  (* a scheme-less reference must not render with a ':' before its first '/' (it would read as a scheme) *)
  (u_scheme u = [] -> noscheme (join [47] (map (quote_full T O CPath) (u_path u))) = true) ->
  forall t1 u1, to_text T O true u = MOk t1 -> t1 <> [] -> url_init T O t1 = MOk u1 -> to_text T O true u1 = MOk t1.
Proof.
  intros TOK t u nfc P EU EP EH NEp N0 IDEM Fp Fq Sf NS.
  destruct (parsed_shape T O t u P) as [S1' _].
  assert (S1 : forallb (not_in [58; 47; 63; 35]) (u_scheme u) = true).
  { destruct (u_scheme u) as [|c0 cr] eqn:ES; [reflexivity|]. apply S1'. discriminate. }
  clear S1'.
  destruct u as [scheme sep user pw fam host port path q frag]. cbn in *. subst user pw host.
  apply (fixpoint_full_na T O TOK scheme sep fam port path q frag S1 N0 IDEM NEp Fp Fq Sf NS).
Qed.

Theorem fixpoint_min_parsed_na T O :
  tables_ok T = true -> delims_ok T = true ->
  forall t u,
  url_init T O t = MOk u ->
  u_user u = [] -> u_pass u = [] -> u_host u = [] -> u_path u <> [] ->
  Forall nopct (u_path u) -> Forall pair_okm (u_query u) -> nopct (u_frag u) ->
  (u_scheme u = [] -> noscheme (join [47] (map (quote_min T CPath) (u_path u))) = true) ->
  forall m u1, to_text T O false u = MOk m -> m <> [] -> url_init T O m = MOk u1 -> to_text T O false u1 = MOk m.
Proof.
  intros TOK DOK t u P EU EP EH NEp Fp Fq Sf NS.
  destruct (parsed_shape T O t u P) as [S1' _].
  assert (S1 : forallb (not_in [58; 47; 63; 35]) (u_scheme u) = true).
  { destruct (u_scheme u) as [|c0 cr] eqn:ES; [reflexivity|]. apply S1'. discriminate. }
  clear S1'.
  destruct u as [scheme sep user pw fam host port path q frag]. cbn in *. subst user pw host.
  apply (fixpoint_min_na T O TOK DOK scheme sep fam port path q frag S1 NEp Fp Fq Sf NS).
Qed.
