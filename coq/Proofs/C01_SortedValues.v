(* C01: m_sortedvalues refines sortedvalues_spec under StoreOk. *)
From Boltons Require Import Lib.Prelude Spec.C01_Spec Model.C01_Model Proofs.C01_Base.

Lemma m_items_add r k v : m_items (m_add r k v) = m_items r ++ [(k, v)].
Proof.
  unfold m_add, set_store, ll_insert, m_items. cbn [ll]. rewrite map_app. reflexivity.
Qed.

Section SortedLen.
  Context {A : Type} (key : A -> nat).

  Lemma ins_asc_length x l : length (ins_asc key x l) = S (length l).
  Proof.
    induction l as [|y r IH]; simpl; [reflexivity|].
    destruct (Nat.leb (key x) (key y)); simpl; [reflexivity | rewrite IH; reflexivity].
  Qed.

  Lemma ins_desc_length x l : length (ins_desc key x l) = S (length l).
  Proof.
    induction l as [|y r IH]; simpl; [reflexivity|].
    destruct (Nat.leb (key y) (key x)); simpl; [reflexivity | rewrite IH; reflexivity].
  Qed.

  Lemma py_sorted_length rv l : length (py_sorted key rv l) = length l.
  Proof.
    unfold py_sorted. destruct rv; induction l as [|a r IH]; simpl; try reflexivity.
    - rewrite ins_desc_length, IH. reflexivity.
    - rewrite ins_asc_length, IH. reflexivity.
  Qed.
End SortedLen.

Lemma d_get_map_vals {B C} (g : B -> C) (d : pydict B) k :
  d_get (map (fun kv => (fst kv, g (snd kv))) d) k = option_map g (d_get d k).
Proof.
  induction d as [|[k0 v0] r IH]; simpl; [reflexivity|].
  destruct (Nat.eqb k k0); [reflexivity | exact IH].
Qed.

Lemma skipn_nth {A} (d : A) : forall j l, j < length l ->
  skipn j l = nth j l d :: skipn (S j) l.
Proof.
  induction j as [|j IH]; intros [|x r] H; simpl in *; try lia.
  - reflexivity.
  - apply IH. lia.
Qed.

Lemma count_occ_vals (l : pairs) k : count_occ_nat k (map fst l) = length (vals_of l k).
Proof.
  induction l as [|p r IH]; [reflexivity|].
  rewrite vals_of_cons, app_length, <- IH. cbn [map count_occ_nat].
  destruct (Nat.eqb (fst p) k); reflexivity.
Qed.

Lemma sv_loop_correct (L : pairs) f rv : forall (suf : pairs) seen svm ret,
  (forall k, d_get svm k =
     if has_key L k
     then Some (rev (skipn (count_occ_nat k seen) (py_sorted (kf_val f) rv (vals_of L k))))
     else None) ->
  (forall k, count_occ_nat k seen + count_occ_nat k (map fst suf) = length (vals_of L k)) ->
  exists r, sv_loop svm ret (map fst suf) = Ok r /\
            m_items r = m_items ret ++ sv_walk L f rv seen suf.
Proof.
  induction suf as [|[k v0] suf IH]; intros seen svm ret Hsvm Hcnt.
  - exists ret. split; [reflexivity|]. cbn [sv_walk]. rewrite app_nil_r. reflexivity.
  - cbn [map fst sv_loop sv_walk].
    pose proof (Hcnt k) as Hk. cbn [map fst count_occ_nat] in Hk.
    rewrite Nat.eqb_refl in Hk.
    assert (Hlt : count_occ_nat k seen <
                  length (py_sorted (kf_val f) rv (vals_of L k)))
      by (rewrite py_sorted_length; lia).
    assert (Hhk : has_key L k = true).
    { apply has_key_vals_true. intro E. rewrite E in Hk. simpl in Hk. lia. }
    rewrite (Hsvm k), Hhk, rev_involutive.
    rewrite (skipn_nth none_tok _ _ Hlt).
    destruct (IH (k :: seen)
                (d_set svm k (rev (skipn (S (count_occ_nat k seen))
                                     (py_sorted (kf_val f) rv (vals_of L k)))))
                (m_add ret k (nth (count_occ_nat k seen)
                                (py_sorted (kf_val f) rv (vals_of L k)) none_tok)))
      as [r [Hr Hi]].
    + intro k'. rewrite d_get_set. cbn [count_occ_nat].
      destruct (Nat.eqb k' k) eqn:E.
      * apply Nat.eqb_eq in E. subst k'. rewrite Hhk, Nat.eqb_refl. reflexivity.
      * rewrite (Nat.eqb_sym k k'), E. apply Hsvm.
    + intro k'. specialize (Hcnt k'). cbn [map fst count_occ_nat] in *. lia.
    + exists r. split; [exact Hr|].
      rewrite Hi, m_items_add, <- app_assoc. reflexivity.
Qed.

Lemma sortedvalues_correct : forall s f rv, StoreOk s ->
  exists r, m_sortedvalues s f rv = Ok r /\ m_items r = sortedvalues_spec (abs s) f rv.
Proof.
  intros s f rv H. unfold m_sortedvalues, sortedvalues_spec.
  rewrite <- map_fst_abs.
  destruct (sv_loop_correct (abs s) f rv (abs s) []
              (map (fun kv => (fst kv, rev (py_sorted (kf_val f) rv (snd kv)))) (store s))
              m_empty) as [r [Hr Hi]].
  - intro k.
    rewrite (d_get_map_vals (fun vs => rev (py_sorted (kf_val f) rv vs)) (store s) k).
    rewrite (store_get s k H). destruct (has_key (abs s) k); reflexivity.
  - intro k. cbn [count_occ_nat]. rewrite count_occ_vals. reflexivity.
  - exists r. split; [exact Hr | exact Hi].
Qed.

Print Assumptions sortedvalues_correct.
