(* C11: what the correspondence checker computes.  For every recorded history,
   whatever the implementation observed, the checker's [agree] bit (model =
   implementation) and [holds] bit (reference = implementation) coincide: an
   agreeing run therefore carries the refinement theorem over to the code on
   that run, and a run that fails the reference is one the model disagrees with. *)
From Boltons Require Import Lib.Prelude Lib.C11_Iface Spec.C11_Spec Model.C11_Model Gen.C11_Gen Check.C11_Check
     Proofs.C11_Inv Proofs.C11_Refine Proofs.C11_Main.

Lemma walk_bits cf dg : forall steps s, Inv s ->
  fst (walk cf dg s (m_live s) steps) = snd (walk cf dg s (m_live s) steps).
Proof.
  induction steps as [|[o ob] r IH]; intros s H; [reflexivity|].
  cbn [walk]. destruct (valid_op (m_live s) o) eqn:V; [|reflexivity].
  destruct (step_refines cf s o H V) as (A & B & C).
  destruct (m_step cf s o) as [s' x]. destruct (spec_step (m_live s) o) as [l' y].
  cbn [fst snd] in *. subst l' y. specialize (IH s' A).
  destruct (walk cf dg s' (m_live s') r) as [a h]. cbn [fst snd] in *. subst h.
  rewrite (obs_ok dg s' x (proj1 A)). reflexivity.
Qed.

Theorem verdict_bits c : fst (fst (c11_verdict c)) = snd (fst (c11_verdict c)).
Proof.
  unfold c11_verdict. pose proof (walk_bits (case_cfg c) (c_digests c) (c_steps c) m_empty Inv_empty) as W.
  change (m_live m_empty) with (@nil K) in W.
  destruct (walk (case_cfg c) (c_digests c) m_empty [] (c_steps c)) as [a h]. exact W.
Qed.
