(* The character tables of CPython that Spec/Model/Check rely on, as literal lists; the lists
   probed on the running interpreter over all code points (Gen.C19_Gen) must be these. *)
From Coq Require Import ZArith List Bool Lia ZifyBool.
From Boltons Require Import Lib.Prelude Spec.C19_Spec Model.C19_Model.
Open Scope N_scope.

Definition mem (c : N) (l : list N) : bool := existsb (N.eqb c) l.

(* str.splitlines breaks at the property's seven single characters and at \x1c \x1d \x1e *)
Lemma str_breaks_table : forall c,
  is_break c || is_sep_ctl c = mem c [10; 11; 12; 13; 28; 29; 30; 133; 8232; 8233].
Proof. intros c. unfold is_break, is_sep_ctl, mem. cbn [existsb]. lia. Qed.

(* bytes.splitlines breaks at \n and \r only *)
Lemma bytes_breaks_table : forall c, is_nl_byte c = mem c [10; 13].
Proof. intros c. unfold is_nl_byte, mem. cbn [existsb]. lia. Qed.

Lemma bytes_space_table : forall c, is_ws_bytes c = mem c [9; 10; 11; 12; 13; 32].
Proof. intros c. unfold is_ws_bytes, mem. cbn [existsb]. lia. Qed.

Lemma str_space_table : forall c,
  is_ws_str c = mem c [9; 10; 11; 12; 13; 28; 29; 30; 31; 32; 133; 160; 5760; 8192; 8193; 8194; 8195; 8196;
                       8197; 8198; 8199; 8200; 8201; 8202; 8232; 8233; 8239; 8287; 12288].
Proof. intros c. unfold is_ws_str, mem. cbn [existsb]. lia. Qed.
