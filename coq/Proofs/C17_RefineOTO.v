(* OneToOne: the model's observations satisfy, step by step, exactly the Spec
   predicate that [holds] evaluates on the implementation's observations. *)
From Coq Require Import Permutation.
From Boltons Require Import Lib.Prelude Model.C17_Model Spec.C17_Spec Check.C17_Check
  Proofs.C17_Dict Proofs.C17_OTO Proofs.C17_FD Proofs.C17_SpecLemmas.

(* ---- health of a model instance ------------------------------------------------ *)
Lemma OtoInv_nodup_vals o : OtoInv o -> NoDup (map snd (o_fwd o)).
Proof.
  intros [A B C]. apply nodup_snd_of_inj; trivial.
  intros a a' b H1 H2. apply In_get in H1; trivial. apply In_get in H2; trivial.
  eapply bij_inj; eauto.
Qed.

Lemma model_healthy o : OtoInv o -> oto_healthy (oto_view_of o) = true.
Proof.
  intro H. unfold oto_healthy, oto_view_of, ov_fwd, ov_inv, functional, injective. simpl.
  rewrite !andb_true_iff. repeat split.
  - apply nodup_b_true, H.
  - apply nodup_b_true, H.
  - apply nodup_b_true. now apply OtoInv_nodup_vals.
  - apply same_set_true. intros [a b]. rewrite transpose_flip, flip_In.
    destruct (OtoInv_Inverse o H) as [_ [_ I]]. symmetry. apply I.
Qed.

(* ---- one operation on the forward side ------------------------------------------- *)
Lemma setitem_EqSet o k v : OtoInv o -> EqSet (o_fwd (oto_setitem o k v)) (r_set (o_fwd o) k v).
Proof.
  intros H [a b]. pose proof (setitem_ok o k v H) as H'.
  rewrite In_r_set. rewrite (In_get_iff _ a b (oi_ndf _ H')).
  rewrite setitem_fwd by apply H. rewrite (In_get_iff _ a b (oi_ndf _ H)). tauto.
Qed.

Lemma update_EqSet kvs : forall o r, OtoInv o -> EqSet (o_fwd o) r ->
  EqSet (o_fwd (oto_update o kvs)) (r_update r kvs).
Proof.
  unfold oto_update, r_update. induction kvs as [|[k v] rest IH]; simpl; intros o r H E; trivial.
  apply IH.
  - now apply setitem_ok.
  - eapply EqSet_trans; [now apply setitem_EqSet|]. now apply r_set_EqSet.
Qed.

Ltac dex1 := match goal with |- context [@existsb ?T kv_unhashable ?l] =>
                 let U := fresh "U" in destruct (@existsb T kv_unhashable l) eqn:U end.
Ltac dex2 := dex1; try dex1; simpl.
Ltac contra2 := match goal with
  | U : _ = true, U0 : _ = false |- _ =>
      exfalso; assert (true = false) by exact (eq_trans (eq_sym U) U0); discriminate
  end.

Lemma step_refines o op : OtoInv o ->
  o_op_ok (o_fwd o) (tr_oop op) (tr_res (snd (oto_step o op))) (o_fwd (fst (oto_step o op))) = true.
Proof.
  intro H. unfold o_op_ok. destruct op as [k v|k|k d| | |k d|kvs|kvs|k]; simpl;
    change is_unhashable with unhashable; change pair_unhashable with kv_unhashable.
  - destruct (unhashable k), (unhashable v); simpl; try apply same_set_refl.
    apply same_set_true. now apply setitem_EqSet.
  - destruct (unhashable k); simpl; [apply same_set_refl|].
    rewrite r_has_key_get. destruct (d_get (o_fwd o) k) eqn:E; simpl; apply same_set_refl.
  - destruct (unhashable k); simpl; [apply same_set_refl|].
    rewrite r_lookup_get. destruct (d_get (o_fwd o) k) eqn:E; simpl.
    + rewrite Nat.eqb_refl. apply same_set_refl.
    + destruct d; simpl; rewrite ?Nat.eqb_refl; apply same_set_refl.
  - destruct (rev (o_fwd o)) as [|[k v] r] eqn:E; simpl.
    + assert (o_fwd o = []) as -> by (rewrite <- (rev_involutive (o_fwd o)), E; reflexivity).
      reflexivity.
    + destruct (popitem_shape o k v r (oi_ndf _ H) E) as [-> Hg].
      destruct (o_fwd o) as [|p l] eqn:Ef; [discriminate|]. rewrite <- Ef in *.
      rewrite andb_true_iff. split.
      * apply r_mem_In. now apply get_In.
      * apply same_set_refl.
  - reflexivity.
  - rewrite r_has_key_get, r_lookup_get.
    destruct (unhashable k); simpl; [apply same_set_refl|].
    destruct (d_get (o_fwd o) k) eqn:E; simpl.
    + rewrite Nat.eqb_refl. apply same_set_refl.
    + destruct (unhashable d); simpl; [apply same_set_refl|].
      rewrite Nat.eqb_refl. simpl. apply same_set_true. now apply setitem_EqSet.
  - dex2; try contra2; [apply same_set_refl|].
    apply same_set_true. apply update_EqSet; trivial. apply EqSet_refl.
  - dex2; try contra2; [apply same_set_refl|].
    apply same_set_true. apply update_EqSet; trivial. apply EqSet_refl.
  - destruct (unhashable k); simpl; [apply same_set_refl|].
    rewrite r_lookup_get. destruct (d_get (o_fwd o) k) eqn:E; simpl; rewrite ?Nat.eqb_refl; apply same_set_refl.
Qed.

Lemma o_rel_view s o : o_rel s (oto_view_of o) = o_fwd (oto_side s o).
Proof. destruct s; reflexivity. Qed.

Lemma step_side_refines s o op : OtoInv o ->
  o_op_ok (o_rel s (oto_view_of o)) (tr_oop op) (tr_res (snd (oto_step_side s o op)))
          (o_rel s (oto_view_of (fst (oto_step_side s o op)))) = true.
Proof.
  intro H. rewrite !o_rel_view. unfold oto_step_side. destruct s; simpl.
  - pose proof (step_refines (oto_swap o) op (OtoInv_swap _ H)) as R.
    destruct (oto_step (oto_swap o) op) as [o' r]. simpl in *. exact R.
  - now apply step_refines.
Qed.

(* ---- construction ------------------------------------------------------------------- *)
Lemma dict_of_acc_get (kvs : list kv) : forall (d : dict) k,
  d_get (fold_left (fun d p => d_set d (fst p) (snd p)) kvs d) k =
  match d_get (rev kvs) k with Some v => Some v | None => d_get d k end.
Proof.
  induction kvs as [|[a b] r IH]; simpl; intros d k; trivial.
  rewrite IH, get_set.
  assert (G : forall (l : dict) x y, d_get (l ++ [(x, y)]) k =
              match d_get l k with Some v => Some v | None => if Nat.eqb k x then Some y else None end).
  { induction l as [|[p q] l IHl]; simpl; intros x y; trivial. destruct (Nat.eqb k p); trivial. }
  rewrite G. destruct (d_get (rev r) k); trivial. destruct (Nat.eqb k a); trivial.
Qed.

Lemma dict_of_get kvs k : d_get (dict_of kvs) k = d_get (rev kvs) k.
Proof. unfold dict_of. rewrite dict_of_acc_get. simpl. destruct (d_get (rev kvs) k); trivial. Qed.

Lemma r_dict_acc (kvs : list pair) : forall r : rel, NoDup (map fst r) ->
  let r' := fold_left (fun r p => (fst p, snd p) :: r_del_key r (fst p)) kvs r in
  NoDup (map fst r') /\
  forall k, d_get r' k = match d_get (rev kvs) k with Some v => Some v | None => d_get r k end.
Proof.
  induction kvs as [|[a b] rest IH]; simpl; intros r ND.
  - split; trivial.
  - assert (ND1 : NoDup (map fst ((a, b) :: r_del_key r a))).
    { simpl. constructor.
      - rewrite r_del_key_rm, keys_rm, filter_In, Nat.eqb_refl. simpl. intros [_ ?]. discriminate.
      - rewrite r_del_key_rm. now apply nodup_rm. }
    destruct (IH _ ND1) as [A B]. split; trivial. intro k. rewrite B.
    assert (G : forall (l : dict) x y, d_get (l ++ [(x, y)]) k =
              match d_get l k with Some v => Some v | None => if Nat.eqb k x then Some y else None end).
    { induction l as [|[p q] l IHl]; simpl; intros x y; trivial. destruct (Nat.eqb k p); trivial. }
    rewrite G. destruct (d_get (rev rest) k); trivial. simpl.
    rewrite r_del_key_rm, get_rm. destruct (Nat.eqb k a); trivial.
Qed.

Lemma r_dict_nodup kvs : NoDup (map fst (r_dict kvs)).
Proof. apply (r_dict_acc kvs [] (NoDup_nil _)). Qed.

Lemma r_dict_get kvs k : d_get (r_dict kvs) k = d_get (rev kvs) k.
Proof.
  destruct (r_dict_acc kvs [] (NoDup_nil _)) as [_ B]. unfold r_dict. rewrite B. simpl.
  destruct (d_get (rev kvs) k); trivial.
Qed.

Lemma r_dict_dict_of kvs : EqSet (dict_of kvs) (r_dict kvs).
Proof.
  apply EqSet_of_get; [apply dict_of_nodup|apply r_dict_nodup|].
  intro k. now rewrite dict_of_get, r_dict_get.
Qed.

Lemma EqSet_nodup_snd (a b : rel) : NoDup (map fst a) -> NoDup (map fst b) -> EqSet a b ->
  NoDup (map snd a) -> NoDup (map snd b).
Proof.
  intros A B E H. eapply Permutation_NoDup; [|exact H]. apply Permutation_map. now apply EqSet_perm.
Qed.

Lemma init_shape kvs :
  let D := dict_of kvs in
  (NoDup (map snd D) /\ oto_init kvs = mkOto D (flip D) /\ oto_init_unique kvs = Ok (mkOto D (flip D))) \/
  (~ NoDup (map snd D) /\ oto_init_unique kvs = Raise ValueError /\
   let I := dict_of (flip D) in oto_init kvs = mkOto (flip I) I).
Proof.
  intro D. unfold oto_init, oto_init_unique. fold D.
  assert (NDf : NoDup (map fst D)) by apply dict_of_nodup.
  eqb_case (length D) (length (dict_of (flip D))).
  - left.
    assert (NDv : NoDup (map snd D)).
    { rewrite <- flip_fst. apply dict_of_length_eq. now rewrite flip_length. }
    assert (Hi : dict_of (flip D) = flip D) by (apply dict_of_id; now rewrite flip_fst).
    rewrite Hi. auto.
  - right. split.
    + intro NDv. apply E. rewrite dict_of_id by now rewrite flip_fst. now rewrite flip_length.
    + split; trivial. simpl.
      assert (NDv : NoDup (map snd (dict_of (flip D)))) by now apply nodup_snd_dict_of_flip.
      rewrite (dict_of_id (flip (dict_of (flip D)))); trivial. now rewrite flip_fst.
Qed.

Lemma In_keys_dict_of (l : list kv) k : In k (map fst l) -> In k (map fst (dict_of l)).
Proof.
  intro H. destruct (d_get (dict_of l) k) eqn:E.
  - apply get_In in E. apply in_map_iff. now exists (k, n).
  - exfalso. rewrite dict_of_get in E. apply get_None_notin in E. apply E.
    rewrite map_rev. now apply in_rev in H.
Qed.

Lemma init_built_from kvs : o_built_from kvs (oto_view_of (oto_init kvs)) = true.
Proof.
  unfold o_built_from. rewrite model_healthy by apply init_ok. simpl.
  rewrite andb_true_iff. unfold ov_fwd. simpl.
  pose proof (r_dict_dict_of kvs) as ED.
  destruct (init_shape kvs) as [[NDv [-> _]]|[_ [_ ->]]]; cbn [o_fwd].
  - split.
    + apply r_incl_true. intros p Hp. now apply ED.
    + apply forallb_forall. intros p Hp. apply ED in Hp.
      apply existsb_exists. exists (snd p). split; [|apply Nat.eqb_refl].
      apply in_map_iff. now exists p.
  - set (D := dict_of kvs) in *. set (I := dict_of (flip D)). split.
    + apply r_incl_true. intros [a b] Hp. apply ED. apply (proj1 (flip_In _ _ _)) in Hp.
      apply dict_of_In in Hp. now apply (proj1 (flip_In _ _ _)) in Hp.
    + apply forallb_forall. intros [a b] Hp. apply ED in Hp. simpl.
      apply existsb_exists. exists b. split; [|apply Nat.eqb_refl].
      rewrite flip_snd. apply In_keys_dict_of. rewrite flip_fst. apply in_map_iff. now exists (a, b).
Qed.

Lemma unique_cond kvs : injective (r_dict kvs) = true <-> NoDup (map snd (dict_of kvs)).
Proof.
  unfold injective. rewrite nodup_b_true. pose proof (r_dict_dict_of kvs) as ED. split; intro H.
  - eapply EqSet_nodup_snd; [apply r_dict_nodup|apply dict_of_nodup|apply EqSet_sym; exact ED|exact H].
  - eapply EqSet_nodup_snd; [apply dict_of_nodup|apply r_dict_nodup|exact ED|exact H].
Qed.

Lemma init_of_bij (l : dict) : NoDup (map fst l) -> NoDup (map snd l) -> oto_init l = mkOto l (flip l).
Proof.
  intros A B. destruct (init_shape l) as [[_ [-> _]]|[N _]].
  - now rewrite dict_of_id.
  - exfalso. apply N. now rewrite dict_of_id.
Qed.

(* ---- lists of views -------------------------------------------------------------------- *)
Lemma firstn_app_exact {A} (l r : list A) : firstn (length l) (l ++ r) = l.
Proof. induction l; simpl; congruence. Qed.
Lemma skipn_app_exact {A} (l r : list A) : skipn (length l) (l ++ r) = r.
Proof. induction l; simpl; congruence. Qed.

Lemma others_same_set_nth (h : list oto) : forall i o',
  others_same i (map oto_view_of h) (map oto_view_of (set_nth h i o')) = true.
Proof.
  induction h as [|o r IH]; intros [|i] o'; simpl; trivial.
  - apply oviews_eqb_refl.
  - rewrite oview_eqb_refl. apply IH.
Qed.

Lemma nth_set_nth {A} (l : list A) : forall i x y, nth_error l i = Some y -> nth_error (set_nth l i x) i = Some x.
Proof. induction l as [|a r IH]; intros [|i] x y; simpl; try discriminate; auto. apply IH. Qed.

Lemma views_snoc h o : map oto_view_of (h ++ [o]) = map oto_view_of h ++ [oto_view_of o].
Proof. now rewrite map_app. Qed.

(* == on dicts with unique keys is equality of the item sets *)
Lemma bool_eq_iff' (x y : bool) : (x = true <-> y = true) -> x = y.
Proof. destruct x, y; intros [H1 H2]; auto; try (symmetry; auto). Qed.

Lemma dict_eqb_same_set (a b : dict) : NoDup (map fst a) -> NoDup (map fst b) ->
  dict_eqb_unordered a b = same_set a b.
Proof.
  intros A B. apply bool_eq_iff'. rewrite same_set_true. split.
  - unfold dict_eqb_unordered. rewrite andb_true_iff, Nat.eqb_eq, forallb_forall. intros [L H].
    assert (I : incl a b).
    { intros [k v] Hin. apply H in Hin. simpl in Hin. destruct (d_get b k) eqn:E; [|discriminate].
      apply Nat.eqb_eq in Hin. subst. now apply get_In. }
    intro p. split; [apply I|].
    apply NoDup_length_incl; trivial; [now apply NoDup_pairs_of_keys|].
    unfold rel, pair in *. nlia.
  - intro E. apply dict_eqb_perm; trivial. now apply EqSet_perm.
Qed.

(* ---- one step on a heap of instances ------------------------------------------------------ *)
Lemma hstep_refines h hop : Forall OtoInv h -> snd (oto_hstep h hop) <> Raise BadIndex ->
  o_hop_ok (map oto_view_of h) (tr_ohop hop) (tr_res (snd (oto_hstep h hop)))
           (map oto_view_of (fst (oto_hstep h hop))) = true.
Proof.
  intros F NB. destruct hop as [u kvs|i s|i s op|ior i s j t|keys v|i s|i s j t]; simpl in *.
  7: { rewrite !nth_error_map. destruct (nth_error h i) as [o|] eqn:E; simpl in *; [|congruence].
       destruct (nth_error h j) as [o2|] eqn:E2; simpl in *; [|congruence].
       assert (Ho : OtoInv (oto_side s o)).
       { destruct s; simpl; [apply OtoInv_swap|]; eapply Forall_nth_error; eauto. }
       assert (Ho2 : OtoInv (oto_side t o2)).
       { destruct t; simpl; [apply OtoInv_swap|]; eapply Forall_nth_error; eauto. }
       rewrite oviews_eqb_refl, !o_rel_view. simpl.
       rewrite dict_eqb_same_set; [|apply Ho|apply Ho2].
       destruct (same_set _ _); reflexivity. }
  6: { rewrite nth_error_map. destruct (nth_error h i) as [o|] eqn:E; simpl in *; [|congruence].
       rewrite views_snoc, firstn_app_exact, skipn_app_exact, oviews_eqb_refl. simpl.
       assert (Ho : OtoInv (oto_side s o)).
       { destruct s; simpl; [apply OtoInv_swap|]; eapply Forall_nth_error; eauto. }
       rewrite model_healthy by now apply deepcopy_ok. simpl.
       apply same_set_true. rewrite o_rel_view. intros [a b]. cbn [oto_deepcopy oto_view_of ov_fwd fst].
       destruct (OtoInv_Inverse _ Ho) as [_ [_ I]]. split; intro Hin.
       - apply (proj1 (flip_In _ _ _)) in Hin. now apply I.
       - apply (proj2 (flip_In _ _ _)). now apply I. }
  5: { change pair_unhashable with kv_unhashable.
       change (map (fun k : nat => (k, v)) keys) with (fromkeys_pairs keys v).
       dex1; try dex1; try contra2; simpl; [apply oviews_eqb_refl|].
       rewrite views_snoc, firstn_app_exact, skipn_app_exact, oviews_eqb_refl. simpl.
       rewrite model_healthy by apply update_ok, empty_ok. simpl.
       apply same_set_true. apply update_EqSet; [apply empty_ok|apply EqSet_refl]. }
  - (* new *)
    assert (Erej : existsb (fun p : pair => is_unhashable (fst p)) kvs ||
                   existsb (fun p : pair => is_unhashable (snd p)) (r_dict kvs) = new_rejects kvs).
    { unfold new_rejects. f_equal. symmetry. apply (existsb_EqSet (fun p => is_unhashable (snd p))).
      apply r_dict_dict_of. }
    match goal with |- (if ?c then _ else _) = true => replace c with (new_rejects kvs) by (symmetry; exact Erej) end.
    unfold oto_new in *. destruct (new_rejects kvs); simpl; [apply oviews_eqb_refl|].
    destruct u; simpl.
    + destruct (init_shape kvs) as [[NDv [Hi Hu]]|[NDv [Hu Hi]]]; rewrite Hu; simpl.
      * apply unique_cond in NDv. rewrite NDv. simpl.
        rewrite views_snoc, firstn_app_exact, skipn_app_exact, oviews_eqb_refl. simpl.
        rewrite <- Hi. apply init_built_from.
      * destruct (injective (r_dict kvs)) eqn:Ei; [apply unique_cond in Ei; tauto|]. simpl.
        apply oviews_eqb_refl.
    + rewrite views_snoc, firstn_app_exact, skipn_app_exact, oviews_eqb_refl. simpl.
      apply init_built_from.
  - (* copy *)
    rewrite nth_error_map. destruct (nth_error h i) as [o|] eqn:E; simpl in *; [|congruence].
    rewrite views_snoc, firstn_app_exact, skipn_app_exact, oviews_eqb_refl. simpl.
    assert (Ho : OtoInv (oto_side s o)).
    { destruct s; simpl; [apply OtoInv_swap|]; eapply Forall_nth_error; eauto. }
    rewrite init_of_bij; [|apply Ho|now apply OtoInv_nodup_vals].
    rewrite andb_true_iff. split.
    + apply model_healthy. rewrite <- init_of_bij; [apply init_ok|apply Ho|now apply OtoInv_nodup_vals].
    + rewrite o_rel_view. apply same_set_refl.
  - (* operation *)
    rewrite nth_error_map. destruct (nth_error h i) as [o|] eqn:E; simpl in *; [|congruence].
    pose proof (Forall_nth_error _ _ _ _ F E) as Ho.
    pose proof (step_side_refines s o op Ho) as R. pose proof (step_side_ok s o op Ho) as K.
    destruct (oto_step_side s o op) as [o' r]. simpl in *.
    rewrite nth_error_map, (nth_set_nth _ _ _ _ E). simpl.
    rewrite others_same_set_nth, model_healthy by assumption. exact R.
  - (* update from another instance *)
    rewrite !nth_error_map. destruct (nth_error h i) as [o|] eqn:E; simpl in *; [|congruence].
    destruct (nth_error h j) as [o2|] eqn:E2; simpl in *; [|congruence].
    pose proof (Forall_nth_error _ _ _ _ F E) as Ho.
    set (op := if ior then OIor (o_fwd (oto_side t o2)) else OUpdate (o_fwd (oto_side t o2))) in *.
    pose proof (step_side_refines s o op Ho) as R. pose proof (step_side_ok s o op Ho) as K.
    destruct (oto_step_side s o op) as [o' r]. simpl in *.
    rewrite (nth_set_nth _ _ _ _ E). simpl.
    rewrite others_same_set_nth, model_healthy by assumption. simpl.
    rewrite (o_rel_view t o2). subst op. destruct ior; exact R.
Qed.

(* ---- whole histories ---------------------------------------------------------------------- *)
(* the trace the model produces: each hop with the model's own observation *)
Fixpoint oto_trace (h : list oto) (hops : list oto_hop) : list (oto_hop * oto_obs) :=
  match hops with
  | [] => []
  | hop :: rest =>
      let '(h', r) := oto_hstep h hop in
      (hop, (r, map oto_view_of h')) :: oto_trace h' rest
  end.

Definition no_bad_index (tr : list (oto_hop * oto_obs)) : Prop :=
  Forall (fun x => fst (snd x) <> Raise BadIndex) tr.

Lemma res_val_eqb_refl (r : res val) : res_eqb val_eqb r r = true.
Proof.
  destruct r as [v|e]; simpl.
  - destruct v; simpl; rewrite ?Nat.eqb_refl; trivial.
    + destruct b; reflexivity.
    + apply list_eqb_refl. apply Nat.eqb_refl.
  - destruct e; simpl; trivial; apply Nat.eqb_refl.
Qed.

Lemma walk_trace hops : forall h, Forall OtoInv h -> no_bad_index (oto_trace h hops) ->
  oto_walk h (map oto_view_of h) (oto_trace h hops) = (true, true).
Proof.
  induction hops as [|hop rest IH]; simpl; intros h F NB; trivial.
  pose proof (hstep_refines h hop F) as R. pose proof (hstep_ok h hop F) as K.
  destruct (oto_hstep h hop) as [h' r] eqn:E. simpl in *.
  inversion NB; subst. simpl in *.
  rewrite E. rewrite IH by assumption.
  rewrite res_val_eqb_refl, oviews_eqb_refl, R by assumption. reflexivity.
Qed.

Theorem oto_model_refines_spec hops :
  no_bad_index (oto_trace [] hops) -> c17_verdict (COto (oto_trace [] hops)) = (true, true, false).
Proof.
  intro NB. pose proof (walk_trace hops [] (Forall_nil _) NB) as W. simpl in W.
  generalize dependent (oto_trace [] hops). intros steps _ W. simpl.
  assert (W' : oto_walk [] [] steps = (true, true)) by exact W. rewrite W'. reflexivity.
Qed.
