(* C02: the three counters count lookups. *)
From Boltons Require Import Lib.Prelude Lib.C02_Syntax Spec.C02_Spec Model.C02_Model
  Proofs.C02_Lists Proofs.C02_Eqb Proofs.C02_Inv Proofs.C02_Refine Proofs.C02_Heap.
Open Scope N_scope.

(* What one call contributes to (hits, misses, soft misses), judged from outside:
   `present k` is the answer of `k in cache` just before the call.  A lookup is
   c[k], c.get(k, d) or c.setdefault(k, d); it is a hit if the key is present,
   a miss otherwise; a miss of get/setdefault that is answered by the caller's
   default (no on_miss) is also a soft miss. *)
Definition lookup_delta (c : cfg) (present : K -> bool) (o : op1) : N * N * N :=
  match o with
  | GetItem k => if present k then (1, 0, 0) else (0, 1, 0)
  | Get k _ | SetDefault k _ =>
      if present k then (1, 0, 0)
      else (0, 1, match c_on_miss c with None => 1 | Some _ => 0 end)
  | _ => (0, 0, 0)
  end.

(* a history on one cache *)
Definition run1 (c : cfg) (m : cache) (ops : list op1) : cache :=
  fold_left (fun m o => fst (step1 c m o)) ops m.

Fixpoint count_lookups (c : cfg) (m : cache) (ops : list op1) : N * N * N :=
  match ops with
  | [] => (0, 0, 0)
  | o :: rest =>
      let '(h, ms, s) := lookup_delta c (d_mem (store m)) o in
      let '(h', ms', s') := count_lookups c (fst (step1 c m o)) rest in
      (h + h', ms + ms', s + s')
  end.

Definition counters_r (r : rcache) : N * N * N := (r_hit r, r_miss r, r_soft r).
Definition add3 (a b : N * N * N) : N * N * N :=
  let '(x, y, z) := a in let '(x', y', z') := b in (x + x', y + y', z + z').

Lemma r_sets_counters c kvs : forall r, counters_r (r_sets c r kvs) = counters_r r.
Proof.
  induction kvs as [|[k v] rest IH]; intro r; [reflexivity|].
  unfold r_sets in *. simpl. rewrite IH. reflexivity.
Qed.

Lemma r_lookup_counters c r k :
  counters_r (fst (r_lookup c r k))
  = add3 (counters_r r) (if r_has r k then (1, 0, 0) else (0, 1, 0))
  /\ (r_has r k = true -> snd (r_lookup c r k) <> None)
  /\ (r_has r k = false -> (snd (r_lookup c r k) = None <-> c_on_miss c = None)).
Proof.
  unfold r_lookup, r_has, d_mem. destruct (d_get (r_items r) k) as [v|].
  - split; [|split].
    + unfold counters_r, add3. simpl. now rewrite !N.add_0_r.
    + intros _. simpl. discriminate.
    + discriminate.
  - destruct (c_on_miss c) as [f|]; (split; [|split]).
    + unfold counters_r, add3, r_set, r_with_items. simpl. now rewrite !N.add_0_r.
    + discriminate.
    + intros _. simpl. split; discriminate.
    + unfold counters_r, add3. simpl. now rewrite !N.add_0_r.
    + discriminate.
    + intros _. simpl. split; reflexivity.
Qed.

Lemma spec_step_counters c r o :
  relational o = false ->
  counters_r (fst (spec_step c r o)) = add3 (counters_r r) (lookup_delta c (r_has r) o).
Proof.
  intro R. destruct o; simpl in R; try discriminate; simpl;
    try (unfold counters_r; simpl; now rewrite !N.add_0_r).
  - (* GetItem *)
    destruct (r_lookup_counters c r k) as [C _]. destruct (r_lookup c r k) as [r' [v|]]; exact C.
  - (* Get *)
    destruct (r_lookup_counters c r k) as [C [P A]].
    destruct (r_lookup c r k) as [r' [v|]] eqn:L; simpl in *.
    + destruct (r_has r k) eqn:H; [exact C|].
      destruct (A eq_refl) as [_ A2]. destruct (c_on_miss c); [exact C|]. now specialize (A2 eq_refl).
    + destruct (r_has r k) eqn:H; [now specialize (P eq_refl)|].
      destruct (A eq_refl) as [A1 _]. rewrite (A1 eq_refl).
      unfold counters_r, add3 in *. simpl in *. injection C as H1 H2 H3.
      rewrite H1, H2, H3, !N.add_0_r. reflexivity.
  - (* SetDefault *)
    destruct (r_lookup_counters c r k) as [C [P A]].
    destruct (r_lookup c r k) as [r' [v|]] eqn:L; simpl in *.
    + destruct (r_has r k) eqn:H; [exact C|].
      destruct (A eq_refl) as [_ A2]. destruct (c_on_miss c); [exact C|]. now specialize (A2 eq_refl).
    + destruct (r_has r k) eqn:H; [now specialize (P eq_refl)|].
      destruct (A eq_refl) as [A1 _]. rewrite (A1 eq_refl).
      unfold counters_r, add3 in *. simpl in *. injection C as H1 H2 H3.
      rewrite H1, H2, H3, !N.add_0_r. reflexivity.
  - (* DelItem *)
    destruct (r_has r k); unfold counters_r; simpl; now rewrite !N.add_0_r.
  - (* Pop *)
    destruct (d_get (r_items r) k); [|destruct d]; unfold counters_r; simpl; now rewrite !N.add_0_r.
  - (* Update *)
    rewrite r_sets_counters. unfold counters_r; simpl; now rewrite !N.add_0_r.
  - (* IOr *)
    rewrite r_sets_counters. unfold counters_r; simpl; now rewrite !N.add_0_r.
  - (* UpdateSelf *)
    rewrite r_sets_counters. unfold counters_r; simpl; now rewrite !N.add_0_r.
Qed.

Lemma accept_counters c r o out r' :
  spec_accept c r o out = Some r' ->
  counters_r r' = add3 (counters_r r) (lookup_delta c (r_has r) o).
Proof.
  intro A. destruct (relational o) eqn:R.
  - destruct o; simpl in R; try discriminate; unfold spec_accept in A; simpl.
    + destruct out as [[| | | |k v| |]|[]]; try discriminate.
      * destruct (option_eqb Nat.eqb (d_get (r_items r) k) (Some v)); [|discriminate].
        inversion A; subst. unfold counters_r; simpl; now rewrite !N.add_0_r.
      * destruct (r_items r); [|discriminate]. inversion A; subst.
        unfold counters_r; simpl; now rewrite !N.add_0_r.
    + destruct out as [[| | | | |ks|]|]; try discriminate.
      destruct (same_keys ks (r_items r)); [|discriminate]. inversion A; subst.
      unfold counters_r; simpl; now rewrite !N.add_0_r.
    + destruct out as [[| | | | | |l]|]; try discriminate.
      destruct (same_map l (r_items r)); [|discriminate]. inversion A; subst.
      unfold counters_r; simpl; now rewrite !N.add_0_r.
  - pose proof (spec_step_counters c r o R) as C.
    assert (E : r' = fst (spec_step c r o)).
    { destruct o; simpl in R; try discriminate; unfold spec_accept in A;
        destruct (spec_step c r _) as [r1 out1]; destruct (res_eqb outv_eqb out out1);
        try discriminate; inversion A; reflexivity. }
    now rewrite E.
Qed.

Definition counters (m : cache) : N * N * N := (hit m, miss m, soft m).

Lemma step1_counters c m o :
  (1 <= c_max c)%nat -> Inv c m ->
  counters (fst (step1 c m o)) = add3 (counters m) (lookup_delta c (d_mem (store m)) o).
Proof.
  intros Hmax I. destruct (step1_sim c m o Hmax I) as [m' [out [E [_ [A _]]]]].
  rewrite E. simpl. apply accept_counters in A.
  assert (P : lookup_delta c (d_mem (store m)) o = lookup_delta c (r_has (abs m)) o).
  { unfold r_has. simpl. destruct o; simpl; try reflexivity; now rewrite (inv_mem c m _ I). }
  rewrite P. exact A.
Qed.

Lemma run1_counters c ops : forall m,
  (1 <= c_max c)%nat -> Inv c m ->
  counters (run1 c m ops) = add3 (counters m) (count_lookups c m ops)
  /\ (soft (run1 c m ops) <= miss (run1 c m ops)) /\ Inv c (run1 c m ops).
Proof.
  induction ops as [|o rest IH]; intros m Hmax I.
  - simpl. unfold counters. rewrite !N.add_0_r. split; [reflexivity|]. split; [apply (inv_soft _ _ I)|exact I].
  - simpl. pose proof (step1_counters c m o Hmax I) as S.
    destruct (step1_sim c m o Hmax I) as [m' [out [E [I' _]]]].
    rewrite E in *. simpl in *. destruct (IH m' Hmax I') as [C [L I2]].
    split; [|split; assumption]. rewrite C.
    destruct (lookup_delta c (d_mem (store m)) o) as [[a b] d].
    destruct (count_lookups c m' rest) as [[a' b'] d'].
    unfold counters in S. injection S as S1 S2 S3. rewrite S1, S2, S3.
    rewrite !N.add_assoc. reflexivity.
Qed.

(* from construction: the counters are exactly the numbers of lookups of each kind *)
Lemma counters_count c init ops :
  (1 <= c_max c)%nat ->
  let m0 := fst (init_cache c init) in
  let m := run1 c m0 ops in
  (hit m, miss m, soft m) = count_lookups c m0 ops /\ soft m <= miss m.
Proof.
  intro Hmax. destruct (init_sim c init Hmax) as [m0 [E [I A]]]. rewrite E. simpl.
  destruct (run1_counters c ops m0 Hmax I) as [C [L _]]. split; [|exact L].
  destruct (setitems_sim c init empty_cache Hmax (inv_empty c)) as [m0' [E' [_ [_ [_ [H0 [M0 S0]]]]]]].
  unfold init_cache in E. rewrite E in E'. inversion E'; subst m0'.
  unfold counters in C. rewrite H0, M0, S0 in C. simpl in C. rewrite C.
  destruct (count_lookups c m0 ops) as [[a b] d]. reflexivity.
Qed.
