(* C12: searching.  bytearray.find with a start offset and an end bound
   (Model.py_find) against "first occurrence" (Spec.first_occ); the rolling
   offset of recv_until loses no occurrence. *)
From Boltons Require Import Lib.Prelude Lib.C12_Base Spec.C12_Spec Model.C12_Model.

(* ---- least index satisfying a boolean predicate -------------------------------- *)
Fixpoint least (P : nat -> bool) (from cnt : nat) : option nat :=
  match cnt with
  | 0 => None
  | S c => if P from then Some from else least P (S from) c
  end.

Lemma least_S P from c :
  least P from (S c) = if P from then Some from else least P (S from) c.
Proof. reflexivity. Qed.

Lemma least_ext P Q : forall cnt from,
  (forall q, from <= q < from + cnt -> P q = Q q) -> least P from cnt = least Q from cnt.
Proof.
  induction cnt as [|c IH]; intros from H; cbn [least]; [reflexivity|].
  rewrite (H from) by lia. destruct (Q from); [reflexivity|].
  apply IH. intros q Hq. apply H. lia.
Qed.

Lemma least_some P : forall cnt from k,
  least P from cnt = Some k ->
  from <= k < from + cnt /\ P k = true /\ (forall q, from <= q < k -> P q = false).
Proof.
  induction cnt as [|c IH]; intros from k H; cbn [least] in H; [discriminate|].
  destruct (P from) eqn:E.
  - inversion H; subst. repeat split; try lia; auto; intros; lia.
  - apply IH in H as (H1 & H2 & H3). repeat split; try lia; auto.
    intros q Hq. destruct (Nat.eq_dec q from); [subst; assumption|]. apply H3. lia.
Qed.

Lemma least_none P : forall cnt from,
  least P from cnt = None -> forall q, from <= q < from + cnt -> P q = false.
Proof.
  induction cnt as [|c IH]; intros from H q Hq; [lia|]. cbn [least] in H.
  destruct (P from) eqn:E; [discriminate|].
  destruct (Nat.eq_dec q from); [subst; assumption|]. apply (IH _ H). lia.
Qed.

Lemma least_intro P : forall cnt from k,
  from <= k < from + cnt -> P k = true -> (forall q, from <= q < k -> P q = false) ->
  least P from cnt = Some k.
Proof.
  induction cnt as [|c IH]; intros from k Hk Pk Hlt; [lia|]. cbn [least].
  destruct (Nat.eq_dec k from).
  - subst. rewrite Pk. reflexivity.
  - rewrite Hlt by lia. apply IH; try lia; auto. intros; apply Hlt; lia.
Qed.

Lemma least_none_intro P : forall cnt from,
  (forall q, from <= q < from + cnt -> P q = false) -> least P from cnt = None.
Proof.
  induction cnt as [|c IH]; intros from H; [reflexivity|]. cbn [least].
  rewrite H by lia. apply IH. intros; apply H; lia.
Qed.

(* same answer on two ranges/predicates as soon as the predicates agree up to
   the answer and beyond it nothing new can come first *)
Lemma least_transfer P Q c1 c2 k :
  least P 0 c1 = Some k -> k < c2 -> (forall q, q <= k -> P q = Q q) -> least Q 0 c2 = Some k.
Proof.
  intros H Hk HPQ. apply least_some in H as (H1 & H2 & H3).
  apply least_intro; try lia.
  - rewrite <- HPQ by lia. assumption.
  - intros q Hq. rewrite <- HPQ by lia. apply H3. lia.
Qed.

Lemma least_shift P : forall cnt from,
  option_map S (least P from cnt) = least (fun q => P (q - 1)) (S from) cnt.
Proof.
  induction cnt as [|c IH]; intros from; cbn [least option_map]; [reflexivity|].
  replace (S from - 1) with from by lia.
  destruct (P from); [reflexivity|]. apply IH.
Qed.

(* ---- is_prefix ---------------------------------------------------------------------- *)
Lemma is_prefix_length d : forall l, is_prefix d l = true -> length d <= length l.
Proof.
  induction d as [|x d IH]; intros [|y l] H; cbn in *; try lia; try discriminate.
  apply andb_true_iff in H as [_ H]. apply IH in H. lia.
Qed.

Lemma is_prefix_app_r d : forall l x, is_prefix d l = true -> is_prefix d (l ++ x) = true.
Proof.
  induction d as [|a d IH]; intros [|y l] x H; cbn in *; try reflexivity; try discriminate.
  apply andb_true_iff in H as [H1 H2]. rewrite H1. cbn. apply IH. assumption.
Qed.

(* an occurrence that fits inside l does not depend on what follows l *)
Lemma is_prefix_app_fit d : forall l x, length d <= length l -> is_prefix d (l ++ x) = is_prefix d l.
Proof.
  induction d as [|a d IH]; intros [|y l] x H; cbn in *; try reflexivity; try lia.
  rewrite IH by lia. reflexivity.
Qed.

Lemma is_prefix_firstn d : forall l k,
  is_prefix d (firstn k l) = Nat.leb (length d) k && is_prefix d l.
Proof.
  induction d as [|a d IH]; intros l k.
  - cbn. reflexivity.
  - destruct k as [|k]; [cbn; reflexivity|].
    destruct l as [|y l]; cbn [firstn is_prefix length].
    + rewrite andb_false_r. reflexivity.
    + rewrite IH. cbn [Nat.leb]. destruct (N.eqb a y); cbn.
      * reflexivity.
      * rewrite andb_false_r. reflexivity.
Qed.

Lemma is_prefix_self d : forall l, is_prefix d (d ++ l) = true.
Proof. induction d as [|a d IH]; intro l; cbn; [reflexivity|]. rewrite N.eqb_refl. apply IH. Qed.

Lemma is_prefix_split d : forall l, is_prefix d l = true -> l = d ++ skipn (length d) l.
Proof.
  induction d as [|a d IH]; intros [|y l] H; cbn in *; try reflexivity; try discriminate.
  apply andb_true_iff in H as [H1 H2]. apply N.eqb_eq in H1. subst. f_equal. apply IH. assumption.
Qed.

(* ---- the two searches as least-index searches ------------------------------------------ *)
Definition occ_at (d l : bytes) (q : nat) : bool := is_prefix d (skipn q l).

Lemma first_occ_least d : forall l, first_occ d l = least (occ_at d l) 0 (S (length l)).
Proof.
  induction l as [|x r IH].
  - cbn. unfold occ_at. cbn. destruct (is_prefix d []); reflexivity.
  - cbn [first_occ length]. rewrite least_S.
    unfold occ_at at 1. cbn [skipn]. destruct (is_prefix d (x :: r)); [reflexivity|].
    rewrite IH, least_shift. apply least_ext. intros q Hq. unfold occ_at.
    destruct q as [|q]; [lia|]. cbn [skipn]. replace (S q - 1) with q by lia. reflexivity.
Qed.

Definition find_pred (d l : bytes) (start lim : nat) (q : nat) : bool :=
  Nat.leb start q && Nat.leb (q + length d) lim && occ_at d l q.

Lemma find_from_least d start lim : forall l pos,
  find_from d l pos start lim =
  least (fun q => Nat.leb start q && Nat.leb (q + length d) lim && is_prefix d (skipn (q - pos) l))
        pos (S (length l)).
Proof.
  induction l as [|x r IH]; intro pos.
  - cbn. rewrite Nat.sub_diag. cbn. destruct (_ && _ && _); reflexivity.
  - cbn [find_from length]. rewrite least_S. rewrite Nat.sub_diag. cbn [skipn].
    destruct (_ && _ && _); [reflexivity|].
    rewrite IH. apply least_ext. intros q Hq.
    replace (q - pos) with (S (q - S pos)) by lia. reflexivity.
Qed.

Definition find_lim (stop : limit) (l : bytes) : nat :=
  match stop with None => length l | Some m => Nat.min m (length l) end.

Lemma py_find_least d l start stop :
  py_find d l start stop = least (find_pred d l start (find_lim stop l)) 0 (S (length l)).
Proof.
  unfold py_find. rewrite find_from_least. apply least_ext. intros q _.
  unfold find_pred, occ_at. rewrite Nat.sub_0_r. destruct stop; reflexivity.
Qed.

Lemma occ_at_bound d l q : q <= length l -> occ_at d l q = true -> q + length d <= length l.
Proof.
  unfold occ_at. intros Hq H. apply is_prefix_length in H. rewrite skipn_length in H. lia.
Qed.

Lemma occ_at_app d l x q :
  q + length d <= length l -> occ_at d (l ++ x) q = occ_at d l q.
Proof.
  intro H. unfold occ_at. rewrite skipn_app.
  replace (q - length l) with 0 by lia. cbn [skipn].
  apply is_prefix_app_fit. rewrite skipn_length. lia.
Qed.

Lemma first_occ_bound d l k : first_occ d l = Some k -> k + length d <= length l.
Proof.
  rewrite first_occ_least. intro H. apply least_some in H as (H1 & H2 & _).
  apply occ_at_bound; [lia|assumption].
Qed.

Lemma first_occ_occ d l k : first_occ d l = Some k -> is_prefix d (skipn k l) = true.
Proof. rewrite first_occ_least. intro H. apply least_some in H as (_ & H2 & _). exact H2. Qed.

(* (A) searching from 0 up to maxsize = first occurrence inside remaining[:maxsize] *)
Lemma py_find_first_occ d l stop : py_find d l 0 stop = first_occ d (lim_take stop l).
Proof.
  rewrite py_find_least, first_occ_least.
  destruct (least (occ_at d (lim_take stop l)) 0 (S (length (lim_take stop l)))) as [k|] eqn:E.
  - pose proof (least_some _ _ _ _ E) as (H1 & H2 & H3).
    assert (Hb : k + length d <= length (lim_take stop l)) by (apply occ_at_bound; [lia|assumption]).
    assert (Hlen : length (lim_take stop l) = find_lim stop l).
    { destruct stop; cbn; [apply firstn_length|reflexivity]. }
    assert (Htake : forall q, q + length d <= find_lim stop l ->
                              occ_at d (lim_take stop l) q = occ_at d l q).
    { intros q Hq. destruct stop as [m|]; cbn [lim_take]; [|reflexivity].
      rewrite <- (firstn_skipn m l) at 2. apply eq_sym, occ_at_app.
      cbn in Hlen, Hq. rewrite firstn_length. lia. }
    apply least_intro.
    + assert (find_lim stop l <= length l) by (destruct stop; cbn; lia). lia.
    + unfold find_pred. cbn [Nat.leb]. rewrite <- Htake by lia. rewrite H2.
      rewrite (proj2 (Nat.leb_le _ _)) by lia. reflexivity.
    + intros q Hq. unfold find_pred. cbn [Nat.leb andb].
      destruct (Nat.leb (q + length d) (find_lim stop l)) eqn:El; [|reflexivity].
      apply Nat.leb_le in El. rewrite <- Htake by lia. cbn. apply H3. lia.
  - apply least_none_intro. intros q Hq. unfold find_pred. cbn [Nat.leb andb].
    destruct (Nat.leb (q + length d) (find_lim stop l)) eqn:El; [|reflexivity].
    apply Nat.leb_le in El. cbn [andb].
    assert (Hlen : length (lim_take stop l) = find_lim stop l).
    { destruct stop; cbn; [apply firstn_length|reflexivity]. }
    assert (E2 : occ_at d (lim_take stop l) q = false).
    { apply (least_none _ _ _ E). lia. }
    rewrite <- E2. destruct stop as [m|]; cbn [lim_take]; [|reflexivity].
    rewrite <- (firstn_skipn m l) at 1. apply occ_at_app.
    cbn in El. rewrite firstn_length. lia.
Qed.

(* (B) the rolling offset: if the delimiter does not occur in old[:maxsize],
   searching old ++ nxt from len(old) - len(delim) + 1 finds what searching
   from 0 finds *)
Lemma find_rolling d old nxt stop :
  py_find d old 0 stop = None ->
  py_find d (old ++ nxt) (length old + 1 - length d) stop = py_find d (old ++ nxt) 0 stop.
Proof.
  intro Hnone. rewrite !py_find_least. rewrite py_find_least in Hnone.
  apply least_ext. intros q Hq. unfold find_pred. cbn [Nat.leb andb].
  destruct (Nat.leb (length old + 1 - length d) q) eqn:Es; [reflexivity|].
  apply Nat.leb_gt in Es. cbn [andb].
  destruct (Nat.leb (q + length d) (find_lim stop (old ++ nxt))) eqn:El; [|reflexivity].
  apply Nat.leb_le in El. cbn [andb].
  (* the occurrence would lie inside old and inside the bound: found earlier *)
  assert (Hin : q + length d <= length old) by lia.
  rewrite occ_at_app by assumption.
  assert (Hold : find_pred d old 0 (find_lim stop old) q = false).
  { apply (least_none _ _ _ Hnone). lia. }
  unfold find_pred in Hold. cbn [Nat.leb andb] in Hold.
  assert (Hl : Nat.leb (q + length d) (find_lim stop old) = true).
  { apply Nat.leb_le. destruct stop as [m|]; cbn in *; [|assumption].
    rewrite app_length in El. lia. }
  rewrite Hl in Hold. cbn [andb] in Hold. rewrite Hold. reflexivity.
Qed.

(* (C) an occurrence inside the received part stays the first occurrence when
   more bytes follow *)
Lemma first_occ_extend d l x stop k :
  first_occ d (lim_take stop l) = Some k -> first_occ d (lim_take stop (l ++ x)) = Some k.
Proof.
  rewrite <- !py_find_first_occ, !py_find_least. intro H.
  pose proof (least_some _ _ _ _ H) as (H1 & H2 & H3).
  unfold find_pred in H2. cbn [Nat.leb andb] in H2.
  apply andb_true_iff in H2 as [Hb Ho]. apply Nat.leb_le in Hb.
  assert (Hfl : find_lim stop l <= length l) by (destruct stop; cbn; lia).
  assert (Hmono : find_lim stop l <= find_lim stop (l ++ x)).
  { destruct stop; cbn; rewrite app_length; lia. }
  apply least_intro.
  - rewrite app_length. lia.
  - unfold find_pred. cbn [Nat.leb andb]. rewrite occ_at_app by lia. rewrite Ho.
    rewrite (proj2 (Nat.leb_le _ _)) by lia. reflexivity.
  - intros q Hq. unfold find_pred. cbn [Nat.leb andb].
    rewrite occ_at_app by lia.
    specialize (H3 q ltac:(lia)). unfold find_pred in H3. cbn [Nat.leb andb] in H3.
    rewrite (proj2 (Nat.leb_le _ _)) in H3 by lia. cbn [andb] in H3. rewrite H3.
    apply andb_false_r.
Qed.

(* nothing is found later once the received part alone exceeds maxsize *)
Lemma lim_take_exceeded stop l x :
  lim_exceeded stop l = true -> lim_take stop (l ++ x) = lim_take stop l /\ lim_exceeded stop (l ++ x) = true.
Proof.
  destruct stop as [m|]; cbn; [|discriminate]. intro H. apply Nat.ltb_lt in H. split.
  - rewrite firstn_app. replace (m - length l) with 0 by lia. cbn. apply app_nil_r.
  - apply Nat.ltb_lt. rewrite app_length. lia.
Qed.
