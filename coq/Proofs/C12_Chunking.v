(* C12: chunking independence.  A caller that repeats a framing call after
   Timeout obtains, on every well-formed network, exactly the values the
   reference computes from the byte stream alone; hence the same values for
   any two networks that carry the same stream (in particular the stream
   delivered at once).  Conservation of bytes across the whole history. *)
From Boltons Require Import Lib.Prelude Lib.C12_Base Spec.C12_Spec Model.C12_Model
  Proofs.C12_Find Proofs.C12_Recv Proofs.C12_Send Proofs.C12_Main.

(* calls whose outcome is a function of the stream: the framing calls and
   setmaxsize *)
Definition is_det_op (o : op) : bool :=
  is_framing_op o || match o with SetMaxsize _ => true | _ => false end.

(* what the reference computes from the remaining stream alone *)
Fixpoint spec_outs (dflt : limit) (rem : bytes) (ops : list op) : list outcome :=
  match ops with
  | [] => []
  | SetMaxsize m :: r => ONone :: spec_outs m rem r
  | o :: r =>
      match spec_framing dflt rem o with
      | Some (out, rem') => out :: spec_outs dflt rem' r
      | None => []
      end
  end.

Lemma framing_is_recv o : is_framing_op o = true -> is_recv_op o = true.
Proof. destruct o; cbn; congruence. Qed.

Lemma step_retry_ok : forall fuel s o out s',
  wf_net (nt s) = true -> 1 <= recvsize s -> is_framing_op o = true ->
  net_size (nt s) <= fuel ->
  step_retry fuel s o = (out, s') ->
  spec_framing (maxsize s) (remaining s) o = Some (out, remaining s') /\
  wf_net (nt s') = true /\ same_rest s s'.
Proof.
  induction fuel as [|f IH]; intros s o out s' W R Ho F H; cbn [step_retry] in H;
    destruct (step s o) as [o1 s1] eqn:E;
    pose proof (step_recv_ok _ _ _ _ W R (framing_is_recv _ Ho) E) as (W1 & SR & _ & Hcase);
    destruct Hcase as [(e & -> & Hr & Ht)|(Hnt & Ht & Hcase)].
  - (* no retries left but interrupted: impossible, every interruption shrinks the network *)
    destruct Ht as [Hs _]. lia.
  - rewrite Hnt in H. inversion H; subst. split; [|auto]. destruct o; try discriminate; exact Hcase.
  - (* interrupted: repeat *)
    cbn [is_interrupt] in H. rewrite (intr_by_is_intr _ _ _ _ Ht) in H.
    destruct SR as (SR1 & SR2 & SR3 & SR4 & SR5 & SR6). destruct Ht as [Hs _].
    apply IH in H; try assumption; try lia.
    destruct H as (H1 & H2 & H3). rewrite SR1, Hr in H1. split; [exact H1|]. split; [exact H2|].
    eapply same_rest_trans; [|exact H3]. repeat split; assumption.
  - rewrite Hnt in H. inversion H; subst. split; [|auto]. destruct o; try discriminate; exact Hcase.
Qed.

Theorem run_retry_spec : forall ops s,
  wf_net (nt s) = true -> 1 <= recvsize s -> forallb is_det_op ops = true ->
  run_retry s ops = spec_outs (maxsize s) (remaining s) ops.
Proof.
  induction ops as [|o r IH]; intros s W R Hops; [reflexivity|].
  cbn [forallb] in Hops. apply andb_true_iff in Hops as [Ho Hr].
  cbn [run_retry]. destruct (step_retry (net_size (nt s)) s o) as [out s'] eqn:E.
  unfold is_det_op in Ho. apply orb_true_iff in Ho as [Ho|Ho].
  - apply step_retry_ok in E; auto. destruct E as (Hs & W' & SR).
    destruct SR as (SR1 & SR2 & _).
    assert (Hnot : match o with SetMaxsize _ => False | _ => True end) by (destruct o; try discriminate; exact I).
    destruct o; try contradiction; cbn [spec_outs]; rewrite Hs; f_equal;
      rewrite <- SR1; apply IH; auto; lia.
  - destruct o; try discriminate. destruct (net_size (nt s)); cbn in E; inversion E; subst; clear E;
      cbn [spec_outs]; f_equal;
      apply (IH (mkBS (rbuf s) (nt s) m (recvsize s) (sbuf s) (script s) (wire s) (dl s))); auto.
Qed.

(* two networks that carry the same byte stream, however it is cut into
   deliveries and wherever the time-outs fall, with any two recvsize settings *)
Theorem chunking_independent mx rs1 rs2 d1 d2 n1 n2 sc1 sc2 ops :
  wf_net n1 = true -> wf_net n2 = true -> 1 <= rs1 -> 1 <= rs2 ->
  flat n1 = flat n2 -> forallb is_det_op ops = true ->
  run_retry (bs_init_dl mx rs1 d1 n1 sc1) ops = run_retry (bs_init_dl mx rs2 d2 n2 sc2) ops.
Proof.
  intros W1 W2 R1 R2 Hf Hops. rewrite !run_retry_spec by assumption.
  unfold remaining. cbn. rewrite Hf. reflexivity.
Qed.

(* the whole stream in one delivery *)
Definition at_once (stream : bytes) : net :=
  match stream with [] => [] | _ => [Chunk stream] end.

Lemma at_once_ok stream : wf_net (at_once stream) = true /\ flat (at_once stream) = stream.
Proof. destruct stream; cbn; [auto|]. rewrite app_nil_r. auto. Qed.

Corollary same_as_at_once mx rs d n ops :
  wf_net n = true -> 1 <= rs -> forallb is_det_op ops = true ->
  run_retry (bs_init_dl mx rs d n []) ops = run_retry (bs_init_dl mx rs d (at_once (flat n)) []) ops.
Proof.
  intros W R Hops. destruct (at_once_ok (flat n)) as [W2 F2].
  apply chunking_independent; auto.
Qed.

(* ---- conservation, stated on the bytes themselves ------------------------------------------- *)
(* the bytes a call has taken out of the stream: its return value, plus the
   delimiter when recv_until strips it; peek and exceptions take nothing *)
Definition taken (o : op) (out : outcome) : bytes :=
  match o, out with
  | RecvUntil d _ w, OBytes v => if w then v else v ++ d
  | RecvSize _, OBytes v | RecvClose _, OBytes v | Recv _, OBytes v => v
  | _, _ => []
  end.

Lemma first_occ_take d rem k :
  first_occ d rem = Some k -> firstn (k + length d) rem = firstn k rem ++ d.
Proof.
  intro H. pose proof (first_occ_bound _ _ _ H) as Hb. apply first_occ_occ in H.
  apply is_prefix_split in H.
  rewrite <- (firstn_skipn k rem) at 1. rewrite firstn_app, firstn_firstn.
  replace (Nat.min (k + length d) k) with k by lia.
  rewrite firstn_length_le by lia. replace (k + length d - k) with (length d) by lia.
  f_equal. rewrite H at 1. rewrite firstn_app, firstn_all, Nat.sub_diag. cbn. apply app_nil_r.
Qed.

Lemma first_occ_lim_take d lim rem k :
  first_occ d (lim_take lim rem) = Some k ->
  firstn (k + length d) rem = firstn k rem ++ d.
Proof.
  intro H. pose proof (first_occ_bound _ _ _ H) as Hb. apply first_occ_take in H.
  destruct lim as [m|]; cbn [lim_take] in *; [|assumption].
  rewrite firstn_length in Hb. rewrite !firstn_firstn in H.
  replace (Nat.min (k + length d) m) with (k + length d) in H by lia.
  replace (Nat.min k m) with k in H by lia. exact H.
Qed.

Lemma step_conserves s o out s' :
  wf_net (nt s) = true -> 1 <= recvsize s -> step s o = (out, s') ->
  remaining s = taken o out ++ remaining s' /\ wf_net (nt s') = true /\ 1 <= recvsize s'.
Proof.
  intros W R H. destruct (is_recv_op o) eqn:Hro.
  - pose proof (step_recv_ok _ _ _ _ W R Hro H) as (W' & (SR1 & SR2 & _) & _ & Hcase).
    split; [|split; [assumption|lia]].
    destruct Hcase as [(e & -> & Hr & _)|(_ & _ & Hcase)].
    + destruct o; cbn; auto.
    + destruct o; try discriminate; cbn [spec_framing] in Hcase.
      * destruct (first_occ delim (lim_take (resolve (maxsize s) m) (remaining s))) as [k|] eqn:Ef;
          inversion Hcase; subst; clear Hcase; cbn [taken].
        -- try rewrite <- H2. destruct with_delim.
           ++ symmetry. apply firstn_skipn.
           ++ rewrite <- (first_occ_lim_take _ _ _ _ Ef). symmetry. apply firstn_skipn.
        -- reflexivity.
      * destruct (_ && _); inversion Hcase; subst; cbn [taken]; [|reflexivity].
        try rewrite <- H2. symmetry. apply firstn_skipn.
      * destruct (Nat.leb _ _); inversion Hcase; subst; cbn [taken app]; congruence.
      * destruct (lim_exceeded _ _); inversion Hcase; subst; cbn [taken]; [reflexivity|].
        try rewrite <- H2. rewrite app_nil_r. reflexivity.
      * destruct Hcase as (dd & -> & Hok & Hr). cbn [taken]. rewrite Hr.
        unfold spec_recv_ok in Hok. apply andb_true_iff in Hok as [Hok _].
        apply andb_true_iff in Hok as [Hok _]. apply is_prefix_split in Hok.
        rewrite Hok at 1. reflexivity.
  - destruct (is_send_op o) eqn:Hso.
    + apply step_send_ok in H; auto. destruct H as ((SR1 & SR2 & SR3 & SR4 & SR5) & _).
      unfold remaining. rewrite SR1, SR2, SR4.
      split; [|auto]. destruct o; try discriminate; destruct out; reflexivity.
    + destruct o; try discriminate; inversion H; subst; cbn; auto.
Qed.

(* bytes handed to the caller (with stripped delimiters), bytes buffered and
   bytes not yet delivered add up to the original stream, in order, after any
   history of calls, raising or not *)
Theorem conservation len : forall ops s obs sf,
  wf_net (nt s) = true -> 1 <= recvsize s -> run len s ops = (obs, sf) ->
  remaining s = concat (map (fun x => taken (fst x) (o_out (snd x))) obs) ++ rbuf sf ++ flat (nt sf).
Proof.
  induction ops as [|o r IH]; intros s obs sf W R H; cbn [run] in H.
  - inversion H; subst. reflexivity.
  - destruct (step s o) as [out s1] eqn:E1. destruct (run len s1 r) as [obs' s2] eqn:E2.
    inversion H; subst; clear H.
    apply step_conserves in E1 as (Hc & W1 & R1); auto.
    apply IH in E2; auto. cbn [map concat fst snd].
    assert (Ho : o_out (observe len o out s1) = out) by (unfold observe; destruct (is_send_op o); reflexivity).
    rewrite Ho, Hc. fold (remaining s1). rewrite E2, <- app_assoc. reflexivity.
Qed.

(* ---- send side over a whole history ------------------------------------------------------------ *)
Lemma step_nonsend_same s o out s' :
  is_send_op o = false -> step s o = (out, s') -> wire s' = wire s /\ sbuf s' = sbuf s.
Proof.
  intros Hso H. destruct o; try discriminate; cbn [step] in H.
  + unfold recv_until, recv_until_dl in H. destruct (ru_loop _ _ _ _ _ _ _ _ _) as [[? ?|? ?] ?]; inversion H; auto.
  + unfold recv_size, recv_size_lim in H.
    destruct (match rbuf s with [] => _ | _ => _ end) as [[?|] ?]; [|inversion H; auto].
    destruct (rs_loop _ _ _ _ _ _ _ _ _) as [[? ? ?|? ?] ?]; inversion H; auto.
  + unfold peek in H. destruct (Nat.leb _ _); [inversion H; auto|].
    unfold recv_size, recv_size_lim in H.
    destruct (match rbuf s with [] => _ | _ => _ end) as [[?|] ?]; [|inversion H; auto].
    destruct (rs_loop _ _ _ _ _ _ _ _ _) as [[? ? ?|? ?] ?]; inversion H; auto.
  + unfold recv_close, recv_size_lim in H.
    destruct (match rbuf s with [] => _ | _ => _ end) as [[?|e0] ?]; [|destruct e0; inversion H; auto].
    destruct (rs_loop _ _ _ _ _ _ _ _ _) as [[? ? ?|[] ?] ?]; inversion H; auto.
  + unfold recv in H. destruct (Nat.leb _ _); [inversion H; auto|].
    destruct (rbuf s); [|inversion H; auto].
    destruct (sock_recv _ _) as [[?|] ?]; [|inversion H; auto].
    destruct (Nat.ltb _ _); inversion H; auto.
  + inversion H. auto.
+ inversion H. auto.
Qed.

(* every byte passed to send/sendall/buffer is, in order and exactly once,
   either on the wire or still in the send buffer - whatever the partial
   sends and time-outs, and whether or not calls raised *)
Theorem send_conservation len : forall ops s obs sf,
  run len s ops = (obs, sf) ->
  wire sf ++ concat (sbuf sf) = (wire s ++ concat (sbuf s)) ++ concat (map op_data ops).
Proof.
  induction ops as [|o r IH]; intros s obs sf H; cbn [run] in H.
  - inversion H; subst. cbn. rewrite app_nil_r. reflexivity.
  - destruct (step s o) as [out s1] eqn:E1. destruct (run len s1 r) as [obs' s2] eqn:E2.
    inversion H; subst; clear H. apply IH in E2. rewrite E2. cbn [map concat].
    rewrite app_assoc. f_equal.
    destruct (is_send_op o) eqn:Hso.
    + apply step_send_ok in E1; auto. destruct E1 as (_ & sent & _ & Hc & _). exact Hc.
    + apply step_nonsend_same in E1 as [-> ->]; auto.
      destruct o; try discriminate; cbn; rewrite app_nil_r; reflexivity.
Qed.

(* a successful send/flush leaves nothing behind: all accepted bytes are on
   the wire *)
Theorem send_success_flushes s o out s' :
  step s o = (out, s') ->
  match o, out with
  | Send _, ONat _ | Flush, ONone => concat (sbuf s') = [] /\ wire s' = (wire s ++ concat (sbuf s)) ++ op_data o
  | _, _ => True
  end.
Proof.
  intro H. destruct o; try exact I; destruct out; try exact I;
    apply step_send_ok in H; auto; destruct H as (_ & sent & _ & Hc & Hcase).
  - destruct Hcase as (Hsb & _). rewrite Hsb, app_nil_r in Hc. auto.
  - destruct Hcase as (Hsb & _). rewrite Hsb, app_nil_r in Hc. auto.
Qed.

(* ---- statements in the form used by Props/C12.v ------------------------------------------------ *)
Lemma recv_prefix s k out s' :
  wf_net (nt s) = true -> 1 <= recvsize s -> recv s k = (out, s') ->
  (exists e, out = OExn e /\ is_intr_exn e = true /\ remaining s' = remaining s) \/
  (exists d, out = OBytes d /\ spec_recv_ok (remaining s) k d = true /\
             remaining s' = skipn (length d) (remaining s)).
Proof.
  intros W R H. destruct (recv_ok s k out s' W R H) as (_ & _ & _ & [(e & A & B & C)|(_ & _ & C)]);
    [left; exists e; repeat split; auto; exact (intr_by_is_intr _ _ _ _ C)|right; exact C].
Qed.

Lemma conservation_init mx rs n sc ops obs sf :
  wf_net n = true -> 1 <= rs ->
  run (length (flat n)) (bs_init mx rs n sc) ops = (obs, sf) ->
  flat n = concat (map (fun x => taken (fst x) (o_out (snd x))) obs) ++ rbuf sf ++ flat (nt sf).
Proof. intros W R H. exact (conservation _ ops (bs_init mx rs n sc) obs sf W R H). Qed.

Lemma send_conservation_init mx rs n sc ops obs sf :
  run (length (flat n)) (bs_init mx rs n sc) ops = (obs, sf) ->
  wire sf ++ concat (sbuf sf) = concat (map op_data ops).
Proof. intro H. exact (send_conservation _ ops (bs_init mx rs n sc) obs sf H). Qed.
