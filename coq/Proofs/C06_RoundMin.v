(* C06: minimal quoting (to_text(full_quote=False)): when no component contains '%', the rendered
   text parses back to the same components, and rendering the re-parsed URL gives the same text. *)
From Boltons Require Import Lib.Prelude Lib.C06_Text Spec.C06_Spec Model.C06_Model
  Proofs.C06_Codec Proofs.C06_Utf8 Proofs.C06_Quote Proofs.C06_Lists Proofs.C06_Round
  Proofs.C06_QuoteMin Proofs.C06_Parts.
Open Scope N_scope.

Definition nopct (s : text) : Prop := memN 37 s = false.

Section RoundMin.
Variable T : tables.
Variable O : oracles.
Hypothesis TOK : tables_ok T = true.
Hypothesis DOK : delims_ok T = true.
Let nfc := o_nfc O.
Let qm := quote_min T.

Lemma dok_path : delims_ok1 (t_path_map T) (t_path_delims T) [47; 63; 35] = true.
Proof. unfold delims_ok in DOK. do 2 (apply andb_true_iff in DOK as [DOK ?]). exact DOK. Qed.
Lemma dok_query : delims_ok1 (t_query_map T) (t_query_delims T) [38; 59; 61; 43; 35] = true.
Proof. unfold delims_ok in DOK. apply andb_true_iff in DOK as [DOK ?]. apply andb_true_iff in DOK as [? DOK]. exact DOK. Qed.
Lemma dok_frag : delims_ok1 (t_frag_map T) (t_frag_delims T) [] = true.
Proof. unfold delims_ok in DOK. apply andb_true_iff in DOK as [? DOK]. exact DOK. Qed.

Lemma qm_path_excl s : nopct s -> forallb (not_in [47; 63; 35]) (qm CPath s) = true.
Proof. intro H. apply (qmin_excl _ _ _ dok_path s H); reflexivity. Qed.

Lemma qm_query_excl s : nopct s -> forallb (not_in [38; 59; 61; 43; 35]) (qm CQuery s) = true.
Proof. intro H. apply (qmin_excl _ _ _ dok_query s H); reflexivity. Qed.

Lemma qm_ref c s : c <> CUser -> nopct s -> ref_unquote (qm c s) = s.
Proof.
  intros NU H. destruct c; [contradiction| | |].
  - apply (ref_unquote_qmin _ _ _ dok_path s H).
  - apply (ref_unquote_qmin _ _ _ dok_query s H).
  - apply (ref_unquote_qmin _ _ _ dok_frag s H).
Qed.

Lemma qm_unquote c s : c <> CUser -> nopct s -> unquote T (qm c s) = s.
Proof. intros NU H. rewrite (unquote_is_ref T TOK). apply qm_ref; assumption. Qed.

Lemma qm_unq_if c s : c <> CUser -> nopct s -> unq_if_pct T (qm c s) = s.
Proof.
  intros NU H. unfold unq_if_pct. destruct (memN 37 (qm c s)) eqn:E; [apply qm_unquote; assumption|].
  rewrite <- (qm_ref c s NU H) at 2. symmetry. apply ref_unquote_nopct. exact E.
Qed.

Lemma qm_nil c s : c <> CUser -> qm c s = [] -> s = [].
Proof.
  intros NU E. destruct c; [contradiction| | |].
  - apply (qmin_nil _ _ _ dok_path s E).
  - apply (qmin_nil _ _ _ dok_query s E).
  - apply (qmin_nil _ _ _ dok_frag s E).
Qed.

Definition idt (s : text) : text := s.
Definition rpm := C06_Parts.rp (qm CQuery).
Definition pair_okm := C06_Parts.pair_ok idt nopct.

Lemma query_to_text_min q : query_to_text T O false q = join [38] (map rpm q).
Proof.
  unfold query_to_text. f_equal; try (apply map_ext; intros [k [v|]]; reflexivity).
Qed.

(* ---- host / port context, as in C06_Round ------------------------------------------------------- *)
Variable ht : text.
Hypothesis ht_ne : ht <> [].
Hypothesis ht_chars : forallb (not_in [64; 47; 63; 35]) ht = true.
Variables (ptxt : text) (pres : option Z).
Hypothesis port_ok :
  (ptxt = [] /\ pres = None) \/
  (exists ds p, ptxt = 58 :: ds /\ pres = Some p /\ py_int ds = Some p /\ all_ascii ds = true /\
                forallb (not_in [64; 47; 63; 35; 93]) ds = true /\ forallb is_digit ds = true).
Variables (hp : text) (fam' : N).
Hypothesis host_parse :
  exists hraw, split_hostport O (ht ++ ptxt) = MOk (hraw, pres) /\ parse_host O hraw = MOk (fam', hp).
Variable h2 : text.
Hypothesis host_decode : decode_host O hp = MOk h2.
Hypothesis nfc_nil : nfc [] = [].

Definition rendered_min scheme user pw path q frag : text :=
  sprefix scheme ++ [47; 47] ++ authority T O ht ptxt user pw ++ join [47] (map (qm CPath) path)
         ++ qpart (join [38] (map rpm q)) ++ fpart (qm CFrag frag).

Lemma qm_nil0 c : qm c [] = [].
Proof. reflexivity. Qed.

Theorem url_init_rendered_min scheme user pw rest q frag :
  forallb (not_in [58; 47; 63; 35]) scheme = true ->
  scalar_nfc O user -> scalar_nfc O pw -> Forall nopct rest -> Forall pair_okm q -> nopct frag ->
  url_init T O (rendered_min scheme user pw ([] :: rest) q frag)
  = MOk (mkU scheme true (nfc user) (nfc pw) fam' h2 pres ([] :: rest) q frag).
Proof.
  intros Hs Su Sp Fp Fq Sf. unfold url_init, rendered_min.
  assert (Fpath : Forall nopct ([] :: rest)) by (constructor; [reflexivity|exact Fp]).
  assert (P0 : join [47] (map (qm CPath) ([] :: rest)) = []
               \/ exists p', join [47] (map (qm CPath) ([] :: rest)) = 47 :: p').
  { destruct rest as [|y r']; cbn [map].
    - left. reflexivity.
    - right. rewrite join_nonempty_head, qm_nil0. cbn [app]. eauto. }
  pose proof (parse_url_full T O TOK ht ht_ne ht_chars ptxt pres port_ok hp fam' host_parse
                scheme user pw _ _ (qm CFrag frag) Hs Su Sp P0
                (C06_Parts.path_chars (qm CPath) nopct qm_path_excl _ Fpath)
                (C06_Parts.query_chars (qm CQuery) idt nopct qm_query_excl q Fq)) as PU.
  fold rpm in PU.
  match goal with |- match ?t with [] => _ | _ :: _ => _ end = _ => destruct t as [|x0 xr] eqn:ET end.
  { exfalso. apply app_eq_nil in ET as [_ ET]. discriminate. }
  rewrite PU.
  cbn [mbind pu_host pu_scheme pu_sep pu_user pu_pass pu_family pu_port pu_path pu_query pu_fragment].
  rewrite host_decode. cbn [mbind]. rewrite !opt_text_some_if.
  assert (NEp : ([] :: rest : list text) <> []) by discriminate.
  assert (CP : CPath <> CUser) by discriminate. assert (CQ : CQuery <> CUser) by discriminate.
  assert (CF : CFrag <> CUser) by discriminate.
  rewrite (C06_Parts.path_back T (qm CPath) idt nopct qm_path_excl (fun s => qm_unq_if CPath s CP) _ NEp Fpath).
  unfold rpm.
  rewrite (C06_Parts.parse_qsl_join T (qm CQuery) idt nopct qm_query_excl (fun s => qm_unquote CQuery s CQ)
             (fun s _ E => qm_nil CQuery s CQ E) q Fq).
  rewrite (qm_unq_if CFrag frag CF Sf).
  assert (Eu : unq_if_pct T (pu_user_txt T O user pw) = nfc user).
  { unfold pu_user_txt. destruct (nonempty user || nonempty pw) eqn:U; [apply (unq_qf T O TOK); exact Su|].
    apply orb_false_iff in U as [U1 _]. rewrite (nonempty_false _ U1). fold nfc. rewrite nfc_nil. reflexivity. }
  assert (Ep : unq_if_pct T (pu_pass_txt T O pw) = nfc pw).
  { unfold pu_pass_txt. destruct (nonempty pw) eqn:U; [apply (unq_qf T O TOK); exact Sp|].
    rewrite (nonempty_false _ U). fold nfc. rewrite nfc_nil. reflexivity. }
  rewrite Eu, Ep. f_equal. f_equal.
  - unfold idt. rewrite map_id. reflexivity.
  - unfold idt. rewrite <- (map_id q) at 2. apply map_ext. intros [k [v|]]; reflexivity.
Qed.

Theorem to_text_rendered_min scheme sep user pw fam host port rest q frag :
  let u := mkU scheme sep user pw fam host port ([] :: rest) q frag in
  get_authority T O false u = MOk (authority T O ht ptxt user pw) ->
  to_text T O false u = MOk (rendered_min scheme user pw ([] :: rest) q frag).
Proof.
  intros u GA. unfold to_text. rewrite GA. cbn [mbind]. cbn [u u_scheme u_path u_query u_frag].
  unfold rendered_min, sprefix. rewrite query_to_text_min.
  assert (A1 : nonempty (authority T O ht ptxt user pw) = true).
  { pose proof (authority_ne T O ht ht_ne ptxt user pw) as A. destruct (authority T O ht ptxt user pw); [contradiction|reflexivity]. }
  rewrite A1.
  change (quote T O false CPath) with (qm CPath). change (quote T O false CFrag frag) with (qm CFrag frag).
  f_equal. f_equal. rewrite <- !app_assoc. cbn [app]. f_equal. f_equal. f_equal.
  destruct rest as [|y r'].
  - cbn [map join]. reflexivity.
  - cbn [map]. rewrite join_nonempty_head, qm_nil0. cbn [app nonempty negb]. rewrite andb_false_r. reflexivity.
Qed.
End RoundMin.

Lemma get_authority_min_plain T O ptxt scheme sep user pw fam host port path q frag :
  let u := mkU scheme sep user pw fam host port path q frag in
  host <> [] -> (fam =? 6) = false -> memN 58 host = false -> port_text T u = ptxt ->
  get_authority T O false u = MOk (authority T O host ptxt user pw).
Proof.
  intros u NE F6 M58 PT. unfold get_authority. cbn [u u_user u_pass u_host u_family].
  destruct host as [|h0 hr]; [contradiction|].
  rewrite F6, M58. cbn [orb mbind]. fold u. rewrite PT. reflexivity.
Qed.

Lemma authority_nfc T O ht ptxt user pw :
  o_nfc O [] = [] -> (forall x, o_nfc O (o_nfc O x) = o_nfc O x) -> (forall x, o_nfc O x = [] -> x = []) ->
  authority T O ht ptxt (o_nfc O user) (o_nfc O pw) = authority T O ht ptxt user pw.
Proof.
  intros N0 IDEM NN. unfold authority, userinfo.
  rewrite !(nonempty_nfc O N0 NN), !(qf_nfc T O IDEM). reflexivity.
Qed.

(* MINIMAL QUOTING on the round-trip class (name / IPv4 host written as it is): when no path segment,
   query key or value, or fragment contains '%', to_text(full_quote=False) succeeds, URL() of the text
   succeeds and gives those components back unchanged (username and password, which are always fully
   quoted, as their NFC forms); and rendering the re-parsed URL minimally gives the same text. *)
Theorem roundtrip_min_class T O :
  tables_ok T = true -> delims_ok T = true ->
  forall scheme sep user pw fam host port rest q frag b4 h2,
  let nfc := o_nfc O in
  let u := mkU scheme sep user pw fam host port ([] :: rest) q frag in
  forallb (not_in [58; 47; 63; 35]) scheme = true ->
  nfc [] = [] ->
  all_scalar (nfc user) = true -> all_scalar (nfc pw) = true ->
  Forall nopct rest -> Forall pair_okm q -> nopct frag ->
  host <> [] -> (fam =? 6) = false -> forallb (not_in [58; 64; 47; 63; 35]) host = true ->
  o_inet4 O host = MOk b4 -> decode_host O host = MOk h2 ->
  port_wf port = true ->
  to_text T O false u = MOk (rendered_min T O host (port_text T u) scheme user pw ([] :: rest) q frag) /\
  url_init T O (rendered_min T O host (port_text T u) scheme user pw ([] :: rest) q frag)
  = MOk (mkU scheme true (nfc user) (nfc pw) (if b4 then 4 else 0) h2 (port_back T u) ([] :: rest) q frag).
Proof.
  intros TOK DOK scheme sep user pw fam host port rest q frag b4 h2 nfc u
         Hs N0 Su Sp Fr Fq Sf HNE F6 HC I4 DEC PV.
  pose proof (port_text_ok T u PV) as PO.
  assert (H58 : memN 58 host = false) by (apply (forallb_not_in_mem _ _ 58 HC); reflexivity).
  split.
  - apply (to_text_rendered_min T O host HNE (port_text T u) scheme sep user pw fam host port rest q frag).
    apply (get_authority_min_plain T O (port_text T u) scheme sep user pw fam host port ([] :: rest) q frag
             HNE F6 H58 eq_refl).
  - apply (url_init_rendered_min T O TOK DOK host HNE (weaken_host_chars host HC) (port_text T u) (port_back T u) PO
             host (if b4 then 4 else 0)); try assumption.
    exists host. split.
    + apply (hostport_parse_plain O (port_text T u) (port_back T u) PO host HNE H58).
    + apply (parse_host_plain O host b4 HNE H58 I4).
Qed.

Theorem fixpoint_min_class T O :
  tables_ok T = true -> delims_ok T = true ->
  forall scheme sep user pw fam host port rest q frag b4,
  let nfc := o_nfc O in
  let u := mkU scheme sep user pw fam host port ([] :: rest) q frag in
  forallb (not_in [58; 47; 63; 35]) scheme = true ->
  nfc [] = [] -> (forall x, nfc (nfc x) = nfc x) -> (forall x, nfc x = [] -> x = []) ->
  all_scalar (nfc user) = true -> all_scalar (nfc pw) = true ->
  Forall nopct rest -> Forall pair_okm q -> nopct frag ->
  host <> [] -> (fam =? 6) = false -> forallb (not_in [58; 64; 47; 63; 35]) host = true ->
  o_inet4 O host = MOk b4 -> decode_host O host = MOk host ->
  port_wf port = true ->
  forall m u', to_text T O false u = MOk m -> url_init T O m = MOk u' -> to_text T O false u' = MOk m.
Proof.
  intros TOK DOK scheme sep user pw fam host port rest q frag b4 nfc u
         Hs N0 IDEM NN Su Sp Fr Fq Sf HNE F6 HC I4 DEC PV m u' R P.
  destruct (roundtrip_min_class T O TOK DOK scheme sep user pw fam host port rest q frag b4 host
              Hs N0 Su Sp Fr Fq Sf HNE F6 HC I4 DEC PV) as [R0 P0].
  pose proof (eq_trans (eq_sym R0) R) as EF. inversion EF as [EF']. subst m. clear EF R.
  pose proof (eq_trans (eq_sym P0) P) as EU. inversion EU as [EU']. clear EU P.
  assert (H58 : memN 58 host = false) by (apply (forallb_not_in_mem _ _ 58 HC); reflexivity).
  set (u1 := mkU scheme true (o_nfc O user) (o_nfc O pw) (if b4 then 4 else 0) host (port_back T u) ([] :: rest) q frag).
  assert (PT : port_text T u1 = port_text T u) by (apply port_text_back; reflexivity).
  assert (F6' : ((if b4 then 4 else 0) =? 6) = false) by (destruct b4; reflexivity).
  pose proof (get_authority_min_plain T O (port_text T u) scheme true (o_nfc O user) (o_nfc O pw)
                (if b4 then 4 else 0) host (port_back T u) ([] :: rest) q frag HNE F6' H58 PT) as GA1.
  rewrite (authority_nfc T O host (port_text T u) user pw N0 IDEM NN) in GA1.
  pose proof (to_text_rendered_min T O host HNE (port_text T u) scheme true (o_nfc O user) (o_nfc O pw)
                (if b4 then 4 else 0) host (port_back T u) rest q frag) as R1.
  cbn zeta in R1. unfold rendered_min in R1 at 1.
  rewrite (authority_nfc T O host (port_text T u) user pw N0 IDEM NN) in R1.
  refine (eq_trans (R1 GA1) _). reflexivity.
Qed.
