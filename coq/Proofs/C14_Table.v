(* (T) the safe class regenerated from the current source (Gen/C14_Gen.v)
   contains only characters that are literal in an unquoted POSIX word.
   This file is recompiled whenever the generated table changes. *)
From Boltons Require Import Lib.Prelude Lib.C14_Text Spec.C14_Spec Gen.C14_Gen Check.C14_Check.
Open Scope N_scope.

Lemma gen_table_all_literal : forallb sh_literal gen_sh_safe_list = true.
Proof. vm_compute. reflexivity. Qed.

Lemma gen_safe_literal : forall c, gen_sh_safe c = true -> sh_literal c = true.
Proof.
  intros c Hc. unfold gen_sh_safe, memN in Hc.
  apply existsb_exists in Hc as (x & Hin & E). apply N.eqb_eq in E. subst x.
  pose proof gen_table_all_literal as H. eapply forallb_forall in H; eassumption.
Qed.
