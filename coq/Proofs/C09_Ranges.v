(* C09: chunk_ranges — range arithmetic with overlap and alignment. *)
From Boltons Require Import Lib.Prelude Spec.C09_Spec Model.C09_Model.
Local Open Scope Z_scope.

(* The clauses of the property text in Prop form. *)
Record ranges_good (size chunk offset overlap : Z) (align : bool) (rs : list (Z * Z)) : Prop := {
  g_each : Forall (fun r => fst r <= snd r /\ snd r - fst r <= chunk
                            /\ offset <= fst r /\ snd r <= offset + size) rs;
  g_ends : match rs with
           | [] => size = 0
           | (b0, _) :: _ => b0 = offset /\ snd (last rs (0, 0)) = offset + size
           end;
  g_consec : consecutive_ok overlap rs = true;
  g_align : align = true -> Forall (fun r => fst r mod (chunk - overlap) = 0) (tl rs);
  g_cover : forall j, offset <= j < offset + size -> covered rs j = true;
  g_minimal : Forall (fun r => snd r < offset + size) (removelast rs);
  g_nonempty : 0 < size -> Forall (fun r => fst r < snd r) rs
}.

Lemma ranges_good_ok size chunk offset overlap align rs :
  0 <= size -> ranges_good size chunk offset overlap align rs ->
  ranges_ok size chunk offset overlap align rs = true.
Proof.
  intros Hs [E N C A V M NE]. unfold ranges_ok.
  repeat (apply andb_true_iff; split).
  - apply forallb_forall. intros r Hr. rewrite Forall_forall in E. destruct (E r Hr) as [? [? [? ?]]].
    repeat (apply andb_true_iff; split); apply Z.leb_le; assumption.
  - destruct rs as [|[b0 e0] rest].
    + apply Z.eqb_eq. exact N.
    + destruct N as [N1 N2]. apply andb_true_iff. split; apply Z.eqb_eq; assumption.
  - exact C.
  - destruct align; [|reflexivity]. cbn [negb orb]. apply forallb_forall. intros r Hr.
    specialize (A eq_refl). rewrite Forall_forall in A. apply Z.eqb_eq. apply A. exact Hr.
  - apply forallb_forall. intros j Hj. apply in_map_iff in Hj as [k [<- Hk]].
    apply in_seq in Hk. apply V. lia.
  - apply forallb_forall. intros r Hr. rewrite Forall_forall in M. apply Z.ltb_lt. apply M. exact Hr.
  - destruct (size =? 0) eqn:E0; [reflexivity|]. apply Z.eqb_neq in E0. cbn [orb].
    apply forallb_forall. intros r Hr. specialize (NE ltac:(lia)). rewrite Forall_forall in NE.
    apply Z.ltb_lt. apply NE. exact Hr.
Qed.

(* ---- the range loop ---------------------------------------------------------- *)
Section Loop.
  Variables stop step chunk : Z.
  Hypothesis Hstep : 1 <= step.
  Hypothesis Hchunk : step <= chunk.

  Definition loop_good (i : Z) (rs : list (Z * Z)) : Prop :=
    (stop <= i -> rs = [])
    /\ (i < stop -> exists e rest, rs = (i, e) :: rest /\ snd (last rs (0, 0)) = stop)
    /\ Forall (fun r => i <= fst r /\ fst r < snd r /\ snd r <= stop
                        /\ snd r - fst r <= chunk /\ (fst r - i) mod step = 0) rs
    /\ consecutive_ok (chunk - step) rs = true
    /\ (forall j, i <= j < stop -> covered rs j = true)
    /\ Forall (fun r => snd r < stop) (removelast rs).

  Lemma covered_cons r rs j : covered (r :: rs) j = ((fst r <=? j) && (j <? snd r)) || covered rs j.
  Proof. reflexivity. Qed.

  Lemma range_loop_good : forall fuel i,
    Z.max 0 (stop - i) < Z.of_nat fuel ->
    exists rs, range_loop fuel i stop step chunk = Some rs /\ loop_good i rs.
  Proof.
    induction fuel as [|fuel IH]; intros i Hf; [lia|].
    cbn [range_loop].
    destruct (i <? stop) eqn:Elt.
    2:{ apply Z.ltb_ge in Elt. exists []. split; [reflexivity|].
        repeat split; try constructor; try reflexivity; intros; lia. }
    apply Z.ltb_lt in Elt.
    destruct (i + chunk >=? stop) eqn:Ege.
    - (* the last range *)
      rewrite Z.geb_leb in Ege. apply Z.leb_le in Ege.
      rewrite Z.min_r by lia.
      exists [(i, stop)]. split; [reflexivity|]. unfold loop_good. repeat split.
      + intro. lia.
      + intros _. exists stop, []. split; reflexivity.
      + constructor; [|constructor]. cbn [fst snd]. rewrite Z.sub_diag, Z.mod_0_l by lia. lia.
      + intros j Hj. rewrite covered_cons. cbn [fst snd].
        assert ((i <=? j) = true) as -> by (apply Z.leb_le; lia).
        assert ((j <? stop) = true) as -> by (apply Z.ltb_lt; lia). reflexivity.
      + cbn [removelast]. constructor.
    - rewrite Z.geb_leb in Ege. apply Z.leb_gt in Ege.
      rewrite Z.min_l by lia.
      destruct (IH (i + step)) as [rest [Hrest [G1 [G2 [G3 [G4 [G5 G6]]]]]]]; [lia|].
      rewrite Hrest. exists ((i, i + chunk) :: rest). split; [reflexivity|].
      destruct (G2 ltac:(lia)) as [e' [rest' [Er Hlast]]].
      unfold loop_good. repeat split.
      + intro. lia.
      + intros _. exists (i + chunk), rest. split; [reflexivity|].
        rewrite Er in *. exact Hlast.
      + constructor.
        * cbn [fst snd]. rewrite Z.sub_diag, Z.mod_0_l by lia. lia.
        * eapply Forall_impl; [|exact G3]. intros [b e]. cbn [fst snd]. intros [H1 [H2 [H3 [H4 H5]]]].
          repeat split; try lia.
          replace (b - i) with ((b - (i + step)) + 1 * step) by lia.
          rewrite Z.mod_add by lia. exact H5.
      + rewrite Er. cbn [consecutive_ok]. rewrite Er in G4.
        apply andb_true_iff. split; [apply Z.eqb_eq; lia|exact G4].
      + intros j Hj. rewrite covered_cons. cbn [fst snd].
        destruct (Z_lt_ge_dec j (i + chunk)) as [H|H].
        * assert ((i <=? j) = true) as -> by (apply Z.leb_le; lia).
          assert ((j <? i + chunk) = true) as -> by (apply Z.ltb_lt; lia). reflexivity.
        * rewrite G5 by lia. apply orb_true_r.
      + rewrite Er. change (removelast ((i, i + chunk) :: (i + step, e') :: rest'))
          with ((i, i + chunk) :: removelast ((i + step, e') :: rest')).
        constructor; [cbn [snd]; lia|]. rewrite <- Er. exact G6.
  Qed.
End Loop.

(* ---- the public function ------------------------------------------------------ *)
Lemma valid_params size chunk offset overlap :
  valid_ranges_params size chunk offset overlap = true ->
  0 <= size /\ 1 <= chunk /\ 0 <= offset /\ 0 <= overlap /\ overlap < chunk.
Proof.
  unfold valid_ranges_params. intro H.
  repeat (apply andb_true_iff in H as [H ?]).
  repeat match goal with
         | X : (_ <=? _) = true |- _ => apply Z.leb_le in X
         | X : (_ <? _) = true |- _ => apply Z.ltb_lt in X
         end. lia.
Qed.

Lemma last_cons2 {A} (a b : A) l d : last (a :: b :: l) d = last (b :: l) d.
Proof. reflexivity. Qed.

Lemma m_chunk_ranges_good size chunk offset overlap align :
  valid_ranges_params size chunk offset overlap = true ->
  exists rs, m_chunk_ranges size chunk offset overlap align = Ok rs
             /\ ranges_good size chunk offset overlap align rs.
Proof.
  intro Hv. apply valid_params in Hv as [Hsz [Hch [Hoff [Hov Hlt]]]].
  unfold m_chunk_ranges.
  assert ((size <? 0) || (chunk <=? 0) || (offset <? 0) || (overlap <? 0) = false) as ->.
  { repeat (apply orb_false_iff; split); try (apply Z.ltb_ge; lia). apply Z.leb_gt. lia. }
  set (stop := offset + size). set (step := chunk - overlap).
  assert (Hstep : 1 <= step) by (unfold step; lia).
  assert (Hcs : step <= chunk) by (unfold step; lia).
  assert ((step =? 0) = false) as -> by (apply Z.eqb_neq; lia).
  assert ((step <? 0) = false) as -> by (apply Z.ltb_ge; lia).
  assert (Hov' : chunk - step = overlap) by (unfold step; lia).
  destruct align.
  - (* aligned *)
    pose proof (Z.mod_pos_bound offset step ltac:(lia)) as Hr.
    set (r := offset mod step) in *.
    set (initial := chunk - r).
    assert ((initial =? overlap) = false) as -> by (apply Z.eqb_neq; unfold initial, step in *; lia).
    cbn [negb].
    destruct (offset + initial >=? stop) eqn:Ege.
    + rewrite Z.geb_leb in Ege. apply Z.leb_le in Ege. rewrite Z.min_r by lia.
      exists [(offset, stop)]. split; [reflexivity|]. constructor.
      * constructor; [|constructor]. cbn [fst snd]. unfold stop, initial in *. lia.
      * split; reflexivity.
      * reflexivity.
      * intros _. constructor.
      * intros j Hj. cbn [covered existsb fst snd].
        assert ((offset <=? j) = true) as -> by (apply Z.leb_le; lia).
        assert ((j <? stop) = true) as -> by (apply Z.ltb_lt; unfold stop; lia). reflexivity.
      * cbn [removelast]. constructor.
      * intro Hpos. constructor; [|constructor]. cbn [fst snd]. unfold stop. lia.
    + rewrite Z.geb_leb in Ege. apply Z.leb_gt in Ege. rewrite Z.min_l by lia.
      set (a := offset + initial - overlap).
      destruct (range_loop_good stop step chunk Hstep Hcs (S (Z.to_nat size)) a)
        as [rest [Hrest [G1 [G2 [G3 [G4 [G5 G6]]]]]]].
      { unfold a, stop, initial, step in *. lia. }
      rewrite Hrest. exists ((offset, offset + initial) :: rest). split; [reflexivity|].
      destruct (G2 ltac:(unfold a, initial, step in *; lia)) as [e' [rest' [Er Hlast]]].
      assert (Ha : a mod step = 0).
      { unfold a, initial. pose proof (Z.div_mod offset step ltac:(lia)) as Hd. fold r in Hd.
        replace (offset + (chunk - r) - overlap) with ((offset / step + 1) * step) by (unfold step in *; lia).
        apply Z.mod_mul. lia. }
      constructor.
      * constructor.
        -- cbn [fst snd]. unfold initial, stop, step in *. lia.
        -- eapply Forall_impl; [|exact G3]. intros [b e]. cbn [fst snd]. intros [H1 [H2 [H3 [H4 H5]]]].
           unfold a, initial, stop, step in *. lia.
      * split; [reflexivity|]. rewrite Er. rewrite last_cons2. rewrite Er in Hlast. exact Hlast.
      * rewrite Er. cbn [consecutive_ok]. rewrite Er, Hov' in G4.
        apply andb_true_iff. split; [apply Z.eqb_eq; unfold a; lia|exact G4].
      * intros _. cbn [tl]. fold step. eapply Forall_impl; [|exact G3].
        intros [b e]. cbn [fst snd]. intros [_ [_ [_ [_ H5]]]].
        replace b with (a + (b - a)) by lia.
        rewrite Z.add_mod, Ha, H5 by lia. reflexivity.
      * intros j Hj. change (covered ((offset, offset + initial) :: rest) j)
          with (((offset <=? j) && (j <? offset + initial)) || covered rest j).
        destruct (Z_lt_ge_dec j (offset + initial)) as [H|H].
        -- assert ((offset <=? j) = true) as -> by (apply Z.leb_le; lia).
           assert ((j <? offset + initial) = true) as -> by (apply Z.ltb_lt; lia). reflexivity.
        -- rewrite G5; [apply orb_true_r|]. unfold a, stop in *. lia.
      * rewrite Er. change (removelast ((offset, offset + initial) :: (a, e') :: rest'))
          with ((offset, offset + initial) :: removelast ((a, e') :: rest')).
        constructor; [cbn [snd]; unfold stop in *; lia|]. rewrite <- Er. exact G6.
      * intros _. constructor; [cbn [fst snd]; unfold initial, step in *; lia|].
        eapply Forall_impl; [|exact G3]. intros [b e]. cbn [fst snd]. lia.
  - (* not aligned *)
    destruct (range_loop_good stop step chunk Hstep Hcs (S (Z.to_nat size)) offset)
      as [rs [Hrs [G1 [G2 [G3 [G4 [G5 G6]]]]]]].
    { unfold stop. lia. }
    rewrite Hrs. exists rs. split; [reflexivity|]. constructor.
    + eapply Forall_impl; [|exact G3]. intros [b e]. cbn [fst snd]. intros [H1 [H2 [H3 [H4 H5]]]].
      unfold stop in *. lia.
    + destruct (Z_le_gt_dec stop offset) as [H|H].
      * rewrite (G1 H). unfold stop in H. lia.
      * destruct (G2 ltac:(lia)) as [e' [rest' [Er Hlast]]]. rewrite Er in *. split; [reflexivity|exact Hlast].
    + rewrite <- Hov'. exact G4.
    + discriminate.
    + intros j Hj. apply G5. unfold stop. lia.
    + exact G6.
    + intros _. eapply Forall_impl; [|exact G3]. intros [b e]. cbn [fst snd]. lia.
Qed.

(* the boolean checker that [holds] evaluates accepts the model's output *)
Lemma m_chunk_ranges_ok size chunk offset overlap align :
  valid_ranges_params size chunk offset overlap = true ->
  exists rs, m_chunk_ranges size chunk offset overlap align = Ok rs
             /\ ranges_ok size chunk offset overlap align rs = true.
Proof.
  intro Hv. destruct (m_chunk_ranges_good _ _ _ _ align Hv) as [rs [H1 H2]].
  exists rs. split; [exact H1|]. apply ranges_good_ok; [|exact H2].
  apply valid_params in Hv. lia.
Qed.
