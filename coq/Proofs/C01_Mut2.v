(* C01: update / update_extend / |= / setdefault / constructors, and the refinement statements
   of the simple mutators. *)
From Boltons Require Import Lib.Prelude Spec.C01_Spec Model.C01_Model Proofs.C01_Base
  Proofs.C01_Prim Proofs.C01_Refine Proofs.C01_Mut1 Proofs.C01_Reads1.

(* ---- list calculations ------------------------------------------------------------------- *)
Lemma remove_key_remove_keys l ks k : remove_key (remove_keys l ks) k = remove_keys l (ks ++ [k]).
Proof. symmetry. apply remove_keys_snoc. Qed.

Lemma remove_keys_cons l k ks : remove_keys l (k :: ks) = remove_keys (remove_key l k) ks.
Proof.
  unfold remove_keys, remove_key. rewrite filter_filter. apply filter_ext. intro p.
  unfold mem_nat, keyb. simpl. rewrite negb_orb. try rewrite (Nat.eqb_sym k (fst p)). reflexivity.
Qed.

Lemma has_key_false_not_In (p : pairs) k : ~ In k (map fst p) -> has_key p k = false.
Proof.
  intro H. destruct (has_key p k) eqn:E; [|reflexivity]. apply has_key_In in E. contradiction.
Qed.

(* one replacing step: delete k everywhere, then append (k, v) *)
Lemma replace_step l0 (p : pairs) k v : ~ In k (map fst p) ->
  remove_key (remove_keys l0 (map fst p) ++ p) k ++ [(k, v)]
  = remove_keys l0 (map fst (p ++ [(k, v)])) ++ (p ++ [(k, v)]).
Proof.
  intro H. rewrite remove_key_app, remove_key_remove_keys.
  rewrite (remove_key_absent p k (has_key_false_not_In p k H)).
  rewrite map_app. simpl. rewrite app_assoc. reflexivity.
Qed.

(* ---- update loops --------------------------------------------------------------------------- *)
Lemma upd_map_ok : forall m s l0 p, Inv s ->
  abs s = remove_keys l0 (map fst p) ++ p ->
  NoDup (map fst m) -> (forall k, In k (map fst m) -> ~ In k (map fst p)) ->
  exists s', upd_map s m = Ok s' /\ Inv s' /\
             abs s' = remove_keys l0 (map fst (p ++ m)) ++ (p ++ m).
Proof.
  induction m as [|[k v] r IH]; intros s l0 p Hs Habs Hnd Hdisj.
  - exists s. rewrite app_nil_r. split; [reflexivity | split; assumption].
  - simpl. destruct (setitem_ok s k v Hs) as [s1 [E1 [Hs1 Ha1]]]. rewrite E1. simpl.
    simpl in Hnd. inversion Hnd as [|x y Hk Hr]; subst.
    assert (Hkp : ~ In k (map fst p)) by (apply Hdisj; left; reflexivity).
    rewrite Habs, (replace_step l0 p k v Hkp) in Ha1.
    destruct (IH s1 l0 (p ++ [(k, v)]) Hs1 Ha1 Hr) as [s' [E' [Hs' Ha']]].
    + intros k' Hk' Hin. rewrite map_app in Hin. apply in_app_iff in Hin as [Hin|[Hin|[]]].
      * apply (Hdisj k'); [right; exact Hk' | exact Hin].
      * simpl in Hin. subst k'. contradiction.
    + exists s'. rewrite <- app_assoc in Ha'. simpl in Ha'. (split; [assumption | split; [assumption | assumption || reflexivity]]).
Qed.

Lemma upd_map_replace s m : Inv s -> NoDup (map fst m) ->
  exists s', upd_map s m = Ok s' /\ Inv s' /\ abs s' = replace_with (abs s) m.
Proof.
  intros Hs Hnd. destruct (upd_map_ok m s (abs s) [] Hs) as [s' [E [Hs' Ha]]].
  - simpl. rewrite remove_keys_nil, app_nil_r. reflexivity.
  - exact Hnd.
  - intros k _ [].
  - exists s'. (split; [assumption | split; [assumption | assumption || reflexivity]]).
Qed.

Lemma upd_pairs_ok : forall l s seen l0 p, Inv s ->
  abs s = remove_keys l0 (map fst p) ++ p ->
  (forall k, In k seen <-> In k (map fst p)) ->
  exists s', upd_pairs s seen l = Ok s' /\ Inv s' /\
             abs s' = remove_keys l0 (map fst (p ++ l)) ++ (p ++ l).
Proof.
  induction l as [|[k v] r IH]; intros s seen l0 p Hs Habs Hseen.
  - exists s. rewrite app_nil_r. split; [reflexivity | split; assumption].
  - simpl. destruct (mem_nat k seen) eqn:Em.
    + apply mem_nat_In in Em. apply Hseen in Em.
      destruct (add_ok s k v Hs) as [Hs1 Ha1].
      assert (Ha1' : abs (m_add s k v) = remove_keys l0 (map fst (p ++ [(k, v)])) ++ (p ++ [(k, v)])).
      { rewrite Ha1, Habs, <- app_assoc. f_equal. apply remove_keys_ext. intro k'.
        rewrite map_app, in_app_iff. simpl. split; [tauto|]. intros [H|[H|[]]]; [exact H | subst; exact Em]. }
      destruct (IH (m_add s k v) seen l0 (p ++ [(k, v)]) Hs1 Ha1') as [s' [E' [Hs' Ha']]].
      * intro k'. rewrite map_app, in_app_iff, Hseen. simpl. split; [tauto|].
        intros [H|[H|[]]]; [exact H | subst; exact Em].
      * exists s'. rewrite <- app_assoc in Ha'. simpl in Ha'. (split; [assumption | split; [assumption | assumption || reflexivity]]).
    + apply mem_nat_false in Em. assert (Hkp : ~ In k (map fst p)) by (rewrite <- Hseen; exact Em).
      assert (Hdel : exists s1, (if d_mem (store s) k then m_delitem s k else Ok s) = Ok s1 /\ Inv s1 /\
                                abs s1 = remove_key (abs s) k).
      { rewrite (store_mem s k (proj1 Hs)). destruct (has_key (abs s) k) eqn:Ek.
        - apply delitem_ok; assumption.
        - exists s. rewrite (remove_key_absent _ _ Ek). split; [reflexivity | split; [assumption | reflexivity]]. }
      destruct Hdel as [s1 [E1 [Hs1 Ha1]]]. rewrite E1. simpl.
      destruct (add_ok s1 k v Hs1) as [Hs2 Ha2].
      rewrite Ha1, Habs, (replace_step l0 p k v Hkp) in Ha2.
      destruct (IH (m_add s1 k v) (k :: seen) l0 (p ++ [(k, v)]) Hs2 Ha2) as [s' [E' [Hs' Ha']]].
      * intro k'. rewrite map_app, in_app_iff. simpl. rewrite Hseen. tauto.
      * exists s'. rewrite <- app_assoc in Ha'. simpl in Ha'. (split; [assumption | split; [assumption | assumption || reflexivity]]).
Qed.

Lemma del_present_ok : forall ks s, Inv s ->
  exists s', del_present s ks = Ok s' /\ Inv s' /\ abs s' = remove_keys (abs s) ks.
Proof.
  induction ks as [|k r IH]; intros s Hs.
  - exists s. rewrite remove_keys_nil. split; [reflexivity | split; [assumption | reflexivity]].
  - simpl.
    assert (Hdel : exists s1, (if d_mem (store s) k then m_delitem s k else Ok s) = Ok s1 /\ Inv s1 /\
                              abs s1 = remove_key (abs s) k).
    { rewrite (store_mem s k (proj1 Hs)). destruct (has_key (abs s) k) eqn:Ek.
      - apply delitem_ok; assumption.
      - exists s. rewrite (remove_key_absent _ _ Ek). split; [reflexivity | split; [assumption | reflexivity]]. }
    destruct Hdel as [s1 [E1 [Hs1 Ha1]]]. rewrite E1. simpl.
    destruct (IH s1 Hs1) as [s' [E' [Hs' Ha']]]. exists s'. rewrite remove_keys_cons, <- Ha1.
    (split; [assumption | split; [assumption | assumption || reflexivity]]).
Qed.

Lemma wf_update_parts a kw : wf_op (Update a kw) = true ->
  wf_arg a = true /\ NoDup (map fst kw).
Proof.
  simpl. intro H. apply andb_true_iff in H as [H1 H2]. split; [exact H1 | apply nodup_b_NoDup; exact H2].
Qed.

Lemma update_ok s o a kw : Inv s -> Inv o -> wf_op (Update a kw) = true ->
  exists s', m_update s o a kw = Ok s' /\ Inv s' /\ abs s' = spec_update (abs s) (abs o) a kw.
Proof.
  intros Hs Ho Hwf. destruct (wf_update_parts a kw Hwf) as [Hwa Hkw].
  unfold m_update, spec_update. destruct a as [l|m| |].
  - destruct (upd_pairs_ok l s [] (abs s) [] Hs) as [s1 [E1 [Hs1 Ha1]]].
    + simpl. rewrite remove_keys_nil, app_nil_r. reflexivity.
    + simpl. tauto.
    + rewrite E1. simpl. simpl in Ha1.
      destruct (upd_map_replace s1 kw Hs1 Hkw) as [s' [E' [Hs' Ha']]].
      exists s'. rewrite Ha', Ha1. (split; [assumption | split; [assumption | assumption || reflexivity]]).
  - simpl in Hwa. apply nodup_b_NoDup in Hwa.
    destruct (upd_map_replace s m Hs Hwa) as [s1 [E1 [Hs1 Ha1]]]. rewrite E1. simpl.
    destruct (upd_map_replace s1 kw Hs1 Hkw) as [s' [E' [Hs' Ha']]].
    exists s'. rewrite Ha', Ha1. (split; [assumption | split; [assumption | assumption || reflexivity]]).
  - destruct (del_present_ok (m_iterkeys o) s Hs) as [s1 [E1 [Hs1 Ha1]]]. rewrite E1. simpl.
    destruct (add_all_ok (m_items o) s1 Hs1) as [Hs2 Ha2].
    destruct (upd_map_replace _ kw Hs2 Hkw) as [s' [E' [Hs' Ha']]].
    exists s'. rewrite Ha', Ha2, Ha1. split; [assumption | split; [assumption|]].
    f_equal. unfold replace_with. f_equal. rewrite iterkeys_correct.
    apply remove_keys_ext. intro k. apply keys1_In.
  - destruct (upd_map_replace s kw Hs Hkw) as [s' [E' [Hs' Ha']]].
    exists s'. (split; [assumption | split; [assumption | assumption || reflexivity]]).
Qed.

Lemma update_extend_ok s o a kw : Inv s -> Inv o ->
  exists s', m_update_extend s o a kw = Ok s' /\ Inv s' /\
             abs s' = abs s ++ ext_arg (abs s) (abs o) a ++ kw.
Proof.
  intros Hs Ho. unfold m_update_extend.
  assert (Hit : (match a with
                 | ASelf => m_items1 s | AOther => Ok (m_items o) | AMap m => Ok m | APairs l => Ok l
                 end) = Ok (ext_arg (abs s) (abs o) a)).
  { destruct a; try reflexivity. apply items1_correct. apply Hs. }
  rewrite Hit. simpl.
  destruct (add_all_ok (ext_arg (abs s) (abs o) a) s Hs) as [Hs1 Ha1].
  destruct (add_all_ok kw _ Hs1) as [Hs2 Ha2].
  eexists. split; [reflexivity|]. split; [exact Hs2|]. rewrite Ha2, Ha1, app_assoc. reflexivity.
Qed.

(* ---- refinement statements ------------------------------------------------------------------- *)
Ltac start := unfold refines_op, m_op; intros s o Hs Ho Hwf.

Lemma add_refines k v : refines_op (Add k v).
Proof. start. destruct (add_ok s k v Hs) as [H1 H2]. split; [exact H1|]. simpl. rewrite H2. reflexivity. Qed.

Lemma addlist_refines k vs : refines_op (AddList k vs).
Proof. start. destruct (addlist_ok s k vs Hs) as [H1 H2]. split; [exact H1|]. simpl. rewrite H2. reflexivity. Qed.

Lemma setitem_refines k v : refines_op (SetItem k v).
Proof.
  start. destruct (setitem_ok s k v Hs) as [s' [E [H1 H2]]]. rewrite E. simpl.
  split; [exact H1|]. rewrite H2. reflexivity.
Qed.

Lemma delitem_refines k : refines_op (DelItem k).
Proof.
  start. simpl. destruct (has_key (abs s) k) eqn:Ek.
  - destruct (delitem_ok s k Hs Ek) as [s' [E [H1 H2]]]. rewrite E. simpl.
    split; [exact H1|]. rewrite H2. reflexivity.
  - rewrite (delitem_absent s k Hs Ek). simpl. reflexivity.
Qed.

Lemma update_refines a kw : refines_op (Update a kw).
Proof.
  start. destruct (update_ok s o a kw Hs Ho Hwf) as [s' [E [H1 H2]]]. rewrite E. simpl.
  split; [exact H1|]. rewrite H2. reflexivity.
Qed.

Lemma update_extend_refines a kw : refines_op (UpdateExtend a kw).
Proof.
  start. destruct (update_extend_ok s o a kw Hs Ho) as [s' [E [H1 H2]]]. rewrite E. simpl.
  split; [exact H1|]. rewrite H2. reflexivity.
Qed.

Lemma ior_refines a : refines_op (IOr a).
Proof.
  start. assert (Hwf' : wf_op (Update a []) = true).
  { destruct a; simpl in *; try rewrite Hwf; reflexivity. }
  destruct (update_ok s o a [] Hs Ho Hwf') as [s' [E [H1 H2]]]. rewrite E. simpl.
  split; [exact H1|]. rewrite H2. reflexivity.
Qed.

Lemma setdefault_refines k d : refines_op (SetDefault k d).
Proof.
  start. rewrite (store_mem s k (proj1 Hs)). simpl. destruct (has_key (abs s) k) eqn:Ek.
  - simpl. rewrite (getitem_correct s k (proj1 Hs)), Ek. simpl. split; [exact Hs | reflexivity].
  - destruct (setitem_ok s k (dflt d) Hs) as [s' [E [H1 H2]]]. rewrite E. simpl.
    rewrite (getitem_correct s' k (proj1 H1)).
    rewrite (remove_key_absent _ _ Ek) in H2.
    assert (Hk' : has_key (abs s') k = true).
    { rewrite H2, has_key_app. simpl. unfold keyb. simpl. rewrite Nat.eqb_refl. apply orb_true_r. }
    rewrite Hk'. simpl. split; [exact H1|]. rewrite H2. f_equal. do 2 f_equal.
    replace (abs s ++ [(k, dflt d)]) with (abs s ++ (k, dflt d) :: []) by reflexivity.
    symmetry. apply visible_split. reflexivity.
Qed.

Lemma new_refines a kw : refines_op (New a kw).
Proof.
  start.
  assert (Hkw : NoDup (map fst kw)).
  { apply nodup_b_NoDup. destruct a as [a|]; simpl in Hwf; [apply andb_true_iff in Hwf; apply Hwf | exact Hwf]. }
  unfold m_new.
  set (base := match a with
               | None => m_empty
               | Some ASelf => m_from_pairs (m_items s)
               | Some AOther => m_from_pairs (m_items o)
               | Some (AMap m) => m_from_pairs m
               | Some (APairs l) => m_from_pairs l
               end).
  assert (Hb : Inv base /\ abs base = match a with
                                       | None => []
                                       | Some ASelf => abs s
                                       | Some a' => ext_arg (abs s) (abs o) a'
                                       end).
  { subst base. destruct a as [[l|m| |]|]; try apply from_pairs_ok. split; [apply Inv_empty | apply abs_empty]. }
  destruct Hb as [Hb1 Hb2].
  destruct (upd_map_replace base kw Hb1 Hkw) as [s' [E [H1 H2]]]. rewrite E. simpl.
  split; [exact H1|]. rewrite H2, Hb2. reflexivity.
Qed.

Lemma fromkeys_refines ks d : refines_op (FromKeys ks d).
Proof.
  start. destruct (from_pairs_ok (map (fun k => (k, dflt d)) ks)) as [H1 H2].
  split; [exact H1|]. simpl. rewrite H2. reflexivity.
Qed.
