(* C01, (T) tie from the Python source, the bulk mutators: the regenerated programs of update,
   update_extend and __ior__ (loops over the argument calling add / __setitem__ / __delitem__),
   interpreted by Model/C01_SrcLang.v with the callees interpreted one layer below, compute exactly the
   pointer-level model's pm_update / pm_update_extend. *)
From Boltons Require Import Lib.Prelude Spec.C01_Spec Model.C01_Model Model.C01_Ptr Model.C01_PModel
  Model.C01_SrcLang Gen.C01_Src Proofs.C01_Base Proofs.C01_Prim Proofs.C01_Refine Proofs.C01_Mut1 Proofs.C01_Reads1
  Proofs.C01_Mut2 Proofs.C01_PSimDefs Proofs.C01_PSim1 Proofs.C01_PSim2 Proofs.C01_SrcDefs Proofs.C01_SrcInv
  Proofs.C01_SrcEq1 Proofs.C01_SrcEq2.

Local Arguments d_get : simpl never.
Local Arguments d_set : simpl never.
Local Arguments d_del : simpl never.
Local Arguments d_mem : simpl never.
Local Arguments rev : simpl never.
Local Arguments sem : simpl never.
Local Arguments fuel_of : simpl never.
Local Arguments pm_add : simpl never.
Local Arguments pm_setitem : simpl never.
Local Arguments pm_delitem : simpl never.
Local Arguments pm_items : simpl never.
Local Arguments pm_iterkeys : simpl never.
Local Arguments pm_items1 : simpl never.

(* ---- PInv is kept by the three mutators the loops call -------------------------------------------- *)
Lemma pinv_inv p : PInv p -> Inv (lift p).
Proof. intros [G HS]. split; [exact HS|]. apply (good_lift p G). Qed.

Lemma pinv_add p k v : PInv p -> PInv (pm_add p k v).
Proof.
  intro I. pose proof (pinv_inv p I) as Hi. destruct I as [G _].
  destruct (sim_add p k v G) as [G1 E1]. split; [exact G1|].
  rewrite E1. apply (add_ok (lift p) k v Hi).
Qed.

Lemma pinv_setitem p k v : PInv p -> exists p', pm_setitem p k v = Ok p' /\ PInv p'.
Proof.
  intro I. pose proof (pinv_inv p I) as Hi. destruct I as [G _].
  pose proof (sim_setitem p k v G) as H.
  destruct (setitem_ok (lift p) k v Hi) as [s' [E [Hs' _]]]. rewrite E in H.
  destruct (pm_setitem p k v) as [p'|e]; [|contradiction].
  destruct H as [EL G']. exists p'. split; [reflexivity|]. split; [exact G'|].
  rewrite EL. apply Hs'.
Qed.

Lemma pinv_delitem p k : PInv p -> d_mem (pstore p) k = true -> exists p', pm_delitem p k = Ok p' /\ PInv p'.
Proof.
  intros I Hm. pose proof (pinv_inv p I) as Hi. destruct I as [G HS].
  pose proof (sim_delitem p k G) as H.
  assert (Hk : has_key (abs (lift p)) k = true).
  { rewrite <- (store_mem (lift p) k HS). exact Hm. }
  destruct (delitem_ok (lift p) k Hi Hk) as [s' [E [Hs' _]]]. rewrite E in H.
  destruct (pm_delitem p k) as [p'|e]; [|contradiction].
  destruct H as [EL G']. exists p'. split; [reflexivity|]. split; [exact G'|].
  rewrite EL. apply Hs'.
Qed.

(* ---- environments --------------------------------------------------------------------------------- *)
Lemma env_get_set_eq en x v : env_get (env_set en x v) x = Ok v.
Proof. unfold env_set. cbn. rewrite Nat.eqb_refl. reflexivity. Qed.

Lemma env_get_set_ne en x y v : x <> y -> env_get (env_set en y v) x = env_get en x.
Proof. intro H. unfold env_set. cbn. apply Nat.eqb_neq in H. rewrite H. reflexivity. Qed.

(* ---- lookups in a mapping with distinct keys ------------------------------------------------------- *)
Lemma nodup_get (m : pairs) : NoDup (map fst m) -> forall p, In p m -> d_get m (fst p) = Some (snd p).
Proof.
  induction m as [|[k0 v0] r IH]; intros Hnd p Hin; [contradiction|].
  cbn [map fst] in Hnd. inversion Hnd as [|x y Hk Hr]; subst.
  unfold d_get. fold (d_get r (fst p)). destruct Hin as [E|Hin].
  - subst p. cbn. rewrite Nat.eqb_refl. reflexivity.
  - assert (Hne : fst p <> k0).
    { intro E. apply Hk. rewrite <- E. apply in_map. exact Hin. }
    apply Nat.eqb_neq in Hne. rewrite Hne. apply IH; assumption.
Qed.

Lemma genkv_eq (m : pairs) : NoDup (map fst m) ->
  map (fun k => (k, match d_get m k with Some v => v | None => none_tok end)) (map fst m) = m.
Proof.
  intro Hnd. rewrite map_map. transitivity (map (fun p : K * V => p) m); [|apply map_id].
  apply map_ext_in. intros p Hp. rewrite (nodup_get m Hnd p Hp). destruct p; reflexivity.
Qed.

(* ---- the loop bodies ------------------------------------------------------------------------------- *)
Definition add_stmt (x y : nat) : stmt := SExpr (ECall2 MAdd (EVar x) (EVar y)).
Definition set_stmt (xm : nat) : stmt := SExpr (ECall2 MSetItem (EVar 2) (EArgGet (EVar xm) (EVar 2))).
Definition del_stmt : stmt := SIf (EStoreContains (EVar 2)) (SExpr (ECall1 MDelItem (EVar 2))) SPass.
Definition kwadd_stmt : stmt := SExpr (ECall2 MAdd (EVar 3) (EArgGet (EVar 1) (EVar 3))).
Definition seen_stmt : stmt :=
  SSeq (SIf (ENot (EInSet (EVar 2) (EVar 4))) (SSeq (SSetAdd 4 (EVar 2)) del_stmt) SPass) (add_stmt 2 3).

Local Arguments add_stmt : simpl never.
Local Arguments set_stmt : simpl never.
Local Arguments del_stmt : simpl never.
Local Arguments kwadd_stmt : simpl never.
Local Arguments seen_stmt : simpl never.

Definition is_map (mv : pv) (m : pairs) : Prop := mv = VArg (AMap m) \/ mv = VKw m.

Definition del_if (s : pomd) (k : K) : res pomd := if d_mem (pstore s) k then pm_delitem s k else Ok s.

Lemma pinv_del_if s k : PInv s -> exists s', del_if s k = Ok s' /\ PInv s'.
Proof.
  intro I. unfold del_if. destruct (d_mem (pstore s) k) eqn:Em.
  - apply pinv_delitem; assumption.
  - exists s. split; [reflexivity|exact I].
Qed.

Lemma exec_add_stmt n fu x y en s k v : Good s ->
  env_get en x = Ok (VTok k) -> env_get en y = Ok (VTok v) ->
  exec (sem (S (S n))) fu (add_stmt x y) en s = (ONormal, en, pm_add s k v).
Proof.
  intros G Ex Ey. unfold add_stmt. cbn. rewrite Ex, Ey. rewrite source_add by exact G. reflexivity.
Qed.

Lemma exec_set_stmt n fu xm en s mv m k v : Good s -> is_map mv m ->
  env_get en xm = Ok mv -> env_get en 2 = Ok (VTok k) -> d_get m k = Some v ->
  exec (sem (S (S n))) fu (set_stmt xm) en s
  = match pm_setitem s k v with Ok s' => (ONormal, en, s') | Raise e => (ORaise e, en, s) end.
Proof.
  intros G Hm Em E2 Eg. unfold set_stmt.
  destruct Hm as [Hm|Hm]; subst mv; cbn; rewrite E2, Em; cbn; rewrite ?E2; cbn; rewrite Eg;
    rewrite source_setitem by exact G; destruct (pm_setitem s k v); reflexivity.
Qed.

Lemma exec_del_stmt n fu en s k : PInv s -> env_get en 2 = Ok (VTok k) ->
  exec (sem (S (S n))) fu del_stmt en s
  = match del_if s k with Ok s' => (ONormal, en, s') | Raise e => (ORaise e, en, s) end.
Proof.
  intros I E2. unfold del_stmt, del_if. cbn. unfold eval_truth. cbn. rewrite E2. cbn.
  destruct (d_mem (pstore s) k) eqn:Em; [|reflexivity].
  cbn. rewrite ?E2. rewrite source_delitem by exact I. destruct (pm_delitem s k); reflexivity.
Qed.

Lemma exec_kwadd_stmt n fu en s m k v : Good s ->
  env_get en 1 = Ok (VKw m) -> env_get en 3 = Ok (VTok k) -> d_get m k = Some v ->
  exec (sem (S (S n))) fu kwadd_stmt en s = (ONormal, en, pm_add s k v).
Proof.
  intros G E1 E3 Eg. unfold kwadd_stmt. cbn. rewrite E3, E1. cbn. rewrite ?E3. cbn. rewrite Eg.
  rewrite source_add by exact G. reflexivity.
Qed.

Lemma exec_seen_stmt n fu en s seen k v : PInv s ->
  env_get en 2 = Ok (VTok k) -> env_get en 3 = Ok (VTok v) -> env_get en 4 = Ok (VSet seen) ->
  exists en',
    exec (sem (S (S n))) fu seen_stmt en s
    = match (if mem_nat k seen then Ok s else del_if s k) with
      | Ok s1 => (ONormal, en', pm_add s1 k v)
      | Raise e => (ORaise e, en', s)
      end
    /\ env_get en' 4 = Ok (VSet (if mem_nat k seen then seen else k :: seen))
    /\ (forall z, z <> 4 -> env_get en' z = env_get en z).
Proof.
  intros I E2 E3 E4. unfold seen_stmt.
  destruct (mem_nat k seen) eqn:Em.
  - exists en. split; [|split; [exact E4|reflexivity]].
    cbn. unfold eval_truth. cbn. rewrite E2, E4. cbn. rewrite Em. cbn.
    apply (exec_add_stmt n fu 2 3 en s k v); [apply I|exact E2|exact E3].
  - exists (env_set en 4 (VSet (k :: seen))). split; [|split].
    + cbn. unfold eval_truth. cbn. rewrite E2, E4. cbn. rewrite Em. cbn. rewrite ?E2, ?E4. cbn.
      rewrite (exec_del_stmt n fu _ s k I) by (rewrite env_get_set_ne by discriminate; exact E2).
      destruct (pinv_del_if s k I) as (s1 & E1 & I1). rewrite E1.
      apply (exec_add_stmt n fu 2 3 _ s1 k v); [apply I1| |]; rewrite env_get_set_ne by discriminate; assumption.
    + apply env_get_set_eq.
    + intros z Hz. apply env_get_set_ne. exact Hz.
Qed.

(* ---- the loops -------------------------------------------------------------------------------------- *)
(* (1)  for k, v in l: self_add(k, v) *)
Lemma for2_add n fu x y : x <> y -> forall l en s, Good s ->
  exists en', for_each2 x y l (exec (sem (S (S n))) fu (add_stmt x y)) en s = (ONormal, en', p_add_all s l)
              /\ (forall z, z <> x -> z <> y -> env_get en' z = env_get en z).
Proof.
  intro Hxy. induction l as [|[k v] r IH]; intros en s G.
  - exists en. split; reflexivity.
  - cbn [for_each2].
    rewrite (exec_add_stmt n fu x y _ s k v G).
    2: { rewrite env_get_set_ne by exact Hxy. apply env_get_set_eq. }
    2: { apply env_get_set_eq. }
    destruct (IH (env_set (env_set en x (VTok k)) y (VTok v)) (pm_add s k v)) as (en' & EL & Hp).
    + apply (sim_add s k v G).
    + exists en'. split; [exact EL|]. intros z Hx Hy. rewrite (Hp z Hx Hy).
      rewrite env_get_set_ne by exact Hy. apply env_get_set_ne. exact Hx.
Qed.

(* (1')  for k in F: self_add(k, F[k]) *)
Lemma for_kwadd n fu m : forall r en s, Good s -> env_get en 1 = Ok (VKw m) ->
  (forall p, In p r -> d_get m (fst p) = Some (snd p)) ->
  exists en', for_each 3 (map fst r) (exec (sem (S (S n))) fu kwadd_stmt) en s = (ONormal, en', p_add_all s r).
Proof.
  induction r as [|[k v] r IH]; intros en s G E1 Hin.
  - exists en. reflexivity.
  - cbn [map fst for_each].
    rewrite (exec_kwadd_stmt n fu _ s m k v G).
    2: { rewrite env_get_set_ne by discriminate. exact E1. }
    2: { apply env_get_set_eq. }
    2: { apply (Hin (k, v)). left. reflexivity. }
    destruct (IH (env_set en 3 (VTok k)) (pm_add s k v)) as (en' & EL).
    + apply (sim_add s k v G).
    + rewrite env_get_set_ne by discriminate. exact E1.
    + intros p Hp. apply Hin. right. exact Hp.
    + exists en'. exact EL.
Qed.

(* (2)  for k in M.keys(): self[k] = M[k] *)
Lemma for_set n fu xm m mv : xm <> 2 -> is_map mv m -> forall r en s, PInv s -> env_get en xm = Ok mv ->
  (forall p, In p r -> d_get m (fst p) = Some (snd p)) ->
  exists en' s', p_upd_map s r = Ok s' /\ PInv s'
    /\ for_each 2 (map fst r) (exec (sem (S (S n))) fu (set_stmt xm)) en s = (ONormal, en', s')
    /\ (forall z, z <> 2 -> env_get en' z = env_get en z).
Proof.
  intros Hx Hm. induction r as [|[k v] r IH]; intros en s I Em Hin.
  - exists en, s. split; [reflexivity|]. split; [exact I|]. split; [reflexivity|]. intros; reflexivity.
  - cbn [map fst for_each p_upd_map].
    destruct (pinv_setitem s k v I) as (s1 & E1 & I1).
    rewrite (exec_set_stmt n fu xm _ s mv m k v (proj1 I) Hm).
    2: { rewrite env_get_set_ne by exact Hx. exact Em. }
    2: { apply env_get_set_eq. }
    2: { apply (Hin (k, v)). left. reflexivity. }
    rewrite E1. cbn [bind].
    destruct (IH (env_set en 2 (VTok k)) s1 I1) as (en' & s' & Eu & I' & EL & Hp).
    + rewrite env_get_set_ne by exact Hx. exact Em.
    + intros p Hp. apply Hin. right. exact Hp.
    + exists en', s'. split; [exact Eu|]. split; [exact I'|]. split; [exact EL|].
      intros z Hz. rewrite (Hp z Hz). apply env_get_set_ne. exact Hz.
Qed.

(* (3)  for k in ks: if k in self: del self[k] *)
Lemma for_del n fu : forall ks en s, PInv s ->
  exists en' s', p_del_present s ks = Ok s' /\ PInv s'
    /\ for_each 2 ks (exec (sem (S (S n))) fu del_stmt) en s = (ONormal, en', s')
    /\ (forall z, z <> 2 -> env_get en' z = env_get en z).
Proof.
  induction ks as [|k r IH]; intros en s I.
  - exists en, s. split; [reflexivity|]. split; [exact I|]. split; [reflexivity|]. intros; reflexivity.
  - cbn [for_each p_del_present].
    rewrite (exec_del_stmt n fu _ s k I) by apply env_get_set_eq.
    destruct (pinv_del_if s k I) as (s1 & E1 & I1). fold (del_if s k). rewrite E1. cbn [bind].
    destruct (IH (env_set en 2 (VTok k)) s1 I1) as (en' & s' & Eu & I' & EL & Hp).
    exists en', s'. split; [exact Eu|]. split; [exact I'|]. split; [exact EL|].
    intros z Hz. rewrite (Hp z Hz). apply env_get_set_ne. exact Hz.
Qed.

(* (4)  the loop of update's else-branch, with the local set [seen] in variable 4 *)
Lemma for2_seen n fu : forall l seen en s, PInv s -> env_get en 4 = Ok (VSet seen) ->
  exists en' s', p_upd_pairs s seen l = Ok s' /\ PInv s'
    /\ for_each2 2 3 l (exec (sem (S (S n))) fu seen_stmt) en s = (ONormal, en', s')
    /\ (forall z, z <> 2 -> z <> 3 -> z <> 4 -> env_get en' z = env_get en z).
Proof.
  induction l as [|[k v] r IH]; intros seen en s I E4.
  - exists en, s. split; [reflexivity|]. split; [exact I|]. split; [reflexivity|]. intros; reflexivity.
  - cbn [for_each2 p_upd_pairs].
    destruct (exec_seen_stmt n fu (env_set (env_set en 2 (VTok k)) 3 (VTok v)) s seen k v I)
      as (en1 & EX & E4' & Hp1).
    { rewrite env_get_set_ne by discriminate. apply env_get_set_eq. }
    { apply env_get_set_eq. }
    { rewrite !env_get_set_ne by discriminate. exact E4. }
    rewrite EX. destruct (mem_nat k seen) eqn:Em.
    + destruct (IH seen en1 (pm_add s k v) (pinv_add s k v I) E4') as (en' & s' & Eu & I' & EL & Hp).
      exists en', s'. split; [exact Eu|]. split; [exact I'|]. split; [exact EL|].
      intros z H2 H3 H4. rewrite (Hp z H2 H3 H4), (Hp1 z H4). rewrite !env_get_set_ne by assumption. reflexivity.
    + destruct (pinv_del_if s k I) as (s1 & E1 & I1). fold (del_if s k). rewrite E1. cbn [bind].
      destruct (IH (k :: seen) en1 (pm_add s1 k v) (pinv_add s1 k v I1) E4') as (en' & s' & Eu & I' & EL & Hp).
      exists en', s'. split; [exact Eu|]. split; [exact I'|]. split; [exact EL|].
      intros z H2 H3 H4. rewrite (Hp z H2 H3 H4), (Hp1 z H4). rewrite !env_get_set_ne by assumption. reflexivity.
Qed.

(* ---- update ------------------------------------------------------------------------------------------ *)
Definition kw_tail : stmt := SSeq (SFor 2 (EVar 1) (set_stmt 1)) (SReturn ENone).
Definition upd_self : stmt := SIf (EIsSelf (EVar 0)) (SAssign 0 EEmptyTuple) SPass.
Definition upd_mid : stmt :=
  SIf (EIsOMD (EVar 0))
    (SSeq (SFor 2 (EVar 0) del_stmt) (SFor2 2 3 (EArgItemsMulti (EVar 0)) (add_stmt 2 3)))
    (SIf (EHasKeys (EVar 0)) (SFor 2 (EArgKeys (EVar 0)) (set_stmt 0))
       (SSeq (SAssign 4 ESetNew) (SFor2 2 3 (EVar 0) seen_stmt))).

Lemma gen_update_eq : gen_update = SSeq upd_self (SSeq upd_mid kw_tail).
Proof. reflexivity. Qed.

Lemma exec_seq_assoc callee fu a b c en s :
  exec callee fu (SSeq a (SSeq b c)) en s
  = match exec callee fu (SSeq a b) en s with
    | (ONormal, en2, s2) => exec callee fu c en2 s2
    | r => r
    end.
Proof.
  cbn [exec]. destruct (exec callee fu a en s) as [[o e] s1]. destruct o; reflexivity.
Qed.

Lemma exec_kw_tail n fu en s kw : PInv s -> env_get en 1 = Ok (VKw kw) -> NoDup (map fst kw) ->
  exists s', p_upd_map s kw = Ok s' /\ fin (exec (sem (S (S n))) fu kw_tail en s) = (Ok (VTok none_tok), s').
Proof.
  intros I E1 Hnd.
  destruct (for_set n fu 1 kw (VKw kw) ltac:(discriminate) (or_intror eq_refl) kw en s I E1 (nodup_get kw Hnd))
    as (en' & s' & Eu & I' & EL & _).
  exists s'. split; [exact Eu|]. unfold kw_tail. cbn. rewrite E1. rewrite EL. reflexivity.
Qed.
Local Arguments kw_tail : simpl never.

(* the part of update() that depends on E *)
Definition upd_first (p q : pomd) (a : arg) : res pomd :=
  match a with
  | ASelf => Ok p
  | AOther => do s1 <- p_del_present p (pm_iterkeys q); Ok (p_add_all s1 (pm_items q))
  | AMap m => p_upd_map p m
  | APairs l => p_upd_pairs p [] l
  end.

Lemma pm_update_first p q a kw : pm_update p q a kw = do s1 <- upd_first p q a; p_upd_map s1 kw.
Proof.
  destruct a; try reflexivity. unfold pm_update, upd_first.
  destruct (p_del_present p (pm_iterkeys q)); reflexivity.
Qed.

Lemma exec_upd_front n fu p q a kw : PInv p -> wf_arg a = true ->
  exists en1 s1, upd_first p q a = Ok s1 /\ PInv s1
    /\ exec (sem (S (S n))) fu (SSeq upd_self upd_mid) [(0, arg_pv q a); (1, VKw kw)] p = (ONormal, en1, s1)
    /\ env_get en1 1 = Ok (VKw kw).
Proof.
  intros I Hwf. destruct a as [l|m| |]; unfold upd_first, arg_pv, upd_self, upd_mid.
  - (* an iterable of pairs *)
    destruct (for2_seen n fu l [] (env_set [(0, VArg (APairs l)); (1, VKw kw)] 4 (VSet [])) p I eq_refl)
      as (en' & s' & Eu & I' & EL & Hp).
    exists en', s'. split; [exact Eu|]. split; [exact I'|]. split.
    + cbn. unfold eval_truth. cbn. exact EL.
    + rewrite Hp by discriminate. reflexivity.
  - (* a plain mapping *)
    cbn in Hwf. apply nodup_b_NoDup in Hwf.
    destruct (for_set n fu 0 m (VArg (AMap m)) ltac:(discriminate) (or_introl eq_refl) m
                [(0, VArg (AMap m)); (1, VKw kw)] p I eq_refl (nodup_get m Hwf))
      as (en' & s' & Eu & I' & EL & Hp).
    exists en', s'. split; [exact Eu|]. split; [exact I'|]. split.
    + cbn. unfold eval_truth. cbn. exact EL.
    + rewrite Hp by discriminate. reflexivity.
  - (* the other OrderedMultiDict *)
    destruct (for_del n fu (pm_iterkeys q) [(0, VOtherObj q); (1, VKw kw)] p I)
      as (en1 & s1 & Eu & I1 & EL & Hp).
    destruct (for2_add n fu 2 3 ltac:(discriminate) (pm_items q) en1 s1 (proj1 I1)) as (en2 & EL2 & Hp2).
    exists en2, (p_add_all s1 (pm_items q)). rewrite Eu. split; [reflexivity|]. split; [|split].
    + split; [apply (sim_add_all (pm_items q) s1 (proj1 I1))|].
      destruct (sim_add_all (pm_items q) s1 (proj1 I1)) as [_ E]. rewrite E.
      apply (add_all_ok (pm_items q) (lift s1) (pinv_inv s1 I1)).
    + cbn. unfold eval_truth. cbn. rewrite EL. cbn. rewrite (Hp 0) by discriminate. cbn. exact EL2.
    + rewrite Hp2, Hp by discriminate. reflexivity.
  - (* self: E = () *)
    exists (env_set (env_set [(0, VArg ASelf); (1, VKw kw)] 0 (VArg (APairs []))) 4 (VSet [])), p.
    split; [reflexivity|]. split; [exact I|]. split; reflexivity.
Qed.

Lemma source_update n p q a kw : PInv p -> Good q -> wf_op (Update a kw) = true ->
  sem (S (S (S n))) MUpdate [arg_pv q a; VKw kw] p = ok_or_same p (pm_update p q a kw).
Proof.
  intros I _ Hwf. destruct (wf_update_parts a kw Hwf) as [Hwa Hkw].
  rewrite sem_S, run_body_fin. unfold gen_prog. rewrite gen_update_eq, exec_seq_assoc.
  change (bind_params 0 [arg_pv q a; VKw kw]) with [(0, arg_pv q a); (1, VKw kw)].
  destruct (exec_upd_front n (fuel_of p) p q a kw I Hwa) as (en1 & s1 & Ef & I1 & EX & E1).
  rewrite EX.
  destruct (exec_kw_tail n (fuel_of p) en1 s1 kw I1 E1 Hkw) as (s' & Eu & ET).
  rewrite ET, pm_update_first, Ef. cbn [bind]. rewrite Eu. reflexivity.
Qed.

(* ---- update_extend ----------------------------------------------------------------------------------- *)
Definition ext_pick : stmt :=
  SIf (EIsSelf (EVar 0)) (SAssign 2 (EArgItems (EVar 0)))
    (SIf (EIsOMD (EVar 0)) (SAssign 2 (EArgItemsMulti (EVar 0)))
       (SIf (EHasKeys (EVar 0)) (SAssign 2 (EGenKV (EVar 0))) (SAssign 2 (EVar 0)))).
Definition ext_tail : stmt :=
  SSeq (SFor2 3 4 (EVar 2) (add_stmt 3 4)) (SFor 3 (EVar 1) kwadd_stmt).

Lemma gen_update_extend_eq : gen_update_extend = SSeq ext_pick ext_tail.
Proof. reflexivity. Qed.

Definition ext_list (p q : pomd) (a : arg) : res pairs :=
  match a with
  | ASelf => pm_items1 p
  | AOther => Ok (pm_items q)
  | AMap m => Ok m
  | APairs l => Ok l
  end.

Definition is_pairs (v : pv) (l : pairs) : Prop := v = VPairs l \/ v = VArg (APairs l).

Lemma pinv_items1 p : PInv p -> exists l, pm_items1 p = Ok l.
Proof.
  intros [_ HS]. rewrite sim_items1, (items1_correct (lift p) HS). eexists. reflexivity.
Qed.

Lemma exec_ext_pick n fu p q a kw : PInv p -> wf_arg a = true ->
  exists l v, ext_list p q a = Ok l /\ is_pairs v l
    /\ exec (sem (S (S n))) fu ext_pick [(0, arg_pv q a); (1, VKw kw)] p
       = (ONormal, env_set [(0, arg_pv q a); (1, VKw kw)] 2 v, p).
Proof.
  intros I Hwf. destruct a as [l|m| |]; unfold ext_list, arg_pv, ext_pick.
  - exists l, (VArg (APairs l)). split; [reflexivity|]. split; [right; reflexivity|]. reflexivity.
  - cbn in Hwf. apply nodup_b_NoDup in Hwf.
    exists m, (VPairs m). split; [reflexivity|]. split; [left; reflexivity|].
    cbn. unfold eval_truth. cbn. rewrite (genkv_eq m Hwf). reflexivity.
  - exists (pm_items q), (VPairs (pm_items q)). split; [reflexivity|]. split; [left; reflexivity|]. reflexivity.
  - destruct (pinv_items1 p I) as [l El]. exists l, (VPairs l). split; [exact El|]. split; [left; reflexivity|].
    cbn. unfold eval_truth. cbn. rewrite El. reflexivity.
Qed.

Lemma exec_ext_tail n fu en s v l kw : Good s -> is_pairs v l ->
  env_get en 2 = Ok v -> env_get en 1 = Ok (VKw kw) -> NoDup (map fst kw) ->
  exists en', exec (sem (S (S n))) fu ext_tail en s = (ONormal, en', p_add_all (p_add_all s l) kw).
Proof.
  intros G Hv E2 E1 Hnd.
  destruct (for2_add n fu 3 4 ltac:(discriminate) l en s G) as (en1 & EL1 & Hp1).
  destruct (for_kwadd n fu kw kw en1 (p_add_all s l)) as (en2 & EL2).
  - apply (sim_add_all l s G).
  - rewrite Hp1 by discriminate. exact E1.
  - apply nodup_get. exact Hnd.
  - exists en2. unfold ext_tail.
    destruct Hv as [Hv|Hv]; subst v; cbn; rewrite E2, EL1; cbn; rewrite Hp1 by discriminate; rewrite E1; exact EL2.
Qed.

Lemma source_update_extend n p q a kw : PInv p -> Good q -> wf_op (UpdateExtend a kw) = true ->
  sem (S (S (S n))) MUpdateExtend [arg_pv q a; VKw kw] p = ok_or_same p (pm_update_extend p q a kw).
Proof.
  intros I _ Hwf. destruct (wf_update_parts a kw Hwf) as [Hwa Hkw].
  rewrite sem_S, run_body_fin. unfold gen_prog. rewrite gen_update_extend_eq.
  change (bind_params 0 [arg_pv q a; VKw kw]) with [(0, arg_pv q a); (1, VKw kw)].
  destruct (exec_ext_pick n (fuel_of p) p q a kw I Hwa) as (l & v & El & Hv & EX).
  destruct (exec_ext_tail n (fuel_of p) (env_set [(0, arg_pv q a); (1, VKw kw)] 2 v) p v l kw
              (proj1 I) Hv (env_get_set_eq _ _ _) eq_refl Hkw) as (en' & ET).
  cbn [exec]. rewrite EX, ET.
  unfold pm_update_extend. fold (ext_list p q a). rewrite El. reflexivity.
Qed.

(* ---- |= ------------------------------------------------------------------------------------------------ *)
Lemma source_ior n p q a : PInv p -> Good q -> wf_op (IOr a) = true ->
  sem (S (S (S (S n)))) MIOr [arg_pv q a] p
  = match pm_update p q a [] with Ok p' => (Ok VSelfObj, p') | Raise e => (Raise e, p) end.
Proof.
  intros I Gq Hwf.
  assert (Hwf' : wf_op (Update a []) = true).
  { destruct a; simpl in *; try rewrite Hwf; reflexivity. }
  rewrite sem_S, run_body_fin. unfold gen_prog, gen_ior. cbn.
  rewrite (source_update n p q a [] I Gq Hwf').
  destruct (pm_update p q a []); reflexivity.
Qed.

Print Assumptions pinv_add.
Print Assumptions pinv_setitem.
Print Assumptions pinv_delitem.
Print Assumptions source_update.
Print Assumptions source_update_extend.
Print Assumptions source_ior.
