(* C06: obligations over the data regenerated from boltons/urlutils.py on every run.
   If a table changes so that a safe character is no longer legal at its position
   (e.g. '&' or ';' becomes query-safe), this file stops compiling. *)
From Boltons Require Import Lib.Prelude Lib.C06_Text Spec.C06_Spec Model.C06_Model Gen.C06_Gen
  Proofs.C06_Codec Proofs.C06_Quote Proofs.C06_QuoteMin.
Open Scope N_scope.

Lemma gen_tables_ok : tables_ok gen_tables = true.
Proof. vm_compute. reflexivity. Qed.

(* minimal quoting: every delimiter set is ASCII, its members are escaped by the map, and it contains
   every character the parser splits on at that position *)
Lemma gen_delims_ok : delims_ok gen_tables = true.
Proof. vm_compute. reflexivity. Qed.
