(* C04: the transfer principle behind the correspondence check.  If the model
   reproduces what was observed on the implementation for a case (agree = true),
   then those observations satisfy the Spec (holds = true).  So on every case on
   which the run reports agree, the theorems about the model speak about the code. *)
From Boltons Require Import Lib.Prelude Model.C04_Model Spec.C04_Spec Check.C04_Check Proofs.C04_Hoare Proofs.C04_Inv Proofs.C04_Abort Proofs.C04_Pass Proofs.C04_Replay.
Open Scope nat_scope.

Lemma bytes_eqb_eq a b : bytes_eqb a b = true -> a = b.
Proof. apply (list_eqb_eq N.eqb N.eqb_eq). Qed.

Lemma ev_eqb_eq a b : ev_eqb a b = true -> a = b.
Proof.
  destruct a, b; cbn; try discriminate; intro H;
    repeat match goal with
           | H : _ && _ = true |- _ => apply andb_true_iff in H as [? ?]
           | H : Nat.eqb _ _ = true |- _ => apply Nat.eqb_eq in H
           | H : N.eqb _ _ = true |- _ => apply N.eqb_eq in H
           | H : Bool.eqb _ _ = true |- _ => apply Bool.eqb_prop in H
           | H : bytes_eqb _ _ = true |- _ => apply bytes_eqb_eq in H
           end; subst; reflexivity.
Qed.

Lemma optnat_eqb_eq (a b : option nat) : option_eqb Nat.eqb a b = true -> a = b.
Proof. destruct a, b; cbn; try discriminate; auto. intro H. apply Nat.eqb_eq in H. congruence. Qed.

Lemma trace_eqb_eq a b : trace_eqb a b = true -> a = b.
Proof.
  unfold trace_eqb. revert b. induction a as [|[e r] a IH]; destruct b as [|[e' r'] b]; cbn; try discriminate; auto.
  intro H. apply andb_true_iff in H as [H1 H2]. unfold pair_eqb in H1. cbn in H1.
  apply andb_true_iff in H1 as [He Hr]. apply ev_eqb_eq in He. apply optnat_eqb_eq in Hr.
  rewrite (IH b H2). congruence.
Qed.

Lemma files_agree_dest s obs cands n :
  files_agree s obs cands = true -> In n cands ->
  option_map fst (assoc n obs) = content_kill s n /\
  (match assoc n obs with Some _ => true | None => false end) =
  (match f_dir s n with Some _ => true | None => false end).
Proof.
  unfold files_agree. intros H Hin. apply andb_true_iff in H as [_ H].
  rewrite forallb_forall in H. specialize (H n (in_or_app _ _ _ (or_introl Hin))).
  unfold model_file, content_kill in *. destruct (assoc n obs) as [[b m]|]; destruct (f_dir s n); cbn in *;
    try discriminate; auto.
  unfold C04_Check.file_eqb, pair_eqb in H. cbn in H. apply andb_true_iff in H as [H1 _].
  apply bytes_eqb_eq in H1. subst. auto.
Qed.

Lemma content_kill_init l n : content_kill (fs_of_list l) n = option_map fst (assoc n l).
Proof.
  induction l as [|[m [cnt md]] r IH]; cbn [fs_of_list assoc]; [reflexivity|].
  unfold content_kill, fs_create. cbn [f_dir f_ino]. unfold upd at 1.
  destruct (Nat.eqb n m) eqn:E.
  - unfold upd. rewrite Nat.eqb_refl. reflexivity.
  - unfold content_kill in IH. rewrite <- IH. destruct (f_dir (fs_of_list r) n) as [i|] eqn:Ei; [|reflexivity].
    pose proof (wf_fs_of_list r n i Ei) as Hlt. unfold upd. destruct (Nat.eqb i (f_next (fs_of_list r))) eqn:E2; [|reflexivity].
    apply Nat.eqb_eq in E2. lia.
Qed.

Lemma wf_init_fs c : wf (init_fs c).
Proof.
  unfold init_fs. destruct (k_partlink c); [|apply wf_fs_of_list].
  intros n i. cbn. unfold upd. destruct (Nat.eqb n (c_part (k_cfg c))); apply wf_fs_of_list.
Qed.

Lemma content_kill_init_fs c :
  c_dest (k_cfg c) <> c_part (k_cfg c) ->
  content_kill (init_fs c) (c_dest (k_cfg c)) = option_map fst (assoc (c_dest (k_cfg c)) (k_init c)).
Proof.
  intro Hdp. rewrite <- content_kill_init. unfold init_fs. destruct (k_partlink c); [|reflexivity].
  unfold content_kill, set_name. cbn [f_dir f_ino]. unfold upd.
  destruct (Nat.eqb (c_dest (k_cfg c)) (c_part (k_cfg c))) eqn:E; [apply Nat.eqb_eq in E; contradiction|reflexivity].
Qed.

Lemma dest_good_model (c : c04_case) crash o w :
  c_dest (k_cfg c) <> c_part (k_cfg c) -> same_dir (c_part (k_cfg c)) = true ->
  run_model c crash = (o, w) ->
  dest_good c (content_kill (w_fs w) (c_dest (k_cfg c))) = true.
Proof.
  intros Hdp Hpd Hr. unfold run_model in Hr.
  assert (Hwf : wf (init_fs c)) by apply wf_init_fs.
  assert (Holds0 : content_kill (init_fs c) (c_dest (k_cfg c)) :: appear_contents (k_sched c) = olds c).
  { unfold olds. rewrite content_kill_init_fs by exact Hdp. reflexivity. }
  unfold dest_good. rewrite <- Holds0. destruct (k_raises c) eqn:Er.
  - destruct (aborted_lemma (k_cfg c) _ _ _ _ _ o w Hdp Hpd Hwf Hr) as [H _]. exact H.
  - destruct (crash_safe_lemma (k_cfg c) _ _ _ _ _ _ o w Hdp Hpd Hwf Hr) as [H _]. exact H.
Qed.

Lemma content_power_init l n : content_power (fs_of_list l) n = option_map fst (assoc n l).
Proof.
  induction l as [|[m [cnt md]] r IH]; cbn [fs_of_list assoc]; [reflexivity|].
  unfold content_power, fs_create. cbn [f_dir f_ino]. unfold upd at 1.
  destruct (Nat.eqb n m) eqn:E.
  - unfold upd. rewrite Nat.eqb_refl. reflexivity.
  - unfold content_power in IH. rewrite <- IH. destruct (f_dir (fs_of_list r) n) as [i|] eqn:Ei; [|reflexivity].
    pose proof (wf_fs_of_list r n i Ei) as Hlt. unfold upd. destruct (Nat.eqb i (f_next (fs_of_list r))) eqn:E2; [|reflexivity].
    apply Nat.eqb_eq in E2. lia.
Qed.

Lemma content_power_init_fs c :
  c_dest (k_cfg c) <> c_part (k_cfg c) ->
  content_power (init_fs c) (c_dest (k_cfg c)) = option_map fst (assoc (c_dest (k_cfg c)) (k_init c)).
Proof.
  intro Hdp. rewrite <- content_power_init. unfold init_fs. destruct (k_partlink c); [|reflexivity].
  unfold content_power, set_name. cbn [f_dir f_ino]. unfold upd.
  destruct (Nat.eqb (c_dest (k_cfg c)) (c_part (k_cfg c))) eqn:E; [apply Nat.eqb_eq in E; contradiction|reflexivity].
Qed.

Lemma dest_good_model_power (c : c04_case) crash o w :
  c_dest (k_cfg c) <> c_part (k_cfg c) -> same_dir (c_part (k_cfg c)) = true ->
  run_model c crash = (o, w) ->
  dest_good c (content_power (w_fs w) (c_dest (k_cfg c))) = true.
Proof.
  intros Hdp Hpd Hr. unfold run_model in Hr.
  assert (Hwf : wf (init_fs c)) by apply wf_init_fs.
  assert (Holds0 : content_power (init_fs c) (c_dest (k_cfg c)) :: appear_contents (k_sched c) = olds c).
  { unfold olds. rewrite content_power_init_fs by exact Hdp. reflexivity. }
  unfold dest_good. rewrite <- Holds0. destruct (k_raises c) eqn:Er.
  - destruct (aborted_lemma (k_cfg c) _ _ _ _ _ o w Hdp Hpd Hwf Hr) as (_ & H & _). exact H.
  - destruct (crash_safe_lemma (k_cfg c) _ _ _ _ _ _ o w Hdp Hpd Hwf Hr) as [_ H]. exact H.
Qed.

Theorem agree_implies_holds (c : c04_case) :
  c_dest (k_cfg c) <> c_part (k_cfg c) -> same_dir (c_part (k_cfg c)) = true ->
  agree c = true -> holds c = true.
Proof.
  intros Hdp Hpd Ha. unfold agree in Ha. apply andb_true_iff in Ha as [Ha Has].
  apply andb_true_iff in Ha as [Hrun Hcr].
  assert (Hwf : wf (init_fs c)) by apply wf_init_fs.
  assert (Hind : In (c_dest (k_cfg c)) (cands c)) by (unfold cands; left; reflexivity).
  assert (Hinp : In (c_part (k_cfg c)) (cands c)) by (unfold cands; right; left; reflexivity).
  (* power loss on the implementation's own calls *)
  assert (Hpow : power_ok c = true).
  { unfold power_ok. destruct (no_appear (k_sched c)) eqn:Hna; [|reflexivity]. cbn [negb orb].
    apply forallb_forall. intros k Hk. unfold power_view. destruct Hk as [<- | Hk].
    - rewrite firstn_all. unfold agree_run in Hrun. destruct (run_model c None) as [o w] eqn:Er.
      apply andb_true_iff in Hrun as [Hrun _]. apply andb_true_iff in Hrun as [Hrun _]. apply andb_true_iff in Hrun as [_ Ht].
      apply trace_eqb_eq in Ht. rewrite <- Ht.
      pose proof Er as Er'. unfold run_model in Er'.
      rewrite (replay_run (init_fs c) (k_umask c) _ _ _ _ _ o w Hna Er'). cbn [fst].
      eapply dest_good_model_power; eauto.
    - apply in_map_iff in Hk as ([k' fobs] & Hk' & Hin). cbn in Hk'. subst k'.
      rewrite forallb_forall in Hcr. specialize (Hcr _ Hin). unfold agree_crash in Hcr.
      destruct (run_model c (Some k)) as [o w] eqn:Er.
      apply andb_true_iff in Hcr as [Hcr _]. apply andb_true_iff in Hcr as [_ Ht]. apply trace_eqb_eq in Ht. rewrite <- Ht.
      pose proof Er as Er'. unfold run_model in Er'.
      rewrite (replay_run (init_fs c) (k_umask c) _ _ _ _ _ o w Hna Er'). cbn [fst].
      eapply dest_good_model_power; eauto. }
  unfold holds. rewrite Hpow, andb_true_r.
  (* crash observations *)
  assert (H1 : forallb (fun kf => dest_good c (dest_of c (snd kf))) (k_crashes c) = true).
  { rewrite forallb_forall in *. intros [k fobs] Hin. specialize (Hcr _ Hin). unfold agree_crash in Hcr.
    destruct (run_model c (Some k)) as [o w] eqn:Er.
    apply andb_true_iff in Hcr as [Hcr _]. apply andb_true_iff in Hcr as [Hf _].
    destruct (files_agree_dest _ _ _ _ Hf Hind) as [Hd _].
    cbn [snd]. unfold dest_of. rewrite Hd. eapply dest_good_model; eauto. }
  rewrite H1. cbn [andb].
  assert (H2 : forallb (fun f => dest_good c (dest_of c f)) (k_asyncs c) = true).
  { rewrite forallb_forall in *. intros fobs Hin. specialize (Has _ Hin). unfold agree_async in Has.
    apply existsb_exists in Has as (k & _ & Hk).
    destruct (run_model c (Some k)) as [o w] eqn:Er.
    destruct (files_agree_dest _ _ _ _ Hk Hind) as [Hd _].
    unfold dest_of. rewrite Hd. eapply dest_good_model; eauto. }
  rewrite H2. cbn [andb].
  unfold agree_run in Hrun.
  destruct (run_model c None) as [o w] eqn:Er0.
  pose proof (dest_good_model c None o w Hdp Hpd Er0) as Hgood.
  pose proof Er0 as Er. unfold run_model in Er.
  apply andb_true_iff in Hrun as [Hrun Hint]. apply andb_true_iff in Hrun as [Hrun Hf]. apply andb_true_iff in Hrun as [Ho Ht].
  apply trace_eqb_eq in Ht.
  destruct (files_agree_dest _ _ _ _ Hf Hind) as [Hd _].
  destruct (files_agree_dest _ _ _ _ Hf Hinp) as [_ Hp].
  pose proof (calls_lemma (k_cfg c) _ _ _ _ _ _ o w Hdp Hpd Hwf Er) as Hc.
  unfold dest_of. rewrite Hd, Hgood. cbn [andb].
  rewrite <- Ht.
  destruct (r_outcome (k_run c)) eqn:Eo.
  - (* the caller saw a normal return: so did the model *)
    destruct o as [x|e|]; cbn in Ho; try discriminate.
    destruct (normal_exit_lemma (k_cfg c) _ _ _ _ _ _ x w Hdp Hpd Hwf Er) as [Hn _].
    rewrite Hp. rewrite Hn. cbn [andb]. exact Hc.
  - cbn [andb]. destruct o as [x|e'|]; cbn in Ho; try discriminate.
    exact Hc.
Qed.
