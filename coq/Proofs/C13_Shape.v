(* C13: a well-formed flat parameter list has the structured shape
   P ++ va? ++ K ++ vk?, hence the forwarding theorem for flat signatures. *)
From Boltons Require Import Lib.Prelude Spec.C13_Spec Model.C13_Model Proofs.C13_Bind.

Lemma kinds_ordered_tail p r : kinds_ordered (p :: r) = true -> kinds_ordered r = true.
Proof.
  simpl. destruct r as [|q r']; [reflexivity|]. intro H. apply andb_true_iff in H as [_ H]. exact H.
Qed.

Lemma shape ps : kinds_ordered ps = true ->
  exists P va Kp vk, ps = sparams P va Kp vk /\
    all_kind PosOrKw P = true /\ okind VarPos va = true /\
    all_kind KwOnly Kp = true /\ okind VarKw vk = true.
Proof.
  induction ps as [|p r IH]; intro H.
  - exists [], None, [], None. repeat split.
  - pose proof (kinds_ordered_tail _ _ H) as Hr.
    destruct (IH Hr) as [P [va [Kp [vk [E [AP [AVA [AK AVK]]]]]]]].
    (* the rank condition between p and the head of r *)
    assert (HD : match r with
                 | [] => True
                 | q :: _ => let a := kind_rank (p_kind p) in let b := kind_rank (p_kind q) in
                             (Nat.ltb a b || (Nat.eqb a b && (Nat.eqb a 0 || Nat.eqb a 2))) = true
                 end).
    { destruct r as [|q r']; [exact I|]. simpl in H. apply andb_true_iff in H as [H _]. exact H. }
    destruct (p_kind p) eqn:Kp0.
    + (* PosOrKw: joins P *)
      exists (p :: P), va, Kp, vk. repeat split; try assumption.
      * unfold sparams in *. simpl. rewrite E. reflexivity.
      * simpl. rewrite Kp0. simpl. exact AP.
    + (* VarPos: r has no positional parameter and no *args *)
      destruct P as [|q P'].
      * destruct va as [q|].
        -- exfalso. subst r. unfold sparams in HD. simpl in HD, AVA.
           apply kind_eqb_eq in AVA. rewrite AVA in HD. discriminate.
        -- exists [], (Some p), Kp, vk. repeat split; try assumption.
           ++ unfold sparams in *. simpl in *. rewrite E. reflexivity.
           ++ simpl. rewrite Kp0. reflexivity.
      * exfalso. subst r. unfold sparams in HD. simpl in HD, AP.
        apply andb_true_iff in AP as [AP _]. apply kind_eqb_eq in AP. rewrite AP in HD. discriminate.
    + (* KwOnly *)
      destruct P as [|q P'].
      * destruct va as [q|].
        -- exfalso. subst r. unfold sparams in HD. simpl in HD, AVA.
           apply kind_eqb_eq in AVA. rewrite AVA in HD. discriminate.
        -- exists [], None, (p :: Kp), vk. repeat split; try assumption.
           ++ unfold sparams in *. simpl in *. rewrite E. reflexivity.
           ++ simpl. rewrite Kp0. simpl. exact AK.
      * exfalso. subst r. unfold sparams in HD. simpl in HD, AP.
        apply andb_true_iff in AP as [AP _]. apply kind_eqb_eq in AP. rewrite AP in HD. discriminate.
    + (* VarKw: must be last *)
      destruct r as [|q r'].
      * exists [], None, [], (Some p). repeat split.
        simpl. rewrite Kp0. reflexivity.
      * exfalso. simpl in HD. destruct (p_kind q); discriminate.
Qed.

(* filters on a structured list *)
Lemma filter_all_kind k ps : all_kind k ps = true -> filter (fun p => kind_eqb (p_kind p) k) ps = ps.
Proof.
  induction ps as [|p r IH]; simpl; intro H; [reflexivity|].
  apply andb_true_iff in H as [H1 H2]. rewrite H1. f_equal. apply IH. exact H2.
Qed.

Lemma filter_other_kind k k' ps : all_kind k ps = true -> k <> k' ->
  filter (fun p => kind_eqb (p_kind p) k') ps = [].
Proof.
  induction ps as [|p r IH]; simpl; intros H N; [reflexivity|].
  apply andb_true_iff in H as [H1 H2]. apply kind_eqb_eq in H1.
  destruct (kind_eqb (p_kind p) k') eqn:E.
  - apply kind_eqb_eq in E. congruence.
  - apply IH; assumption.
Qed.

Lemma filter_okind_same k o : okind k o = true -> filter (fun p => kind_eqb (p_kind p) k) (olist o) = olist o.
Proof. destruct o as [p|]; simpl; intro H; [rewrite H|]; reflexivity. Qed.

Lemma filter_okind_other k k' o : okind k o = true -> k <> k' ->
  filter (fun p => kind_eqb (p_kind p) k') (olist o) = [].
Proof.
  destruct o as [p|]; simpl; intros H N; [|reflexivity].
  apply kind_eqb_eq in H. destruct (kind_eqb (p_kind p) k') eqn:E; [|reflexivity].
  apply kind_eqb_eq in E. congruence.
Qed.

Lemma inv_of_params_structured P va Kp vk :
  all_kind PosOrKw P = true -> okind VarPos va = true ->
  all_kind KwOnly Kp = true -> okind VarKw vk = true ->
  inv_of_params (sparams P va Kp vk) = inv_of P va Kp vk.
Proof.
  intros AP AVA AK AVK. unfold inv_of_params, inv_of, names_of_kind, sparams.
  rewrite !filter_app.
  rewrite (filter_all_kind _ _ AP), (filter_all_kind _ _ AK).
  rewrite (filter_okind_same _ _ AVA), (filter_okind_same _ _ AVK).
  rewrite (filter_other_kind _ VarPos _ AP), (filter_other_kind _ KwOnly _ AP), (filter_other_kind _ VarKw _ AP)
    by discriminate.
  rewrite (filter_other_kind _ PosOrKw _ AK), (filter_other_kind _ VarPos _ AK), (filter_other_kind _ VarKw _ AK)
    by discriminate.
  rewrite (filter_okind_other _ PosOrKw _ AVA), (filter_okind_other _ KwOnly _ AVA), (filter_okind_other _ VarKw _ AVA)
    by discriminate.
  rewrite (filter_okind_other _ PosOrKw _ AVK), (filter_okind_other _ KwOnly _ AVK), (filter_okind_other _ VarPos _ AVK)
    by discriminate.
  simpl. rewrite !app_nil_r. f_equal; destruct va, vk; reflexivity.
Qed.

(* ---- forwarding, for any well-formed signature ------------------------------------------------ *)
Theorem forward ps c env :
  wf_params ps = true ->
  NoDup (keys (c_kw c)) ->
  bind ps c = Ok env ->
  exists c', eval_inv (inv_of_params ps) env = Ok c' /\ bind ps c' = Ok env /\ NoDup (keys (c_kw c')).
Proof.
  intros WF NDk HB. unfold wf_params in WF.
  apply andb_true_iff in WF as [WF _]. apply andb_true_iff in WF as [WF _].
  apply andb_true_iff in WF as [ND KO].
  destruct (shape ps KO) as [P [va [Kp [vk [E [AP [AVA [AK AVK]]]]]]]]. subst ps.
  rewrite inv_of_params_structured by assumption.
  apply forward_structured with (c := c); try assumption.
  apply nodup_b_NoDup. exact ND.
Qed.
