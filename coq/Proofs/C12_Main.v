(* C12: the model's observations, for every network, script and call
   sequence, satisfy the reference (Spec.spec_holds); chunking independence
   of the framing calls under retry-after-Timeout follows. *)
From Boltons Require Import Lib.Prelude Lib.C12_Base Spec.C12_Spec Model.C12_Model
  Proofs.C12_Find Proofs.C12_Recv Proofs.C12_Send.

Lemma bytes_eqb_eq (a b : bytes) : bytes_eqb a b = true <-> a = b.
Proof. apply list_eqb_eq. intros; apply N.eqb_eq. Qed.

Lemma bytes_eqb_refl (a : bytes) : bytes_eqb a a = true.
Proof. apply bytes_eqb_eq. reflexivity. Qed.

Lemma exn_eqb_refl e : exn_eqb e e = true.
Proof. destruct e; cbn; auto using Nat.eqb_refl. Qed.

Lemma outcome_eqb_refl o : outcome_eqb o o = true.
Proof. destruct o; cbn; auto using bytes_eqb_refl, Nat.eqb_refl, exn_eqb_refl. Qed.

Lemma skipn_suffix {A} (pre suf : list A) :
  skipn (length (pre ++ suf) - length suf) (pre ++ suf) = suf.
Proof.
  rewrite app_length. replace (length pre + length suf - length suf) with (length pre) by lia.
  rewrite skipn_app, skipn_all, Nat.sub_diag. reflexivity.
Qed.

(* the model state s is described by the reference state St *)
Record Rel (stream : bytes) (St : sstate) (s : bs) : Prop := mkRel {
  R_rem : s_rem St = remaining s;
  R_max : s_max St = maxsize s;
  R_tmo : s_intr St = intrs (nt s);
  R_acc : s_acc St = wire s ++ concat (sbuf s);
  R_wl : s_wl St = length (wire s);
  R_stmo : s_sintr St = sintrs (script s);
  R_suf : exists pre, stream = pre ++ flat (nt s);
  R_wf : wf_net (nt s) = true;
  R_rs : 1 <= recvsize s;
  R_dl : s_dl St = dl s
}.

Lemma conserved_ok stream s :
  (exists pre, stream = pre ++ flat (nt s)) ->
  bytes_eqb (rbuf s ++ skipn (consumed (length stream) s) stream) (remaining s) = true.
Proof.
  intros [pre ->]. unfold consumed. rewrite skipn_suffix. apply bytes_eqb_refl.
Qed.

Lemma step_spec stream W St s o out s' ext :
  Rel stream St s -> step s o = (out, s') -> W = wire s' ++ ext ->
  exists St', spec_step stream W St o (observe (length stream) o out s') = Some St' /\ Rel stream St' s'.
Proof.
  intros [Hrem Hmax Htmo Hacc Hwl Hstmo [pre Hsuf] Hwf Hrs Hdl] Hstep HW.
  destruct (is_recv_op o) eqn:Hro.
  - (* receive side *)
    pose proof (step_recv_ok _ _ _ _ Hwf Hrs Hro Hstep) as (W' & SR & (p2 & Hp2) & Hcase).
    destruct SR as (SR1 & SR2 & SR3 & SR4 & SR5 & SR6).
    assert (Hsuf' : exists q, stream = q ++ flat (nt s')).
    { exists (pre ++ p2). rewrite Hsuf, Hp2, app_assoc. reflexivity. }
    assert (Hns : is_send_op o = false) by (destruct o; try discriminate; reflexivity).
    unfold spec_step, observe. rewrite Hro, Hns. cbn [o_out o_buf o_cnt o_left getrecvbuffer].
    destruct Hcase as [(e & -> & Hr & Ht)|(Hnt & Ht & Hcase)].
    + cbn [is_interrupt]. rewrite (intr_by_is_intr _ _ _ _ Ht).
      rewrite Hdl, Htmo, (intr_by_explain _ _ _ _ Ht).
      rewrite Hrem, <- Hr, conserved_ok by assumption.
      eexists. split; [reflexivity|]. constructor; cbn; try congruence; try lia; auto.
    + rewrite Hnt.
      assert (Hfin : forall rem', rem' = remaining s' ->
                exists St', (if bytes_eqb (rbuf s' ++ skipn (consumed (length stream) s') stream) rem'
                            then Some (mkS rem' (maxsize s) (s_intr St) (s_acc St) (s_wl St) (s_sintr St) (s_dl St))
                            else None) = Some St' /\ Rel stream St' s').
      { intros rem' ->. rewrite conserved_ok by assumption. eexists. split; [reflexivity|].
        constructor; cbn; try congruence; try lia; auto. }
      destruct o; try discriminate; rewrite Hrem, Hmax.
      * rewrite Hcase, outcome_eqb_refl. apply Hfin. reflexivity.
      * rewrite Hcase, outcome_eqb_refl. apply Hfin. reflexivity.
      * rewrite Hcase, outcome_eqb_refl. apply Hfin. reflexivity.
      * rewrite Hcase, outcome_eqb_refl. apply Hfin. reflexivity.
      * destruct Hcase as (dd & -> & Hok & Hr). rewrite Hok. apply Hfin. symmetry. exact Hr.
  - destruct (is_send_op o) eqn:Hso.
    + (* send side *)
      pose proof (step_send_ok _ _ _ _ Hso Hstep) as ((SR1 & SR2 & SR3 & SR4 & SR5) & sent & Hw & Hcons & Hcase).
      unfold spec_step, observe. rewrite Hro, Hso. cbn [o_out o_buf o_cnt o_left]. unfold getsendbuffer.
      assert (Hfirst : firstn (length (wire s')) W = wire s').
      { rewrite HW. rewrite firstn_app_le by lia. apply firstn_all. }
      assert (Hconserved : forall acc', acc' = (wire s ++ concat (sbuf s)) ++ op_data o ->
                bytes_eqb (firstn (length (wire s')) W ++ concat (sbuf s')) acc'
                && Nat.leb (s_wl St) (length (wire s')) && Nat.leb (length (wire s')) (length W) = true).
      { intros acc' ->. rewrite Hfirst, Hcons, bytes_eqb_refl. cbn [andb].
        rewrite !(proj2 (Nat.leb_le _ _)); [reflexivity| |].
        - rewrite HW, app_length. lia.
        - rewrite Hwl, Hw, app_length. lia. }
      assert (Hrel : forall si, si = sintrs (script s') ->
                Rel stream (mkS (s_rem St) (s_max St) (s_intr St) ((wire s ++ concat (sbuf s)) ++ op_data o)
                                (length (wire s')) si (s_dl St)) s').
      { intros si Hsi. constructor; cbn [s_rem s_max s_intr s_acc s_wl s_sintr s_dl].
        - rewrite Hrem. unfold remaining. rewrite SR1, SR2. reflexivity.
        - congruence.
        - rewrite SR2. assumption.
        - symmetry. exact Hcons.
        - reflexivity.
        - assumption.
        - rewrite SR2. eauto.
        - rewrite SR2. assumption.
        - rewrite SR4. assumption.
        - congruence. }
      assert (Hintr : forall e, sintr_by (dl s) e (script s) (script s') ->
                is_interrupt (OExn e) = true /\
                explain_intr (s_dl St) (OExn e) (s_sintr St) (length (sintrs (script s')))
                = Some (sintrs (script s'))).
      { intros e He. split; [cbn; exact (sintr_by_is_intr _ _ _ _ He)|].
        rewrite Hdl, Hstmo. exact (sintr_by_explain _ _ _ _ He). }
      destruct o; try discriminate; cbn [op_data] in *; rewrite Hacc.
      * (* Send *)
        destruct out as [| n | |e]; try contradiction.
        -- destruct Hcase as (Hsb & -> & Hst). rewrite Hconserved by reflexivity.
           rewrite Hsb. cbn [is_nil andb].
           rewrite Hwl. replace (length (wire s) + length sent) with (length (wire s'))
             by (rewrite Hw, app_length; reflexivity).
           rewrite Nat.eqb_refl.
           eexists. split; [reflexivity|]. apply Hrel. congruence.
        -- destruct (Hintr e Hcase) as [Hi Hn]. rewrite Hi, Hn. rewrite Hconserved by reflexivity.
           eexists. split; [reflexivity|]. apply Hrel. reflexivity.
      * (* Buffer *)
        destruct out; try contradiction. destruct Hcase as (-> & Hst).
        rewrite app_nil_r in Hw. rewrite Hconserved by reflexivity.
        assert (Hq : Nat.eqb (length (wire s')) (s_wl St) = true) by (apply Nat.eqb_eq; congruence).
        rewrite Hq.
        eexists. split; [reflexivity|]. apply Hrel. congruence.
      * (* Flush *)
        destruct out as [| | |e]; try contradiction.
        -- destruct Hcase as (Hsb & Hst).
           pose proof (Hconserved _ eq_refl) as Hc. rewrite app_nil_r in Hc. rewrite Hc.
           rewrite Hsb. cbn [is_nil].
           eexists. split; [reflexivity|].
           specialize (Hrel (s_sintr St) ltac:(congruence)). rewrite app_nil_r in Hrel. exact Hrel.
        -- destruct (Hintr e Hcase) as [Hi Hn]. rewrite Hi, Hn.
           pose proof (Hconserved _ eq_refl) as Hc. rewrite app_nil_r in Hc. rewrite Hc.
           eexists. split; [reflexivity|].
           specialize (Hrel _ eq_refl). rewrite app_nil_r in Hrel. exact Hrel.
    + (* setmaxsize / a call refused because of its flags *)
      destruct o; try discriminate; cbn [step] in Hstep; inversion Hstep; subst; clear Hstep.
      * unfold spec_step, observe. cbn [is_recv_op is_send_op o_out outcome_eqb].
        eexists. split; [reflexivity|]. constructor; cbn; auto. exists pre. reflexivity.
      * unfold spec_step, observe. cbn [is_recv_op is_send_op o_out o_buf o_cnt o_left outcome_eqb exn_eqb andb].
        unfold getrecvbuffer. rewrite Hrem, conserved_ok by eauto. rewrite Htmo, Nat.eqb_refl. cbn [andb].
        eexists. split; [reflexivity|]. constructor; auto. eauto.
Qed.

Lemma step_wire_grows s o out s' : step s o = (out, s') -> exists ext, wire s' = wire s ++ ext.
Proof.
  intro H. destruct (is_send_op o) eqn:Hso.
  - apply step_send_ok in H; auto. destruct H as (_ & sent & Hw & _). eauto.
  - exists []. rewrite app_nil_r.
    destruct o; try discriminate; cbn [step] in H.
    + unfold recv_until, recv_until_dl in H. destruct (ru_loop _ _ _ _ _ _ _ _ _) as [[? ?|? ?] ?]; inversion H; reflexivity.
    + unfold recv_size, recv_size_lim in H.
      destruct (match rbuf s with [] => _ | _ => _ end) as [[?|] ?]; [|inversion H; reflexivity].
      destruct (rs_loop _ _ _ _ _ _ _ _ _) as [[? ? ?|? ?] ?]; inversion H; reflexivity.
    + unfold peek in H. destruct (Nat.leb _ _); [inversion H; reflexivity|].
      unfold recv_size, recv_size_lim in H.
      destruct (match rbuf s with [] => _ | _ => _ end) as [[?|] ?]; [|inversion H; reflexivity].
      destruct (rs_loop _ _ _ _ _ _ _ _ _) as [[? ? ?|? ?] ?]; inversion H; reflexivity.
    + unfold recv_close, recv_size_lim in H.
      destruct (match rbuf s with [] => _ | _ => _ end) as [[?|e0] ?]; [|destruct e0; inversion H; reflexivity].
      destruct (rs_loop _ _ _ _ _ _ _ _ _) as [[? ? ?|[] ?] ?]; inversion H; reflexivity.
    + unfold recv in H. destruct (Nat.leb _ _); [inversion H; reflexivity|].
      destruct (rbuf s); [|inversion H; reflexivity].
      destruct (sock_recv _ _) as [[?|] ?]; [|inversion H; reflexivity].
      destruct (Nat.ltb _ _); inversion H; reflexivity.
    + inversion H. reflexivity.
+ inversion H. reflexivity.
Qed.

Lemma run_wire_grows len : forall ops s obs sf,
  run len s ops = (obs, sf) -> exists ext, wire sf = wire s ++ ext.
Proof.
  induction ops as [|o r IH]; intros s obs sf H; cbn [run] in H.
  - inversion H; subst. exists []. rewrite app_nil_r. reflexivity.
  - destruct (step s o) as [out s1] eqn:E1. destruct (run len s1 r) as [obs' s2] eqn:E2.
    inversion H; subst. apply step_wire_grows in E1 as [e1 H1]. apply IH in E2 as [e2 H2].
    exists (e1 ++ e2). rewrite H2, H1, app_assoc. reflexivity.
Qed.

Lemma run_spec stream : forall ops St s obs sf,
  Rel stream St s -> run (length stream) s ops = (obs, sf) ->
  exists St', spec_run stream (wire sf) St obs = Some St' /\ Rel stream St' sf.
Proof.
  induction ops as [|o r IH]; intros St s obs sf HR H; cbn [run] in H.
  - inversion H; subst. exists St. split; [reflexivity|assumption].
  - destruct (step s o) as [out s1] eqn:E1. destruct (run (length stream) s1 r) as [obs' s2] eqn:E2.
    inversion H; subst; clear H.
    destruct (run_wire_grows _ _ _ _ _ E2) as [ext Hext].
    destruct (step_spec stream (wire sf) St s o out s1 ext HR E1 Hext) as (St1 & Hs1 & HR1).
    destruct (IH St1 s1 obs' sf HR1 E2) as (St' & Hs' & HR').
    exists St'. split; [|assumption]. cbn [spec_run]. rewrite Hs1. exact Hs'.
Qed.

(* ---- the main refinement theorem ------------------------------------------------------ *)
Theorem model_refines_spec mx rs d n sc ops :
  wf_net n = true -> 1 <= rs ->
  let len := length (flat n) in
  let '(obs, sf) := run len (bs_init_dl mx rs d n sc) ops in
  spec_holds (flat n) mx (intrs n) (sintrs sc) d obs (final_view len sf) = true.
Proof.
  intros W R len. destruct (run len (bs_init_dl mx rs d n sc) ops) as [obs sf] eqn:E.
  assert (HR : Rel (flat n) (spec_init (flat n) mx (intrs n) (sintrs sc) d) (bs_init_dl mx rs d n sc)).
  { constructor; cbn; auto. exists []. reflexivity. }
  destruct (run_spec (flat n) ops _ _ obs sf HR E) as (St' & Hs & HR').
  unfold spec_holds, final_view. cbn [f_wire]. rewrite Hs.
  destruct HR' as [Hrem Hmax Htmo Hacc Hwl Hstmo Hsuf Hwf Hrs Hdl].
  unfold spec_final. cbn [f_rbuf f_consumed f_sbuf f_wire getrecvbuffer getsendbuffer].
  rewrite Hrem, Hacc, Hwl. subst len. rewrite conserved_ok by assumption.
  rewrite bytes_eqb_refl, Nat.eqb_refl. reflexivity.
Qed.
