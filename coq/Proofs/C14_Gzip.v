(* C14, gzip clause: the member framing of gzip_bytes is undone by
   gunzip_bytes, for every byte string, level and clock value, GIVEN that the
   deflate coder is self-delimiting and lossless (the stdlib law; an oracle,
   stated as a hypothesis - the content is zlib's, not boltons'). *)
From Boltons Require Import Lib.Prelude Lib.C14_Text Model.C14_Model.
Open Scope N_scope.

Lemma text_eqb_refl (t : text) : text_eqb t t = true.
Proof.
  unfold text_eqb. induction t as [|c t IH]; [reflexivity|].
  cbn [list_eqb]. rewrite N.eqb_refl, IH. reflexivity.
Qed.

Section GzipProof.
  Variable deflate : list N -> N -> list N.
  Variable inflate : list N -> option (list N * list N).
  Hypothesis inflate_deflate : forall b l rest, inflate (deflate b l ++ rest) = Some (b, rest).

  Lemma gunzip_gzip : forall mtime b l,
    length mtime = 4%nat -> gunzip_bytes inflate (gzip_bytes deflate mtime b l) = Ok b.
  Proof.
    intros mtime b l Hm.
    destruct mtime as [|m1 [|m2 [|m3 [|m4 [|? ?]]]]]; try discriminate.
    unfold gzip_bytes, gz_header. cbn [app]. unfold gunzip_bytes.
    rewrite inflate_deflate. rewrite text_eqb_refl. reflexivity.
  Qed.
End GzipProof.
