(* (T) tie for OneToOne.update / __ior__: the Gallina regenerated from the current
   source (type dispatch on the argument, validation loops, final write loop)
   equals the model's OUpdate / OIor on every good state, for a dict, a non-dict
   mapping or a re-iterable sequence of pairs, plus keyword arguments. *)
From Boltons Require Import Lib.Prelude Model.C17_Model Spec.C17_Spec Check.C17_Check Lib.C17_Py Gen.C17_Src
  Proofs.C17_Dict Proofs.C17_OTO Proofs.C17_FD Proofs.C17_SpecLemmas Proofs.C17_RefineOTO Proofs.C17_SrcEq
  Proofs.C17_SrcReach.

Lemma pfor_raise {A B} (l : list B) (body : A -> B -> res A) e :
  fold_left (fun acc x => bind acc (fun a => body a x)) l (Raise e) = Raise e.
Proof. induction l; simpl; trivial. Qed.

Lemma pfor_cons {A B} (x : B) (l : list B) (body : A -> B -> res A) a :
  pfor (x :: l) body a = bind (body a x) (fun a' => pfor l body a').
Proof.
  unfold pfor. simpl. destruct (body a x) as [a'|e]; simpl; trivial. apply pfor_raise.
Qed.

Lemma pfor_hash_vals (l : list nat) :
  pfor l (fun (_u : unit) x => bind (py_hash x) (fun _ => Ok tt)) tt =
  if existsb unhashable l then Raise TypeError else Ok tt.
Proof.
  induction l as [|x r IH]; trivial. rewrite pfor_cons. simpl. unfold py_hash.
  destruct (unhashable x); simpl; trivial.
Qed.

Lemma pfor_hash_pairs (l : list kv) :
  pfor l (fun (_u : unit) p => bind (py_hash (fst p)) (fun _ => bind (py_hash (snd p)) (fun _ => Ok tt))) tt =
  if existsb kv_unhashable l then Raise TypeError else Ok tt.
Proof.
  induction l as [|x r IH]; trivial. rewrite pfor_cons. simpl. unfold py_hash, kv_unhashable.
  destruct (unhashable (fst x)); simpl; trivial. destruct (unhashable (snd x)); simpl; trivial.
Qed.

(* the dict branch: "for val in d.values(): hash(val); keys_vals = list(d.items())" *)
Lemma pfor_dict_values (kvs : list kv) :
  pfor (map snd kvs) (fun (keys_vals : list kv) x => bind (py_hash x) (fun _ => Ok kvs)) [] =
  if existsb unhashable (map snd kvs) then Raise TypeError else Ok kvs.
Proof.
  destruct kvs as [|p r]; trivial.
  assert (G : forall (l : list nat) (a : list kv),
            pfor l (fun (keys_vals : list kv) x => bind (py_hash x) (fun _ => Ok (p :: r))) a =
            if existsb unhashable l then Raise TypeError else Ok (match l with [] => a | _ => p :: r end)).
  { induction l as [|x l IH]; intro a; trivial. rewrite pfor_cons. simpl. unfold py_hash.
    destruct (unhashable x); simpl; trivial. rewrite IH. destruct (existsb unhashable l); trivial.
    destruct l; trivial. }
  rewrite G. simpl. destruct (unhashable (snd p) || existsb unhashable (map snd r)); trivial.
Qed.

(* the final loop "for key, val in keys_vals: self[key] = val" *)
Lemma pfor_setitems (kvs : list kv) : forall o, Good o -> existsb kv_unhashable kvs = false ->
  pfor kvs (fun self p => bind (src_setitem self (fst p) (snd p)) (fun r => let self := snd r in Ok self)) o =
  Ok (oto_update o kvs).
Proof.
  unfold oto_update. induction kvs as [|[k v] r IH]; intros o [I H] E; trivial.
  simpl in E. apply orb_false_iff in E. destruct E as [E1 E2].
  pose proof E1 as E1'. unfold kv_unhashable in E1'. simpl in E1'. apply orb_false_iff in E1'. destruct E1' as [Uk Uv].
  rewrite pfor_cons. simpl. rewrite (src_setitem_eq o k v I H). unfold lift_step. simpl. rewrite Uv, Uk. simpl.
  apply IH; trivial. split; [now apply setitem_ok|now apply setitem_H].
Qed.

Lemma existsb_app' {A} (f : A -> bool) l1 l2 : existsb f (l1 ++ l2) = existsb f l1 || existsb f l2.
Proof. induction l1; simpl; trivial. rewrite IHl1. now rewrite orb_assoc. Qed.

(* when the keys are hashable only the values count *)
Lemma kv_unh_values (l : list kv) : (forall p, In p l -> unhashable (fst p) = false) ->
  existsb kv_unhashable l = existsb unhashable (map snd l).
Proof.
  induction l as [|p r IH]; simpl; intro H; trivial.
  unfold kv_unhashable at 1. rewrite (H p (or_introl eq_refl)). simpl. rewrite IH; trivial.
  intros q Hq. apply H. now right.
Qed.

Definition uarg_ok (a : uarg) : Prop :=
  match a with ADict kvs => forall p, In p kvs -> unhashable (fst p) = false | _ => True end.

Theorem src_update_eq o arg kw : Good o -> uarg_ok arg -> (forall p, In p kw -> unhashable (fst p) = false) ->
  src_update o arg kw = lift_step o (OUpdate (uarg_pairs arg ++ kw)).
Proof.
  intros G Ha Hk. unfold lift_step. simpl. rewrite existsb_app', (kv_unh_values kw Hk).
  unfold src_update.
  assert (Tail : forall kvs, existsb kv_unhashable kvs = false ->
     bind (pfor (map snd kw) (fun (_u : unit) p_val => bind (py_hash p_val) (fun _ => Ok tt)) tt) (fun _ =>
       let keys_vals := kvs ++ kw in
       bind (pfor keys_vals (fun self p => bind (src_setitem self (fst p) (snd p))
                                              (fun r => let self := snd r in Ok self)) o)
            (fun self => Ok (VNone, self))) =
     (if existsb unhashable (map snd kw) then Raise TypeError else Ok (VNone, oto_update o (kvs ++ kw)))).
  { intros kvs E. rewrite pfor_hash_vals. destruct (existsb unhashable (map snd kw)) eqn:Ek; simpl; trivial.
    rewrite pfor_setitems; trivial. rewrite existsb_app', E, (kv_unh_values kw Hk), Ek. reflexivity. }
  destruct arg as [kvs|kvs|kvs]; simpl.
  - (* dict *)
    unfold uarg_values, uarg_items. simpl. rewrite pfor_dict_values. rewrite (kv_unh_values kvs Ha).
    destruct (existsb unhashable (map snd kvs)) eqn:E; simpl; trivial.
    rewrite Tail; [|now rewrite (kv_unh_values kvs Ha)]. destruct (existsb unhashable (map snd kw)); reflexivity.
  - (* non-dict mapping: converted to pairs first *)
    rewrite pfor_hash_pairs. destruct (existsb kv_unhashable kvs) eqn:E; simpl; trivial.
    rewrite Tail; trivial. destruct (existsb unhashable (map snd kw)); reflexivity.
  - rewrite pfor_hash_pairs. destruct (existsb kv_unhashable kvs) eqn:E; simpl; trivial.
    rewrite Tail; trivial. destruct (existsb unhashable (map snd kw)); reflexivity.
Qed.

Theorem src_ior_eq o arg : Good o -> uarg_ok arg -> src_ior o arg = lift_step o (OIor (uarg_pairs arg)).
Proof.
  intros G Ha. unfold src_ior.
  pose proof (src_update_eq o arg (@nil kv) G Ha (fun p (H : In p (@nil kv)) => match H with end)) as E.
  simpl in E. unfold kv in *. rewrite E.
  unfold lift_step. simpl. rewrite app_nil_r. destruct (existsb kv_unhashable (uarg_pairs arg)); reflexivity.
Qed.

Theorem src_update_eq_model_on_reachable hops o s arg kw : In o (oto_run hops) ->
  uarg_ok arg -> (forall p, In p kw -> unhashable (fst p) = false) ->
  let x := oto_side s o in
  src_update x arg kw = lift_step x (OUpdate (uarg_pairs arg ++ kw)) /\
  src_ior x arg = lift_step x (OIor (uarg_pairs arg)).
Proof.
  intros Hin Ha Hk x. pose proof (run_Good hops) as F. rewrite Forall_forall in F.
  pose proof (side_Good s o (F o Hin)) as G. split; [now apply src_update_eq|now apply src_ior_eq].
Qed.
