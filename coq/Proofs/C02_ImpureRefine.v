(* C02: refinement for histories whose on_miss raises and / or re-enters the cache:
   observations reproduced by Model/C02_Impure.v are accepted by Spec/C02_SpecImpure.v. *)
From Boltons Require Import Lib.Prelude Lib.C02_Syntax Spec.C02_Spec Spec.C02_SpecImpure Model.C02_Model
  Model.C02_Impure Proofs.C02_Lists Proofs.C02_Eqb Proofs.C02_Inv Proofs.C02_Refine Proofs.C02_Heap.
Close Scope N_scope.
Open Scope nat_scope.

Definition scripts_ok (beh : K -> om_beh) : Prop := forall k, forallb script_op (ob_script (beh k)) = true.

Lemma script_not_relational o : script_op o = true -> relational o = false.
Proof. destruct o; simpl; congruence. Qed.

Lemma accept_det_inv c r o out r' :
  relational o = false -> spec_accept c r o out = Some r' -> r' = fst (spec_step c r o).
Proof.
  intros R A. destruct o; simpl in R; try discriminate; unfold spec_accept in A;
    destruct (spec_step c r _) as [r1 out1]; destruct (res_eqb outv_eqb out out1);
    try discriminate; inversion A; reflexivity.
Qed.

(* a script operation leaves counters and call log alone *)
Lemma r_sets_meta c kvs : forall r,
  r_hit (r_sets c r kvs) = r_hit r /\ r_miss (r_sets c r kvs) = r_miss r
  /\ r_soft (r_sets c r kvs) = r_soft r /\ r_calls (r_sets c r kvs) = r_calls r.
Proof.
  induction kvs as [|[k v] rest IH]; intro r; [auto|].
  unfold r_sets in *. simpl. destruct (IH (r_set c r k v)) as [A [B [C D]]]. simpl in *. auto.
Qed.

Lemma script_step_meta c r o :
  script_op o = true ->
  let r' := fst (spec_step c r o) in
  r_hit r' = r_hit r /\ r_miss r' = r_miss r /\ r_soft r' = r_soft r /\ r_calls r' = r_calls r.
Proof.
  destruct o; simpl; intro H; try discriminate H.
  - auto.
  - destruct (r_has r k); simpl; auto.
  - destruct d; [|discriminate H]. destruct (d_get (r_items r) k); simpl; auto.
  - auto.
Qed.

Lemma run_script_sim c ops : forall m,
  1 <= c_max c -> Inv c m -> forallb script_op ops = true ->
  Inv c (run_script c m ops) /\ abs (run_script c m ops) = r_run_script c (abs m) ops
  /\ calls (run_script c m ops) = calls m /\ hit (run_script c m ops) = hit m
  /\ miss (run_script c m ops) = miss m /\ soft (run_script c m ops) = soft m.
Proof.
  induction ops as [|o rest IH]; intros m Hmax I OK; simpl.
  - auto 7.
  - simpl in OK. apply andb_true_iff in OK as [O1 O2].
    destruct (step1_sim c m o Hmax I) as [m' [out [E [I' [A _]]]]].
    apply accept_det_inv in A; [|now apply script_not_relational].
    rewrite E. simpl. destruct (IH m' Hmax I' O2) as [I2 [A2 [C2 [H2 [M2 S2]]]]].
    pose proof (script_step_meta c (abs m) o O1) as [MH [MM [MS MC]]]. rewrite <- A in MH, MM, MS, MC. simpl in *.
    split; [exact I2|]. split; [rewrite A2, A; reflexivity|].
    repeat split; congruence.
Qed.

Lemma xgetitem_sim c beh m k :
  1 <= c_max c -> scripts_ok beh -> Inv c m ->
  exists m' rv, xgetitem c beh m k = (m', rv) /\ Inv c m'
    /\ xr_lookup c beh (abs m) k = (abs m', rv)
    /\ (exists new, calls m' = new ++ calls m)
    /\ ((exists e, rv = Raise e) -> (soft m' < miss m')%N).
Proof.
  intros Hmax SOK I. pose proof I as [NR NS SAME LEN CAP SOFT].
  unfold xgetitem, xr_lookup; simpl.
  destruct (d_get (ring m) k) as [v|] eqn:G.
  - eexists. exists (Ok v). split; [reflexivity|]. split.
    + assert (Hk : In k (keys (ring m))) by (eapply d_get_some_keys; eauto).
      destruct (c_cls c); constructor; simpl; try assumption.
      * apply nodup_keys_snoc; [now apply nodup_del|now apply not_in_keys_del].
      * intro k'. rewrite d_get_move_end by assumption. apply SAME.
      * rewrite app_length. simpl. rewrite <- (length_del_in (ring m) k) in LEN by assumption. lia.
      * rewrite app_length. simpl. rewrite <- (length_del_in (ring m) k) in CAP by assumption. lia.
    + split; [reflexivity|]. split; [exists []; reflexivity|]. intros [e E]. discriminate.
  - destruct (c_on_miss c) as [f|] eqn:OM.
    + set (m2 := mkC (store m) (ring m) (hit m) (miss m + 1)%N (soft m) (k :: calls m)).
      assert (I2 : Inv c m2) by (constructor; simpl; try assumption; lia).
      destruct (run_script_sim c (ob_script (beh k)) m2 Hmax I2 (SOK k)) as [I3 [A3 [C3 [H3 [M3 S3]]]]].
      set (m3 := run_script c m2 (ob_script (beh k))) in *.
      change (mkR (ring m) (hit m) (miss m + 1)%N (soft m) (k :: calls m)) with (abs m2). rewrite <- A3.
      destruct (ob_raise (beh k)) as [e|].
      * exists m3, (Raise e). split; [reflexivity|]. split; [exact I3|]. split; [reflexivity|].
        split; [exists [k]; rewrite C3; reflexivity|]. intros _. rewrite S3, M3. simpl. lia.
      * destruct (setitem_sim c m3 k (f k) Hmax I3) as [m4 [E [I4 [A4 [C4 [H4 [M4 S4]]]]]]].
        rewrite E. exists m4, (Ok (f k)). split; [reflexivity|]. split; [exact I4|].
        split; [now rewrite A4|]. split; [exists [k]; rewrite C4, C3; reflexivity|].
        intros [e Ee]. discriminate.
    + eexists. exists (Raise KeyError). split; [reflexivity|]. split.
      * constructor; simpl; try assumption; lia.
      * split; [reflexivity|]. split; [exists []; reflexivity|]. intros _. simpl. lia.
Qed.

Local Arguments spec_accept : simpl never.

Lemma xaccept_lookup c beh r o r' out :
  is_lookup o = true -> xspec_step c beh r o = (r', out) -> xspec_accept c beh r o out = Some r'.
Proof. intros L E. unfold xspec_accept. rewrite L, E. now rewrite res_eqb_refl. Qed.

Lemma xstep1_sim c beh m o :
  1 <= c_max c -> scripts_ok beh -> Inv c m ->
  exists m' out, xstep1 c beh m o = (m', out) /\ Inv c m'
    /\ xspec_accept c beh (abs m) o out = Some (abs m')
    /\ (exists new, calls m' = new ++ calls m).
Proof.
  intros Hmax SOK I.
  destruct (is_lookup o) eqn:L.
  - destruct (xgetitem_sim c beh m (match o with GetItem k | Get k _ | SetDefault k _ => k | _ => 0 end) Hmax SOK I)
      as [m' [rv [E [I' [X [C LT]]]]]].
    destruct o; simpl in L; try discriminate; simpl xstep1; rewrite E.
    + (* GetItem *)
      destruct rv as [v|e]; simpl; eexists; eexists; (split; [reflexivity|]); (split; [exact I'|]);
        (split; [|exact C]); apply xaccept_lookup; auto; simpl; now rewrite X.
    + (* Get *)
      destruct rv as [v|e].
      * eexists. eexists. split; [reflexivity|]. split; [exact I'|]. split; [|exact C].
        apply xaccept_lookup; auto. simpl. now rewrite X.
      * assert (LT' : (soft m' < miss m')%N) by (apply LT; eauto).
        destruct e; try (eexists; eexists; split; [reflexivity|]; split; [exact I'|]; split; [|exact C];
                         apply xaccept_lookup; auto; simpl; now rewrite X).
        eexists. eexists. split; [reflexivity|]. split.
        { destruct I'. constructor; simpl; try assumption. lia. }
        split; [|exact C]. apply xaccept_lookup; auto. simpl. now rewrite X.
    + (* SetDefault *)
      destruct rv as [v|e].
      * eexists. eexists. split; [reflexivity|]. split; [exact I'|]. split; [|exact C].
        apply xaccept_lookup; auto. simpl. now rewrite X.
      * assert (LT' : (soft m' < miss m')%N) by (apply LT; eauto).
        destruct e; try (eexists; eexists; split; [reflexivity|]; split; [exact I'|]; split; [|exact C];
                         apply xaccept_lookup; auto; simpl; now rewrite X).
        assert (IB : Inv c (bump_soft m')). { destruct I'. constructor; simpl; try assumption. lia. }
        destruct (setitem_sim c (bump_soft m') k d Hmax IB) as [m2 [E2 [I2 [A2 [C2 _]]]]].
        rewrite E2. simpl. exists m2, (Ok (OVal d)). split; [reflexivity|]. split; [exact I2|]. split.
        -- apply xaccept_lookup; auto. simpl. rewrite X. now rewrite A2.
        -- destruct C as [new C]. exists new. rewrite C2. exact C.
  - destruct (step1_sim c m o Hmax I) as [m' [out [E [I' [A C]]]]].
    exists m', out. split.
    + destruct o; simpl in L; try discriminate; exact E.
    + split; [exact I'|]. split; [|exact C]. unfold xspec_accept. now rewrite L.
Qed.

Lemma xhstep_inv c beh h o :
  1 <= c_max c -> scripts_ok beh -> Forall (Inv c) h -> Forall (Inv c) (fst (fst (xhstep c beh h o))).
Proof.
  intros Hmax SOK F. destruct o as [i o1|i|i j|i j]; try (apply hstep_inv; assumption).
  simpl. destruct (nth_error h i) as [m|] eqn:N; [|assumption].
  destruct (xstep1_sim c beh m o1 Hmax SOK (nth_error_Forall _ _ _ _ F N)) as [m' [out [E [I' _]]]].
  rewrite E. simpl. now apply upd_nth_Forall.
Qed.

Lemma xhobserve_sim c beh h o ob :
  1 <= c_max c -> scripts_ok beh -> Forall (Inv c) h -> valid_hop (length h) o = true ->
  obs_agree (snd (xhobserve c beh h o)) ob = true ->
  xspec_ok_step c beh (map abs h) o ob = Some (map abs (fst (xhobserve c beh h o))).
Proof.
  intros Hmax SOK F VAL AG. destruct o as [i o1|i|i j|i j];
    try (exact (hobserve_sim c h _ ob Hmax F VAL AG)).
  unfold xhobserve in *. simpl in *.
  apply Nat.ltb_lt in VAL. destruct (nth_error h i) as [m|] eqn:N; [|apply nth_error_None in N; lia].
  pose proof (nth_error_Forall _ _ _ _ F N) as I.
  destruct (xstep1_sim c beh m o1 Hmax SOK I) as [m' [out [E [I' [ACC [new C]]]]]].
  rewrite E in *. simpl in *. rewrite (nth_upd_nth i m' empty_cache h m N) in AG.
  rewrite nth_error_map', N. simpl.
  pose proof (obs_agree_fields _ _ AG) as [EO _]. simpl in EO. rewrite EO.
  change (mkR (ring m) (hit m) (miss m) (soft m) (calls m)) with (abs m).
  rewrite ACC. change (r_calls (abs m)) with (calls m).
  rewrite (view_ok_model c m' (calls m) new out ob I' C AG).
  now rewrite upd_nth_map.
Qed.

Lemma xwalk_sim c beh steps : forall h,
  1 <= c_max c -> scripts_ok beh -> Forall (Inv c) h ->
  xagree_walk c beh h steps = true -> xspec_walk c beh (map abs h) steps = true.
Proof.
  induction steps as [|[o ob] rest IH]; intros h Hmax SOK F AG; simpl in *; [reflexivity|].
  destruct (xhobserve c beh h o) as [h' mo] eqn:HO.
  rewrite !andb_true_iff in AG. destruct AG as [[VAL AG1] AG2].
  pose proof (xhobserve_sim c beh h o ob Hmax SOK F VAL) as S. rewrite HO in S. simpl in S.
  rewrite (S AG1). apply IH; try assumption.
  pose proof (xhstep_inv c beh h o Hmax SOK F) as F'. unfold xhobserve in HO.
  destruct (xhstep c beh h o) as [[h'' i] out]. inversion HO; subst. exact F'.
Qed.

Lemma xagree_implies_xholds c beh init steps :
  1 <= c_max c -> scripts_ok beh ->
  xagree_check c beh init steps = true -> xspec_check c beh init steps = true.
Proof.
  intros Hmax SOK AG. unfold xagree_check, xspec_check in *.
  destruct (init_sim c init Hmax) as [m [E [I A]]]. rewrite E in AG.
  apply andb_true_iff. split; [now apply Nat.leb_le|].
  rewrite <- A. change [abs m] with (map abs [m]). apply xwalk_sim; auto.
Qed.

(* ---- the verdict of Check/C02_Check.v for impure cases ------------------------------------------------ *)
From Boltons Require Import Model.C02_PtrModel Model.C02_PtrCache Check.C02_Check.

Lemma beh_ok_scripts k : beh_ok k = true -> scripts_ok (case_beh k).
Proof.
  unfold beh_ok, scripts_ok, case_beh. intros H key. rewrite forallb_forall in H.
  induction (k_beh k) as [|[k0 [sc r]] rest IH]; simpl; [reflexivity|].
  destruct (Nat.eqb key k0).
  - apply (H (k0, (sc, r))). now left.
  - apply IH. intros x Hx. apply H. now right.
Qed.

Lemma xverdict_sound k : beh_ok k = true -> c02_xagree k = true -> c02_xholds k = true.
Proof.
  intros B H. unfold c02_xagree, c02_xholds in *. rewrite B. simpl.
  assert (CS : forall mx ok, ctor_outcome mx ok = spec_ctor mx ok).
  { intros mx ok. unfold ctor_outcome, spec_ctor. destruct mx; simpl; [reflexivity|]. now destruct ok. }
  rewrite <- CS. apply andb_true_iff in H as [H1 H2]. rewrite H1. simpl.
  destruct (k_ctor k) as [e|] eqn:E; [exact H2|].
  apply xagree_implies_xholds; [|now apply beh_ok_scripts|exact H2].
  unfold ctor_outcome in H1. unfold case_cfg. simpl.
  destruct (k_max k); simpl in *; [discriminate|lia].
Qed.
