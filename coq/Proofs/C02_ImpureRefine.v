(* C02: refinement for histories whose on_miss raises and / or re-enters the cache:
   observations reproduced by Model/C02_Impure.v are accepted by Spec/C02_SpecImpure.v. *)
From Boltons Require Import Lib.Prelude Lib.C02_Syntax Spec.C02_Spec Spec.C02_SpecImpure Model.C02_Model
  Model.C02_Impure Proofs.C02_Lists Proofs.C02_Eqb Proofs.C02_Inv Proofs.C02_Refine Proofs.C02_Heap
  Proofs.C02_Counters.
Close Scope N_scope.
Open Scope nat_scope.

Definition scripts_ok (beh : K -> om_beh) : Prop := forall k, forallb script_op (ob_script (beh k)) = true.

Lemma script_not_relational o : script_op o = true -> relational o = false.
Proof. destruct o; simpl; congruence. Qed.

Lemma accept_det_inv c r o out r' :
  relational o = false -> spec_accept c r o out = Some r' -> r' = fst (spec_step c r o).
Proof.
  intros R A. destruct o; simpl in R; try discriminate; unfold spec_accept in A;
    destruct (spec_step c r _) as [r1 out1]; destruct (res_eqb outv_eqb out out1);
    try discriminate; inversion A; reflexivity.
Qed.

(* the slack miss - soft never shrinks *)
Definition mono (m m' : cache) : Prop := forall d, (soft m + d <= miss m)%N -> (soft m' + d <= miss m')%N.

Lemma mono_refl m : mono m m. Proof. intros d H. exact H. Qed.
Lemma mono_trans a b c0 : mono a b -> mono b c0 -> mono a c0.
Proof. intros H1 H2 d H. apply H2. now apply H1. Qed.

Section Nested.
Variable c : cfg.
Hypothesis Hmax : 1 <= c_max c.

(* what it means for a model lookup to simulate a reference lookup *)
Definition LK_SIM (gi : cache -> K -> cache * res V) (lk : rcache -> K -> rcache * res V) : Prop :=
  forall m k, Inv c m ->
  exists m' rv, gi m k = (m', rv) /\ Inv c m' /\ lk (abs m) k = (abs m', rv)
    /\ (exists new, calls m' = new ++ calls m)
    /\ mono m m'
    /\ ((exists e, rv = Raise e) -> forall d, (soft m + d <= miss m)%N -> (soft m' + d + 1 <= miss m')%N).

Lemma plain_step_eq m o :
  script_op o = true -> is_lookup o = false -> Inv c m ->
  exists m' out, step1 c m o = (m', out) /\ Inv c m' /\ spec_step c (abs m) o = (abs m', out)
    /\ (exists new, calls m' = new ++ calls m) /\ mono m m'.
Proof.
  intros SO NL I. destruct (step1_sim c m o Hmax I) as [m' [out [E [I' [A C]]]]].
  exists m', out. split; [exact E|]. split; [exact I'|].
  assert (R : relational o = false) by (destruct o; simpl in *; congruence).
  assert (SS : spec_step c (abs m) o = (abs m', out)).
  { destruct o; simpl in R; try discriminate; unfold spec_accept in A;
      destruct (spec_step c (abs m) _) as [r1 out1]; destruct (res_eqb outv_eqb out out1) eqn:EQ;
      try discriminate; apply res_eqb_eq in EQ; inversion A; subst; reflexivity. }
  split; [exact SS|]. split; [exact C|].
  pose proof (step1_counters c m o Hmax I) as CN. rewrite E in CN. simpl in CN.
  assert (D : lookup_delta c (d_mem (store m)) o = (0, 0, 0)%N) by (destruct o; simpl in *; congruence).
  rewrite D in CN. unfold counters, add3 in CN. inversion CN as [[H1 H2 H3]].
  intros d Hd. rewrite H2, H3. lia.
Qed.

Lemma xstep_with_eq gi lk :
  LK_SIM gi lk -> forall m o, script_op o = true -> Inv c m ->
  exists m' out, xstep1_with gi c m o = (m', out) /\ Inv c m'
    /\ xspec_step_with lk c (abs m) o = (abs m', out)
    /\ (exists new, calls m' = new ++ calls m) /\ mono m m'.
Proof.
  intros LS m o SO I. destruct (is_lookup o) eqn:L.
  - destruct (LS m (match o with GetItem k | Get k _ | SetDefault k _ => k | _ => 0 end) I)
      as [m' [rv [E [I' [X [C [MO ST]]]]]]].
    destruct o; simpl in L; try discriminate; simpl xstep1_with; simpl xspec_step_with; rewrite E, X.
    + destruct rv as [v|e]; simpl; (eexists; eexists; split; [reflexivity|]; split; [exact I'|]; split; [reflexivity|]; split; [exact C|exact MO]).
    + destruct rv as [v|e]; [eexists; eexists; split; [reflexivity|]; split; [exact I'|]; split; [reflexivity|]; split; [exact C|exact MO]|].
      pose proof (ST (ex_intro _ e eq_refl)) as ST'.
      destruct e; try (eexists; eexists; split; [reflexivity|]; split; [exact I'|]; split; [reflexivity|]; split; [exact C|exact MO]; fail).
      eexists. eexists. split; [reflexivity|]. split.
      { destruct I'. constructor; simpl; try assumption. assert (S0 : (soft m <= miss m)%N) by (destruct I; assumption).
        specialize (ST' 0%N). rewrite N.add_0_r in ST'. specialize (ST' S0). lia. }
      split; [reflexivity|]. split; [exact C|]. intros d0 Hd. simpl. specialize (ST' d0 Hd). lia.
    + destruct rv as [v|e]; [eexists; eexists; split; [reflexivity|]; split; [exact I'|]; split; [reflexivity|]; split; [exact C|exact MO]|].
      pose proof (ST (ex_intro _ e eq_refl)) as ST'.
      destruct e; try (eexists; eexists; split; [reflexivity|]; split; [exact I'|]; split; [reflexivity|]; split; [exact C|exact MO]; fail).
      assert (IB : Inv c (bump_soft m')).
      { destruct I'. constructor; simpl; try assumption. assert (S0 : (soft m <= miss m)%N) by (destruct I; assumption).
        specialize (ST' 0%N). rewrite N.add_0_r in ST'. specialize (ST' S0). lia. }
      destruct (setitem_sim c (bump_soft m') k d Hmax IB) as [m2 [E2 [I2 [A2 [C2 [H2 [M2 S2]]]]]]].
      rewrite E2. simpl. exists m2, (Ok (OVal d)). split; [reflexivity|]. split; [exact I2|].
      split; [now rewrite A2|]. split.
      * destruct C as [new C]. exists new. rewrite C2. exact C.
      * intros d0 Hd. rewrite S2, M2. simpl. specialize (ST' d0 Hd). lia.
  - destruct (plain_step_eq m o SO L I) as [m' [out [E [I' [SS [C MO]]]]]].
    exists m', out. split; [destruct o; simpl in L; try discriminate; exact E|].
    split; [exact I'|]. split; [destruct o; simpl in L; try discriminate; exact SS|]. split; assumption.
Qed.

Lemma run_script_sim gi lk :
  LK_SIM gi lk -> forall ops m, forallb script_op ops = true -> Inv c m ->
  exists m' oe, run_script (xstep1_with gi c) m ops = (m', oe) /\ Inv c m'
    /\ r_run_script (xspec_step_with lk c) (abs m) ops = (abs m', oe)
    /\ (exists new, calls m' = new ++ calls m) /\ mono m m'.
Proof.
  intros LS ops. induction ops as [|o rest IH]; intros m OK I; simpl.
  - exists m, None. split; [reflexivity|]. split; [exact I|]. split; [reflexivity|]. split; [now exists []|apply mono_refl].
  - simpl in OK. apply andb_true_iff in OK as [O1 O2].
    destruct (xstep_with_eq gi lk LS m o O1 I) as [m1 [out [E [I1 [X [[n1 C1] MO1]]]]]]. rewrite E, X.
    assert (CONT : exists m' oe, run_script (xstep1_with gi c) m1 rest = (m', oe) /\ Inv c m'
              /\ r_run_script (xspec_step_with lk c) (abs m1) rest = (abs m', oe)
              /\ (exists new, calls m' = new ++ calls m) /\ mono m m').
    { destruct (IH m1 O2 I1) as [m2 [oe [E2 [I2 [X2 [[n2 C2] MO2]]]]]].
      exists m2, oe. split; [exact E2|]. split; [exact I2|]. split; [exact X2|]. split.
      - exists (n2 ++ n1). rewrite C2, C1. now rewrite app_assoc.
      - eapply mono_trans; eauto. }
    destruct out as [x|e]; [exact CONT|].
    destruct e; try exact CONT;
      (exists m1; eexists; split; [reflexivity|]; split; [exact I1|]; split; [reflexivity|];
       split; [now exists n1|exact MO1]).
Qed.

Variable beh : K -> om_beh.
Hypothesis SOK : scripts_ok beh.

Lemma xgetitem_n_sim n : LK_SIM (xgetitem_n n c beh) (xr_lookup_n n c beh).
Proof.
  induction n as [|n IH]; intros m k I; pose proof I as [NR NS SAME LEN CAP SOFT];
    cbn [xgetitem_n xr_lookup_n]; cbn [r_items r_hit r_miss r_soft r_calls store ring hit miss soft calls abs];
    destruct (d_get (ring m) k) as [v|] eqn:G.
  1, 3:
    (eexists; exists (Ok v); split; [reflexivity|]; split;
     [ assert (Hk : In k (keys (ring m))) by (eapply d_get_some_keys; eauto);
       destruct (c_cls c); constructor; simpl; try assumption;
       [ apply nodup_keys_snoc; [now apply nodup_del|now apply not_in_keys_del]
       | intro k'; rewrite d_get_move_end by assumption; apply SAME
       | rewrite app_length; simpl; rewrite <- (length_del_in (ring m) k) in LEN by assumption; lia
       | rewrite app_length; simpl; rewrite <- (length_del_in (ring m) k) in CAP by assumption; lia ]
     | split; [reflexivity|]; split; [exists []; reflexivity|]; split;
       [ intros d Hd; simpl; exact Hd | intros [e E]; discriminate ] ]).
  - (* no nesting left *)
    destruct (c_on_miss c) as [f|].
    + eexists. exists (Raise (OtherExn 9)). split; [reflexivity|]. split; [constructor; simpl; try assumption; lia|].
      split; [reflexivity|]. split; [exists [k]; reflexivity|]. split; [intros d Hd; simpl; lia|intros _ d Hd; simpl; lia].
    + eexists. exists (Raise KeyError). split; [reflexivity|]. split; [constructor; simpl; try assumption; lia|].
      split; [reflexivity|]. split; [exists []; reflexivity|]. split; [intros d Hd; simpl; lia|intros _ d Hd; simpl; lia].
  - destruct (c_on_miss c) as [f|].
    + set (m2 := mkC (store m) (ring m) (hit m) (miss m + 1)%N (soft m) (k :: calls m)).
      assert (I2 : Inv c m2) by (constructor; simpl; try assumption; lia).
      destruct (run_script_sim _ _ IH (ob_script (beh k)) m2 (SOK k) I2) as [m3 [oe [E3 [I3 [X3 [[n3 C3] MO3]]]]]].
      change (mkR (ring m) (hit m) (miss m + 1)%N (soft m) (k :: calls m)) with (abs m2).
      rewrite E3, X3.
      assert (GAIN : forall d, (soft m + d <= miss m)%N -> (soft m3 + d + 1 <= miss m3)%N).
      { intros d Hd. assert (H2 : (soft m2 + (d + 1) <= miss m2)%N) by (simpl; lia).
        specialize (MO3 (d + 1)%N H2). lia. }
      assert (CALLS : calls m3 = (n3 ++ [k]) ++ calls m) by (rewrite C3; simpl; now rewrite <- app_assoc).
      destruct oe as [e|].
      * exists m3, (Raise e). split; [reflexivity|]. split; [exact I3|]. split; [reflexivity|].
        split; [eexists; exact CALLS|]. split; [intros d Hd; specialize (GAIN d Hd); lia|intros _; exact GAIN].
      * destruct (ob_raise (beh k)) as [e|].
        -- exists m3, (Raise e). split; [reflexivity|]. split; [exact I3|]. split; [reflexivity|].
           split; [eexists; exact CALLS|]. split; [intros d Hd; specialize (GAIN d Hd); lia|intros _; exact GAIN].
        -- destruct (setitem_sim c m3 k (f k) Hmax I3) as [m4 [E4 [I4 [A4 [C4 [H4 [M4 S4]]]]]]].
           rewrite E4. exists m4, (Ok (f k)). split; [reflexivity|]. split; [exact I4|].
           split; [now rewrite A4|]. split; [eexists; rewrite C4; exact CALLS|].
           split; [intros d Hd; rewrite S4, M4; specialize (GAIN d Hd); lia|intros [e Ee]; discriminate].
    + eexists. exists (Raise KeyError). split; [reflexivity|]. split; [constructor; simpl; try assumption; lia|].
      split; [reflexivity|]. split; [exists []; reflexivity|]. split; [intros d Hd; simpl; lia|intros _ d Hd; simpl; lia].
Qed.

End Nested.

Local Arguments spec_accept : simpl never.

Lemma xaccept_lookup c beh r o r' out :
  is_lookup o = true -> xspec_step c beh r o = (r', out) -> xspec_accept c beh r o out = Some r'.
Proof. intros L E. unfold xspec_accept. rewrite L, E. now rewrite res_eqb_refl. Qed.

Lemma xstep1_sim c beh m o :
  1 <= c_max c -> scripts_ok beh -> Inv c m ->
  exists m' out, xstep1 c beh m o = (m', out) /\ Inv c m'
    /\ xspec_accept c beh (abs m) o out = Some (abs m')
    /\ (exists new, calls m' = new ++ calls m).
Proof.
  intros Hmax SOK I.
  destruct (is_lookup o) eqn:L.
  - destruct (xgetitem_n_sim c Hmax beh SOK NEST m (match o with GetItem k | Get k _ | SetDefault k _ => k | _ => 0 end) I)
      as [m' [rv [E [I' [X [C [MO ST]]]]]]].
    assert (LT : (exists e, rv = Raise e) -> (soft m' < miss m')%N).
    { intro HE. assert (S0 : (soft m + 0 <= miss m)%N) by (destruct I; lia). specialize (ST HE 0%N S0). lia. }
    fold (xgetitem c beh) in E. fold (xr_lookup c beh) in X.
    destruct o; simpl in L; try discriminate; unfold xstep1; simpl xstep1_with; rewrite E.
    + (* GetItem *)
      destruct rv as [v|e]; simpl; eexists; eexists; (split; [reflexivity|]); (split; [exact I'|]);
        (split; [|exact C]); apply xaccept_lookup; auto; unfold xspec_step; simpl; now rewrite X.
    + (* Get *)
      destruct rv as [v|e].
      * eexists. eexists. split; [reflexivity|]. split; [exact I'|]. split; [|exact C].
        apply xaccept_lookup; auto. unfold xspec_step. simpl. now rewrite X.
      * assert (LT' : (soft m' < miss m')%N) by (apply LT; eauto).
        destruct e; try (eexists; eexists; split; [reflexivity|]; split; [exact I'|]; split; [|exact C];
                         apply xaccept_lookup; auto; unfold xspec_step; simpl; now rewrite X).
        eexists. eexists. split; [reflexivity|]. split.
        { destruct I'. constructor; simpl; try assumption. lia. }
        split; [|exact C]. apply xaccept_lookup; auto. unfold xspec_step. simpl. now rewrite X.
    + (* SetDefault *)
      destruct rv as [v|e].
      * eexists. eexists. split; [reflexivity|]. split; [exact I'|]. split; [|exact C].
        apply xaccept_lookup; auto. unfold xspec_step. simpl. now rewrite X.
      * assert (LT' : (soft m' < miss m')%N) by (apply LT; eauto).
        destruct e; try (eexists; eexists; split; [reflexivity|]; split; [exact I'|]; split; [|exact C];
                         apply xaccept_lookup; auto; unfold xspec_step; simpl; now rewrite X).
        assert (IB : Inv c (bump_soft m')). { destruct I'. constructor; simpl; try assumption. lia. }
        destruct (setitem_sim c (bump_soft m') k d Hmax IB) as [m2 [E2 [I2 [A2 [C2 _]]]]].
        rewrite E2. simpl. exists m2, (Ok (OVal d)). split; [reflexivity|]. split; [exact I2|]. split.
        -- apply xaccept_lookup; auto. unfold xspec_step. simpl. rewrite X. now rewrite A2.
        -- destruct C as [new C]. exists new. rewrite C2. exact C.
  - destruct (step1_sim c m o Hmax I) as [m' [out [E [I' [A C]]]]].
    exists m', out. split.
    + unfold xstep1. destruct o; simpl in L; try discriminate; exact E.
    + split; [exact I'|]. split; [|exact C]. unfold xspec_accept. now rewrite L.
Qed.

Lemma xhstep_inv c beh h o :
  1 <= c_max c -> scripts_ok beh -> Forall (Inv c) h -> Forall (Inv c) (fst (fst (xhstep c beh h o))).
Proof.
  intros Hmax SOK F. destruct o as [i o1|i|i j|i j]; try (apply hstep_inv; assumption).
  simpl. destruct (nth_error h i) as [m|] eqn:N; [|assumption].
  destruct (xstep1_sim c beh m o1 Hmax SOK (nth_error_Forall _ _ _ _ F N)) as [m' [out [E [I' _]]]].
  rewrite E. simpl. now apply upd_nth_Forall.
Qed.

Lemma xhobserve_sim c beh h o ob :
  1 <= c_max c -> scripts_ok beh -> Forall (Inv c) h -> valid_hop (length h) o = true ->
  obs_agree (snd (xhobserve c beh h o)) ob = true ->
  xspec_ok_step c beh (map abs h) o ob = Some (map abs (fst (xhobserve c beh h o))).
Proof.
  intros Hmax SOK F VAL AG. destruct o as [i o1|i|i j|i j];
    try (exact (hobserve_sim c h _ ob Hmax F VAL AG)).
  unfold xhobserve in *. simpl in *.
  apply Nat.ltb_lt in VAL. destruct (nth_error h i) as [m|] eqn:N; [|apply nth_error_None in N; lia].
  pose proof (nth_error_Forall _ _ _ _ F N) as I.
  destruct (xstep1_sim c beh m o1 Hmax SOK I) as [m' [out [E [I' [ACC [new C]]]]]].
  rewrite E in *. simpl in *. rewrite (nth_upd_nth i m' empty_cache h m N) in AG.
  rewrite nth_error_map', N. simpl.
  pose proof (obs_agree_fields _ _ AG) as [EO _]. simpl in EO. rewrite EO.
  change (mkR (ring m) (hit m) (miss m) (soft m) (calls m)) with (abs m).
  rewrite ACC. change (r_calls (abs m)) with (calls m).
  rewrite (view_ok_model c m' (calls m) new out ob I' C AG).
  now rewrite upd_nth_map.
Qed.

Lemma xwalk_sim c beh steps : forall h,
  1 <= c_max c -> scripts_ok beh -> Forall (Inv c) h ->
  xagree_walk c beh h steps = true -> xspec_walk c beh (map abs h) steps = true.
Proof.
  induction steps as [|[o ob] rest IH]; intros h Hmax SOK F AG; simpl in *; [reflexivity|].
  destruct (xhobserve c beh h o) as [h' mo] eqn:HO.
  rewrite !andb_true_iff in AG. destruct AG as [[VAL AG1] AG2].
  pose proof (xhobserve_sim c beh h o ob Hmax SOK F VAL) as S. rewrite HO in S. simpl in S.
  rewrite (S AG1). apply IH; try assumption.
  pose proof (xhstep_inv c beh h o Hmax SOK F) as F'. unfold xhobserve in HO.
  destruct (xhstep c beh h o) as [[h'' i] out]. inversion HO; subst. exact F'.
Qed.

Lemma xagree_implies_xholds c beh init steps :
  1 <= c_max c -> scripts_ok beh ->
  xagree_check c beh init steps = true -> xspec_check c beh init steps = true.
Proof.
  intros Hmax SOK AG. unfold xagree_check, xspec_check in *.
  destruct (init_sim c init Hmax) as [m [E [I A]]]. rewrite E in AG.
  apply andb_true_iff. split; [now apply Nat.leb_le|].
  rewrite <- A. change [abs m] with (map abs [m]). apply xwalk_sim; auto.
Qed.

(* ---- the verdict of Check/C02_Check.v for impure cases ------------------------------------------------ *)
From Boltons Require Import Model.C02_PtrModel Model.C02_PtrCache Check.C02_Check.

Lemma beh_ok_scripts k : beh_ok k = true -> scripts_ok (case_beh k).
Proof.
  unfold beh_ok, scripts_ok, case_beh. intros H key. rewrite forallb_forall in H.
  induction (k_beh k) as [|[k0 [sc r]] rest IH]; simpl; [reflexivity|].
  destruct (Nat.eqb key k0).
  - apply (H (k0, (sc, r))). now left.
  - apply IH. intros x Hx. apply H. now right.
Qed.

Lemma xverdict_sound k : beh_ok k = true -> c02_xagree k = true -> c02_xholds k = true.
Proof.
  intros B H. unfold c02_xagree, c02_xholds in *. rewrite B. simpl.
  assert (CS : forall mx ok, ctor_outcome mx ok = spec_ctor mx ok).
  { intros mx ok. unfold ctor_outcome, spec_ctor. destruct mx; simpl; [reflexivity|]. now destruct ok. }
  rewrite <- CS. apply andb_true_iff in H as [H1 H2]. rewrite H1. simpl.
  destruct (k_ctor k) as [e|] eqn:E; [exact H2|].
  apply xagree_implies_xholds; [|now apply beh_ok_scripts|exact H2].
  unfold ctor_outcome in H1. unfold case_cfg. simpl.
  destruct (k_max k); simpl in *; [discriminate|lia].
Qed.
