(* ManyToMany: the model's observations satisfy, step by step, exactly the Spec
   predicate that [holds] evaluates on the implementation's observations. *)
From Coq Require Import Permutation.
From Boltons Require Import Lib.Prelude Model.C17_Model Spec.C17_Spec Check.C17_Check
  Proofs.C17_Dict Proofs.C17_OTO Proofs.C17_M2M Proofs.C17_SpecLemmas.

(* ---- canonical views ------------------------------------------------------------ *)
Lemma ins_nat_perm x l : Permutation (x :: l) (ins_nat x l).
Proof.
  induction l as [|y r IH]; simpl; trivial.
  destruct (Nat.leb x y); trivial. eapply perm_trans; [apply perm_swap|]. now apply perm_skip.
Qed.

Lemma sort_nat_perm l : Permutation l (sort_nat l).
Proof.
  unfold sort_nat. induction l as [|x r IH]; simpl; trivial.
  eapply perm_trans; [|apply ins_nat_perm]. now apply perm_skip.
Qed.

Lemma sort_nat_In l y : In y (sort_nat l) <-> In y l.
Proof.
  split; apply Permutation_in; [apply Permutation_sym|]; apply sort_nat_perm.
Qed.

Lemma sort_nat_nodup l : NoDup l -> NoDup (sort_nat l).
Proof. apply Permutation_NoDup, sort_nat_perm. Qed.

Lemma ins_key_perm x l : Permutation (x :: l) (ins_key x l).
Proof.
  induction l as [|y r IH]; simpl; trivial.
  destruct (Nat.leb (fst x) (fst y)); trivial. eapply perm_trans; [apply perm_swap|]. now apply perm_skip.
Qed.

Lemma canon_perm d : Permutation (map (fun p => (fst p, sort_nat (snd p))) d) (canon d).
Proof.
  unfold canon. induction (map (fun p => (fst p, sort_nat (snd p))) d) as [|x r IH]; simpl; trivial.
  eapply perm_trans; [|apply ins_key_perm]. now apply perm_skip.
Qed.

Lemma canon_In d k s' : In (k, s') (canon d) <-> exists s, In (k, s) d /\ s' = sort_nat s.
Proof.
  split.
  - intro H. apply (Permutation_in _ (Permutation_sym (canon_perm d))) in H.
    apply in_map_iff in H. destruct H as [[k0 s] [[= <- <-] H]]. eauto.
  - intros [s [H ->]]. apply (Permutation_in _ (canon_perm d)).
    apply in_map_iff. exists (k, s). auto.
Qed.

Lemma canon_keys d : Permutation (map fst d) (map fst (canon d)).
Proof.
  eapply perm_trans; [|apply Permutation_map, canon_perm].
  rewrite map_map. simpl. apply Permutation_refl.
Qed.

Lemma In_pairs_of (d : sview) k v : In (k, v) (pairs_of d) <-> exists s, In (k, s) d /\ In v s.
Proof.
  unfold pairs_of. rewrite in_flat_map. split.
  - intros [[k0 s] [H1 H2]]. simpl in H2. apply in_map_iff in H2. destruct H2 as [v0 [[= <- <-] H2]]. eauto.
  - intros [s [H1 H2]]. exists (k, s). split; trivial. simpl. apply in_map_iff. eauto.
Qed.

Definition PR (d : sdict) : rel := pairs_of (canon d).

Lemma In_PR d a b : SWF d -> (In (a, b) (PR d) <-> rel_of d a b).
Proof.
  intro H. unfold PR. rewrite In_pairs_of, <- has_pair_rel by assumption. unfold has_pair. split.
  - intros [s' [H1 H2]]. apply canon_In in H1. destruct H1 as [s [H1 ->]].
    exists s. split; trivial. now apply sort_nat_In.
  - intros [s [H1 H2]]. exists (sort_nat s). split; [apply canon_In; eauto|now apply sort_nat_In].
Qed.

Lemma side_ok_canon d : SWF d -> side_ok (canon d) = true.
Proof.
  intro H. unfold side_ok. rewrite andb_true_iff. split.
  - apply nodup_b_true. eapply Permutation_NoDup; [apply canon_keys|apply H].
  - apply forallb_forall. intros [k s'] Hin. apply canon_In in Hin. destruct Hin as [s [Hin ->]].
    apply swf_In_get in Hin; trivial. destruct (swf_sets _ H k s Hin) as [Hne Hnd]. simpl.
    destruct (sort_nat s) as [|x r] eqn:E.
    + exfalso. apply nonempty_In in Hne. destruct Hne as [y Hy]. apply sort_nat_In in Hy. now rewrite E in Hy.
    + rewrite <- E. apply nodup_b_true. now apply sort_nat_nodup.
Qed.

Lemma m2m_model_healthy m : M2mInv m -> m2m_healthy (m2m_view_of m) = true.
Proof.
  intros [A B C]. unfold m2m_healthy, m2m_view_of, mv_data, mv_inv. simpl.
  rewrite !side_ok_canon by assumption. simpl. rewrite andb_true_r.
  apply same_set_true. intros [a b]. rewrite transpose_flip, flip_In.
  change (In (a, b) (PR (m_inv m)) <-> In (b, a) (PR (m_data m))).
  rewrite !In_PR by assumption. symmetry. apply C.
Qed.

(* ---- data side of each operation, as a relation ------------------------------------ *)
Lemma fold_add_data k vals : forall m a b,
  rel_of (m_data (fold_left (fun m v => m_add m k v) vals m)) a b <->
  rel_of (m_data m) a b \/ (a = k /\ In b vals).
Proof.
  induction vals as [|v r IH]; simpl; intros m a b; [tauto|].
  rewrite IH. simpl. rewrite sd_add_rel. intuition; subst; auto.
Qed.

Lemma fold_remove_data k vals : forall m a b,
  rel_of (m_data (fold_left (fun m v => m_remove' m k v) vals m)) a b <->
  rel_of (m_data m) a b /\ ~ (a = k /\ In b vals).
Proof.
  induction vals as [|v r IH]; simpl; intros m a b; [tauto|].
  rewrite IH. simpl. rewrite sd_discard_rel. intuition; subst; auto.
Qed.

Lemma m_setitem_data m k vals a b :
  rel_of (m_data (m_setitem m k vals)) a b <->
  (a = k /\ In b vals) \/ (a <> k /\ rel_of (m_data m) a b).
Proof.
  unfold m_setitem. destruct (d_get (m_data m) k) as [cur|] eqn:E.
  - rewrite fold_add_data, fold_remove_data, !s_diff_In, s_of_list_In.
    destruct (Nat.eq_dec a k) as [->|Hne].
    + unfold rel_of. rewrite E. destruct (in_dec Nat.eq_dec b cur), (in_dec Nat.eq_dec b vals); tauto.
    + tauto.
  - rewrite fold_add_data, s_of_list_In. destruct (Nat.eq_dec a k) as [->|Hne]; [|tauto].
    unfold rel_of. rewrite E. tauto.
Qed.

Lemma m_update_pairs_data kvs : forall m a b,
  rel_of (m_data (m_update_pairs m kvs)) a b <-> In (a, b) kvs \/ rel_of (m_data m) a b.
Proof.
  unfold m_update_pairs. induction kvs as [|[k v] r IH]; simpl; intros m a b; [tauto|].
  rewrite IH. simpl. rewrite sd_add_rel. split.
  - intros [H|[H|[-> ->]]]; auto.
  - intros [[[= -> ->]|H]|H]; auto.
Qed.

Lemma m_replace_data m k nk a b : M2mInv m ->
  rel_of (m_data (m_replace m k nk)) a b <->
  (a = nk /\ rel_of (m_data m) k b) \/ (a <> k /\ rel_of (m_data m) a b).
Proof.
  intros [A B C]. unfold m_replace. destruct (d_get (m_data m) k) as [fs|] eqn:E.
  - cbn [m_data]. set (d1 := d_rm (m_data m) k).
    assert (Hk : forall x, rel_of (m_data m) k x <-> In x fs) by (intro x; unfold rel_of; now rewrite E).
    rewrite Hk.
    destruct (d_get d1 nk) as [s|] eqn:E1; rewrite rel_set, s_union_In; subst d1.
    + assert (Hs : forall x, In x s <-> nk <> k /\ rel_of (m_data m) nk x).
      { intro x. rewrite <- rel_rm. unfold rel_of. now rewrite E1. }
      rewrite Hs. rewrite rel_rm. split.
      * intros [[-> [[H1 H2]|H1]]|[H1 [H2 H3]]]; auto.
      * intros [[-> H1]|[H1 H2]]; auto. destruct (Nat.eq_dec a nk) as [->|Hn]; [left; auto|right; auto].
    + simpl. rewrite rel_rm. split.
      * intros [[-> [[]|H1]]|[H1 [H2 H3]]]; auto.
      * intros [[-> H1]|[H1 H2]]; auto. destruct (Nat.eq_dec a nk) as [->|Hn]; [|right; auto].
        exfalso. assert (Hr : rel_of (d_rm (m_data m) k) nk b) by (apply rel_rm; auto).
        unfold rel_of in Hr. now rewrite E1 in Hr.
  - split; [|intros [[_ H]|[_ H]]; trivial; unfold rel_of in H; now rewrite E in H].
    intro H. right. split; trivial. intros ->. unfold rel_of in H. now rewrite E in H.
Qed.

(* ---- one operation on the data side --------------------------------------------------- *)
Lemma sres_is_refl r : sres_is r r = true.
Proof.
  destruct r as [v|e]; simpl.
  - destruct v; simpl; rewrite ?Nat.eqb_refl; trivial.
    + destruct b; reflexivity.
    + apply list_eqb_refl, Nat.eqb_refl.
  - destruct e; simpl; trivial; apply Nat.eqb_refl.
Qed.

Lemma has_key_PR d k : SWF d -> r_has_key (PR d) k = d_mem d k.
Proof.
  intro H. unfold d_mem. destruct (r_has_key (PR d) k) eqn:E.
  - unfold r_has_key in E. apply existsb_exists in E. destruct E as [[a b] [Hin Ea]].
    simpl in Ea. apply Nat.eqb_eq in Ea. subst a. apply In_PR in Hin; trivial.
    unfold rel_of in Hin. destruct (d_get d k); tauto.
  - destruct (d_get d k) as [s|] eqn:Eg; trivial.
    destruct (swf_sets _ H k s Eg) as [Hne _]. apply nonempty_In in Hne. destruct Hne as [x Hx].
    assert (Hin : In (k, x) (PR d)) by (apply In_PR; trivial; unfold rel_of; now rewrite Eg).
    assert (r_has_key (PR d) k = true); [|congruence].
    unfold r_has_key. apply existsb_exists. exists (k, x). split; trivial. simpl. apply Nat.eqb_refl.
Qed.

Lemma set_eq_true a b : set_eq a b = true <-> (forall x, In x a <-> In x b).
Proof.
  unfold set_eq. rewrite andb_true_iff, !forallb_forall. split.
  - intros [H1 H2] x. split; intro Hx.
    + apply H1 in Hx. apply existsb_exists in Hx. destruct Hx as [y [Hy E]]. apply Nat.eqb_eq in E. now subst.
    + apply H2 in Hx. apply existsb_exists in Hx. destruct Hx as [y [Hy E]]. apply Nat.eqb_eq in E. now subst.
  - intro H. split; intros x Hx; apply existsb_exists; exists x; (split; [now apply H|apply Nat.eqb_refl]).
Qed.

Lemma In_r_image r k x : In x (r_image r k) <-> In (k, x) r.
Proof.
  unfold r_image. rewrite in_map_iff. split.
  - intros [[a b] [<- H]]. apply filter_In in H. destruct H as [H E]. simpl in *.
    apply Nat.eqb_eq in E. now subst.
  - intro H. exists (k, x). split; trivial. apply filter_In. split; trivial. simpl. apply Nat.eqb_refl.
Qed.

Lemma In_r_remove r q p : In p (r_remove r q) <-> In p r /\ p <> q.
Proof.
  unfold r_remove. rewrite filter_In, negb_true_iff. split; intros [H1 H2]; split; trivial.
  - intros ->. now rewrite pair_eq_refl in H2.
  - destruct (pair_eq q p) eqn:E; trivial. apply pair_eq_true in E. congruence.
Qed.

Lemma image_ok d k s : SWF d -> d_get d k = Some s ->
  nodup_b (sort_nat s) && set_eq (sort_nat s) (r_image (PR d) k) = true.
Proof.
  intros H E. destruct (swf_sets _ H k s E) as [_ Hnd]. rewrite andb_true_iff. split.
  - apply nodup_b_true. now apply sort_nat_nodup.
  - apply set_eq_true. intro x. rewrite sort_nat_In, In_r_image, In_PR by assumption.
    unfold rel_of. now rewrite E.
Qed.

Lemma m2m_step_refines m op : M2mInv m ->
  m_op_ok (PR (m_data m)) (tr_mop op) (tr_res (snd (m2m_step m op))) (PR (m_data (fst (m2m_step m op)))) = true.
Proof.
  intro H. pose proof (m2m_step_ok m op H) as H'. destruct H as [A B C].
  destruct op as [k v|k v|k vals|k|k nk|kvs|k|k|k]; simpl in *.
  - apply same_set_true. intros [a b]. rewrite (in_cons_iff (k, v)), !In_PR by (trivial; apply H').
    simpl. rewrite sd_add_rel. split; [intros [?|[-> ->]]|intros [[= <- <-]|?]]; auto.
  - unfold m_remove in *. assert (Hm : r_mem (k, v) (PR (m_data m)) = m_has m k v).
    { unfold m_has. destruct (r_mem (k, v) (PR (m_data m))) eqn:E.
      - apply r_mem_In, In_PR in E; trivial. unfold rel_of in E.
        destruct (d_get (m_data m) k); [|tauto]. symmetry. now apply s_mem_In.
      - destruct (d_get (m_data m) k) as [s|] eqn:Eg; trivial.
        destruct (s_mem v s) eqn:Es; trivial. apply s_mem_In in Es.
        assert (In (k, v) (PR (m_data m))) by (apply In_PR; trivial; unfold rel_of; now rewrite Eg).
        apply r_mem_In in H. congruence. }
    rewrite Hm. destruct (m_has m k v); simpl in *.
    + apply same_set_true. intros [a b]. rewrite In_r_remove, !In_PR by (trivial; apply H').
      rewrite sd_discard_rel. split; intros [H1 H2]; split; trivial.
      * intros [= -> ->]. tauto.
      * intros [-> ->]. tauto.
    + apply same_set_refl.
  - apply same_set_true. intros [a b]. rewrite in_app_iff, In_r_del_key, !In_PR by (trivial; apply H').
    rewrite m_setitem_data, in_map_iff. simpl. split.
    + intros [[-> H1]|[H1 H2]]; [left; eauto|right; auto].
    + intros [[x [[= <- <-] H1]]|[H1 H2]]; auto.
  - rewrite has_key_PR by assumption. unfold m_delitem, d_mem in *.
    destruct (d_get (m_data m) k) as [s|] eqn:E; simpl in *.
    + apply same_set_true. intros [a b]. rewrite In_r_del_key, !In_PR by (trivial; apply H').
      rewrite rel_rm. simpl. tauto.
    + apply same_set_refl.
  - apply same_set_true. intros [a b]. rewrite In_PR by apply H'.
    rewrite m_replace_data by (constructor; assumption). rewrite in_map_iff. split.
    + intros [[-> H1]|[H1 H2]].
      * exists (k, b). rewrite In_PR by assumption. simpl. rewrite Nat.eqb_refl. auto.
      * exists (a, b). rewrite In_PR by assumption. simpl.
        destruct (Nat.eqb k a) eqn:E; [apply Nat.eqb_eq in E; congruence|auto].
    + intros [[a0 b0] [[= <- <-] H1]]. apply In_PR in H1; trivial. simpl.
      destruct (Nat.eqb k a0) eqn:E.
      * apply Nat.eqb_eq in E. subst. auto.
      * apply Nat.eqb_neq in E. right. auto.
  - apply same_set_true. intros [a b]. rewrite in_app_iff, !In_PR by (trivial; apply H').
    apply m_update_pairs_data.
  - rewrite same_set_refl, has_key_PR by assumption. unfold d_mem. simpl.
    destruct (d_get (m_data m) k) as [s|] eqn:E; simpl; trivial. now apply image_ok.
  - rewrite same_set_refl. simpl.
    destruct (d_get (m_data m) k) as [s|] eqn:E; simpl; [now apply image_ok|].
    apply set_eq_true. intro x. rewrite In_r_image, In_PR by assumption. unfold rel_of. rewrite E. simpl. tauto.
  - rewrite same_set_refl, has_key_PR by assumption. simpl. destruct (d_mem (m_data m) k); reflexivity.
Qed.

Lemma m_rel_view s m : m_rel s (m2m_view_of m) = PR (m_data (m2m_side s m)).
Proof. destruct s; reflexivity. Qed.

Lemma m2m_step_side_refines s m op : M2mInv m ->
  m_op_ok (m_rel s (m2m_view_of m)) (tr_mop op) (tr_res (snd (m2m_step_side s m op)))
          (m_rel s (m2m_view_of (fst (m2m_step_side s m op)))) = true.
Proof.
  intro H. rewrite !m_rel_view. unfold m2m_step_side. destruct s; simpl.
  - pose proof (m2m_step_refines (m2m_swap m) op (M2mInv_swap _ H)) as R.
    destruct (m2m_step (m2m_swap m) op) as [m' r]. simpl in *. exact R.
  - now apply m2m_step_refines.
Qed.

(* ---- lists of views ----------------------------------------------------------------------- *)
Lemma sview_eqb_refl v : sview_eqb v v = true.
Proof.
  unfold sview_eqb. apply list_eqb_refl. intros [k s]. simpl. rewrite Nat.eqb_refl. simpl.
  apply list_eqb_refl, Nat.eqb_refl.
Qed.
Lemma mview_eqb_refl w : mview_eqb w w = true.
Proof. unfold mview_eqb. rewrite !sview_eqb_refl. simpl. destruct (snd w); reflexivity. Qed.
Lemma mviews_eqb_refl l : list_eqb mview_eqb l l = true.
Proof. apply list_eqb_refl, mview_eqb_refl. Qed.

Lemma m_others_same_set_nth (h : list m2m) : forall i m',
  m_others_same i (map m2m_view_of h) (map m2m_view_of (set_nth h i m')) = true.
Proof.
  induction h as [|o r IH]; intros [|i] m'; simpl; trivial.
  - apply mviews_eqb_refl.
  - rewrite mview_eqb_refl. apply IH.
Qed.

Lemma firstn_app_exact' {A} (l r : list A) : firstn (length l) (l ++ r) = l.
Proof. induction l; simpl; congruence. Qed.
Lemma skipn_app_exact' {A} (l r : list A) : skipn (length l) (l ++ r) = r.
Proof. induction l; simpl; congruence. Qed.
Lemma nth_set_nth' {A} (l : list A) : forall i x y, nth_error l i = Some y -> nth_error (set_nth l i x) i = Some x.
Proof. induction l as [|a r IH]; intros [|i] x y; simpl; try discriminate; auto. apply IH. Qed.

Lemma m_update_from_data m o a b : M2mInv m -> M2mInv o ->
  rel_of (m_data (m_update_from m o)) a b <-> rel_of (m_data m) a b \/ rel_of (m_data o) a b.
Proof. intros [A _ _] [A' _ _]. simpl. apply sd_merge_ok; assumption. Qed.

Lemma m2m_side_side s m : m2m_side s (m2m_side s m) = m.
Proof. destruct s, m; reflexivity. Qed.

(* ---- __eq__ : dict == over set values is equality of the pair sets ----------------------- *)
Lemma set_eqb_true s t : NoDup s -> NoDup t -> (set_eqb s t = true <-> forall x, In x s <-> In x t).
Proof.
  intros Ns Nt. unfold set_eqb. rewrite andb_true_iff, Nat.eqb_eq, forallb_forall. split.
  - intros [L H] x. split; intro Hx.
    + apply s_mem_In. now apply H.
    + assert (I : incl s t) by (intros y Hy; apply s_mem_In; now apply H).
      assert (Lt : length t <= length s) by lia.
      exact (NoDup_length_incl Ns Lt I x Hx).
  - intro H. split.
    + apply Nat.le_antisymm; apply NoDup_incl_length; trivial; intros y Hy; now apply H.
    + intros x Hx. apply s_mem_In. now apply H.
Qed.

Lemma key_in_iff_rel d k : SWF d -> (In k (map fst d) <-> exists v, rel_of d k v).
Proof.
  intro H. split.
  - intro Hin. apply in_map_iff in Hin. destruct Hin as [[k0 s] [<- Hin]]. simpl.
    apply swf_In_get in Hin; trivial. destruct (swf_sets _ H k0 s Hin) as [Hne _].
    apply nonempty_In in Hne. destruct Hne as [x Hx]. exists x. unfold rel_of. now rewrite Hin.
  - intros [v Hv]. unfold rel_of in Hv. destruct (d_get d k) as [s|] eqn:E; [|tauto].
    apply get_In in E. apply in_map_iff. now exists (k, s).
Qed.

Lemma sd_eqb_true d1 d2 : SWF d1 -> SWF d2 ->
  (sd_eqb d1 d2 = true <-> forall a b, rel_of d1 a b <-> rel_of d2 a b).
Proof.
  intros H1 H2. unfold sd_eqb. rewrite andb_true_iff, Nat.eqb_eq, forallb_forall. split.
  - intros [L F].
    assert (Fwd : forall a b, rel_of d1 a b -> rel_of d2 a b).
    { intros a b R. unfold rel_of in R. destruct (d_get d1 a) as [s|] eqn:E; [|tauto].
      pose proof (F (a, s) (get_In _ _ _ E)) as G. simpl in G.
      unfold rel_of. destruct (d_get d2 a) as [t|] eqn:E2; [|discriminate].
      pose proof (proj1 (set_eqb_true s t (proj2 (swf_sets _ H1 a s E)) (proj2 (swf_sets _ H2 a t E2))) G) as G'.
      now apply G'. }
    assert (Keys : incl (map fst d2) (map fst d1)).
    { assert (I12 : incl (map fst d1) (map fst d2)).
      { intros k Hk. apply key_in_iff_rel in Hk; trivial. destruct Hk as [v Hv].
        apply key_in_iff_rel; trivial. exists v. now apply Fwd. }
      assert (Lk : length (map fst d2) <= length (map fst d1)) by (rewrite !map_length; lia).
      exact (NoDup_length_incl (swf_keys _ H1) Lk I12). }
    intros a b. split; [apply Fwd|]. intro R.
    assert (Ka : In a (map fst d1)) by (apply Keys; apply key_in_iff_rel; eauto).
    apply in_map_iff in Ka. destruct Ka as [[a0 s] [Ea Hin]]. simpl in Ea. subst a0.
    pose proof (F (a, s) Hin) as G. simpl in G. apply swf_In_get in Hin; trivial.
    unfold rel_of in *. rewrite Hin. destruct (d_get d2 a) as [t|] eqn:E2; [|discriminate].
    pose proof (proj1 (set_eqb_true s t (proj2 (swf_sets _ H1 a s Hin)) (proj2 (swf_sets _ H2 a t E2))) G) as G'.
    now apply G'.
  - intro R.
    assert (K12 : incl (map fst d1) (map fst d2)).
    { intros k Hk. apply key_in_iff_rel in Hk; trivial. destruct Hk as [v Hv].
      apply key_in_iff_rel; trivial. exists v. now apply R. }
    assert (K21 : incl (map fst d2) (map fst d1)).
    { intros k Hk. apply key_in_iff_rel in Hk; trivial. destruct Hk as [v Hv].
      apply key_in_iff_rel; trivial. exists v. now apply R. }
    split.
    + rewrite <- (map_length fst d1), <- (map_length fst d2).
      apply Nat.le_antisymm; apply NoDup_incl_length; trivial; [apply (swf_keys _ H1)|apply (swf_keys _ H2)].
    + intros [k s] Hin. simpl. apply swf_In_get in Hin; trivial.
      assert (Kk : In k (map fst d2)).
      { apply K12. apply in_map_iff. exists (k, s). split; trivial. now apply get_In. }
      apply in_map_iff in Kk. destruct Kk as [[k0 t] [Ek Hin2]]. simpl in Ek. subst k0.
      apply swf_In_get in Hin2; trivial. rewrite Hin2.
      apply (proj2 (set_eqb_true s t (proj2 (swf_sets _ H1 k s Hin)) (proj2 (swf_sets _ H2 k t Hin2)))).
      intro x. specialize (R k x). unfold rel_of in R. now rewrite Hin, Hin2 in R.
Qed.

Lemma sd_eqb_same_set d1 d2 : SWF d1 -> SWF d2 -> sd_eqb d1 d2 = same_set (PR d1) (PR d2).
Proof.
  intros H1 H2. destruct (sd_eqb d1 d2) eqn:E; symmetry.
  - apply same_set_true. intros [a b]. rewrite !In_PR by assumption. now apply sd_eqb_true.
  - destruct (same_set (PR d1) (PR d2)) eqn:E2; trivial.
    apply same_set_true in E2. assert (sd_eqb d1 d2 = true); [|congruence].
    apply sd_eqb_true; trivial. intros a b. rewrite <- !In_PR by assumption. apply E2.
Qed.

(* ---- one step on a heap of instances --------------------------------------------------------- *)
Lemma m2m_hstep_refines h hop : Forall M2mInv h -> snd (m2m_hstep h hop) <> Raise BadIndex ->
  m_hop_ok (map m2m_view_of h) (tr_mhop hop) (tr_res (snd (m2m_hstep h hop)))
           (map m2m_view_of (fst (m2m_hstep h hop))) = true.
Proof.
  intros F NB. destruct hop as [kvs|i s|i s op|i s j t|i s j t]; simpl in *.
  - rewrite map_app, firstn_app_exact', skipn_app_exact', mviews_eqb_refl. simpl.
    assert (K : M2mInv (m_update_pairs m_empty kvs)) by apply m_update_pairs_ok, m_empty_ok.
    rewrite m2m_model_healthy by assumption. simpl.
    apply same_set_true. intros [a b]. rewrite (m_rel_view false). cbn [m2m_side].
    rewrite (In_PR _ a b (mi_data _ K)). rewrite m_update_pairs_data. unfold rel_of. simpl. tauto.
  - rewrite nth_error_map. destruct (nth_error h i) as [o|] eqn:E; simpl in *; [|congruence].
    rewrite map_app, firstn_app_exact', skipn_app_exact', mviews_eqb_refl. simpl.
    pose proof (Forall_nth_error' _ _ _ _ F E) as Ho.
    assert (K : M2mInv (m_update_from m_empty (m2m_side s o))).
    { apply m_update_from_ok; [apply m_empty_ok|now apply M2mInv_side]. }
    rewrite m2m_model_healthy by assumption. simpl.
    apply same_set_true. intros [a b]. rewrite (m_rel_view false), (m_rel_view s). cbn [m2m_side].
    rewrite (In_PR _ a b (mi_data _ K)), (In_PR _ a b (mi_data _ (M2mInv_side s o Ho))).
    rewrite m_update_from_data; [|apply m_empty_ok|now apply M2mInv_side].
    unfold rel_of at 1. simpl. tauto.
  - rewrite nth_error_map. destruct (nth_error h i) as [m|] eqn:E; simpl in *; [|congruence].
    pose proof (Forall_nth_error' _ _ _ _ F E) as Hm.
    pose proof (m2m_step_side_refines s m op Hm) as R. pose proof (m2m_step_side_ok s m op Hm) as K.
    destruct (m2m_step_side s m op) as [m' r]. simpl in *.
    rewrite nth_error_map, (nth_set_nth' _ _ _ _ E). simpl.
    rewrite m_others_same_set_nth, m2m_model_healthy by assumption. exact R.
  - rewrite !nth_error_map. destruct (nth_error h i) as [m|] eqn:E; simpl in *; [|congruence].
    destruct (nth_error h j) as [o|] eqn:E2; simpl in *; [|congruence].
    pose proof (Forall_nth_error' _ _ _ _ F E) as Hm. pose proof (Forall_nth_error' _ _ _ _ F E2) as Ho.
    rewrite (nth_set_nth' _ _ _ _ E). simpl.
    assert (K : M2mInv (m_update_from (m2m_side s m) (m2m_side t o))).
    { apply m_update_from_ok; now apply M2mInv_side. }
    rewrite m_others_same_set_nth, m2m_model_healthy by now apply M2mInv_side. simpl.
    apply same_set_true. intros [a b]. rewrite in_app_iff, !m_rel_view, m2m_side_side.
    rewrite (In_PR _ a b (mi_data _ K)), (In_PR _ a b (mi_data _ (M2mInv_side s m Hm))),
            (In_PR _ a b (mi_data _ (M2mInv_side t o Ho))).
    rewrite m_update_from_data by now apply M2mInv_side. tauto.
  - rewrite !nth_error_map. destruct (nth_error h i) as [m|] eqn:E; simpl in *; [|congruence].
    destruct (nth_error h j) as [o|] eqn:E2; simpl in *; [|congruence].
    pose proof (Forall_nth_error' _ _ _ _ F E) as Hm. pose proof (Forall_nth_error' _ _ _ _ F E2) as Ho.
    rewrite mviews_eqb_refl, !m_rel_view. simpl.
    rewrite sd_eqb_same_set; [|apply (M2mInv_side s m Hm)|apply (M2mInv_side t o Ho)].
    destruct (same_set _ _); reflexivity.
Qed.

(* ---- whole histories ------------------------------------------------------------------------- *)
Fixpoint m2m_trace (h : list m2m) (hops : list m2m_hop) : list (m2m_hop * m2m_obs) :=
  match hops with
  | [] => []
  | hop :: rest =>
      let '(h', r) := m2m_hstep h hop in
      (hop, (r, map m2m_view_of h')) :: m2m_trace h' rest
  end.

Definition m_no_bad_index (tr : list (m2m_hop * m2m_obs)) : Prop :=
  Forall (fun x => fst (snd x) <> Raise BadIndex) tr.

Lemma res_val_eqb_refl' (r : res val) : res_eqb val_eqb r r = true.
Proof.
  destruct r as [v|e]; simpl.
  - destruct v; simpl; rewrite ?Nat.eqb_refl; trivial.
    + destruct b; reflexivity.
    + apply list_eqb_refl. apply Nat.eqb_refl.
  - destruct e; simpl; trivial; apply Nat.eqb_refl.
Qed.

Lemma m2m_walk_trace hops : forall h, Forall M2mInv h -> m_no_bad_index (m2m_trace h hops) ->
  m2m_walk h (map m2m_view_of h) (m2m_trace h hops) = (true, true).
Proof.
  induction hops as [|hop rest IH]; simpl; intros h F NB; trivial.
  pose proof (m2m_hstep_refines h hop F) as R. pose proof (m2m_hstep_ok h hop F) as K.
  destruct (m2m_hstep h hop) as [h' r] eqn:E. simpl in *.
  inversion NB; subst. simpl in *.
  rewrite E. rewrite IH by assumption.
  rewrite res_val_eqb_refl', mviews_eqb_refl, R by assumption. reflexivity.
Qed.

Theorem m2m_model_refines_spec hops :
  m_no_bad_index (m2m_trace [] hops) -> c17_verdict (CM2m (m2m_trace [] hops)) = (true, true, false).
Proof.
  intro NB. pose proof (m2m_walk_trace hops [] (Forall_nil _) NB) as W. simpl in W.
  generalize dependent (m2m_trace [] hops). intros steps _ W. simpl.
  assert (W' : m2m_walk [] [] steps = (true, true)) by exact W. rewrite W'. reflexivity.
Qed.
