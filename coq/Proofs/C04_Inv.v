(* Invariants of the AtomicSaver model: staged invariant over the file system,
   the file object and the scan of the call sequence.  Used by C04 and C05. *)
From Boltons Require Import Lib.Prelude Model.C04_Model Spec.C04_Spec Check.C04_Check Proofs.C04_Hoare.

Open Scope nat_scope.
Arguments upd {A} f k v x : simpl never.
Ltac idc := (intros; eassumption).
Ltac fsimp := unfold set_mode, set_vol, set_dur, set_name, fs_create; cbn [f_dir f_ino f_next i_vol i_dur i_mode].

Lemma upd_eq {A} (f : nat -> A) k v : upd f k v k = v.
Proof. unfold upd. now rewrite Nat.eqb_refl. Qed.
Lemma upd_neq {A} (f : nat -> A) k v x : x <> k -> upd f k v x = f x.
Proof. unfold upd. intro H. apply Nat.eqb_neq in H. now rewrite H. Qed.

Lemma sched_appear_In l k cnt m : sched_appear l k = Some (cnt, m) -> In (k, AAppear cnt m) l.
Proof.
  induction l as [|[k' a] r IH]; cbn; [discriminate|].
  destruct a as [e|c' m'].
  - intro H. right. auto.
  - destruct (Nat.eqb k k') eqn:E.
    + intro H. inversion H; subst. apply Nat.eqb_eq in E. subst. now left.
    + intro H. right. auto.
Qed.

Lemma call_of_failed e x : call_of (e, Some x) = CNone.
Proof. destruct e; reflexivity. Qed.

Section Inv.
  Variable c : cfg.
  Variable s0 : fs.
  Variable sched : list (nat * action).
  Notation dest := (c_dest c).
  Notation part := (c_part c).
  Hypothesis Hdp : dest <> part.
  Hypothesis Hpd : same_dir part = true.

  Definition scan_tr (t : list (ev * option nat)) : scan :=
    fold_right (fun e s => scan_step dest s (call_of e)) scan0 t.
  Definition scan_of (w : world) : scan := scan_tr (w_trace w).

  Lemma scan_of_rev t :
    scan_calls dest (map call_of (rev t)) = fold_right (fun e s => scan_step dest s (call_of e)) scan0 t.
  Proof.
    unfold scan_calls. rewrite <- (rev_involutive t) at 2. rewrite fold_left_rev_right.
    generalize (rev t) scan0. intro l. induction l as [|x l IH]; intro a; cbn; auto.
  Qed.

  Definition wf (s : fs) : Prop := forall n i, f_dir s n = Some i -> i < f_next s.
  Definition appeared (x : inode) : Prop :=
    exists k cnt m, In (k, AAppear cnt m) sched /\ x = mkI cnt cnt m.
  (* the destination is what it was at entry (same inode, untouched), or what another process put there *)
  Definition dest_old (s : fs) : Prop :=
    match f_dir s dest with
    | None => f_dir s0 dest = None
    | Some j => (f_dir s0 dest = Some j /\ f_ino s j = f_ino s0 j) \/
                (f_dir s0 dest = None /\ appeared (f_ino s j))
    end.
  Definition file_sep (s : fs) (f : fstate) : Prop :=
    match f with FOpen p _ => p < f_next s /\ f_dir s dest <> Some p | _ => True end.
  Definition base (s : fs) (f : fstate) : Prop := wf s /\ dest_old s /\ file_sep s f.

  Lemma base_appear s f k cnt m :
    base s f -> f_dir s dest = None -> In (k, AAppear cnt m) sched ->
    base (fs_create s dest cnt true m) f.
  Proof.
    intros (Hwf & Hold & Hsep) Hnone Hin. unfold dest_old in Hold. rewrite Hnone in Hold.
    split; [|split].
    - intros n i. cbn. unfold upd. destruct (Nat.eqb n dest).
      + intro H; inversion H; lia.
      + intro H. apply Hwf in H. lia.
    - unfold dest_old. cbn. rewrite upd_eq. right. split; [exact Hold|].
      rewrite upd_eq. exists k, cnt, m. auto.
    - destruct f as [|p buf|]; cbn; auto. cbn in Hsep. destruct Hsep as [Hp _].
      split; [lia|]. rewrite upd_eq. intro H; inversion H; lia.
  Qed.

  Lemma dest_lt s j : wf s -> f_dir s dest = Some j -> j < f_next s.
  Proof. intros H. apply H. Qed.

  Lemma base_create s f n cnt d m f' :
    base s f -> n <> dest -> (f' = f \/ f' = FOpen (f_next s) []) ->
    base (fs_create s n cnt d m) f'.
  Proof.
    intros (Hwf & Hold & Hsep) Hn Hf'.
    assert (Hd : f_dir (fs_create s n cnt d m) dest = f_dir s dest).
    { cbn. apply upd_neq. congruence. }
    split; [|split].
    - intros x i. cbn. unfold upd. destruct (Nat.eqb x n).
      + intro H; inversion H; lia.
      + intro H. apply Hwf in H. lia.
    - unfold dest_old in *. rewrite Hd. destruct (f_dir s dest) as [j|] eqn:Ej; auto.
      assert (j < f_next s) by (eapply dest_lt; eauto).
      cbn. rewrite upd_neq by lia. exact Hold.
    - destruct Hf' as [->| ->].
      + destruct f as [|p buf|]; cbn; auto. cbn in Hsep. destruct Hsep as [Hp Hne].
        split; [lia|]. rewrite upd_neq by congruence. exact Hne.
      + cbn. split; [lia|]. rewrite upd_neq by congruence. intro H. apply Hwf in H. lia.
  Qed.

  Lemma base_set_name s f n o :
    base s f -> n <> dest -> (forall i, o = Some i -> i < f_next s) -> base (set_name s n o) f.
  Proof.
    intros (Hwf & Hold & Hsep) Hn Ho.
    assert (Hd : f_dir (set_name s n o) dest = f_dir s dest).
    { cbn. apply upd_neq. congruence. }
    split; [|split].
    - intros x i. cbn. unfold upd. destruct (Nat.eqb x n); [apply Ho | apply Hwf].
    - unfold dest_old in *. rewrite Hd. exact Hold.
    - destruct f as [|p buf|]; cbn; auto. cbn in Hsep. rewrite upd_neq by congruence. exact Hsep.
  Qed.

  Lemma base_upd_ino s f i x :
    base s f -> f_dir s dest <> Some i -> base (mkFs (f_dir s) (upd (f_ino s) i x) (f_next s)) f.
  Proof.
    intros (Hwf & Hold & Hsep) Hi. split; [|split].
    - exact Hwf.
    - unfold dest_old in *. cbn. destruct (f_dir s dest) as [j|] eqn:Ej; auto.
      rewrite upd_neq by congruence. exact Hold.
    - destruct f; cbn; auto.
  Qed.

  Lemma base_file s f f' : base s f -> file_sep s f' -> base s f'.
  Proof. intros (A & B & _) H. split; [|split]; auto. Qed.

  (* ---- stages ---- *)
  Definition stage := fs -> fstate -> scan -> Prop.

  Definition L (P : stage) (w : world) : Prop :=
    P (w_fs w) (w_file w) (scan_of w) /\ w_dest w = dest /\ w_sched w = sched.

  Definition istable (P : stage) : Prop :=
    forall s f sc k cnt m, P s f sc -> f_dir s dest = None -> In (k, AAppear cnt m) sched ->
                           P (fs_create s dest cnt true m) f sc.

  Lemma L_interfere (P : stage) w : istable P -> L P w -> P (interfere w) (w_file w) (scan_of w).
  Proof.
    intros Hst (HP & Hd & Hs). unfold interfere. rewrite Hs, Hd.
    destruct (sched_appear sched (w_tick w)) as [[cnt m]|] eqn:E; auto.
    destruct (f_dir (w_fs w) dest) eqn:Ed; auto.
    apply sched_appear_In in E. eapply Hst; eauto.
  Qed.

  (* stages that may also mention the umask and the whole call trace (used by C05) *)
  Definition stageT := N -> fs -> fstate -> list (ev * option nat) -> Prop.
  Definition LT (P : stageT) (w : world) : Prop :=
    P (w_umask w) (w_fs w) (w_file w) (w_trace w) /\ w_dest w = dest /\ w_sched w = sched.
  Definition istableT (P : stageT) : Prop :=
    forall um s f tr k cnt m, P um s f tr -> f_dir s dest = None -> In (k, AAppear cnt m) sched ->
                              P um (fs_create s dest cnt true m) f tr.
  Definition lift (P : stage) : stageT := fun _ s f tr => P s f (scan_tr tr).

  Lemma LT_interfere (P : stageT) w : istableT P -> LT P w -> P (w_umask w) (interfere w) (w_file w) (w_trace w).
  Proof.
    intros Hst (HP & Hd & Hs). unfold interfere. rewrite Hs, Hd.
    destruct (sched_appear sched (w_tick w)) as [[cnt m]|] eqn:E; auto.
    destruct (f_dir (w_fs w) dest) eqn:Ed; auto.
    apply sched_appear_In in E. eapply Hst; eauto.
  Qed.

  Lemma prim_ruleT (P Q E : stageT) e forced :
    istableT P ->
    (forall um s f tr errno, P um s f tr ->
        E um (fst (after_fault um e s f)) (snd (after_fault um e s f)) ((e, Some errno) :: tr)) ->
    (forall um s f tr, P um s f tr ->
        match fst (fst (sem um e s f)) with
        | None => Q um (snd (fst (sem um e s f))) (snd (sem um e s f)) ((e, None) :: tr)
        | Some errno => E um (snd (fst (sem um e s f))) (snd (sem um e s f)) ((e, Some errno) :: tr)
        end) ->
    triple (LT P) (prim_f e forced) (fun _ => LT Q) (fun _ => LT E) (LT P).
  Proof.
    intros Hst Hf Hs w Hw. unfold prim_f. destruct (crash_now w); [exact Hw|].
    pose proof (LT_interfere P w Hst Hw) as Hi. destruct Hw as (_ & Hd & Hsc).
    unfold step. destruct (fault_of forced w) as [errno|].
    - unfold LT, next_world. cbn [w_fs w_file w_trace w_dest w_sched w_umask fst snd].
      split; [|auto]. apply Hf. exact Hi.
    - specialize (Hs (w_umask w) _ _ _ Hi).
      destruct (sem (w_umask w) e (interfere w) (w_file w)) as [[r s'] f'].
      unfold LT, next_world. cbn [w_fs w_file w_trace w_dest w_sched w_umask fst snd] in *.
      destruct r as [errno|]; (split; [|auto]); exact Hs.
  Qed.

  Lemma prim_rule (P Q E : stage) e forced :
    istable P ->
    (forall um s f sc, P s f sc -> E (fst (after_fault um e s f)) (snd (after_fault um e s f)) sc) ->
    (forall um s f sc, P s f sc ->
        match fst (fst (sem um e s f)) with
        | None => Q (snd (fst (sem um e s f))) (snd (sem um e s f)) (scan_step dest sc (call_of (e, None)))
        | Some _ => E (snd (fst (sem um e s f))) (snd (sem um e s f)) sc
        end) ->
    triple (L P) (prim_f e forced) (fun _ => L Q) (fun _ => L E) (L P).
  Proof.
    intros Hst Hf Hs w Hw. unfold prim_f. destruct (crash_now w); [exact Hw|].
    pose proof (L_interfere P w Hst Hw) as Hi. destruct Hw as (_ & Hd & Hsc).
    unfold step. destruct (fault_of forced w) as [errno|].
    - unfold L, scan_of, scan_tr, next_world. cbn [w_fs w_file w_trace w_dest w_sched fold_right fst snd].
      rewrite call_of_failed. cbn [scan_step]. split; [|auto]. apply Hf. exact Hi.
    - specialize (Hs (w_umask w) _ _ _ Hi).
      destruct (sem (w_umask w) e (interfere w) (w_file w)) as [[r s'] f'].
      unfold L, scan_of, scan_tr, next_world. cbn [w_fs w_file w_trace w_dest w_sched fold_right fst snd] in *.
      destruct r as [errno|].
      + rewrite call_of_failed. cbn [scan_step]. split; [|auto]. exact Hs.
      + split; [|auto]. exact Hs.
  Qed.

  (* ---- the two coarse stages: before publication / after publication ---- *)
  Variable new : bytes.

  Definition St_any : stage := fun s f sc =>
    base s f /\ sc_ok sc = true /\ sc_published sc = false.
  Definition St_post : stage := fun s f sc =>
    wf s /\ (exists p, f_dir s dest = Some p /\ i_vol (f_ino s p) = new /\ i_dur (f_ino s p) = new) /\
    f = FClosed /\ sc_ok sc = true /\ sc_published sc = true.
  Definition Safe : stage := fun s f sc => St_any s f sc \/ St_post s f sc.

  Lemma Hne : Nat.eqb part dest = false.
  Proof. apply Nat.eqb_neq. congruence. Qed.
  Lemma Hne' : Nat.eqb dest part = false.
  Proof. apply Nat.eqb_neq. congruence. Qed.

  (* events that never touch the destination: allowed at any time *)
  Definition weak (e : ev) : Prop :=
    match e with EUnlink n => n = part | EFlush | EFsync | EClose => True | _ => False end.

  Lemma any_stable : istable St_any.
  Proof. intros s f sc k cnt m (Hb & Ho & Hp) Hn Hin. split; [|auto]. eapply base_appear; eauto. Qed.

  Lemma post_stable : istable St_post.
  Proof. intros s f sc k cnt m (_ & (p & Hp & _) & _) Hn _. congruence. Qed.

  Lemma safe_stable : istable Safe.
  Proof. intros s f sc k cnt m [H|H] Hn Hin; [left; eapply any_stable|right; eapply post_stable]; eauto. Qed.

  Lemma base_close um s f :
    base s f -> base (snd (fst (sem um EClose s f))) (snd (sem um EClose s f)).
  Proof.
    intro Hb. destruct f as [|i buf|]; cbn; auto.
    pose proof Hb as (_ & _ & Hs).
    eapply base_file; [|exact I]. unfold set_vol. apply base_upd_ino; [exact Hb|apply Hs].
  Qed.

  Lemma any_fault um e s f sc :
    weak e -> St_any s f sc -> St_any (fst (after_fault um e s f)) (snd (after_fault um e s f)) sc.
  Proof.
    intros Hw (Hb & Ho & Hp). split; [|auto].
    destruct e; cbn in Hw; try contradiction; cbn [after_fault fst snd]; auto.
    pose proof (base_close um s f Hb) as H.
    destruct (sem um EClose s f) as [[r s'] f']. exact H.
  Qed.

  Lemma any_sem um e s f sc :
    weak e -> St_any s f sc ->
    match fst (fst (sem um e s f)) with
    | None => St_any (snd (fst (sem um e s f))) (snd (sem um e s f)) (scan_step dest sc (call_of (e, None)))
    | Some _ => St_any (snd (fst (sem um e s f))) (snd (sem um e s f)) sc
    end.
  Proof.
    intros Hw (Hb & Ho & Hp).
    destruct e; cbn in Hw; try contradiction.
    - subst n. cbn. destruct (f_dir s part) eqn:E; cbn.
      + split; [apply base_set_name; auto; discriminate|]. rewrite Ho, Hp, Hne. auto.
      + split; auto.
    - destruct f as [|i buf|]; cbn; try (split; auto; fail).
      split; [|auto]. unfold set_vol. eapply base_file.
      * apply base_upd_ino; [exact Hb|]. destruct Hb as (_ & _ & Hs). apply Hs.
      * destruct Hb as (_ & _ & Hs). exact Hs.
    - destruct f as [|i buf|]; cbn; try (split; auto; fail).
      split; [|auto]. unfold set_dur. apply base_upd_ino; [exact Hb|]. destruct Hb as (_ & _ & Hs). apply Hs.
    - pose proof (base_close um s f Hb) as H.
      assert (R : fst (fst (sem um EClose s f)) = None) by (destruct f; reflexivity).
      rewrite R. split; [exact H|]. cbn. auto.
  Qed.

  Lemma post_fault um e s f sc :
    weak e -> St_post s f sc -> St_post (fst (after_fault um e s f)) (snd (after_fault um e s f)) sc.
  Proof.
    intros Hw H. pose proof H as (Hwf & Hp & Hf & Ho & Hpu). subst f.
    destruct e; cbn in Hw; try contradiction; cbn; auto.
  Qed.

  Lemma post_sem um e s f sc :
    weak e -> St_post s f sc ->
    match fst (fst (sem um e s f)) with
    | None => St_post (snd (fst (sem um e s f))) (snd (sem um e s f)) (scan_step dest sc (call_of (e, None)))
    | Some _ => St_post (snd (fst (sem um e s f))) (snd (sem um e s f)) sc
    end.
  Proof.
    intros Hw H. pose proof H as (Hwf & (p & Hp & Hv & Hd) & Hf & Ho & Hpu). subst f.
    destruct e; cbn in Hw; try contradiction; cbn; auto.
    - subst n. destruct (f_dir s part) eqn:E; cbn; auto.
      split; [|split; [|split; [auto|]]].
      + intros x i. cbn. unfold upd. destruct (Nat.eqb x part); [discriminate|apply Hwf].
      + exists p. cbn. rewrite upd_neq by congruence. auto.
      + rewrite Ho, Hpu, Hne. auto.
  Qed.

  Lemma weak_safe e forced :
    weak e -> triple (L Safe) (prim_f e forced) (fun _ => L Safe) (fun _ => L Safe) (L Safe).
  Proof.
    intro Hw. apply prim_rule.
    - apply safe_stable.
    - intros um s f sc [H|H]; [left; apply any_fault|right; apply post_fault]; auto.
    - intros um s f sc [H|H].
      + pose proof (any_sem um e s f sc Hw H) as R. destruct (fst (fst (sem um e s f))); left; exact R.
      + pose proof (post_sem um e s f sc Hw H) as R. destruct (fst (fst (sem um e s f))); right; exact R.
  Qed.

  Lemma rm_part_safe :
    triple (L Safe) (rm_part_file c) (fun _ => L Safe) (fun _ => L Safe) (L Safe).
  Proof.
    unfold rm_part_file. destruct (c_rm_part_on_exc c).
    - eapply t_catch; [apply weak_safe; reflexivity|]. intro e. apply t_ret. auto.
    - apply t_ret. auto.
  Qed.

  (* ---- the fine stages of a save that is going through ---- *)
  Definition St_init : stage := fun s f sc => base s f /\ f = FNone /\ sc = scan0.

  Definition sc_writing (sc : scan) : Prop :=
    sc_ok sc = true /\ sc_file sc = Some part /\ sc_published sc = false.

  Definition St_open (acc : bytes) : stage := fun s f sc =>
    base s f /\
    (exists p buf, f = FOpen p buf /\ f_dir s part = Some p /\ i_vol (f_ino s p) ++ buf = acc) /\
    sc_writing sc /\ (sc_sync sc = Dirty \/ sc_sync sc = Flushed).
  Definition St_flushed (acc : bytes) : stage := fun s f sc =>
    base s f /\
    (exists p, f = FOpen p [] /\ f_dir s part = Some p /\ i_vol (f_ino s p) = acc) /\
    sc_writing sc /\ sc_sync sc = Flushed.
  Definition St_synced (acc : bytes) : stage := fun s f sc =>
    base s f /\
    (exists p, f = FOpen p [] /\ f_dir s part = Some p /\
               i_vol (f_ino s p) = acc /\ i_dur (f_ino s p) = acc) /\
    sc_writing sc /\ sc_sync sc = Synced.
  (* everything written, flushed, synced, closed; not yet visible *)
  Definition St_ready (acc : bytes) : stage := fun s f sc =>
    base s f /\ f = FClosed /\
    (exists p, f_dir s part = Some p /\ f_dir s dest <> Some p /\
               i_vol (f_ino s p) = acc /\ i_dur (f_ino s p) = acc) /\
    sc_writing sc /\ sc_sync sc = ClosedSynced.
  Definition St_done : stage := fun s f sc => St_post s f sc /\ f_dir s part = None.

  Lemma init_any s f sc : St_init s f sc -> St_any s f sc.
  Proof. intros (Hb & _ & ->). split; auto. Qed.
  Lemma open_any acc s f sc : St_open acc s f sc -> St_any s f sc.
  Proof. intros (Hb & _ & (A & _ & B) & _). split; auto. Qed.
  Lemma flushed_any acc s f sc : St_flushed acc s f sc -> St_any s f sc.
  Proof. intros (Hb & _ & (A & _ & B) & _). split; auto. Qed.
  Lemma synced_any acc s f sc : St_synced acc s f sc -> St_any s f sc.
  Proof. intros (Hb & _ & (A & _ & B) & _). split; auto. Qed.
  Lemma ready_any acc s f sc : St_ready acc s f sc -> St_any s f sc.
  Proof. intros (Hb & _ & _ & (A & _ & B) & _). split; auto. Qed.
  Lemma flushed_open acc s f sc : St_flushed acc s f sc -> St_open acc s f sc.
  Proof.
    intros (Hb & (p & Hf & Hp & Hv) & Hw & Hs). split; [auto|]. split; [|auto].
    exists p, []. rewrite app_nil_r. auto.
  Qed.

  Lemma create_dest_part s cnt d m p :
    wf s -> f_dir s part = Some p ->
    f_dir (fs_create s dest cnt d m) part = Some p /\ f_ino (fs_create s dest cnt d m) p = f_ino s p.
  Proof.
    intros Hwf Hp. cbn. split.
    - rewrite upd_neq by congruence. exact Hp.
    - apply Hwf in Hp. rewrite upd_neq by lia. reflexivity.
  Qed.

  Lemma init_stable : istable St_init.
  Proof. intros s f sc k cnt m (Hb & Hf) Hn Hin. split; [|auto]. eapply base_appear; eauto. Qed.

  Lemma open_stable acc : istable (St_open acc).
  Proof.
    intros s f sc k cnt m (Hb & (p & buf & Hf & Hp & Hv) & Hw) Hn Hin.
    split; [eapply base_appear; eauto|]. split; [|auto].
    destruct (create_dest_part s cnt true m p (proj1 Hb) Hp) as [A B].
    exists p, buf. rewrite A, B. auto.
  Qed.
  Lemma flushed_stable acc : istable (St_flushed acc).
  Proof.
    intros s f sc k cnt m (Hb & (p & Hf & Hp & Hv) & Hw) Hn Hin.
    split; [eapply base_appear; eauto|]. split; [|auto].
    destruct (create_dest_part s cnt true m p (proj1 Hb) Hp) as [A B].
    exists p. rewrite A, B. auto.
  Qed.
  Lemma synced_stable acc : istable (St_synced acc).
  Proof.
    intros s f sc k cnt m (Hb & (p & Hf & Hp & Hv) & Hw) Hn Hin.
    split; [eapply base_appear; eauto|]. split; [|auto].
    destruct (create_dest_part s cnt true m p (proj1 Hb) Hp) as [A B].
    exists p. rewrite A, B. auto.
  Qed.
  Lemma ready_stable acc : istable (St_ready acc).
  Proof.
    intros s f sc k cnt m (Hb & Hf & (p & Hp & Hd & Hv) & Hw) Hn Hin.
    split; [eapply base_appear; eauto|]. split; [auto|]. split; [|auto].
    destruct (create_dest_part s cnt true m p (proj1 Hb) Hp) as [A B].
    exists p. rewrite A, B. split; [auto|]. split; [|auto].
    cbn. rewrite upd_eq. apply (proj1 Hb) in Hp. intro H. inversion H. lia.
  Qed.

  Lemma any_after_fault um e s f sc :
    St_any s f sc -> St_any (fst (after_fault um e s f)) (snd (after_fault um e s f)) sc.
  Proof.
    intros (Hb & Ho). split; [|auto].
    destruct e; cbn [after_fault fst snd]; auto.
    - eapply base_file; [exact Hb|exact I].
    - pose proof (base_close um s f Hb) as H.
      destruct (sem um EClose s f) as [[r s'] f']. exact H.
  Qed.

  (* a primitive on the way to publication: from stage P to stage Q when it succeeds; any failure
     (injected or semantic) and any crash leave a Safe world *)
  Lemma prim_stage (P Q : stage) e forced :
    istable P -> (forall s f sc, P s f sc -> St_any s f sc) ->
    (forall um s f sc, P s f sc ->
        match fst (fst (sem um e s f)) with
        | None => Q (snd (fst (sem um e s f))) (snd (sem um e s f)) (scan_step dest sc (call_of (e, None)))
        | Some _ => St_any (snd (fst (sem um e s f))) (snd (sem um e s f)) sc
        end) ->
    triple (L P) (prim_f e forced) (fun _ => L Q) (fun _ => L Safe) (L Safe).
  Proof.
    intros Hst Hany Hsem.
    eapply t_conseq.
    - apply (prim_rule P Q St_any e forced Hst).
      + intros. apply any_after_fault. auto.
      + exact Hsem.
    - auto.
    - auto.
    - intros e0 w (H & R). split; [left; exact H|exact R].
    - intros w (H & R). split; [left; apply Hany; exact H|exact R].
  Qed.

  (* ---- the transitions ---- *)
  Definition sem_prem (P Q : stage) (e : ev) : Prop :=
    forall um s f sc, P s f sc ->
      match fst (fst (sem um e s f)) with
      | None => Q (snd (fst (sem um e s f))) (snd (sem um e s f)) (scan_step dest sc (call_of (e, None)))
      | Some _ => St_any (snd (fst (sem um e s f))) (snd (sem um e s f)) sc
      end.

  Lemma sem_unlink_init : sem_prem St_init St_init (EUnlink part).
  Proof.
    unfold sem_prem.
    intros um s f sc (Hb & Hf & Hsc). subst. cbn. destruct (f_dir s part) eqn:E; cbn.
    - split; [apply base_set_name; auto; discriminate|]. split; [auto|].
      unfold scan0. rewrite Hne. reflexivity.
    - apply init_any. split; auto.
  Qed.

  Lemma tr_unlink_init forced :
    triple (L St_init) (prim_f (EUnlink part) forced) (fun _ => L St_init) (fun _ => L Safe) (L Safe).
  Proof. apply prim_stage; [apply init_stable|apply init_any|apply sem_unlink_init]. Qed.

  Lemma sem_open perms : sem_prem St_init (St_open []) (EOpen part true perms).
  Proof.
    unfold sem_prem.
    intros um s f sc (Hb & Hf & Hsc). subst. cbn. destruct (f_dir s part) eqn:E; cbn.
    - apply init_any. split; auto.
    - split; [apply (base_create s FNone); auto|]. split.
      + exists (f_next s), []. unfold fs_create. cbn [f_dir f_ino]. rewrite !upd_eq. cbn. auto.
      + pose proof Hpd as Hpd'. unfold same_dir, Nat.ltb in Hpd'. cbn in Hpd'.
        unfold sc_writing. cbn. rewrite Hpd', Hne. cbn. auto.
  Qed.

  Lemma tr_open perms forced :
    triple (L St_init) (prim_f (EOpen part true perms) forced) (fun _ => L (St_open [])) (fun _ => L Safe) (L Safe).
  Proof. apply prim_stage; [apply init_stable|apply init_any|apply sem_open]. Qed.

  Lemma sem_fdopen acc : sem_prem (St_open acc) (St_open acc) EFdopen.
  Proof.
    unfold sem_prem.
    intros um s f sc H. cbn. exact H.
  Qed.

  Lemma tr_fdopen acc forced :
    triple (L (St_open acc)) (prim_f EFdopen forced) (fun _ => L (St_open acc)) (fun _ => L Safe) (L Safe).
  Proof. apply prim_stage; [apply open_stable|apply open_any|apply sem_fdopen]. Qed.

  Lemma sem_chmod acc perms : sem_prem (St_open acc) (St_open acc) (EChmod part perms).
  Proof.
    unfold sem_prem.
    intros um s f sc (Hb & (p & buf & Hf & Hp & Hv) & (Ho & Hfi & Hpu) & Hs). subst f. cbn. rewrite Hp. cbn.
    pose proof Hb as (_ & _ & (_ & Hsep)).
    split; [unfold set_mode; apply base_upd_ino; auto|]. split.
    - exists p, buf. fsimp; rewrite upd_eq. cbn. auto.
    - unfold sc_writing. cbn. rewrite Ho, Hne. auto.
  Qed.

  Lemma tr_chmod acc perms forced :
    triple (L (St_open acc)) (prim_f (EChmod part perms) forced) (fun _ => L (St_open acc)) (fun _ => L Safe) (L Safe).
  Proof. apply prim_stage; [apply open_stable|apply open_any|apply sem_chmod]. Qed.

  Lemma sem_write acc data disk : sem_prem (St_open acc) (St_open (acc ++ data)) (EWrite data disk).
  Proof.
    unfold sem_prem.
    intros um s f sc H. pose proof H as (Hb & (p & buf & Hf & Hp & Hv) & (Ho & Hfi & Hpu) & Hs). subst f. cbn.
    destruct ((blen (i_vol (f_ino s p)) <=? disk)%N && (disk <=? blen (i_vol (f_ino s p) ++ buf ++ data))%N); cbn.
    - pose proof Hb as (_ & _ & (Hlt & Hsep)).
      split; [|split].
      + eapply base_file; [unfold set_vol; apply base_upd_ino; eauto|]. cbn. auto.
      + eexists p, _. split; [reflexivity|]. split; [exact Hp|]. fsimp; rewrite upd_eq. cbn.
        rewrite firstn_skipn. rewrite <- Hv. now rewrite app_assoc.
      + unfold sc_writing. cbn. rewrite Ho. destruct Hs as [-> | ->]; auto.
    - apply (open_any acc). exact H.
  Qed.

  Lemma tr_write acc data disk forced :
    triple (L (St_open acc)) (prim_f (EWrite data disk) forced) (fun _ => L (St_open (acc ++ data))) (fun _ => L Safe) (L Safe).
  Proof. apply prim_stage; [apply open_stable|apply (open_any acc)|apply sem_write]. Qed.

  Lemma sem_flush acc : sem_prem (St_open acc) (St_flushed acc) EFlush.
  Proof.
    unfold sem_prem.
    intros um s f sc (Hb & (p & buf & Hf & Hp & Hv) & (Ho & Hfi & Hpu) & Hs). subst f. cbn.
    pose proof Hb as (_ & _ & (Hlt & Hsep)).
    split; [|split].
    - eapply base_file; [unfold set_vol; apply base_upd_ino; eauto|]. cbn. auto.
    - exists p. fsimp; rewrite upd_eq. cbn. auto.
    - unfold sc_writing. cbn. destruct Hs as [-> | ->]; auto.
  Qed.

  Lemma tr_flush acc forced :
    triple (L (St_open acc)) (prim_f EFlush forced) (fun _ => L (St_flushed acc)) (fun _ => L Safe) (L Safe).
  Proof. apply prim_stage; [apply open_stable|apply open_any|apply sem_flush]. Qed.

  Lemma sem_fsync acc : sem_prem (St_flushed acc) (St_synced acc) EFsync.
  Proof.
    unfold sem_prem.
    intros um s f sc (Hb & (p & Hf & Hp & Hv) & (Ho & Hfi & Hpu) & Hs). subst f. cbn.
    pose proof Hb as (_ & _ & (Hlt & Hsep)).
    split; [|split].
    - unfold set_dur; apply base_upd_ino; eauto.
    - exists p. fsimp; rewrite upd_eq. cbn. auto.
    - unfold sc_writing. cbn. rewrite Hs. auto.
  Qed.

  Lemma tr_fsync acc forced :
    triple (L (St_flushed acc)) (prim_f EFsync forced) (fun _ => L (St_synced acc)) (fun _ => L Safe) (L Safe).
  Proof. apply prim_stage; [apply flushed_stable|apply flushed_any|apply sem_fsync]. Qed.

  Lemma sem_close acc : sem_prem (St_synced acc) (St_ready acc) EClose.
  Proof.
    unfold sem_prem.
    intros um s f sc (Hb & (p & Hf & Hp & Hv & Hd) & (Ho & Hfi & Hpu) & Hs). subst f. cbn.
    pose proof Hb as (_ & _ & (Hlt & Hsep)).
    split; [|split; [reflexivity|split]].
    - eapply base_file; [unfold set_vol; apply base_upd_ino; eauto|]. exact I.
    - exists p. fsimp; rewrite upd_eq. cbn. rewrite app_nil_r. auto.
    - unfold sc_writing. cbn. rewrite Hs. auto.
  Qed.

  Lemma tr_close acc forced :
    triple (L (St_synced acc)) (prim_f EClose forced) (fun _ => L (St_ready acc)) (fun _ => L Safe) (L Safe).
  Proof. apply prim_stage; [apply synced_stable|apply synced_any|apply sem_close]. Qed.

  Lemma sem_rename : sem_prem (St_ready new) St_done (ERename part dest).
  Proof.
    unfold sem_prem.
    intros um s f sc (Hb & Hf & (p & Hp & Hnd & Hv & Hd) & (Ho & Hfi & Hpu) & Hs). subst f. cbn.
    rewrite Hp, Hne. cbn.
    split; [split; [|split; [|split; [reflexivity|]]]|].
    - intros x i. cbn. unfold upd. destruct (Nat.eqb x part); [discriminate|].
      destruct (Nat.eqb x dest); [intro H; inversion H; subst; apply (proj1 Hb) in Hp; exact Hp|apply (proj1 Hb)].
    - exists p. cbn. fsimp; rewrite upd_neq by congruence. fsimp; rewrite upd_eq. auto.
    - rewrite Nat.eqb_refl, Ho, Hpu, Hfi, Hs, Nat.eqb_refl. auto.
    - cbn. fsimp; apply upd_eq.
  Qed.

  Lemma tr_rename forced :
    triple (L (St_ready new)) (prim_f (ERename part dest) forced) (fun _ => L St_done) (fun _ => L Safe) (L Safe).
  Proof. apply prim_stage; [apply ready_stable|apply ready_any|apply sem_rename]. Qed.

  Lemma sem_link : sem_prem (St_ready new) St_post (ELink part dest).
  Proof.
    unfold sem_prem.
    intros um s f sc H. pose proof H as (Hb & Hf & (p & Hp & Hnd & Hv & Hd) & (Ho & Hfi & Hpu) & Hs). subst f. cbn.
    rewrite Hp. destruct (f_dir s dest) eqn:Ed; cbn.
    - eapply ready_any. exact H.
    - split; [|split; [|split; [reflexivity|]]].
      + intros x i. cbn. unfold upd.
        destruct (Nat.eqb x dest); [intro H'; inversion H'; subst; apply (proj1 Hb) in Hp; exact Hp|apply (proj1 Hb)].
      + exists p. cbn. fsimp; rewrite upd_eq. auto.
      + rewrite Nat.eqb_refl, Ho, Hpu, Hfi, Hs, Nat.eqb_refl. auto.
  Qed.

  Lemma tr_link forced :
    triple (L (St_ready new)) (prim_f (ELink part dest) forced) (fun _ => L St_post) (fun _ => L Safe) (L Safe).
  Proof. apply prim_stage; [apply ready_stable|apply ready_any|apply sem_link]. Qed.

  Lemma tr_unlink_post forced :
    triple (L St_post) (prim_f (EUnlink part) forced) (fun _ => L St_done) (fun _ => L Safe) (L Safe).
  Proof.
    eapply t_conseq.
    - apply (prim_rule St_post St_done St_post (EUnlink part) forced post_stable).
      + intros. apply post_fault; [reflexivity|auto].
      + intros um s f sc H. pose proof (post_sem um (EUnlink part) s f sc eq_refl H) as R.
        pose proof H as (Hwf & Hpp & Hf & Ho & Hpu). subst f.
        cbn in *. destruct (f_dir s part) eqn:E; cbn in *; auto.
        split; [exact R|]. fsimp; apply upd_eq.
    - auto.
    - auto.
    - intros e0 w (H & R). split; [right; exact H|exact R].
    - intros w (H & R). split; [right; exact H|exact R].
  Qed.

  (* ---- the program ---- *)
  Lemma t_getfile {A} (k : fstate -> M A) (P : world -> Prop) (Q : A -> world -> Prop)
        (E : exn -> world -> Prop) (C : world -> Prop) :
    (forall f, triple (fun w => P w /\ w_file w = f) (k f) Q E C) ->
    triple P (bind get_file k) Q E C.
  Proof. intros H w Hw. unfold bind, get_file. apply (H (w_file w) w). auto. Qed.

  Definition QS : unit -> world -> Prop := fun _ => L Safe.
  Definition ES : exn -> world -> Prop := fun _ => L Safe.

  Lemma any_safe w : L St_any w -> L Safe w.
  Proof. intros (H & R). split; [left; exact H|exact R]. Qed.
  Lemma init_safe w : L St_init w -> L Safe w.
  Proof. intros (H & R). apply any_safe. split; [apply init_any; exact H|exact R]. Qed.
  Lemma open_safe acc w : L (St_open acc) w -> L Safe w.
  Proof. intros (H & R). apply any_safe. split; [eapply open_any; exact H|exact R]. Qed.
  Lemma ready_safe acc w : L (St_ready acc) w -> L Safe w.
  Proof. intros (H & R). apply any_safe. split; [eapply ready_any; exact H|exact R]. Qed.
  Lemma post_safe w : L St_post w -> L Safe w.
  Proof. intros (H & R). split; [right; exact H|exact R]. Qed.
  Lemma done_safe w : L St_done w -> L Safe w.
  Proof. intros ((H & _) & R). split; [right; exact H|exact R]. Qed.

  (* a handler made of clean-up only, ending in a raise *)
  Lemma cleanup_raise {A} e (Q : A -> world -> Prop) :
    triple (L Safe) (rm_part_file c ;;; raise e) Q ES (L Safe).
  Proof.
    eapply t_bind with (Q := QS); [apply rm_part_safe|].
    intros ?; cbv beta. apply t_raise. auto.
  Qed.

  Lemma open_part_ok :
    triple (L St_init) (open_part_file c) (fun _ => L (St_open [])) ES (L Safe).
  Proof.
    unfold open_part_file.
    eapply t_bind with (Q := fun _ => L St_init).
    - destruct (c_file_perms c).
      + apply t_ret. auto.
      + eapply t_bind with (Q := fun _ => L St_init); [apply t_read; auto|].
        intro st. apply t_ret. auto.
    - intros [perms do_chmod].
      eapply t_bind; [apply tr_open|]. intros ?; cbv beta.
      eapply t_bind with (Q := fun _ => L (St_open [])).
      + eapply t_catch; [apply tr_fdopen|]. intro e. apply cleanup_raise.
      + intros ?; cbv beta. destruct do_chmod; [|apply t_ret; auto].
        eapply t_catch; [apply tr_chmod|]. intro e.
        eapply t_bind with (Q := QS).
        * eapply t_catch; [apply weak_safe; exact I|]. intro e2. apply cleanup_raise.
        * intros ?; cbv beta. apply cleanup_raise.
  Qed.

  Lemma setup_ok :
    triple (L St_init) (setup c) (fun _ => L (St_open [])) ES (L Safe).
  Proof.
    unfold setup.
    eapply t_bind with (Q := fun _ => L St_init); [apply t_read; auto|]. intro de.
    destruct (de && negb (c_overwrite c)).
    - apply t_raise. intros w H. apply init_safe. exact H.
    - eapply t_bind with (Q := fun _ => L St_init); [apply t_read; auto|]. intro pe.
      eapply t_bind with (Q := fun _ => L St_init).
      + destruct (c_overwrite_part c && pe); [apply tr_unlink_init|apply t_ret; auto].
      + intros ?; cbv beta. apply open_part_ok.
  Qed.

  (* ---- a body that closes the file it was given: nothing can be published any more ---- *)
  Definition St_bclosed : stage := fun s f sc => St_any s f sc /\ f = FClosed.

  Lemma bclosed_any s f sc : St_bclosed s f sc -> St_any s f sc.
  Proof. intros (H & _). exact H. Qed.
  Lemma bclosed_stable : istable St_bclosed.
  Proof. intros s f sc k cnt m (H & Hf) Hn Hin. split; [eapply any_stable; eauto|exact Hf]. Qed.
  Lemma bclosed_safe w : L St_bclosed w -> L Safe w.
  Proof. intros ((H & _) & R). apply any_safe. split; [exact H|exact R]. Qed.

  Definition closed_ev (e : ev) : Prop :=
    match e with EWrite _ _ | EFlush | EFsync | EClose => True | _ => False end.

  Lemma sem_closed e : closed_ev e -> sem_prem St_bclosed St_bclosed e.
  Proof.
    intros He um s f sc (Ha & ->). destruct e; cbn in He; try contradiction; cbn.
    - exact Ha.
    - exact Ha.
    - exact Ha.
    - split; [|reflexivity]. destruct Ha as (Hb & Ho & Hp). split; [exact Hb|]. cbn. auto.
  Qed.

  Lemma tr_closed e forced :
    closed_ev e -> triple (L St_bclosed) (prim_f e forced) (fun _ => L St_bclosed) (fun _ => L Safe) (L Safe).
  Proof. intro He. apply prim_stage; [apply bclosed_stable|apply bclosed_any|apply sem_closed; exact He]. Qed.

  Lemma sem_bclose acc : sem_prem (St_open acc) St_bclosed EClose.
  Proof.
    unfold sem_prem.
    intros um s f sc (Hb & (p & buf & Hf & Hp & Hv) & (Ho & Hfi & Hpu) & Hs). subst f. cbn.
    pose proof Hb as (_ & _ & (Hlt & Hsep)).
    split; [|reflexivity]. split; [|cbn; auto].
    eapply base_file; [unfold set_vol; apply base_upd_ino; eauto|]. exact I.
  Qed.

  Lemma tr_bclose acc forced :
    triple (L (St_open acc)) (prim_f EClose forced) (fun _ => L St_bclosed) (fun _ => L Safe) (L Safe).
  Proof. apply prim_stage; [apply open_stable|apply open_any|apply sem_bclose]. Qed.

  Lemma run_body_closed ops :
    triple (L St_bclosed) (run_body ops) (fun _ => L St_bclosed) ES (L Safe).
  Proof.
    induction ops as [|o r IH]; cbn [run_body]; [apply t_ret; auto|].
    destruct o; (eapply t_bind; [apply tr_closed; exact I|]; intros ?; cbv beta; exact IH).
  Qed.

  (* after the body: still writing (everything written so far accounted for), or closed by the body *)
  Definition BodyPost (acc : bytes) : unit -> world -> Prop :=
    fun _ w => L (St_open acc) w \/ L St_bclosed w.

  Lemma run_body_ok ops : forall acc,
    triple (L (St_open acc)) (run_body ops) (BodyPost (acc ++ new_content ops)) ES (L Safe).
  Proof.
    induction ops as [|o r IH]; intro acc; cbn [run_body].
    - apply t_ret. intros w H. left. cbn. rewrite app_nil_r. exact H.
    - destruct o as [d k| |].
      + eapply t_bind; [apply tr_write|]. intros ?; cbv beta.
        eapply t_conseq; [apply (IH (acc ++ d))|idc| |idc|idc].
        intros ? w H. unfold BodyPost in *. cbn [new_content flat_map]. fold (new_content r). rewrite app_assoc. exact H.
      + eapply t_bind with (Q := fun _ => L (St_open acc)).
        * eapply t_conseq; [apply tr_flush|idc| |idc|idc].
          intros ? w (H & R). split; [apply flushed_open; exact H|exact R].
        * intros ?; cbv beta. eapply t_conseq; [apply (IH acc)|idc| |idc|idc].
          intros ? w H. unfold BodyPost in *. cbn [new_content flat_map]. exact H.
      + eapply t_bind; [apply tr_bclose|]. intros ?; cbv beta.
        eapply t_conseq; [apply (run_body_closed r)|idc| |idc|idc].
        intros ? w H. right. exact H.
  Qed.

  Lemma body_ok ops raises :
    triple (L (St_open [])) (body ops raises) (BodyPost (new_content ops)) ES (L Safe).
  Proof.
    unfold body. eapply t_bind; [apply (run_body_ok ops [])|]. intros ?; cbv beta.
    destruct raises.
    - apply t_raise. intros w [H|H]; [eapply open_safe; exact H|apply bclosed_safe; exact H].
    - apply t_ret. auto.
  Qed.

  Lemma sync_handler e (Q : unit -> world -> Prop) :
    triple (L Safe) (catch (prim EClose) (fun _ => ret tt) ;;; rm_part_file c ;;; raise e) Q ES (L Safe).
  Proof.
    eapply t_bind with (Q := QS).
    - eapply t_catch; [apply weak_safe; exact I|]. intro e2. apply t_ret. auto.
    - intros ?; cbv beta. apply cleanup_raise.
  Qed.

  Lemma exit_true_ok :
    triple (L Safe) (exit_ c true) QS ES (L Safe).
  Proof.
    unfold exit_. apply t_getfile. intro f.
    eapply t_bind with (Q := QS).
    - eapply t_conseq with (P' := L Safe) (Q' := QS) (E' := ES) (C' := L Safe); auto; [|tauto].
      assert (H : triple (L Safe)
                    (catch (prim EFlush;;; prim EFsync;;; prim EClose)
                           (fun e => catch (prim EClose) (fun _ => ret tt);;; rm_part_file c;;; raise e))
                    QS ES (L Safe)).
      { eapply t_catch; [|intro e; apply sync_handler].
        eapply t_bind with (Q := QS); [apply weak_safe; exact I|]. intros ?; cbv beta.
        eapply t_bind with (Q := QS); [apply weak_safe; exact I|]. intros ?; cbv beta.
        apply weak_safe; exact I. }
      destruct f; [apply t_ret; auto|exact H|exact H].
    - intros ?; cbv beta. apply rm_part_safe.
  Qed.

  Lemma atomic_rename_ok :
    triple (L (St_ready new)) (atomic_rename c) (fun _ => L St_done) ES (L Safe).
  Proof.
    unfold atomic_rename. destruct (c_overwrite c).
    - apply tr_rename.
    - eapply t_bind; [apply tr_link|]. intros ?; cbv beta. apply tr_unlink_post.
  Qed.

  Lemma exit_false_ok :
    triple (L (St_open new)) (exit_ c false) (fun _ => L St_done) ES (L Safe).
  Proof.
    unfold exit_. apply t_getfile. intro f.
    eapply t_bind with (Q := fun _ => L (St_ready new)).
    - assert (H : triple (L (St_open new))
                    (catch (prim EFlush;;; prim EFsync;;; prim EClose)
                           (fun e => catch (prim EClose) (fun _ => ret tt);;; rm_part_file c;;; raise e))
                    (fun _ => L (St_ready new)) ES (L Safe)).
      { eapply t_catch with (E' := ES); [|intro e; apply sync_handler].
        eapply t_bind; [apply tr_flush|]. intros ?; cbv beta.
        eapply t_bind; [apply tr_fsync|]. intros ?; cbv beta.
        apply tr_close. }
      destruct f.
      + eapply t_conseq; [apply (t_false (ret tt) (fun _ => L (St_ready new)) ES (L Safe))| |idc|idc|idc].
        intros w ((( _ & (p & buf & Hf & _) & _) & _) & Hfile). congruence.
      + eapply t_conseq; [exact H|tauto|auto|auto|auto].
      + eapply t_conseq; [exact H|tauto|auto|auto|auto].
    - intros ?; cbv beta. eapply t_catch; [apply atomic_rename_ok|]. intro e.
      apply cleanup_raise.
  Qed.

  (* the body closed the file: the flush in __exit__ fails (ValueError), the handler cleans up *)
  Lemma exit_false_closed :
    triple (L St_bclosed) (exit_ c false) (fun _ => L St_done) ES (L Safe).
  Proof.
    unfold exit_. apply t_getfile. intro f.
    eapply t_bind with (Q := fun _ _ => False).
    - assert (H : triple (L St_bclosed)
                    (catch (prim EFlush;;; prim EFsync;;; prim EClose)
                           (fun e => catch (prim EClose) (fun _ => ret tt);;; rm_part_file c;;; raise e))
                    (fun _ _ => False) ES (L Safe)).
      { eapply t_catch with (E' := ES); [|intro e; apply sync_handler].
        eapply t_bind with (Q := fun _ _ => False); [|intros ?; cbv beta; apply t_false].
        eapply t_conseq.
        - apply (prim_rule St_bclosed (fun _ _ _ => False) St_any EFlush None bclosed_stable).
          + intros um s f0 sc H. apply any_after_fault. apply bclosed_any. exact H.
          + intros um s f0 sc (Ha & ->). cbn. exact Ha.
        - idc.
        - intros ? w (H & _). exact H.
        - intros e w H. apply any_safe. exact H.
        - intros w H. apply bclosed_safe. exact H. }
      destruct f.
      + eapply t_conseq; [apply (t_false (ret tt) (fun _ _ => False) ES (L Safe))| |idc|idc|idc].
        intros w (((_ & Hf) & _) & Hfile). congruence.
      + eapply t_conseq; [exact H|tauto|idc|idc|idc].
      + eapply t_conseq; [exact H|tauto|idc|idc|idc].
    - intros ?; cbv beta. apply t_false.
  Qed.

  Lemma save_ok ops raises :
    new = new_content ops ->
    triple (L St_init) (save c ops raises) (fun _ => L St_done) ES (L Safe).
  Proof.
    intro Hn. unfold save. eapply t_bind; [apply setup_ok|]. intros ?; cbv beta.
    intros w Hw. pose proof (body_ok ops raises w Hw) as Hb.
    destruct (body ops raises w) as [[x|e|] w'].
    - destruct Hb as [Hb|Hb].
      + apply exit_false_ok. rewrite Hn. exact Hb.
      + apply exit_false_closed. exact Hb.
    - assert (T : triple (L Safe) (exit_ c true ;;; raise e) (fun _ : unit => L St_done) ES (L Safe)).
      { eapply t_bind with (Q := QS); [apply exit_true_ok|]. intros ?; cbv beta. apply t_raise. auto. }
      apply T. exact Hb.
    - exact Hb.
  Qed.

  (* ---- what Safe means for an observer ---- *)
  Lemma ocontent_refl x : ocontent_eqb x x = true.
  Proof.
    destruct x as [l|]; cbn; auto. induction l; cbn; auto. rewrite N.eqb_refl. auto.
  Qed.

  Definition view_ok (view : inode -> bytes) (s : fs) : Prop :=
    dest_ok (option_map (fun i => view (f_ino s0 i)) (f_dir s0 dest) :: appear_contents sched) new
            (option_map (fun i => view (f_ino s i)) (f_dir s dest)) = true.

  Lemma appeared_in x view :
    (view = i_vol \/ view = i_dur) -> appeared x -> existsb (ocontent_eqb (Some (view x))) (appear_contents sched) = true.
  Proof.
    intros Hv (k & cnt & m & Hin & ->). apply existsb_exists. exists (Some cnt). split.
    - unfold appear_contents. apply in_flat_map. exists (k, AAppear cnt m). split; [exact Hin|]. cbn. auto.
    - destruct Hv as [-> | ->]; apply ocontent_refl.
  Qed.

  Lemma safe_view view s f sc :
    (view = i_vol \/ view = i_dur) -> Safe s f sc -> view_ok view s.
  Proof.
    intros Hv [((_ & Hold & _) & _) | (_ & (p & Hp & Hvol & Hdur) & _)]; unfold view_ok, dest_ok.
    - unfold dest_old in Hold. destruct (f_dir s dest) as [j|] eqn:Ej.
      + destruct Hold as [(H0 & Hi) | (H0 & Ha)].
        * rewrite H0. cbn [option_map existsb]. rewrite Hi, ocontent_refl. reflexivity.
        * cbn [option_map existsb]. rewrite (appeared_in _ view Hv Ha). now rewrite orb_true_r.
      + rewrite Hold. cbn. reflexivity.
    - rewrite Hp. cbn [option_map]. destruct Hv as [-> | ->]; [rewrite Hvol|rewrite Hdur];
        rewrite ocontent_refl; apply orb_true_r.
  Qed.

  Lemma safe_calls s f sc : Safe s f sc -> sc_ok sc = true.
  Proof. intros [(_ & H & _) | (_ & _ & _ & H & _)]; exact H. Qed.

  Lemma init_holds umask crash :
    wf s0 -> L St_init (init_world s0 umask dest crash sched).
  Proof.
    intro Hwf. split; [|auto]. split; [|auto]. split; [exact Hwf|]. split; [|exact I].
    unfold dest_old. cbn. destruct (f_dir s0 dest); auto.
  Qed.

End Inv.

(* ---- the statements about whole runs ---- *)
Lemma run_safe c ops raises s0 umask crash sched :
  c_dest c <> c_part c -> same_dir (c_part c) = true -> wf s0 ->
  let r := run_save c ops raises s0 umask crash sched in
  L c sched (Safe c s0 sched (new_content ops)) (snd r) /\
  (forall x, fst r = Val x -> L c sched (St_done c (new_content ops)) (snd r)).
Proof.
  intros Hdp Hpd Hwf r. unfold r, run_save.
  pose proof (save_ok c s0 sched Hdp Hpd (new_content ops) ops raises eq_refl
                      (init_world s0 umask (c_dest c) crash sched)
                      (init_holds c s0 sched umask crash Hwf)) as H.
  destruct (save c ops raises (init_world s0 umask (c_dest c) crash sched)) as [[x|e|] w]; cbn [fst snd].
  - split; [apply (done_safe c s0 sched); exact H|]. intros; exact H.
  - split; [exact H|]. discriminate.
  - split; [exact H|]. discriminate.
Qed.

Lemma wf_fs_of_list l : wf (fs_of_list l).
Proof.
  induction l as [|[n [cnt m]] r IH]; cbn [fs_of_list].
  - intros n i. cbn. discriminate.
  - intros x i. unfold fs_create. cbn [f_dir f_next]. unfold upd. destruct (Nat.eqb x n).
    + intro H; inversion H; lia.
    + intro H. apply IH in H. lia.
Qed.

Definition completed (o : outcome unit) : bool := match o with Val _ => true | _ => false end.

Lemma crash_safe_lemma c ops raises s0 umask crash sched o w :
  c_dest c <> c_part c -> same_dir (c_part c) = true -> wf s0 ->
  run_save c ops raises s0 umask crash sched = (o, w) ->
  dest_ok (content_kill s0 (c_dest c) :: appear_contents sched) (new_content ops)
          (content_kill (w_fs w) (c_dest c)) = true /\
  dest_ok (content_power s0 (c_dest c) :: appear_contents sched) (new_content ops)
          (content_power (w_fs w) (c_dest c)) = true.
Proof.
  intros Hdp Hpd Hwf Hr.
  destruct (run_safe c ops raises s0 umask crash sched Hdp Hpd Hwf) as [(Hs & _) _].
  rewrite Hr in Hs. cbn [snd] in Hs. split.
  - pose proof (safe_view c s0 sched (new_content ops) i_vol _ _ _ (or_introl eq_refl) Hs) as V.
    unfold view_ok in V. unfold content_kill.
    destruct (f_dir s0 (c_dest c)); destruct (f_dir (w_fs w) (c_dest c)); exact V.
  - pose proof (safe_view c s0 sched (new_content ops) i_dur _ _ _ (or_intror eq_refl) Hs) as V.
    unfold view_ok in V. unfold content_power.
    destruct (f_dir s0 (c_dest c)); destruct (f_dir (w_fs w) (c_dest c)); exact V.
Qed.

Lemma calls_lemma c ops raises s0 umask crash sched o w :
  c_dest c <> c_part c -> same_dir (c_part c) = true -> wf s0 ->
  run_save c ops raises s0 umask crash sched = (o, w) ->
  calls_ok (c_dest c) (map call_of (rev (w_trace w))) (completed o) = true.
Proof.
  intros Hdp Hpd Hwf Hr.
  destruct (run_safe c ops raises s0 umask crash sched Hdp Hpd Hwf) as [(Hs & _) Hd].
  rewrite Hr in Hs, Hd. cbn [fst snd] in Hs, Hd.
  unfold calls_ok. rewrite scan_of_rev. fold (scan_tr c (w_trace w)). fold (scan_of c w).
  rewrite (safe_calls c s0 sched (new_content ops) _ _ _ Hs). cbn [andb].
  destruct o as [x|e|]; cbn [completed negb orb]; auto.
  destruct (Hd x eq_refl) as (((_ & _ & _ & _ & Hp) & _) & _). exact Hp.
Qed.

Lemma normal_exit_lemma c ops raises s0 umask crash sched x w :
  c_dest c <> c_part c -> same_dir (c_part c) = true -> wf s0 ->
  run_save c ops raises s0 umask crash sched = (Val x, w) ->
  normal_exit_ok (new_content ops) (content_kill (w_fs w) (c_dest c))
                 (match f_dir (w_fs w) (c_part c) with Some _ => true | None => false end) = true /\
  content_power (w_fs w) (c_dest c) = Some (new_content ops).
Proof.
  intros Hdp Hpd Hwf Hr.
  destruct (run_safe c ops raises s0 umask crash sched Hdp Hpd Hwf) as [_ Hd].
  rewrite Hr in Hd. cbn [fst snd] in Hd.
  destruct (Hd x eq_refl) as (((_ & (p & Hp & Hv & Hdu) & _) & Hpart) & _).
  unfold normal_exit_ok, content_kill, content_power. rewrite Hp, Hpart, Hv, Hdu.
  rewrite ocontent_refl. auto.
Qed.
