(* Sanity laws of the C01 reference (Spec/C01_Spec.v), for ALL operations:
   (1) FRAME: an operation never alters or reorders the pairs of keys it does not mention;
   (2) what each single-key operation does to the value list of its key. *)
From Boltons Require Import Lib.Prelude Spec.C01_Spec Proofs.C01_Base Proofs.C01_SpecProps.

(* the keys an operation mentions (for operations that replace the whole object: every key involved) *)
Definition arg_keys (self other : pairs) (a : arg) : list K :=
  match a with
  | APairs l => map fst l | AMap m => map fst m | AOther => map fst other | ASelf => map fst self
  end.

Definition touched (self other : pairs) (o : op) : list K :=
  match o with
  | Add k _ | AddList k _ | SetItem k _ | DelItem k | SetDefault k _ | Pop k _ | PopAll k _ => [k]
  | PopLast (Some k) _ => [k]
  | PopLast None _ | PopItem => match rev self with [] => [] | (k, _) :: _ => [k] end
  | Update a kw | UpdateExtend a kw => arg_keys self other a ++ map fst kw
  | IOr a => arg_keys self other a
  | UpdateBad l _ | UpdateExtendBad l _ => map fst l
  | Clear => map fst self
  | New _ _ | FromKeys _ _ | CopyOther _ | CopyCyc _ _ =>
      map fst self ++ map fst (fst (spec_step self other o))
  | _ => []
  end.

(* ---- helpers about remove_keys ----------------------------------------------------------- *)
Lemma rk_app l l' ks : remove_keys (l ++ l') ks = remove_keys l ks ++ remove_keys l' ks.
Proof. unfold remove_keys. apply filter_app. Qed.

Lemma rk_all_in l ks : incl (map fst l) ks -> remove_keys l ks = [].
Proof.
  intro H. unfold remove_keys. apply filter_none. intros p Hp.
  apply negb_false_iff. apply mem_nat_In. apply H. apply in_map. exact Hp.
Qed.

Lemma rk_app_in l l' ks : incl (map fst l') ks -> remove_keys (l ++ l') ks = remove_keys l ks.
Proof. intro H. rewrite rk_app, (rk_all_in l' ks H). apply app_nil_r. Qed.

Lemma rk_rk l ks' ks : incl ks' ks -> remove_keys (remove_keys l ks') ks = remove_keys l ks.
Proof.
  intro H. unfold remove_keys. rewrite filter_filter. apply filter_ext. intro p.
  destruct (mem_nat (fst p) ks') eqn:E; simpl; [|reflexivity].
  apply mem_nat_In in E. apply H in E. apply mem_nat_In in E. rewrite E. reflexivity.
Qed.

Lemma incl_single (k : K) ks : In k ks -> incl [k] ks.
Proof. intros H x [<-|[]]. exact H. Qed.

Lemma rk_remove_key l k ks : In k ks -> remove_keys (remove_key l k) ks = remove_keys l ks.
Proof. intro H. rewrite <- remove_keys_single. apply rk_rk. apply incl_single, H. Qed.

Lemma rk_replace_with l new ks :
  incl (map fst new) ks -> remove_keys (replace_with l new) ks = remove_keys l ks.
Proof. intro H. unfold replace_with. rewrite (rk_app_in _ _ _ H). apply rk_rk. exact H. Qed.

Lemma rk_remove_last_of l k ks : In k ks -> remove_keys (remove_last_of l k) ks = remove_keys l ks.
Proof.
  intro H. induction l as [|p r IH]; [reflexivity|]. cbn [remove_last_of].
  destruct (keyb k p && negb (has_key r k)) eqn:E.
  - apply andb_true_iff in E as [E _]. unfold keyb in E. apply Nat.eqb_eq in E.
    destruct p as [a b]. cbn [fst] in E. subst a.
    unfold remove_keys. cbn [filter fst]. apply mem_nat_In in H. rewrite H. reflexivity.
  - unfold remove_keys in *. cbn [filter]. rewrite IH. reflexivity.
Qed.

Lemma In_self (k : K) : In k [k].
Proof. left. reflexivity. Qed.

Lemma rev_cons_inv {A} (l : list A) x r : rev l = x :: r -> l = rev r ++ [x].
Proof. intro E. rewrite <- (rev_involutive l), E. reflexivity. Qed.

Lemma ext_arg_keys self other a : incl (map fst (ext_arg self other a)) (arg_keys self other a).
Proof.
  destruct a; simpl; try apply incl_refl.
  rewrite items1_keys. intros x Hx. apply keys1_In. exact Hx.
Qed.

Lemma rk_update_arg self other a ks : incl (arg_keys self other a) ks ->
  remove_keys match a with
              | ASelf => self
              | APairs l => replace_with self l
              | AMap m => replace_with self m
              | AOther => replace_with self other
              end ks = remove_keys self ks.
Proof. intro H. destruct a; simpl in H; try reflexivity; apply rk_replace_with; exact H. Qed.

(* (1) frame: restricted to the keys it does not mention, the list is unchanged - same pairs, same order *)
Theorem spec_frame : forall self other o,
  remove_keys (fst (spec_step self other o)) (touched self other o)
  = remove_keys self (touched self other o).
Proof.
  intros self other o. destruct o; try reflexivity.
  - (* Add *) simpl. apply rk_app_in. apply incl_refl.
  - (* AddList *) simpl. apply rk_app_in. intros x Hx. rewrite map_map in Hx.
    apply in_map_iff in Hx as [y [<- _]]. apply In_self.
  - (* SetItem *) simpl. rewrite rk_app_in by apply incl_refl. apply rk_remove_key, In_self.
  - (* DelItem *) unfold spec_step, touched. destruct (has_key self k); cbn [fst]; [|reflexivity].
    apply rk_remove_key, In_self.
  - (* Update *) unfold spec_step, spec_update, touched. cbn [fst].
    rewrite rk_replace_with by (apply incl_appr, incl_refl).
    apply rk_update_arg. apply incl_appl, incl_refl.
  - (* UpdateExtend *) unfold spec_step, touched. cbn [fst]. apply rk_app_in.
    rewrite map_app. apply incl_app; [apply incl_appl, ext_arg_keys | apply incl_appr, incl_refl].
  - (* IOr *) unfold spec_step, spec_update, touched. cbn [fst].
    rewrite rk_replace_with by (intros x []).
    apply rk_update_arg. apply incl_refl.
  - (* SetDefault *) unfold spec_step, touched. destruct (has_key self k); cbn [fst]; [reflexivity|].
    apply rk_app_in. apply incl_refl.
  - (* Pop *) unfold spec_step, touched. destruct (has_key self k); cbn [fst]; [|reflexivity].
    apply rk_remove_key, In_self.
  - (* PopAll *) unfold spec_step, touched. destruct (has_key self k); cbn [fst]; [|reflexivity].
    apply rk_remove_key, In_self.
  - (* PopLast *) destruct k as [k|].
    + unfold spec_step, touched. destruct (has_key self k); cbn [fst]; [|reflexivity].
      apply rk_remove_last_of, In_self.
    + unfold spec_step, touched. destruct (rev self) as [|[k v] r] eqn:E; cbn [fst]; [reflexivity|].
      apply rev_cons_inv in E. rewrite E. symmetry. apply rk_app_in. apply incl_refl.
  - (* PopItem *) unfold spec_step, touched. destruct (rev self) as [|[k v] r] eqn:E; cbn [fst]; [reflexivity|].
    apply rk_remove_key, In_self.
  - (* Clear *) simpl. symmetry. apply rk_all_in, incl_refl.
  - (* New *) unfold touched.
    rewrite (rk_all_in self) by (apply incl_appl, incl_refl).
    apply rk_all_in. apply incl_appr, incl_refl.
  - (* FromKeys *) unfold touched.
    rewrite (rk_all_in self) by (apply incl_appl, incl_refl).
    apply rk_all_in. apply incl_appr, incl_refl.
  - (* CopyOther *) unfold touched.
    rewrite (rk_all_in self) by (apply incl_appl, incl_refl).
    apply rk_all_in. apply incl_appr, incl_refl.
  - (* CopyCyc *) unfold touched.
    rewrite (rk_all_in self) by (apply incl_appl, incl_refl).
    apply rk_all_in. apply incl_appr, incl_refl.
  - (* UpdateBad *) simpl. apply rk_replace_with, incl_refl.
  - (* UpdateExtendBad *) simpl. apply rk_app_in, incl_refl.
Qed.

(* consequence: the value list of an unmentioned key is unchanged *)
Corollary spec_frame_vals : forall self other o k,
  ~ In k (touched self other o) ->
  vals_of (fst (spec_step self other o)) k = vals_of self k.
Proof.
  intros self other o k H. apply mem_nat_false in H.
  pose proof (vals_of_remove_keys (fst (spec_step self other o)) (touched self other o) k) as H1.
  pose proof (vals_of_remove_keys self (touched self other o) k) as H2.
  rewrite H in H1, H2. rewrite <- H1, <- H2, spec_frame. reflexivity.
Qed.

(* (2) what the single-key operations do to that key *)
Lemma vals_of_map_pair k vs : vals_of (map (pair k) vs) k = vs.
Proof.
  induction vs as [|v r IH]; [reflexivity|]. cbn [map]. rewrite vals_of_cons, IH.
  cbn [fst snd]. rewrite Nat.eqb_refl. reflexivity.
Qed.

Theorem spec_vals_add self other k v : vals_of (fst (spec_step self other (Add k v))) k = vals_of self k ++ [v].
Proof. cbn [spec_step fst]. rewrite vals_of_app, vals_of_single, Nat.eqb_refl. reflexivity. Qed.

Theorem spec_vals_addlist self other k vs : vals_of (fst (spec_step self other (AddList k vs))) k = vals_of self k ++ vs.
Proof. cbn [spec_step fst]. rewrite vals_of_app, vals_of_map_pair. reflexivity. Qed.

Theorem spec_vals_setitem self other k v :
  vals_of (fst (spec_step self other (SetItem k v))) k = [v] /\
  exists l', fst (spec_step self other (SetItem k v)) = l' ++ [(k, v)].
Proof.
  cbn [spec_step fst]. split.
  - rewrite vals_of_app, vals_of_remove_key, vals_of_single, Nat.eqb_refl. reflexivity.
  - exists (remove_key self k). reflexivity.
Qed.

Theorem spec_vals_del self other k :
  vals_of (fst (spec_step self other (DelItem k))) k = [] /\
  vals_of (fst (spec_step self other (Pop k None))) k = [] /\
  vals_of (fst (spec_step self other (PopAll k None))) k = [].
Proof.
  unfold spec_step. destruct (has_key self k) eqn:E; cbn [fst].
  - rewrite vals_of_remove_key, Nat.eqb_refl. repeat split.
  - apply has_key_vals in E. rewrite E. repeat split.
Qed.

Theorem spec_vals_poplast self other k d : has_key self k = true ->
  vals_of (fst (spec_step self other (PopLast (Some k) d))) k = removelast (vals_of self k) /\
  snd (spec_step self other (PopLast (Some k) d)) = Ok (OVal (last (vals_of self k) none_tok)).
Proof.
  intro H. unfold spec_step. rewrite H. cbn [fst snd]. split.
  - rewrite remove_last_of_vals by exact H. rewrite Nat.eqb_refl. reflexivity.
  - reflexivity.
Qed.

Theorem spec_vals_setdefault self other k d :
  vals_of (fst (spec_step self other (SetDefault k d))) k
  = if has_key self k then vals_of self k else [dflt d].
Proof.
  unfold spec_step. destruct (has_key self k) eqn:E; cbn [fst]; [reflexivity|].
  apply has_key_vals in E. rewrite vals_of_app, E, vals_of_single, Nat.eqb_refl. reflexivity.
Qed.

Print Assumptions spec_frame.
Print Assumptions spec_frame_vals.
Print Assumptions spec_vals_poplast.
