(* SpooledStringIO: every call, then every history. *)
From Coq Require Import ZifyBool.
From Boltons Require Import Lib.Prelude Spec.C18_Spec Model.C18_Model
  Proofs.C18_Lines Proofs.C18_Bytes Proofs.C18_Mfr Proofs.C18_Utf8 Proofs.C18_Reader
  Proofs.C18_Readline Proofs.C18_String.

Section LineCalls.
  Variable C : list N.
  Hypothesis V : Forall uvalid C.

  Lemma ss_next_line s k : RI C k (ss_buf s) -> 1 <= ss_chunk s -> take_line (skipn k C) <> [] ->
    ss_next s = (fst (ss_readline s None), Ok (take_line (skipn k C))).
  Proof.
    intros I Ch NE. unfold ss_next.
    pose proof (ss_readline_spec C V s k None I Ch) as [R1 _]. cbn [line_result] in R1.
    destruct (ss_readline s None) as [s1 line]. cbn [fst snd] in *. subst line.
    destruct (take_line (skipn k C)); [congruence|reflexivity].
  Qed.

  Lemma ss_next_stop s : RI C (length C) (ss_buf s) -> 1 <= ss_chunk s ->
    exists s', ss_next s = (s', Raise StopIteration) /\
               RI C (length C) (ss_buf s') /\ ss_tell s' = ss_tell s /\ same_cfg s s'.
  Proof.
    intros I Ch. unfold ss_next.
    pose proof (ss_readline_spec C V s (length C) None I Ch) as [R1 [R2 [R3 R4]]]. cbn [line_result] in R1.
    destruct (ss_readline s None) as [s1 line]. cbn [fst snd] in *.
    rewrite skipn_all in R1. cbn in R1. subst line. cbn [length nonempty] in *.
    rewrite Nat.add_0_r in *.
    destruct (RI_at_end _ _ R2) as [Pn [Bn Pe]].
    destruct R2 as [Ok [K [D [W [LO X]]]]].
    unfold ef_tell, f_tell, ef_seek. cbn [ef_stream ef_rd].
    rewrite !f_seek_end. cbn [rf_pos rf_data].
    change (f_seek (f_seek ?x (Z.of_nat ?p) 0) (Z.of_nat ?p) 0) with (f_seek0 (f_seek0 x p) p).
    rewrite !f_seek0_eq. cbn [rf_pos rf_data]. rewrite Pe.
    replace (length (rf_data (ef_stream (ss_buf s1))) <=? length (rf_data (ef_stream (ss_buf s1)))) with true by lia.
    eexists. split; [reflexivity|].
    cbn [ss_with ss_buf ss_tell]. split; [|split; [exact R3|destruct R4; split; cbn; assumption]].
    unfold RI, rd_reset, lines_ok, pending, wf, rest. cbn [ef_rd ef_stream rd_ok rd_bytes rd_lines rd_chars rf_data rf_pos].
    rewrite !skipn_all. repeat split; auto. exists []. auto.
  Qed.

  Lemma ss_iter_spec : forall fuel s acc k, RI C k (ss_buf s) -> 1 <= ss_chunk s ->
    length (lines (skipn k C)) < fuel ->
    exists s', ss_iter fuel s acc = (s', OLines (acc ++ lines (skipn k C))) /\
               RI C (length C) (ss_buf s') /\ ss_tell s' = ss_tell s + (length C - k) /\ same_cfg s s'.
  Proof.
    induction fuel as [|fuel IH]; intros s acc k I Ch F; [lia|].
    assert (K : k <= length C) by (destruct I as [_ [K _]]; exact K).
    cbn [ss_iter].
    destruct (take_line (skipn k C)) as [|x l] eqn:E.
    - apply (proj1 (take_line_nil_iff _)) in E.
      assert (k = length C).
      { apply (f_equal (@length N)) in E. rewrite skipn_length in E. cbn in E. lia. }
      rewrite H in *. clear H. destruct (ss_next_stop s I Ch) as [s' [N1 [N2 [N3 N4]]]].
      rewrite N1. rewrite skipn_all. cbn [lines]. rewrite app_nil_r.
      exists s'. split; [reflexivity|]. split; [exact N2|]. split; [lia|exact N4].
    - assert (NE : take_line (skipn k C) <> []) by (rewrite E; discriminate).
      assert (NE' : skipn k C <> []) by (intro Z; rewrite Z in E; discriminate).
      rewrite (ss_next_line s k I Ch NE).
      pose proof (ss_readline_spec C V s k None I Ch) as [R1 [R2 [R3 R4]]]. cbn [line_result] in R1.
      set (s1 := fst (ss_readline s None)) in *. rewrite R1 in R2, R3.
      set (d := take_line (skipn k C)) in *.
      rewrite (lines_unfold _ NE') in F |- *. fold d in F |- *. cbn [length] in F.
      assert (Sk : skipn (length d) (skipn k C) = skipn (k + length d) C) by (now rewrite <- skipn_add).
      rewrite Sk in *.
      assert (Ch1 : 1 <= ss_chunk s1) by (destruct R4 as [_ R4]; lia).
      destruct (IH s1 (acc ++ [d]) (k + length d) R2 Ch1 ltac:(lia)) as [s' [J1 [J2 [J3 J4]]]].
      assert (Kd : k + length d <= length C) by (destruct R2 as [_ [Kd _]]; exact Kd).
      exists s'. rewrite J1, <- app_assoc. split; [reflexivity|]. split; [exact J2|]. split; [lia|].
      eapply same_cfg_trans; eassumption.
  Qed.

  (* readlines(hint) *)
  Lemma ss_readlines_spec : forall fuel s hint total acc k, RI C k (ss_buf s) -> 1 <= ss_chunk s ->
    length (lines (skipn k C)) < fuel ->
    exists s', ss_readlines fuel s hint total acc =
                 (s', OLines (acc ++ take_hint hint total (lines (skipn k C)))) /\
               RI C (k + total_len (take_hint hint total (lines (skipn k C)))) (ss_buf s') /\
               ss_tell s' = ss_tell s + total_len (take_hint hint total (lines (skipn k C))) /\
               same_cfg s s'.
  Proof.
    induction fuel as [|fuel IH]; intros s hint total acc k I Ch F; [lia|].
    cbn [ss_readlines].
    pose proof (ss_readline_spec C V s k None I Ch) as [R1 [R2 [R3 R4]]]. cbn [line_result] in R1.
    destruct (ss_readline s None) as [s1 line]. cbn [fst snd] in *. subst line.
    destruct (take_line (skipn k C)) as [|x l] eqn:E.
    - cbn [nonempty length] in *. apply (proj1 (take_line_nil_iff _)) in E. rewrite E.
      cbn [lines take_hint]. unfold total_len. cbn [concat length]. rewrite app_nil_r, !Nat.add_0_r in *.
      exists s1. auto.
    - assert (NE' : skipn k C <> []) by (intro Z; rewrite Z in E; discriminate).
      cbn [nonempty]. set (d := x :: l) in *.
      rewrite (lines_unfold _ NE') in F |- *. rewrite E in F |- *.
      match type of F with context [length (d :: ?X)] => change (length (d :: X)) with (S (length X)) in F end.
      cbn [take_hint].
      assert (Sk : skipn (length d) (skipn k C) = skipn (k + length d) C) by (now rewrite <- skipn_add).
      rewrite Sk in *.
      destruct ((0 <? hint) && (hint <=? total + length d)) eqn:H.
      + exists s1. split; [reflexivity|]. unfold total_len. cbn [concat]. rewrite app_nil_r. auto.
      + assert (Ch1 : 1 <= ss_chunk s1) by (destruct R4 as [_ R4]; lia).
        destruct (IH s1 hint (total + length d) (acc ++ [d]) (k + length d) R2 Ch1) as [s' [J1 [J2 [J3 J4]]]];
          [lia|].
        exists s'. rewrite J1, <- app_assoc. split; [reflexivity|].
        unfold total_len in *. cbn [concat]. rewrite app_length.
        split; [replace (k + (length d + length (concat (take_hint hint (total + length d) (lines (skipn (k + length d) C))))))
                   with (k + length d + length (concat (take_hint hint (total + length d) (lines (skipn (k + length d) C))))) by lia;
                exact J2|].
        split; [lia|]. eapply same_cfg_trans; eassumption.
  Qed.
End LineCalls.

Lemma lines_fuel (C : list N) k : k <= length C ->
  length (lines (skipn k C)) < S (length (utf8_enc C)).
Proof.
  intro K. pose proof (lines_count (skipn k C)). rewrite skipn_length in H.
  pose proof (enc_length C). lia.
Qed.

(* ---- one call ---------------------------------------------------------------- *)
Definition op_valid (op : fop) : Prop :=
  match op with
  | Write d => Forall uvalid d
  | WriteLines ds => Forall (Forall uvalid) ds
  | _ => True
  end.

Lemma write_at_end f d : rf_pos f = length (rf_data f) ->
  write_at f d = mkRF (rf_data f ++ d) (rf_pos f + length d).
Proof. intro E. unfold write_at. rewrite E at 1. now rewrite overwrite_end. Qed.

(* writelines(ds) at the end of the data: one appending write per element *)
Lemma ss_writelines_spec ds : forall f s,
  SI f s -> rf_pos f = length (rf_data f) -> Forall (Forall uvalid) ds ->
  SI (fold_left write_at ds f) (fold_left ss_write ds s) /\
  same_cfg s (fold_left ss_write ds s) /\
  rf_data (fold_left write_at ds f) = rf_data f ++ concat ds.
Proof.
  induction ds as [|d ds IH]; intros f s I E Vs; cbn [fold_left concat].
  - rewrite app_nil_r. split; [exact I|]. split; [apply same_cfg_refl|reflexivity].
  - inversion Vs as [|? ? V1 V2]; subst.
    destruct (ss_write_spec f s d I E V1) as [W1 W2].
    rewrite (write_at_end f d E).
    destruct (IH _ _ W1) as [A [B Cc]]; [cbn; rewrite app_length; lia|exact V2|].
    split; [exact A|]. split; [eapply same_cfg_trans; eassumption|].
    rewrite Cc. cbn [rf_data]. now rewrite app_assoc.
Qed.

Lemma skipn_min {A} p (l : list A) : skipn (Nat.min p (length l)) l = skipn p l.
Proof.
  destruct (Nat.le_ge_cases p (length l)); [now rewrite Nat.min_l|].
  rewrite Nat.min_r by assumption. now rewrite skipn_all, skipn_all2.
Qed.

Lemma ss_step0_ref f s op :
  SI f s -> ref_pre KString f op = true -> op_valid op ->
  snd (ss_step0 s op) = snd (ref_step f op) /\
  SI (fst (ref_step f op)) (fst (ss_step0 s op)) /\
  same_cfg s (fst (ss_step0 s op)).
Proof.
  intros [V [Ch [T I]]] Pre Val.
  set (L := length (rf_data f)) in *. set (k := Nat.min (rf_pos f) L) in *.
  assert (K : k <= L) by (unfold k; lia).
  assert (Hk : skipn k (rf_data f) = rest f) by (unfold k, L, rest; apply skipn_min).
  assert (Lr : length (rest f) = L - k).
  { rewrite <- Hk, skipn_length. reflexivity. }
  assert (Mk : forall s' f', ss_chunk s' = ss_chunk s -> ss_tell s' = rf_pos f' -> rf_data f' = rf_data f ->
                 RI (rf_data f) (Nat.min (rf_pos f') L) (ss_buf s') -> SI f' s').
  { intros s' f' H1 H2 H3 H4. unfold SI. rewrite H3, H1. auto. }
  destruct op as [d| |n|lim|hint| | | |off wh| | | |ds|]; cbn [ref_pre] in Pre; try discriminate.
  - (* write *)
    cbn [ss_step0 ref_step fst snd]. apply Nat.eqb_eq in Pre.
    destruct (ss_write_spec f s d (conj V (conj Ch (conj T I))) Pre Val) as [W1 W2].
    rewrite (write_at_end f d Pre). auto.
  - (* write of the wrong type *)
    cbn [ss_step0 ref_step fst snd]. split; [reflexivity|].
    split; [exact (conj V (conj Ch (conj T I)))|apply same_cfg_refl].
  - (* read *)
    cbn [ss_step0].
    pose proof (ss_read_spec (rf_data f) V s k n I) as [R1 [R2 [R3 R4]]].
    destruct (ss_read s n) as [s' ret]. cbn [fst snd] in *. rewrite Hk in R1.
    assert (E : ref_step f (Read n) = (advance f (length ret), OData ret)).
    { rewrite R1. destruct n; reflexivity. }
    assert (Lret : length ret <= L - k).
    { rewrite R1, <- Lr. destruct n; [rewrite firstn_length|]; lia. }
    rewrite E. cbn [fst snd]. split; [reflexivity|]. split; [|exact R4].
    apply Mk; auto; [apply R4|cbn; lia|cbn].
    replace (Nat.min (rf_pos f + length ret) L) with (k + length ret) by (unfold k in *; lia). exact R2.
  - (* readline(limit) *)
    cbn [ss_step0].
    pose proof (ss_readline_spec (rf_data f) V s k lim I Ch) as [R1 [R2 [R3 R4]]].
    destruct (ss_readline s lim) as [s' ret]. cbn [fst snd] in *. rewrite Hk in R1.
    assert (E : ref_step f (ReadLine lim) = (advance f (length ret), OData ret)).
    { rewrite R1. destruct lim; reflexivity. }
    assert (Lret : length ret <= L - k).
    { rewrite R1, <- Lr. pose proof (take_line_length (rest f)).
      destruct lim; cbn [line_result]; [rewrite firstn_length|]; lia. }
    rewrite E. cbn [fst snd]. split; [reflexivity|]. split; [|exact R4].
    apply Mk; auto; [apply R4|cbn; lia|cbn].
    replace (Nat.min (rf_pos f + length ret) L) with (k + length ret) by (unfold k in *; lia). exact R2.
  - (* readlines(hint) *)
    cbn [ss_step0 ref_step].
    assert (D1 : rf_data (ef_stream (ss_buf s)) = utf8_enc (rf_data f)) by (destruct I as [_ [_ [D _]]]; exact D).
    destruct (ss_readlines_spec (rf_data f) V (S (length (rf_data (ef_stream (ss_buf s))))) s hint 0 [] k I Ch
                ltac:(rewrite D1; now apply lines_fuel)) as [s' [J1 [J2 [J3 J4]]]].
    rewrite J1, Hk in *. cbn [fst snd app].
    set (tl := total_len (take_hint hint 0 (lines (rest f)))) in *.
    assert (Ltl : tl <= L - k).
    { destruct J2 as [_ [Kt _]]. fold L in Kt. lia. }
    split; [reflexivity|]. split; [|exact J4].
    apply Mk; auto; [apply J4|cbn; lia|cbn].
    replace (Nat.min (rf_pos f + tl) L) with (k + tl) by (unfold k in *; lia). exact J2.
  - (* next *)
    cbn [ss_step0 ref_step].
    destruct (take_line (rest f)) as [|x l] eqn:E.
    + apply (proj1 (take_line_nil_iff _)) in E.
      assert (kL : k = L) by (rewrite E in Lr; cbn in Lr; lia).
      rewrite kL in I.
      destruct (ss_next_stop (rf_data f) V s I Ch) as [s' [N1 [N2 [N3 N4]]]].
      rewrite N1. cbn [fst snd]. split; [reflexivity|]. split; [|exact N4].
      apply Mk; auto; [apply N4|congruence|]. fold k. now rewrite kL.
    + assert (NE : take_line (skipn k (rf_data f)) <> []) by (rewrite Hk, E; discriminate).
      rewrite (ss_next_line (rf_data f) V s k I Ch NE).
      pose proof (ss_readline_spec (rf_data f) V s k None I Ch) as [R1 [R2 [R3 R4]]]. cbn [line_result] in R1.
      rewrite Hk, E in *. cbn [fst snd]. split; [reflexivity|]. split; [|exact R4].
      rewrite R1 in R2, R3.
      assert (Lret : length (x :: l) <= L - k).
      { rewrite <- Lr, <- E. apply take_line_length. }
      apply Mk; auto; [apply R4|cbn [advance rf_pos]; lia|cbn [advance rf_pos]].
      replace (Nat.min (rf_pos f + length (x :: l)) L) with (k + length (x :: l)) by (unfold k in *; lia). exact R2.
  - (* list(f): len(f), then iteration *)
    cbn [ss_step0 ref_step].
    unfold k in I. rewrite <- T in I.
    pose proof (ss_len_spec (rf_data f) V s I Ch) as [L1 [L2 [L3 L4]]].
    destruct (ss_len s) as [s1 n]. cbn [fst snd] in *.
    rewrite T in L2. fold L in L2. fold k in L2.
    assert (D1 : rf_data (ef_stream (ss_buf s1)) = utf8_enc (rf_data f)) by (destruct L2 as [_ [_ [D _]]]; exact D).
    destruct (ss_iter_spec (rf_data f) V (S (length (rf_data (ef_stream (ss_buf s1))))) s1 []
                k L2 ltac:(destruct L4 as [_ L4]; lia) ltac:(rewrite D1; now apply lines_fuel))
      as [s' [J1 [J2 [J3 J4]]]].
    rewrite J1, Hk. cbn [fst snd app]. rewrite total_len_lines.
    split; [reflexivity|]. split; [|eapply same_cfg_trans; eassumption]. rewrite Lr.
    apply Mk; auto.
    + destruct L4, J4; congruence.
    + cbn. fold L in J3. lia.
    + cbn. replace (Nat.min (rf_pos f + (L - k)) L) with L by (unfold k in *; lia). exact J2.
  - (* iteration *)
    cbn [ss_step0 ref_step].
    assert (D1 : rf_data (ef_stream (ss_buf s)) = utf8_enc (rf_data f)) by (destruct I as [_ [_ [D _]]]; exact D).
    destruct (ss_iter_spec (rf_data f) V (S (length (rf_data (ef_stream (ss_buf s))))) s []
                k I Ch ltac:(rewrite D1; now apply lines_fuel))
      as [s' [J1 [J2 [J3 J4]]]].
    rewrite J1, Hk. cbn [fst snd app]. rewrite total_len_lines.
    split; [reflexivity|]. split; [|exact J4]. rewrite Lr.
    apply Mk; auto.
    + apply J4.
    + cbn. fold L in J3. lia.
    + cbn. replace (Nat.min (rf_pos f + (L - k)) L) with L by (unfold k in *; lia). exact J2.
  - (* seek *)
    assert (Ok : rd_ok (ef_rd (ss_buf s)) = true) by (destruct I as [Ok _]; exact Ok).
    assert (D : rf_data (ef_stream (ss_buf s)) = utf8_enc (rf_data f)) by (destruct I as [_ [_ [D _]]]; exact D).
    apply andb_true_iff in Pre as [Pre P4].
    apply andb_true_iff in Pre as [P1 P2].
    destruct wh as [|[|[|wh]]]; [| | |cbn in P1; discriminate]; cbn [seek_target Nat.eqb orb] in P2, P4.
    + (* SEEK_SET *)
      cbn [ss_step0 ss_seek ref_step seek_target].
      destruct (off <? 0)%Z eqn:Neg.
      { (* a negative position: ValueError, nothing moves *)
        cbn [fst snd]. split; [reflexivity|].
        split; [exact (conj V (conj Ch (conj T I)))|apply same_cfg_refl]. }
      destruct (ss_seek_set_spec (rf_data f) V s (Z.to_nat off) D Ok Ch) as [S1 [S2 S3]].
      cbn [fst snd]. rewrite S2. split; [reflexivity|]. split; [|exact S3].
      apply Mk; auto. apply S3.
    + (* SEEK_CUR, offset 0 *)
      assert (off = 0%Z) by lia. subst off.
      cbn [ss_step0 ss_seek ref_step seek_target Z.ltb Z.compare Z.to_nat].
      cbn [ss_traverse]. rewrite Nat.add_0_r, Nat.eqb_refl.
      replace (Z.of_nat (rf_pos f) + 0 <? 0)%Z with false by lia.
      cbn [fst snd ss_with ss_tell]. rewrite T.
      replace (Z.to_nat (Z.of_nat (rf_pos f) + 0)) with (rf_pos f) by lia.
      split; [reflexivity|]. split; [|split; reflexivity].
      apply Mk; auto.
    + (* SEEK_END, offset 0 *)
      assert (off = 0%Z) by lia. subst off.
      cbn [ss_step0 ss_seek ref_step seek_target].
      unfold k in I. rewrite <- T in I.
      pose proof (ss_len_spec (rf_data f) V s I Ch) as [L1 [L2 [L3 L4]]].
      destruct (ss_len s) as [s1 total]. cbn [fst snd] in *. subst total. fold L.
      replace (Z.of_nat L - 0 <? 0)%Z with false by lia.
      replace (Z.of_nat L + 0 <? 0)%Z with false by lia.
      replace (Z.to_nat (Z.of_nat L - 0)) with L by lia.
      replace (Z.to_nat (Z.of_nat L + 0)) with L by lia.
      destruct L2 as [Ok1 [_ [D1 _]]].
      set (s2 := ss_with s1 (ef_seek (ss_buf s1) 0 0) (ss_tell s1)).
      assert (I2 : RI (rf_data f) (Nat.min 0 L) (ss_buf s2)) by (apply ef_seek0_RI; assumption).
      destruct L4 as [M4 C4].
      destruct (ss_traverse_spec (rf_data f) V L (S (S L)) s2 0 I2 ltac:(lia) ltac:(lia) ltac:(cbn; lia)) as [T1 T2].
      cbn [fst snd ss_with ss_tell ss_buf].
      split; [reflexivity|]. split.
      * apply Mk; auto. destruct T2 as [_ T2]. cbn in *. congruence.
      * destruct T2 as [T2 T3]. split; cbn in *; congruence.
  - (* tell *)
    cbn [ss_step0 ref_step fst snd]. rewrite T. split; [reflexivity|].
    split; [exact (conj V (conj Ch (conj T I)))|apply same_cfg_refl].
  - (* getvalue *)
    cbn [ss_step0 ref_step].
    unfold k in I. rewrite <- T in I.
    pose proof (ss_getvalue_spec (rf_data f) V s I Ch) as [G1 [G2 [G3 G4]]].
    destruct (ss_getvalue s) as [s' v]. cbn [fst snd] in *. subst v.
    split; [reflexivity|]. split; [|exact G4].
    apply Mk; auto; [apply G4|congruence|now rewrite <- T].
  - (* len *)
    cbn [ss_step0 ref_step].
    unfold k in I. rewrite <- T in I.
    pose proof (ss_len_spec (rf_data f) V s I Ch) as [G1 [G2 [G3 G4]]].
    destruct (ss_len s) as [s' v]. cbn [fst snd] in *. subst v.
    split; [reflexivity|]. split; [|exact G4].
    apply Mk; auto; [apply G4|congruence|now rewrite <- T].
  - (* writelines *)
    cbn [ss_step0 ref_step fst snd]. apply Nat.eqb_eq in Pre.
    destruct (ss_writelines_spec ds f s (conj V (conj Ch (conj T I))) Pre Val) as [W1 [W2 _]]. auto.
  - (* rollover() / fileno() *)
    cbn [ss_step0 ref_step fst snd].
    destruct (ss_rollover_spec f s (conj V (conj Ch (conj T I)))) as [R1 R2]. auto.
Qed.

Lemma ss_step_ref f s op :
  SI f s -> ref_pre KString f op = true -> op_valid op ->
  snd (ss_step s op) = snd (ref_step f op) /\
  SI (fst (ref_step f op)) (fst (ss_step s op)) /\
  same_cfg s (fst (ss_step s op)).
Proof.
  intros I Pre Val. unfold ss_step.
  pose proof (ss_step0_ref f s op I Pre Val) as [A [B Cf]].
  destruct (ss_step0 s op) as [s' o]. cbn [fst snd] in *.
  assert (Ok : ss_ok s' = true).
  { destruct B as [_ [_ [_ [Ok _]]]]. exact Ok. }
  rewrite Ok. cbn [fst snd]. auto.
Qed.

Lemma ss_run_ref ops : forall f s r, SI f s -> Forall op_valid ops ->
  ref_run KString f ops = Some r -> ss_run s ops = r.
Proof.
  induction ops as [|op ops IH]; intros f s r I Val R; cbn [ref_run ss_run] in *.
  - congruence.
  - destruct (ref_pre KString f op) eqn:Pre; [|discriminate].
    inversion Val as [|? ? V1 V2]; subst.
    pose proof (ss_step_ref f s op I Pre V1) as [S1 [S2 S3]].
    destruct (ref_step f op) as [f' o] eqn:E. destruct (ss_step s op) as [s' o'] eqn:E'.
    cbn [fst snd] in *. subst o'.
    destruct (ref_run KString f' ops) as [os|] eqn:R'; [|discriminate].
    rewrite (IH f' s' os S2 V2 R').
    destruct S2 as [_ [_ [T _]]]. rewrite T. congruence.
Qed.

Lemma SI_init max chunk : 1 <= chunk -> SI rf_empty (ss_init max chunk).
Proof.
  intro Ch. unfold SI, ss_init, RI, rf_empty, rd_fresh, lines_ok, pending, wf, rest. cbn.
  repeat split; auto. exists []. auto.
Qed.

Theorem string_refines_reference max chunk ops r :
  1 <= chunk -> Forall op_valid ops ->
  ref_run KString rf_empty ops = Some r -> ss_run (ss_init max chunk) ops = r.
Proof.
  intros Ch Val R. apply (ss_run_ref ops rf_empty); auto using SI_init.
Qed.

Corollary string_max_independent max1 max2 chunk1 chunk2 ops r :
  1 <= chunk1 -> 1 <= chunk2 -> Forall op_valid ops ->
  ref_run KString rf_empty ops = Some r ->
  ss_run (ss_init max1 chunk1) ops = ss_run (ss_init max2 chunk2) ops.
Proof.
  intros C1 C2 Val R.
  now rewrite (string_refines_reference max1 chunk1 ops r C1 Val R),
              (string_refines_reference max2 chunk2 ops r C2 Val R).
Qed.
