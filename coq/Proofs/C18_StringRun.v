(* SpooledStringIO: every call, then every history. *)
From Coq Require Import ZifyBool.
From Boltons Require Import Lib.Prelude Spec.C18_Spec Model.C18_Model
  Proofs.C18_Lines Proofs.C18_Bytes Proofs.C18_Mfr Proofs.C18_Utf8 Proofs.C18_Reader
  Proofs.C18_Readline Proofs.C18_String.

Section LineCalls.
  Variable C : list N.
  Hypothesis V : Forall uvalid C.
  Hypothesis P : plain C.

  Lemma ss_readline_spec s k : RI C k (ss_buf s) ->
    snd (ss_readline s) = take_line (skipn k C) /\
    RI C (k + length (snd (ss_readline s))) (ss_buf (fst (ss_readline s))) /\
    ss_tell (fst (ss_readline s)) = ss_tell s + length (snd (ss_readline s)) /\
    same_cfg s (fst (ss_readline s)).
  Proof.
    intro I. unfold ss_readline.
    pose proof (rd_readline_spec C V P k (ss_buf s) I) as [R1 R2].
    destruct (rd_readline (ss_buf s)) as [e ret]. cbn [fst snd] in *.
    unfold ss_with, same_cfg. cbn. auto.
  Qed.

  Lemma ss_readlines_spec s k : RI C k (ss_buf s) ->
    snd (ss_readlines s) = lines (skipn k C) /\
    RI C (length C) (ss_buf (fst (ss_readlines s))) /\
    ss_tell (fst (ss_readlines s)) = ss_tell s + (length C - k) /\
    same_cfg s (fst (ss_readlines s)).
  Proof.
    intro I. unfold ss_readlines.
    assert (K : k <= length C) by (destruct I as [_ [K _]]; exact K).
    pose proof (rd_read_spec C k (ss_buf s) None None V I (or_introl eq_refl)) as [R1 [R2 _]].
    destruct (rd_read (ss_buf s) None None) as [e data]. cbn [fst snd] in *.
    rewrite R1 in *. rewrite skipn_length in R2. replace (k + (length C - k)) with (length C) in R2 by lia.
    rewrite gsplit_b_plain by (now apply Forall_skipn).
    rewrite concat_lines, skipn_length.
    unfold ss_with, same_cfg. cbn. auto.
  Qed.

  Lemma ss_next_line s k : RI C k (ss_buf s) -> take_line (skipn k C) <> [] ->
    ss_next s = (fst (ss_readline s), Ok (take_line (skipn k C))).
  Proof.
    intros I NE. unfold ss_next.
    pose proof (ss_readline_spec s k I) as [R1 _].
    destruct (ss_readline s) as [s1 line]. cbn [fst snd] in *. subst line.
    destruct (take_line (skipn k C)); [congruence|reflexivity].
  Qed.

  Lemma ss_next_stop s : RI C (length C) (ss_buf s) ->
    exists s', ss_next s = (s', Raise StopIteration) /\
               RI C (length C) (ss_buf s') /\ ss_tell s' = ss_tell s /\ same_cfg s s'.
  Proof.
    intro I. unfold ss_next.
    pose proof (ss_readline_spec s (length C) I) as [R1 [R2 [R3 R4]]].
    destruct (ss_readline s) as [s1 line]. cbn [fst snd] in *.
    rewrite skipn_all in R1. cbn in R1. subst line. cbn [length nonempty] in *.
    rewrite Nat.add_0_r in *.
    destruct (RI_at_end _ _ R2) as [Pn [Bn Pe]].
    destruct R2 as [Ok [K [D [W [LO X]]]]].
    unfold ef_tell, f_tell, ef_seek. cbn [ef_stream ef_rd].
    rewrite !f_seek_end. cbn [rf_pos rf_data].
    change (f_seek (f_seek ?x (Z.of_nat ?p) 0) (Z.of_nat ?p) 0) with (f_seek0 (f_seek0 x p) p).
    rewrite !f_seek0_eq. cbn [rf_pos rf_data]. rewrite Pe.
    replace (length (rf_data (ef_stream (ss_buf s1))) <=? length (rf_data (ef_stream (ss_buf s1)))) with true by lia.
    eexists. split; [reflexivity|].
    cbn [ss_with ss_buf ss_tell]. split; [|split; [exact R3|destruct R4; split; cbn; assumption]].
    unfold RI, rd_reset, lines_ok, pending, wf, rest. cbn [ef_rd ef_stream rd_ok rd_bytes rd_lines rd_chars rf_data rf_pos].
    rewrite !skipn_all. repeat split; auto. exists []. auto.
  Qed.

  Lemma ss_iter_spec : forall fuel s acc k, RI C k (ss_buf s) ->
    length (lines (skipn k C)) < fuel ->
    exists s', ss_iter fuel s acc = (s', OLines (acc ++ lines (skipn k C))) /\
               RI C (length C) (ss_buf s') /\ ss_tell s' = ss_tell s + (length C - k) /\ same_cfg s s'.
  Proof.
    induction fuel as [|fuel IH]; intros s acc k I F; [lia|].
    assert (K : k <= length C) by (destruct I as [_ [K _]]; exact K).
    cbn [ss_iter].
    destruct (take_line (skipn k C)) as [|x l] eqn:E.
    - apply (proj1 (take_line_nil_iff _)) in E.
      assert (k = length C).
      { apply (f_equal (@length N)) in E. rewrite skipn_length in E. cbn in E. lia. }
      rewrite H in *. clear H. destruct (ss_next_stop s I) as [s' [N1 [N2 [N3 N4]]]].
      rewrite N1. rewrite skipn_all. cbn [lines]. rewrite app_nil_r.
      exists s'. split; [reflexivity|]. split; [exact N2|]. split; [lia|exact N4].
    - assert (NE : take_line (skipn k C) <> []) by (rewrite E; discriminate).
      assert (NE' : skipn k C <> []) by (intro Z; rewrite Z in E; discriminate).
      rewrite (ss_next_line s k I NE).
      pose proof (ss_readline_spec s k I) as [R1 [R2 [R3 R4]]].
      set (s1 := fst (ss_readline s)) in *. rewrite R1 in R2, R3.
      set (d := take_line (skipn k C)) in *.
      rewrite (lines_unfold _ NE') in F |- *. fold d in F |- *. cbn [length] in F.
      assert (Sk : skipn (length d) (skipn k C) = skipn (k + length d) C) by (now rewrite <- skipn_add).
      rewrite Sk in *.
      destruct (IH s1 (acc ++ [d]) (k + length d) R2 ltac:(lia)) as [s' [J1 [J2 [J3 J4]]]].
      assert (Kd : k + length d <= length C) by (destruct R2 as [_ [Kd _]]; exact Kd).
      exists s'. rewrite J1, <- app_assoc. split; [reflexivity|]. split; [exact J2|]. split; [lia|].
      eapply same_cfg_trans; eassumption.
  Qed.
End LineCalls.

Lemma lines_fuel (C : list N) k : k <= length C ->
  length (lines (skipn k C)) < S (length (utf8_enc C)).
Proof.
  intro K. pose proof (lines_count (skipn k C)). rewrite skipn_length in H.
  pose proof (enc_length C). lia.
Qed.

(* ---- one call ---------------------------------------------------------------- *)
Definition op_valid (op : fop) : Prop :=
  match op with
  | Write d => Forall uvalid d
  | WriteLines ds => Forall (Forall uvalid) ds
  | _ => True
  end.

Lemma write_at_end f d : rf_pos f = length (rf_data f) ->
  write_at f d = mkRF (rf_data f ++ d) (rf_pos f + length d).
Proof. intro E. unfold write_at. rewrite E at 1. now rewrite overwrite_end. Qed.

(* writelines(ds) at the end of the data: one appending write per element *)
Lemma ss_writelines_spec ds : forall f s,
  SI f s -> rf_pos f = length (rf_data f) -> Forall (Forall uvalid) ds ->
  SI (fold_left write_at ds f) (fold_left ss_write ds s) /\
  same_cfg s (fold_left ss_write ds s) /\
  rf_data (fold_left write_at ds f) = rf_data f ++ concat ds.
Proof.
  induction ds as [|d ds IH]; intros f s I E Vs; cbn [fold_left concat].
  - rewrite app_nil_r. split; [exact I|]. split; [apply same_cfg_refl|reflexivity].
  - inversion Vs as [|? ? V1 V2]; subst.
    destruct (ss_write_spec f s d I E V1) as [W1 W2].
    rewrite (write_at_end f d E).
    destruct (IH _ _ W1) as [A [B Cc]]; [cbn; rewrite app_length; lia|exact V2|].
    split; [exact A|]. split; [eapply same_cfg_trans; eassumption|].
    rewrite Cc. cbn [rf_data]. now rewrite app_assoc.
Qed.

Lemma skipn_min {A} p (l : list A) : skipn (Nat.min p (length l)) l = skipn p l.
Proof.
  destruct (Nat.le_ge_cases p (length l)); [now rewrite Nat.min_l|].
  rewrite Nat.min_r by assumption. now rewrite skipn_all, skipn_all2.
Qed.

Lemma ss_step0_ref f s op :
  SI f s -> ref_pre KString f op = true -> op_valid op ->
  (is_line_op op = true -> plain (rf_data f)) ->
  snd (ss_step0 s op) = snd (ref_step f op) /\
  SI (fst (ref_step f op)) (fst (ss_step0 s op)) /\
  same_cfg s (fst (ss_step0 s op)).
Proof.
  intros [V [Ch [T I]]] Pre Val Pl.
  set (L := length (rf_data f)) in *. set (k := Nat.min (rf_pos f) L) in *.
  assert (K : k <= L) by (unfold k; lia).
  assert (Hk : skipn k (rf_data f) = rest f) by (unfold k, L, rest; apply skipn_min).
  assert (Lr : length (rest f) = L - k).
  { rewrite <- Hk, skipn_length. reflexivity. }
  assert (Mk : forall s' f', ss_chunk s' = ss_chunk s -> ss_tell s' = rf_pos f' -> rf_data f' = rf_data f ->
                 RI (rf_data f) (Nat.min (rf_pos f') L) (ss_buf s') -> SI f' s').
  { intros s' f' H1 H2 H3 H4. unfold SI. rewrite H3, H1. auto. }
  destruct op as [d| |n|[lim|]|[|hint]| | | |off wh| | | |ds|]; cbn [ref_pre] in Pre; try discriminate.
  - (* write *)
    cbn [ss_step0 ref_step fst snd]. apply Nat.eqb_eq in Pre.
    destruct (ss_write_spec f s d (conj V (conj Ch (conj T I))) Pre Val) as [W1 W2].
    rewrite (write_at_end f d Pre). auto.
  - (* write of the wrong type *)
    cbn [ss_step0 ref_step fst snd]. split; [reflexivity|].
    split; [exact (conj V (conj Ch (conj T I)))|apply same_cfg_refl].
  - (* read *)
    cbn [ss_step0].
    pose proof (ss_read_spec (rf_data f) V s k n I) as [R1 [R2 [R3 R4]]].
    destruct (ss_read s n) as [s' ret]. cbn [fst snd] in *. rewrite Hk in R1.
    assert (E : ref_step f (Read n) = (advance f (length ret), OData ret)).
    { rewrite R1. destruct n; reflexivity. }
    assert (Lret : length ret <= L - k).
    { rewrite R1, <- Lr. destruct n; [rewrite firstn_length|]; lia. }
    rewrite E. cbn [fst snd]. split; [reflexivity|]. split; [|exact R4].
    apply Mk; auto; [apply R4|cbn; lia|cbn].
    replace (Nat.min (rf_pos f + length ret) L) with (k + length ret) by (unfold k in *; lia). exact R2.
  - (* readline *)
    cbn [ss_step0 ref_step].
    pose proof (ss_readline_spec (rf_data f) V (Pl eq_refl) s k I) as [R1 [R2 [R3 R4]]].
    destruct (ss_readline s) as [s' ret]. cbn [fst snd] in *. rewrite Hk in R1.
    rewrite <- R1. split; [reflexivity|]. split; [|exact R4].
    assert (Lret : length ret <= L - k).
    { rewrite R1, <- Lr. apply take_line_length. }
    apply Mk; auto; [apply R4|cbn; lia|cbn].
    replace (Nat.min (rf_pos f + length ret) L) with (k + length ret) by (unfold k in *; lia). exact R2.
  - (* readlines *)
    cbn [ss_step0 ref_step].
    pose proof (ss_readlines_spec (rf_data f) V (Pl eq_refl) s k I) as [R1 [R2 [R3 R4]]].
    destruct (ss_readlines s) as [s' ret]. cbn [fst snd] in *. rewrite Hk in R1.
    rewrite take_hint_0, total_len_lines. rewrite R1.
    split; [reflexivity|]. split; [|exact R4]. rewrite Lr.
    apply Mk; auto; [apply R4|cbn; fold L; lia|cbn].
    replace (Nat.min (rf_pos f + (L - k)) L) with L by (unfold k in *; lia). exact R2.
  - (* next *)
    cbn [ss_step0 ref_step].
    destruct (take_line (rest f)) as [|x l] eqn:E.
    + apply (proj1 (take_line_nil_iff _)) in E.
      assert (kL : k = L) by (rewrite E in Lr; cbn in Lr; lia).
      rewrite kL in I.
      destruct (ss_next_stop (rf_data f) V (Pl eq_refl) s I) as [s' [N1 [N2 [N3 N4]]]].
      rewrite N1. cbn [fst snd]. split; [reflexivity|]. split; [|exact N4].
      apply Mk; auto; [apply N4|congruence|]. fold k. now rewrite kL.
    + assert (NE : take_line (skipn k (rf_data f)) <> []) by (rewrite Hk, E; discriminate).
      rewrite (ss_next_line (rf_data f) V (Pl eq_refl) s k I NE).
      pose proof (ss_readline_spec (rf_data f) V (Pl eq_refl) s k I) as [R1 [R2 [R3 R4]]].
      rewrite Hk, E in *. cbn [fst snd]. split; [reflexivity|]. split; [|exact R4].
      rewrite R1 in R2, R3.
      assert (Lret : length (x :: l) <= L - k).
      { rewrite <- Lr, <- E. apply take_line_length. }
      apply Mk; auto; [apply R4|cbn [advance rf_pos]; lia|cbn [advance rf_pos]].
      replace (Nat.min (rf_pos f + length (x :: l)) L) with (k + length (x :: l)) by (unfold k in *; lia). exact R2.
  - (* list(f): len(f), then iteration *)
    cbn [ss_step0 ref_step].
    unfold k in I. rewrite <- T in I.
    pose proof (ss_len_spec (rf_data f) V s I Ch) as [L1 [L2 [L3 L4]]].
    destruct (ss_len s) as [s1 n]. cbn [fst snd] in *.
    rewrite T in L2. fold L in L2. fold k in L2.
    assert (D1 : rf_data (ef_stream (ss_buf s1)) = utf8_enc (rf_data f)) by (destruct L2 as [_ [_ [D _]]]; exact D).
    destruct (ss_iter_spec (rf_data f) V (Pl eq_refl) (S (length (rf_data (ef_stream (ss_buf s1))))) s1 []
                k L2 ltac:(rewrite D1; now apply lines_fuel))
      as [s' [J1 [J2 [J3 J4]]]].
    rewrite J1, Hk. cbn [fst snd app]. rewrite total_len_lines.
    split; [reflexivity|]. split; [|eapply same_cfg_trans; eassumption]. rewrite Lr.
    apply Mk; auto.
    + destruct L4, J4; congruence.
    + cbn. fold L in J3. lia.
    + cbn. replace (Nat.min (rf_pos f + (L - k)) L) with L by (unfold k in *; lia). exact J2.
  - (* iteration *)
    cbn [ss_step0 ref_step].
    assert (D1 : rf_data (ef_stream (ss_buf s)) = utf8_enc (rf_data f)) by (destruct I as [_ [_ [D _]]]; exact D).
    destruct (ss_iter_spec (rf_data f) V (Pl eq_refl) (S (length (rf_data (ef_stream (ss_buf s))))) s []
                k I ltac:(rewrite D1; now apply lines_fuel))
      as [s' [J1 [J2 [J3 J4]]]].
    rewrite J1, Hk. cbn [fst snd app]. rewrite total_len_lines.
    split; [reflexivity|]. split; [|exact J4]. rewrite Lr.
    apply Mk; auto.
    + apply J4.
    + cbn. fold L in J3. lia.
    + cbn. replace (Nat.min (rf_pos f + (L - k)) L) with L by (unfold k in *; lia). exact J2.
  - (* seek *)
    assert (Ok : rd_ok (ef_rd (ss_buf s)) = true) by (destruct I as [Ok _]; exact Ok).
    assert (D : rf_data (ef_stream (ss_buf s)) = utf8_enc (rf_data f)) by (destruct I as [_ [_ [D _]]]; exact D).
    apply andb_true_iff in Pre as [Pre P4].
    apply andb_true_iff in Pre as [P1 P2].
    destruct wh as [|[|[|wh]]]; [| | |cbn in P1; discriminate]; cbn [seek_target Nat.eqb orb] in P2, P4.
    + (* SEEK_SET *)
      cbn [ss_step0 ss_seek ref_step seek_target].
      replace (off <? 0)%Z with false by lia.
      destruct (ss_seek_set_spec (rf_data f) V s (Z.to_nat off) D Ok Ch) as [S1 [S2 S3]].
      cbn [fst snd]. rewrite S2. split; [reflexivity|]. split; [|exact S3].
      apply Mk; auto. apply S3.
    + (* SEEK_CUR, offset 0 *)
      assert (off = 0%Z) by lia. subst off.
      cbn [ss_step0 ss_seek ref_step seek_target Z.ltb Z.compare Z.to_nat].
      cbn [ss_traverse]. rewrite Nat.add_0_r, Nat.eqb_refl.
      replace (Z.of_nat (rf_pos f) + 0 <? 0)%Z with false by lia.
      cbn [fst snd ss_with ss_tell]. rewrite T.
      replace (Z.to_nat (Z.of_nat (rf_pos f) + 0)) with (rf_pos f) by lia.
      split; [reflexivity|]. split; [|split; reflexivity].
      apply Mk; auto.
    + (* SEEK_END, offset 0 *)
      assert (off = 0%Z) by lia. subst off.
      cbn [ss_step0 ss_seek ref_step seek_target].
      unfold k in I. rewrite <- T in I.
      pose proof (ss_len_spec (rf_data f) V s I Ch) as [L1 [L2 [L3 L4]]].
      destruct (ss_len s) as [s1 total]. cbn [fst snd] in *. subst total. fold L.
      replace (Z.of_nat L - 0 <? 0)%Z with false by lia.
      replace (Z.of_nat L + 0 <? 0)%Z with false by lia.
      replace (Z.to_nat (Z.of_nat L - 0)) with L by lia.
      replace (Z.to_nat (Z.of_nat L + 0)) with L by lia.
      destruct L2 as [Ok1 [_ [D1 _]]].
      set (s2 := ss_with s1 (ef_seek (ss_buf s1) 0 0) (ss_tell s1)).
      assert (I2 : RI (rf_data f) (Nat.min 0 L) (ss_buf s2)) by (apply ef_seek0_RI; assumption).
      destruct L4 as [M4 C4].
      destruct (ss_traverse_spec (rf_data f) V L (S (S L)) s2 0 I2 ltac:(lia) ltac:(lia) ltac:(cbn; lia)) as [T1 T2].
      cbn [fst snd ss_with ss_tell ss_buf].
      split; [reflexivity|]. split.
      * apply Mk; auto. destruct T2 as [_ T2]. cbn in *. congruence.
      * destruct T2 as [T2 T3]. split; cbn in *; congruence.
  - (* tell *)
    cbn [ss_step0 ref_step fst snd]. rewrite T. split; [reflexivity|].
    split; [exact (conj V (conj Ch (conj T I)))|apply same_cfg_refl].
  - (* getvalue *)
    cbn [ss_step0 ref_step].
    unfold k in I. rewrite <- T in I.
    pose proof (ss_getvalue_spec (rf_data f) V s I Ch) as [G1 [G2 [G3 G4]]].
    destruct (ss_getvalue s) as [s' v]. cbn [fst snd] in *. subst v.
    split; [reflexivity|]. split; [|exact G4].
    apply Mk; auto; [apply G4|congruence|now rewrite <- T].
  - (* len *)
    cbn [ss_step0 ref_step].
    unfold k in I. rewrite <- T in I.
    pose proof (ss_len_spec (rf_data f) V s I Ch) as [G1 [G2 [G3 G4]]].
    destruct (ss_len s) as [s' v]. cbn [fst snd] in *. subst v.
    split; [reflexivity|]. split; [|exact G4].
    apply Mk; auto; [apply G4|congruence|now rewrite <- T].
  - (* writelines *)
    cbn [ss_step0 ref_step fst snd]. apply Nat.eqb_eq in Pre.
    destruct (ss_writelines_spec ds f s (conj V (conj Ch (conj T I))) Pre Val) as [W1 [W2 _]]. auto.
  - (* rollover() / fileno() *)
    cbn [ss_step0 ref_step fst snd].
    destruct (ss_rollover_spec f s (conj V (conj Ch (conj T I)))) as [R1 R2]. auto.
Qed.

Lemma ss_step_ref f s op :
  SI f s -> ref_pre KString f op = true -> op_valid op ->
  (is_line_op op = true -> plain (rf_data f)) ->
  snd (ss_step s op) = snd (ref_step f op) /\
  SI (fst (ref_step f op)) (fst (ss_step s op)) /\
  same_cfg s (fst (ss_step s op)).
Proof.
  intros I Pre Val Pl. unfold ss_step.
  pose proof (ss_step0_ref f s op I Pre Val Pl) as [A [B Cf]].
  destruct (ss_step0 s op) as [s' o]. cbn [fst snd] in *.
  assert (Ok : ss_ok s' = true).
  { destruct B as [_ [_ [_ [Ok _]]]]. exact Ok. }
  rewrite Ok. cbn [fst snd]. auto.
Qed.

(* what a call does to the content of the reference file *)
Lemma ref_step_data f op : ref_pre KString f op = true ->
  rf_data (fst (ref_step f op)) =
  match op with Write d => rf_data f ++ d | WriteLines ds => rf_data f ++ concat ds | _ => rf_data f end.
Proof.
  intro Pre.
  destruct op as [d| |[n|]|[n|]|hint| | | |off wh| | | |ds|]; cbn [ref_step fst rf_data advance]; try reflexivity.
  - cbn in Pre. apply Nat.eqb_eq in Pre. now rewrite (write_at_end f d Pre).
  - destruct (take_line (rest f)); reflexivity.
  - destruct (seek_target f off wh <? 0)%Z; reflexivity.
  - cbn in Pre. apply Nat.eqb_eq in Pre. revert f Pre.
    induction ds as [|d ds IH]; intros f Pre; cbn [fold_left concat]; [now rewrite app_nil_r|].
    rewrite IH; rewrite (write_at_end f d Pre); cbn [rf_data rf_pos]; [now rewrite app_assoc|].
    rewrite app_length. lia.
Qed.

Lemma plain_of_existsb2 ds : existsb (existsb odd_break) ds = false -> plain (concat ds).
Proof.
  induction ds as [|d ds IH]; cbn; intro H; [constructor|].
  apply orb_false_iff in H as [H1 H2]. apply Forall_app. split; [|now apply IH].
  clear -H1. induction d as [|x d IHd]; cbn in *; [constructor|].
  apply orb_false_iff in H1 as [A B]. constructor; auto.
Qed.

Lemma plain_of_existsb d : existsb odd_break d = false -> plain d.
Proof.
  induction d as [|x d IH]; cbn; intro H; [constructor|].
  apply orb_false_iff in H as [H1 H2]. constructor; auto. now apply IH.
Qed.

Lemma ss_run_ref ops : forall f s r, SI f s -> Forall op_valid ops ->
  ((plain (rf_data f) /\ writes_odd_break ops = false) \/ existsb is_line_op ops = false) ->
  ref_run KString f ops = Some r -> ss_run s ops = r.
Proof.
  induction ops as [|op ops IH]; intros f s r I Val G R; cbn [ref_run ss_run] in *.
  - congruence.
  - destruct (ref_pre KString f op) eqn:Pre; [|discriminate].
    inversion Val as [|? ? V1 V2]; subst.
    assert (Pl : is_line_op op = true -> plain (rf_data f)).
    { intro L. destruct G as [[G _]|G]; [exact G|]. cbn in G. rewrite L in G. discriminate. }
    pose proof (ss_step_ref f s op I Pre V1 Pl) as [S1 [S2 S3]].
    pose proof (ref_step_data f op Pre) as Dt.
    destruct (ref_step f op) as [f' o] eqn:E. destruct (ss_step s op) as [s' o'] eqn:E'.
    cbn [fst snd] in *. subst o'.
    destruct (ref_run KString f' ops) as [os|] eqn:R'; [|discriminate].
    assert (G' : (plain (rf_data f') /\ writes_odd_break ops = false) \/ existsb is_line_op ops = false).
    { destruct G as [[G1 G2]|G].
      - left. unfold writes_odd_break in G2. cbn [existsb] in G2. apply orb_false_iff in G2 as [G2 G3].
        split; [|exact G3]. rewrite Dt. destruct op; try exact G1.
        * apply Forall_app. split; [exact G1|now apply plain_of_existsb].
        * apply Forall_app. split; [exact G1|now apply plain_of_existsb2].
      - right. cbn [existsb] in G. apply orb_false_iff in G. tauto. }
    rewrite (IH f' s' os S2 V2 G' R').
    destruct S2 as [_ [_ [T _]]]. rewrite T. congruence.
Qed.

Lemma SI_init max chunk : 1 <= chunk -> SI rf_empty (ss_init max chunk).
Proof.
  intro Ch. unfold SI, ss_init, RI, rf_empty, rd_fresh, lines_ok, pending, wf, rest. cbn.
  repeat split; auto. exists []. auto.
Qed.

Theorem string_refines_reference max chunk ops r :
  1 <= chunk -> Forall op_valid ops ->
  writes_odd_break ops = false \/ existsb is_line_op ops = false ->
  ref_run KString rf_empty ops = Some r -> ss_run (ss_init max chunk) ops = r.
Proof.
  intros Ch Val G R. apply (ss_run_ref ops rf_empty); auto using SI_init.
  destruct G as [G|G]; [left|right; exact G]. split; [constructor|exact G].
Qed.

Corollary string_max_independent max1 max2 chunk1 chunk2 ops r :
  1 <= chunk1 -> 1 <= chunk2 -> Forall op_valid ops ->
  writes_odd_break ops = false \/ existsb is_line_op ops = false ->
  ref_run KString rf_empty ops = Some r ->
  ss_run (ss_init max1 chunk1) ops = ss_run (ss_init max2 chunk2) ops.
Proof.
  intros C1 C2 Val G R.
  now rewrite (string_refines_reference max1 chunk1 ops r C1 Val G R),
              (string_refines_reference max2 chunk2 ops r C2 Val G R).
Qed.
