(* OneToOne: the two dictionaries stay mutual inverses (invariant by induction
   over arbitrary histories through either side). *)
From Boltons Require Import Lib.Prelude Model.C17_Model Proofs.C17_Dict.

Ltac nlia := unfold dict, kv, pydict, K, V in *; lia.

Definition Bij (f i : dict) : Prop :=
  forall k v, d_get f k = Some v <-> d_get i v = Some k.

Record OtoInv (o : oto) : Prop := mkOtoInv {
  oi_ndf : NoDup (map fst (o_fwd o));
  oi_ndi : NoDup (map fst (o_inv o));
  oi_bij : Bij (o_fwd o) (o_inv o)
}.

Lemma Bij_sym f i : Bij f i -> Bij i f.
Proof. intros H k v. symmetry. apply H. Qed.

Lemma OtoInv_swap o : OtoInv o -> OtoInv (oto_swap o).
Proof. intros [A B C]. constructor; simpl; trivial. now apply Bij_sym. Qed.

Lemma oto_swap_invol o : oto_swap (oto_swap o) = o.
Proof. destruct o; reflexivity. Qed.

Lemma bij_inj f i a a' b : Bij f i -> d_get f a = Some b -> d_get f a' = Some b -> a = a'.
Proof. intros H H1 H2. apply H in H1. apply H in H2. congruence. Qed.

(* ---- __setitem__ ---------------------------------------------------------- *)
Lemma setitem_fwd o k v a b : Bij (o_fwd o) (o_inv o) ->
  (d_get (o_fwd (oto_setitem o k v)) a = Some b <->
   (a = k /\ b = v) \/ (a <> k /\ b <> v /\ d_get (o_fwd o) a = Some b)).
Proof.
  intro HB. unfold oto_setitem.
  set (inv1 := match d_get (o_fwd o) k with Some v0 => d_rm (o_inv o) v0 | None => o_inv o end).
  assert (Hinv1 : forall k2, d_get inv1 v = Some k2 -> d_get (o_fwd o) k2 = Some v).
  { intros k2 H. apply HB. subst inv1. destruct (d_get (o_fwd o) k); trivial.
    rewrite get_rm in H. destruct (Nat.eqb v n); [discriminate|trivial]. }
  assert (Hnone : d_get inv1 v = None -> forall a', a' <> k -> d_get (o_fwd o) a' <> Some v).
  { intros H a' Hne Hg. apply HB in Hg. subst inv1.
    destruct (d_get (o_fwd o) k) as [v0|] eqn:Ek.
    - rewrite get_rm in H. eqb_case v v0; [|congruence]. subst.
      apply HB in Ek. congruence.
    - congruence. }
  destruct (d_get inv1 v) as [k2|] eqn:Ev; cbn [o_fwd]; rewrite get_set.
  - specialize (Hinv1 _ eq_refl).
    eqb_case a k.
    + subst. split.
      * intros [= <-]. now left.
      * intros [[_ ->]|[? _]]; [reflexivity|congruence].
    + rewrite get_rm. eqb_case a k2.
      * subst. split; [discriminate|].
        intros [[? _]|[_ [Hb Hg]]]; congruence.
      * split.
        -- intro Hg. right. repeat split; trivial. intros ->.
           apply E0. eapply bij_inj; eauto.
        -- intros [[? _]|[_ [_ Hg]]]; [congruence|trivial].
  - eqb_case a k.
    + subst. split.
      * intros [= <-]. now left.
      * intros [[_ ->]|[? _]]; [reflexivity|congruence].
    + split.
      * intro Hg. right. repeat split; trivial. intros ->.
        eapply Hnone; eauto.
      * intros [[? _]|[_ [_ Hg]]]; [congruence|trivial].
Qed.

Lemma setitem_inv o k v a b : Bij (o_fwd o) (o_inv o) ->
  (d_get (o_inv (oto_setitem o k v)) b = Some a <->
   (a = k /\ b = v) \/ (a <> k /\ b <> v /\ d_get (o_inv o) b = Some a)).
Proof.
  intro HB. unfold oto_setitem.
  set (inv1 := match d_get (o_fwd o) k with Some v0 => d_rm (o_inv o) v0 | None => o_inv o end).
  assert (H1 : forall b', d_get inv1 b' = Some a <-> (a <> k /\ d_get (o_inv o) b' = Some a)).
  { intro b'. subst inv1. destruct (d_get (o_fwd o) k) as [v0|] eqn:Ek.
    - rewrite get_rm. eqb_case b' v0.
      + subst. split; [discriminate|]. intros [Hne Hg]. apply HB in Ek. congruence.
      + split.
        * intro Hg. split; trivial. intros ->. apply HB in Hg. congruence.
        * tauto.
    - split; [|tauto]. intro Hg. split; trivial. intros ->. apply HB in Hg. congruence. }
  assert (H2 : forall inv2, (forall b', b' <> v -> d_get inv2 b' = d_get inv1 b') ->
     (d_get (d_set inv2 v k) b = Some a <->
      (a = k /\ b = v) \/ (a <> k /\ b <> v /\ d_get (o_inv o) b = Some a))).
  { intros inv2 Hi. rewrite get_set. eqb_case b v.
    - subst. split.
      + intros [= <-]. now left.
      + intros [[-> _]|[_ [? _]]]; [reflexivity|congruence].
    - rewrite Hi by assumption. rewrite H1. split.
      + intros [? ?]. right. tauto.
      + intros [[_ ?]|[? [_ ?]]]; [congruence|tauto]. }
  destruct (d_get inv1 v) as [k2|] eqn:Ev; cbn [o_inv]; apply H2.
  - intros b' Hne. rewrite get_rm. eqb_case b' v; [congruence|reflexivity].
  - reflexivity.
Qed.

Lemma setitem_nodup o k v : NoDup (map fst (o_fwd o)) -> NoDup (map fst (o_inv o)) ->
  NoDup (map fst (o_fwd (oto_setitem o k v))) /\ NoDup (map fst (o_inv (oto_setitem o k v))).
Proof.
  intros A B. unfold oto_setitem.
  set (inv1 := match d_get (o_fwd o) k with Some v0 => d_rm (o_inv o) v0 | None => o_inv o end).
  assert (NoDup (map fst inv1)).
  { subst inv1. destruct (d_get (o_fwd o) k); trivial. now apply nodup_rm. }
  destruct (d_get inv1 v); cbn [o_fwd o_inv]; split; apply nodup_set; trivial; now apply nodup_rm.
Qed.

Lemma setitem_ok o k v : OtoInv o -> OtoInv (oto_setitem o k v).
Proof.
  intros [A B C]. destruct (setitem_nodup o k v A B) as [N1 N2]. constructor; trivial.
  intros a b. rewrite setitem_fwd, setitem_inv by assumption.
  split; (intros [H|[H1 [H2 H3]]]; [now left|right; repeat split; trivial; now apply C]).
Qed.

Lemma update_ok kvs : forall o, OtoInv o -> OtoInv (oto_update o kvs).
Proof.
  unfold oto_update. induction kvs as [|[k v] r IH]; simpl; intros o H; [trivial|].
  apply IH. now apply setitem_ok.
Qed.

(* ---- deletion of one pair ---------------------------------------------------- *)
Lemma delpair_ok o k v : OtoInv o -> d_get (o_fwd o) k = Some v ->
  OtoInv (mkOto (d_rm (o_fwd o) k) (d_rm (o_inv o) v)).
Proof.
  intros [A B C] Hk. constructor; cbn [o_fwd o_inv]; try now apply nodup_rm.
  intros a b. rewrite !get_rm. eqb_case a k.
  - subst. split; [discriminate|]. eqb_case b v; [discriminate|].
    intro Hg. apply C in Hg. congruence.
  - eqb_case b v.
    + subst. split; [|discriminate]. intro Hg. exfalso. apply E. eapply bij_inj; eauto.
    + apply C.
Qed.

Lemma rev_cons_app {A} (l r : list A) x : rev l = x :: r -> l = rev r ++ [x].
Proof. intro H. rewrite <- (rev_involutive l), H. reflexivity. Qed.

Lemma rm_last (l : dict) k v : NoDup (map fst (l ++ [(k, v)])) -> d_rm (l ++ [(k, v)]) k = l.
Proof.
  intro ND. unfold d_rm. rewrite filter_app. simpl. rewrite Nat.eqb_refl. simpl.
  rewrite app_nil_r. rewrite map_app in ND. simpl in ND.
  assert (Hn : ~ In k (map fst l)).
  { intro Hin. apply NoDup_remove_2 in ND. apply ND. rewrite app_nil_r. exact Hin. }
  clear ND. induction l as [|[k' v'] r IH]; simpl; [reflexivity|].
  simpl in Hn. eqb_case k k'; [subst; tauto|]. simpl. f_equal. apply IH. tauto.
Qed.

Lemma popitem_shape o k v r : NoDup (map fst (o_fwd o)) -> rev (o_fwd o) = (k, v) :: r ->
  removelast (o_fwd o) = d_rm (o_fwd o) k /\ d_get (o_fwd o) k = Some v.
Proof.
  intros ND H. apply rev_cons_app in H. rewrite H in *. split.
  - rewrite removelast_last. symmetry. now apply rm_last.
  - apply In_get; trivial. apply in_or_app. right. now left.
Qed.

(* ---- every single operation --------------------------------------------------- *)
Lemma step_ok o op : OtoInv o -> OtoInv (fst (oto_step o op)).
Proof.
  intro H. destruct op as [k v|k|k d| | |k d|kvs|kvs|k]; simpl.
  - destruct (unhashable v || unhashable k); simpl; trivial. now apply setitem_ok.
  - destruct (unhashable k); simpl; trivial.
    destruct (d_get (o_fwd o) k) eqn:E; simpl; trivial. now apply delpair_ok.
  - destruct (unhashable k); simpl; trivial.
    destruct (d_get (o_fwd o) k) eqn:E; simpl.
    + now apply delpair_ok.
    + destruct d; trivial.
  - destruct (rev (o_fwd o)) as [|[k v] r] eqn:E; simpl; trivial.
    destruct (popitem_shape o k v r (oi_ndf _ H) E) as [-> Hg]. now apply delpair_ok.
  - constructor; simpl; [constructor|constructor|]. intros k v. simpl. split; discriminate.
  - destruct (unhashable k); simpl; trivial.
    destruct (d_get (o_fwd o) k); simpl; trivial.
    destruct (unhashable d); simpl; trivial. now apply setitem_ok.
  - destruct (existsb kv_unhashable kvs); simpl; trivial. now apply update_ok.
  - destruct (existsb kv_unhashable kvs); simpl; trivial. now apply update_ok.
  - destruct (unhashable k); trivial.
Qed.

Lemma step_side_ok s o op : OtoInv o -> OtoInv (fst (oto_step_side s o op)).
Proof.
  intro H. unfold oto_step_side. destruct s; [|now apply step_ok].
  pose proof (step_ok (oto_swap o) op (OtoInv_swap _ H)) as H'.
  destruct (oto_step (oto_swap o) op) as [o' r]. simpl in *. now apply OtoInv_swap.
Qed.

(* ---- construction -------------------------------------------------------------- *)
Lemma dict_of_acc_nodup (kvs : list kv) : forall d : dict, NoDup (map fst d) ->
  NoDup (map fst (fold_left (fun d p => d_set d (fst p) (snd p)) kvs d)).
Proof.
  induction kvs as [|[k v] r IH]; simpl; intros d H; trivial. apply IH. now apply nodup_set.
Qed.

Lemma dict_of_nodup kvs : NoDup (map fst (dict_of kvs)).
Proof. apply dict_of_acc_nodup. constructor. Qed.

Lemma set_fresh (d : dict) k v : ~ In k (map fst d) -> d_set d k v = d ++ [(k, v)].
Proof.
  induction d as [|[k' v'] r IH]; simpl; [reflexivity|].
  intro H. eqb_case k k'; [subst; tauto|]. f_equal. apply IH. tauto.
Qed.

Lemma dict_of_acc_id (kvs : list kv) : forall d : dict, NoDup (map fst (d ++ kvs)) ->
  fold_left (fun d p => d_set d (fst p) (snd p)) kvs d = d ++ kvs.
Proof.
  induction kvs as [|[k v] r IH]; simpl; intros d H.
  - now rewrite app_nil_r.
  - rewrite set_fresh.
    + rewrite IH; rewrite <- app_assoc; simpl; trivial.
    + rewrite map_app in H. simpl in H. apply NoDup_remove_2 in H.
      intro Hin. apply H. apply in_or_app. now left.
Qed.

Lemma dict_of_id kvs : NoDup (map fst kvs) -> dict_of kvs = kvs.
Proof. intro H. unfold dict_of. now rewrite dict_of_acc_id. Qed.

Lemma set_length (d : dict) k v :
  length (d_set d k v) = if d_mem d k then length d else S (length d).
Proof.
  unfold d_mem. induction d as [|[k' v'] r IH]; simpl; [reflexivity|].
  eqb_case k k'; simpl; [reflexivity|]. rewrite IH. destruct (d_get r k); reflexivity.
Qed.

(* counting: building a dict from pairs loses length exactly when a key repeats *)
Lemma dict_of_acc_length (kvs : list kv) : forall d : dict, NoDup (map fst d) ->
  length (fold_left (fun d p => d_set d (fst p) (snd p)) kvs d) <= length d + length kvs /\
  (length (fold_left (fun d p => d_set d (fst p) (snd p)) kvs d) = length d + length kvs ->
   NoDup (map fst (d ++ kvs))).
Proof.
  induction kvs as [|[k v] r IH]; simpl; intros d ND.
  - split; [nlia|]. intros _. now rewrite app_nil_r.
  - destruct (IH (d_set d k v) (nodup_set d k v ND)) as [Hle Heq].
    rewrite set_length in Hle, Heq. unfold d_mem in *.
    destruct (d_get d k) eqn:Eg.
    + split; [nlia|]. intro H. nlia.
    + split; [nlia|]. intro H.
      rewrite set_fresh in Heq, H by now apply get_None_notin.
      rewrite <- app_assoc in Heq. simpl in Heq. apply Heq.
      rewrite H. nlia.
Qed.

Lemma dict_of_length_eq kvs : length (dict_of kvs) = length kvs -> NoDup (map fst kvs).
Proof.
  intro H. destruct (dict_of_acc_length kvs [] (NoDup_nil _)) as [_ Heq]. apply Heq. exact H.
Qed.

Lemma flip_fst d : map fst (flip d) = map snd d.
Proof. unfold flip. rewrite map_map. reflexivity. Qed.
Lemma flip_snd d : map snd (flip d) = map fst d.
Proof. unfold flip. rewrite map_map. reflexivity. Qed.
Lemma flip_In d a b : In (a, b) (flip d) <-> In (b, a) d.
Proof.
  unfold flip. rewrite in_map_iff. split.
  - intros [[x y] [[= <- <-] H]]. exact H.
  - intro H. exists (b, a). split; trivial.
Qed.
Lemma flip_length d : length (flip d) = length d.
Proof. unfold flip. apply map_length. Qed.

Lemma flip_bij d : NoDup (map fst d) -> NoDup (map snd d) -> Bij d (flip d).
Proof.
  intros A B k v. rewrite <- !In_get_iff; trivial.
  - symmetry. apply flip_In.
  - now rewrite flip_fst.
Qed.

(* values of dict_of (flip f) are distinct when f has distinct keys *)
Lemma dict_of_In kvs k v : In (k, v) (dict_of kvs) -> In (k, v) kvs.
Proof.
  unfold dict_of.
  assert (G : forall d : dict, In (k, v) (fold_left (fun d p => d_set d (fst p) (snd p)) kvs d) ->
                        In (k, v) d \/ In (k, v) kvs).
  { induction kvs as [|[k' v'] r IH]; simpl; intros d H; [now left|].
    apply IH in H. destruct H as [H|H]; [|tauto].
    assert (ND : In (k, v) (d_set d k' v') -> In (k, v) d \/ (k', v') = (k, v)).
    { clear. induction d as [|[a b] r IH]; simpl.
      - intros [H|[]]. now right.
      - eqb_case k' a; simpl.
        + intros [H|H]; [right; congruence|tauto].
        + intros [H|H]; [tauto|]. apply IH in H. tauto. }
    apply ND in H. tauto. }
  intro H. apply G in H. destruct H as [[]|H]. exact H.
Qed.

Lemma nodup_snd_dict_of_flip f : NoDup (map fst f) -> NoDup (map snd (dict_of (flip f))).
Proof.
  intro ND. set (i := dict_of (flip f)).
  assert (NDi : NoDup (map fst i)) by apply dict_of_nodup.
  (* injectivity of i as a function: equal values come from equal keys *)
  assert (Hinj : forall a a' b, In (a, b) i -> In (a', b) i -> a = a').
  { intros a a' b H1 H2. apply dict_of_In in H1. apply (proj1 (flip_In _ _ _)) in H1.
    apply dict_of_In in H2. apply (proj1 (flip_In _ _ _)) in H2.
    apply In_get in H1; trivial. apply In_get in H2; trivial. congruence. }
  clearbody i. induction i as [|[a b] r IH]; simpl; constructor.
  - intro Hin. apply in_map_iff in Hin. destruct Hin as [[a' b'] [Hb Hin]]. simpl in Hb. subst b'.
    assert (a = a') by (eapply Hinj; [now left|right; exact Hin]). subst a'.
    inversion NDi; subst. apply H1. apply in_map_iff. now exists (a, b).
  - apply IH.
    + now inversion NDi.
    + intros x x' y H1 H2. eapply Hinj; right; eauto.
Qed.

Lemma init_ok kvs : OtoInv (oto_init kvs).
Proof.
  unfold oto_init.
  set (fwd := dict_of kvs). set (inv := dict_of (flip fwd)).
  assert (NDf : NoDup (map fst fwd)) by apply dict_of_nodup.
  assert (NDi : NoDup (map fst inv)) by apply dict_of_nodup.
  eqb_case (length fwd) (length inv).
  - (* all values distinct: inv is just the flipped forward dict *)
    assert (NDv : NoDup (map snd fwd)).
    { rewrite <- flip_fst. apply dict_of_length_eq. fold inv. now rewrite flip_length. }
    assert (Hi : inv = flip fwd) by (apply dict_of_id; now rewrite flip_fst).
    constructor; cbn [o_fwd o_inv]; trivial. rewrite Hi. now apply flip_bij.
  - assert (NDv : NoDup (map snd inv)) by now apply nodup_snd_dict_of_flip.
    assert (Hf : dict_of (flip inv) = flip inv) by (apply dict_of_id; now rewrite flip_fst).
    constructor; cbn [o_fwd o_inv]; rewrite ?Hf; trivial.
    + now rewrite flip_fst.
    + apply Bij_sym. now apply flip_bij.
Qed.

Lemma init_unique_ok kvs o : oto_init_unique kvs = Ok o -> OtoInv o.
Proof.
  unfold oto_init_unique. pose proof (init_ok kvs) as H. unfold oto_init in H.
  destruct (Nat.eqb _ _); [|discriminate]. intros [= <-]. exact H.
Qed.

(* ---- heaps of instances ---------------------------------------------------------- *)
Lemma Forall_set_nth {A} (P : A -> Prop) l i x : Forall P l -> P x -> Forall P (set_nth l i x).
Proof.
  intros H Hx. revert i. induction H; intros [|i]; simpl; constructor; auto.
Qed.

Lemma Forall_snoc {A} (P : A -> Prop) l x : Forall P l -> P x -> Forall P (l ++ [x]).
Proof. intros H Hx. apply Forall_app. split; [trivial|]. constructor; [trivial|constructor]. Qed.

Lemma Forall_nth_error {A} (P : A -> Prop) l i x : Forall P l -> nth_error l i = Some x -> P x.
Proof. intros H E. rewrite Forall_forall in H. apply H. eapply nth_error_In; eauto. Qed.

Lemma oto_new_ok u kvs o : oto_new u kvs = Ok o -> OtoInv o.
Proof.
  unfold oto_new. destruct (new_rejects kvs); [discriminate|].
  destruct u.
  - apply init_unique_ok.
  - intros [= <-]. apply init_ok.
Qed.

Lemma inj_nodup_snd (l : dict) :
  NoDup (map fst l) -> (forall a a' b, In (a, b) l -> In (a', b) l -> a = a') -> NoDup (map snd l).
Proof.
  induction l as [|[a b] r IH]; simpl; intros ND Hinj; constructor.
  - intro Hin. apply in_map_iff in Hin. destruct Hin as [[a' b'] [Hb Hin]]. simpl in Hb. subst b'.
    assert (a = a') by (eapply Hinj; [now left|right; exact Hin]). subst a'.
    inversion ND; subst. apply H1. apply in_map_iff. now exists (a, b).
  - apply IH.
    + now inversion ND.
    + intros x x' y H1 H2. eapply Hinj; right; eauto.
Qed.

Lemma OtoInv_vals o : OtoInv o -> NoDup (map snd (o_fwd o)).
Proof.
  intros [A B C]. apply inj_nodup_snd; trivial.
  intros a a' b H1 H2. apply In_get in H1; trivial. apply In_get in H2; trivial.
  eapply bij_inj; eauto.
Qed.

Lemma deepcopy_ok x : OtoInv x -> OtoInv (oto_deepcopy x).
Proof.
  intro H. pose proof (OtoInv_vals x H) as Vf. pose proof (OtoInv_vals _ (OtoInv_swap _ H)) as Vi.
  destruct H as [A B C]. simpl in Vi.
  assert (Nf : NoDup (map fst (flip (o_inv x)))) by now rewrite flip_fst.
  assert (Ni : NoDup (map fst (flip (o_fwd x)))) by now rewrite flip_fst.
  constructor; cbn [oto_deepcopy o_fwd o_inv]; trivial.
  intros k v. rewrite <- (In_get_iff _ k v Nf), <- (In_get_iff _ v k Ni).
  split; intro Hin.
  - apply (proj2 (flip_In _ _ _)). apply (proj1 (flip_In _ _ _)) in Hin.
    apply get_In. apply C. now apply In_get.
  - apply (proj2 (flip_In _ _ _)). apply (proj1 (flip_In _ _ _)) in Hin.
    apply get_In. apply C. now apply In_get.
Qed.

Lemma empty_ok : OtoInv (mkOto [] []).
Proof. constructor; simpl; [constructor|constructor|]. intros k v. simpl. split; discriminate. Qed.

Lemma hstep_ok h hop : Forall OtoInv h -> Forall OtoInv (fst (oto_hstep h hop)).
Proof.
  intro H. destruct hop as [u kvs|i s|i s op|ior i s j t|keys v|i s|i s j t]; simpl.
  7: { destruct (nth_error h i); simpl; trivial. destruct (nth_error h j); simpl; trivial. }
  6: { destruct (nth_error h i) as [o|] eqn:E; simpl; trivial. apply Forall_snoc; trivial.
       apply deepcopy_ok. destruct s; simpl; [apply OtoInv_swap|]; eapply Forall_nth_error; eauto. }
  5: { destruct (existsb kv_unhashable (fromkeys_pairs keys v)); simpl; trivial.
       apply Forall_snoc; trivial. apply update_ok, empty_ok. }
  - destruct (oto_new u kvs) eqn:E; simpl; trivial.
    apply Forall_snoc; trivial. eapply oto_new_ok; eauto.
  - destruct (nth_error h i) eqn:E; simpl; trivial. apply Forall_snoc; trivial. apply init_ok.
  - destruct (nth_error h i) as [o|] eqn:E; simpl; trivial.
    pose proof (step_side_ok s o op (Forall_nth_error _ _ _ _ H E)) as H'.
    destruct (oto_step_side s o op) as [o' r]. simpl in *. now apply Forall_set_nth.
  - destruct (nth_error h i) as [o|] eqn:E; simpl; trivial.
    destruct (nth_error h j) as [o2|] eqn:E2; simpl; trivial.
    set (op := if ior then _ else _).
    pose proof (step_side_ok s o op (Forall_nth_error _ _ _ _ H E)) as H'.
    destruct (oto_step_side s o op) as [o' r]. simpl in *. now apply Forall_set_nth.
Qed.

Definition oto_run (hops : list oto_hop) : list oto :=
  fold_left (fun h hop => fst (oto_hstep h hop)) hops [].

Lemma run_ok hops : Forall OtoInv (oto_run hops).
Proof.
  unfold oto_run.
  assert (G : forall h, Forall OtoInv h ->
            Forall OtoInv (fold_left (fun h hop => fst (oto_hstep h hop)) hops h)).
  { induction hops as [|hop r IH]; simpl; intros h H; trivial. apply IH. now apply hstep_ok. }
  apply G. constructor.
Qed.

(* the invariant, read on what the public API shows *)
Definition Inverse (f i : dict) : Prop :=
  NoDup (map fst f) /\ NoDup (map fst i) /\ forall k v, In (k, v) f <-> In (v, k) i.

Lemma OtoInv_Inverse o : OtoInv o -> Inverse (o_fwd o) (o_inv o).
Proof.
  intros [A B C]. repeat split; trivial; intro H.
  - apply get_In, C, In_get; trivial.
  - apply get_In, C, In_get; trivial.
Qed.

Theorem oto_inverse_after_any_history hops o :
  In o (oto_run hops) ->
  Inverse (o_fwd o) (o_inv o) /\ oto_swap (oto_swap o) = o.
Proof.
  intro H. split; [|apply oto_swap_invol].
  apply OtoInv_Inverse. pose proof (run_ok hops) as F. rewrite Forall_forall in F. now apply F.
Qed.

(* hence no value under two keys *)
Corollary oto_no_value_under_two_keys hops o k k' v :
  In o (oto_run hops) -> In (k, v) (o_fwd o) -> In (k', v) (o_fwd o) -> k = k'.
Proof.
  intros H H1 H2. destruct (oto_inverse_after_any_history hops o H) as [[A [B C]] _].
  apply C in H1. apply C in H2. apply In_get in H1; trivial. apply In_get in H2; trivial. congruence.
Qed.

(* unhashable operands: refused before anything is written; update is all-or-nothing *)
Lemma update_all_or_nothing o kvs : existsb kv_unhashable kvs = true ->
  oto_step o (OUpdate kvs) = (o, Raise TypeError) /\ oto_step o (OIor kvs) = (o, Raise TypeError).
Proof. intro H. simpl. rewrite H. split; reflexivity. Qed.

Lemma setitem_refuses_unhashable o k v : unhashable k || unhashable v = true ->
  oto_step o (OSet k v) = (o, Raise TypeError).
Proof. intro H. simpl. rewrite orb_comm, H. reflexivity. Qed.
