(* The authority hypothesis of wf_base_mc (mc_auth_fold) follows from the
   structure of the rendered authority: userinfo-safe userinfo, LDH host in any
   case, a port that is neither 0 nor the default of the scheme as spelled or of
   its lower-case form. *)
From Boltons Require Import Lib.Prelude Lib.C07_Str Spec.C07_Spec Gen.C07_Gen Model.C07_Model
     Check.C07_Check Proofs.C07_StrLemmas Proofs.C07_Rds Proofs.C07_Resolve Proofs.C07_Parse
     Proofs.C07_Navigate Proofs.C07_Text Proofs.C07_Refine Proofs.C07_RoundTrip Proofs.C07_Case.
Open Scope N_scope.

Record auth_plain (b : url) : Prop := {
  ap_user : forallb ui_char (u_user b) = true;
  ap_pass : forallb ui_char (u_pass b) = true;
  ap_pass_user : u_pass b <> [] -> u_user b <> [];
  ap_host_ne : u_host b <> [];
  ap_host_chars : forallb host_char (u_host b) = true;
  ap_port : match u_port b with
            | Some p => p <> 0 /\ option_eqb N.eqb (Some p) (default_port (u_scheme b)) = false
                               /\ option_eqb N.eqb (Some p) (default_port (lower (u_scheme b))) = false
            | None => True end }.

Lemma host_char_lower c : host_char c = true -> host_char (lower_ch c) = true.
Proof.
  unfold host_char, lower_ch, is_alpha, is_digit. intro H.
  destruct ((65 <=? c) && (c <=? 90)) eqn:E; [|rewrite E; exact H].
  apply andb_true_iff in E as [E1 E2]. apply N.leb_le in E1, E2.
  assert (A : (97 <=? c + 32) && (c + 32 <=? 122) = true).
  { apply andb_true_iff. split; apply N.leb_le; lia. }
  rewrite A, orb_true_r. reflexivity.
Qed.

Lemma host_chars_lower h : forallb host_char h = true -> forallb host_char (lower h) = true.
Proof.
  induction h as [|c h IH]; [reflexivity|]. cbn [forallb lower map]. intro H.
  apply andb_true_iff in H as [Hc Hh]. rewrite (host_char_lower c Hc). exact (IH Hh).
Qed.

Lemma lower_digits s : forallb is_digit s = true -> lower s = s.
Proof.
  induction s as [|c s IH]; [reflexivity|]. cbn [forallb lower map]. intro H.
  apply andb_true_iff in H as [Hc Hs]. unfold lower in IH. rewrite (IH Hs). f_equal.
  unfold lower_ch, is_digit in *. apply andb_true_iff in Hc as [H1 H2]. apply N.leb_le in H1, H2.
  destruct ((65 <=? c) && (c <=? 90)) eqn:E; [|reflexivity].
  apply andb_true_iff in E as [E1 _]. apply N.leb_le in E1. lia.
Qed.

Lemma lower_app a b : lower (a ++ b) = lower a ++ lower b.
Proof. unfold lower. apply map_app. Qed.

(* the rendered authority, given how the port is decided *)
Lemma authority_shape_gen b : auth_plain b ->
  forall sch host',
  host' <> [] -> mem COLON host' = false ->
  (match u_port b with Some p => p <> 0 /\ option_eqb N.eqb (Some p) (default_port sch) = false | None => True end) ->
  authority_text (mkUrl sch (u_sep b) (u_user b) (u_pass b) host' (u_port b) (u_path b) (u_query b) (u_frag b)) =
  (if nonempty (u_user b) then (u_user b ++ (if nonempty (u_pass b) then COLON :: u_pass b else [])) ++ [AT] else [])
  ++ host' ++ match u_port b with Some p => COLON :: dec p | None => [] end.
Proof.
  intros A sch host' Hne Hc HP. unfold authority_text. cbn [u_user u_pass u_host u_port u_scheme].
  rewrite (quote_ui_id _ (ap_user b A)), (quote_ui_id _ (ap_pass b A)), (nonempty_true _ Hne), Hc.
  f_equal.
  - destruct (nonempty (u_user b)) eqn:Eu.
    + cbn [orb]. rewrite <- app_assoc. reflexivity.
    + destruct (u_pass b) as [|c p] eqn:Ep; [reflexivity|]. exfalso.
      assert (u_user b <> []) by (apply (ap_pass_user b A); rewrite Ep; discriminate).
      destruct (u_user b); [contradiction|discriminate].
  - f_equal. destruct (u_port b) as [p|]; [|reflexivity].
    destruct HP as [H0 HD]. apply N.eqb_neq in H0. rewrite H0, HD. reflexivity.
Qed.

Lemma mem_colon_host h : forallb host_char h = true -> mem COLON h = false.
Proof. intro H. apply mem_lacks. apply (host_lacks COLON _ eq_refl H). Qed.

Theorem auth_fold_structural b : auth_plain b ->
  authority_text (lc b) = lower_host (authority_text b).
Proof.
  intro A.
  assert (Hl : lower (u_host b) <> []).
  { pose proof (ap_host_ne b A) as H. destruct (u_host b); [contradiction|discriminate]. }
  pose proof (host_chars_lower _ (ap_host_chars b A)) as Hlc.
  assert (P1 : match u_port b with Some p => p <> 0 /\ option_eqb N.eqb (Some p) (default_port (u_scheme b)) = false | None => True end).
  { pose proof (ap_port b A) as H. destruct (u_port b); [tauto|exact I]. }
  assert (P2 : match u_port b with Some p => p <> 0 /\ option_eqb N.eqb (Some p) (default_port (lower (u_scheme b))) = false | None => True end).
  { pose proof (ap_port b A) as H. destruct (u_port b); [tauto|exact I]. }
  pose proof (authority_shape_gen b A (u_scheme b) (u_host b) (ap_host_ne b A) (mem_colon_host _ (ap_host_chars b A)) P1) as S1.
  pose proof (authority_shape_gen b A (lower (u_scheme b)) (lower (u_host b)) Hl (mem_colon_host _ Hlc) P2) as S2.
  assert (E1 : authority_text b = authority_text (mkUrl (u_scheme b) (u_sep b) (u_user b) (u_pass b) (u_host b) (u_port b) (u_path b) (u_query b) (u_frag b)))
    by (destruct b; reflexivity).
  unfold lc. rewrite S2, E1, S1. clear S1 S2 E1.
  set (P := match u_port b with Some p => COLON :: dec p | None => [] end).
  assert (LP : lower P = P).
  { unfold P. destruct (u_port b); [|reflexivity]. cbn [lower map]. change (lower_ch COLON) with COLON.
    f_equal. apply (lower_digits _ (digits_are_digits _)). }
  assert (HAT : lacks AT (u_host b ++ P)).
  { apply lacks_app. split; [apply (host_lacks AT _ eq_refl (ap_host_chars b A))|].
    unfold P. destruct (u_port b); [|reflexivity]. unfold lacks. cbn [forallb].
    change (negb (COLON =? AT)) with true. cbn [andb]. apply (digits_lack AT _ eq_refl (digits_are_digits _)). }
  set (U := u_user b ++ (if nonempty (u_pass b) then COLON :: u_pass b else [])).
  unfold lower_host. destruct (nonempty (u_user b)).
  - rewrite <- !(app_assoc U [AT]). cbn [app].
    rewrite (rpartition_found AT U _ HAT), lower_app, LP. reflexivity.
  - cbn [app]. rewrite (rpartition_missing AT _ HAT), lower_app, LP. reflexivity.
Qed.
