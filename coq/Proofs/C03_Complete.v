(* C03: the interleaving search of Spec/C03_Spec.v (find_serial) is complete: if some
   interleaving of the threads' (operation, result) lists is accepted step by step and its final
   state passes `final`, the search returns a witness. *)
From Boltons Require Import Lib.Prelude Lib.C03_Syntax Spec.C03_Spec.

Section Complete.
  Variables (c : rcfg) (final : rcache -> bool).

  Definition size (ths : list tprog) : nat := fold_right (fun t n => length t + n) 0 ths.

  (* an accepted interleaving, as a derivation *)
  Inductive accepted : rcache -> list tprog -> Prop :=
  | acc_done s ths : all_done ths = true -> final s = true -> accepted s ths
  | acc_step s ths i o r ths' s' :
      In (i, (o, r), ths') (picks ths) -> r_accepts c s o r = Some s' -> accepted s' ths' ->
      accepted s ths.

  Definition body (fuel : nat) (s : rcache) (found : option (list nat)) (pk : nat * (op * rv) * list tprog) :=
    match found with
    | Some _ => found
    | None =>
        let '(i, (o, r), ths') := pk in
        match r_accepts c s o r with
        | Some s' => match find_serial fuel c s' ths' final with
                     | Some ord => Some (i :: ord)
                     | None => None
                     end
        | None => None
        end
    end.

  Lemma fold_some fuel s l : forall x, fold_left (body fuel s) l (Some x) = Some x.
  Proof. induction l; intro x; cbn [fold_left]; [reflexivity|]. apply IHl. Qed.

  Lemma fold_first fuel s l pk :
    In pk l -> body fuel s None pk <> None -> fold_left (body fuel s) l None <> None.
  Proof.
    induction l as [|a r IH]; intros H B; [destruct H|].
    cbn [fold_left]. destruct H as [->|H].
    - destruct (body fuel s None pk) eqn:E; [|congruence]. rewrite fold_some. discriminate.
    - destruct (body fuel s None a) eqn:E; [rewrite fold_some; discriminate|]. apply IH; assumption.
  Qed.

  Lemma all_done_no_picks : forall ths i before, all_done ths = true -> picks_from i before ths = [].
  Proof.
    induction ths as [|t r IH]; intros i before H; simpl; [reflexivity|].
    simpl in H. destruct t; [|discriminate]. apply IH. exact H.
  Qed.

  Lemma size_app a b : size (a ++ b) = size a + size b.
  Proof. induction a; simpl; [reflexivity|]. rewrite IHa. lia. Qed.

  Lemma picks_size : forall after i before pk,
    In pk (picks_from i before after) -> S (size (snd pk)) = size before + size after.
  Proof.
    induction after as [|t r IH]; intros i before pk H; simpl in H; [destruct H|].
    destruct t as [|x t].
    - apply IH in H. rewrite H, size_app. simpl. lia.
    - destruct H as [<-|H].
      + simpl. rewrite size_app. simpl. lia.
      + apply IH in H. rewrite H, size_app. simpl. lia.
  Qed.

  Theorem find_serial_complete : forall s ths,
    accepted s ths -> forall fuel, size ths <= fuel -> find_serial fuel c s ths final <> None.
  Proof.
    intros s ths A. induction A as [s ths D F|s ths i o r ths' s' I RA A IH]; intros fuel L.
    - destruct fuel; simpl; rewrite D, F; discriminate.
    - assert (ND : all_done ths = false).
      { destruct (all_done ths) eqn:E; [|reflexivity].
        unfold picks in I. rewrite (all_done_no_picks ths 0 [] E) in I. destruct I. }
      pose proof (picks_size ths 0 [] _ I) as PS. simpl in PS.
      destruct fuel as [|f]; [lia|].
      simpl. rewrite ND.
      change (fold_left (body f s) (picks ths) None <> None).
      apply (fold_first f s (picks ths) (i, (o, r), ths') I).
      unfold body. rewrite RA.
      specialize (IH f). destruct (find_serial f c s' ths' final); [discriminate|].
      exfalso. apply IH; [lia|reflexivity].
  Qed.
End Complete.

(* ---- from an accepted event sequence to an accepted interleaving --------------------------- *)
Fixpoint set_nth {X} (l : list X) (i : nat) (x : X) : list X :=
  match l, i with
  | [], _ => []
  | _ :: r, 0 => x :: r
  | y :: r, S j => y :: set_nth r j x
  end.

Lemma picks_from_in : forall after j i before y rest,
  nth_error after j = Some (y :: rest) ->
  In (i + j, y, before ++ set_nth after j rest) (picks_from i before after).
Proof.
  induction after as [|t r IH]; intros j i before y rest H; [destruct j; discriminate|].
  destruct j as [|j]; simpl in H.
  - inversion H; subst t. simpl. rewrite Nat.add_0_r. now left.
  - specialize (IH j (S i) (before ++ [t]) y rest H).
    replace (S i + j) with (i + S j) in IH by lia.
    rewrite <- app_assoc in IH. simpl in IH.
    simpl. destruct t as [|x t]; [exact IH|right; exact IH].
Qed.

Lemma picks_in ths j y rest :
  nth_error ths j = Some (y :: rest) -> In (j, y, set_nth ths j rest) (picks ths).
Proof. intro H. apply (picks_from_in ths j 0 [] y rest H). Qed.

Lemma nth_set_nth_same {X} (l : list X) i x d : i < length l -> nth i (set_nth l i x) d = x.
Proof. revert i. induction l; intros [|i] H; simpl in *; try lia; auto. apply IHl. lia. Qed.

Lemma nth_set_nth_other {X} (l : list X) i j x d : i <> j -> nth j (set_nth l i x) d = nth j l d.
Proof. revert i j. induction l; intros [|i] [|j] H; simpl; auto; try congruence. Qed.

Lemma set_nth_length {X} (l : list X) i x : length (set_nth l i x) = length l.
Proof. revert i. induction l; intros [|i]; simpl; auto. Qed.

Lemma all_done_nth (ths : list tprog) :
  (forall t, t < length ths -> nth t ths [] = []) -> all_done ths = true.
Proof.
  induction ths as [|a r IH]; intro H; [reflexivity|].
  simpl. pose proof (H 0 ltac:(simpl; lia)) as H0. simpl in H0. subst a.
  apply IH. intros t Ht. apply (H (S t)). simpl. lia.
Qed.

Definition ev := (nat * op * rv)%type.
Definition ops_of' (t : nat) (tr : list ev) : list op :=
  map (fun e => snd (fst e)) (filter (fun e => Nat.eqb (fst (fst e)) t) tr).
Definition results_of' (t : nat) (tr : list ev) : list rv :=
  map snd (filter (fun e => Nat.eqb (fst (fst e)) t) tr).

Fixpoint replay' (c : rcfg) (l : rcache) (tr : list ev) : option rcache :=
  match tr with
  | [] => Some l
  | (_, o, x) :: r => match r_accepts c l o x with Some l' => replay' c l' r | None => None end
  end.

Theorem trace_to_accepted c final : forall tr s sf ths,
  replay' c s tr = Some sf -> final sf = true ->
  (forall e, In e tr -> fst (fst e) < length ths) ->
  (forall t, t < length ths -> nth t ths [] = combine (ops_of' t tr) (results_of' t tr)) ->
  accepted c final s ths.
Proof.
  induction tr as [|[[t o] x] tr IH]; intros s sf ths RP F B PR.
  - simpl in RP. inversion RP; subst sf. apply acc_done; [|exact F].
    apply all_done_nth. intros t Ht. exact (PR t Ht).
  - simpl in RP. destruct (r_accepts c s o x) as [s'|] eqn:RA; [|discriminate].
    assert (Ht : t < length ths) by (apply (B (t, o, x)); now left).
    pose proof (PR t Ht) as Pt. unfold ops_of', results_of' in Pt. simpl in Pt.
    rewrite Nat.eqb_refl in Pt. simpl in Pt.
    set (rest := combine (ops_of' t tr) (results_of' t tr)) in *.
    assert (NE : nth_error ths t = Some ((o, x) :: rest)).
    { rewrite (nth_error_nth' ths [] Ht). now rewrite Pt. }
    apply (acc_step c final s ths t o x (set_nth ths t rest) s' (picks_in ths t (o, x) rest NE) RA).
    apply (IH s' sf (set_nth ths t rest) RP F).
    + intros e He. rewrite set_nth_length. apply B. now right.
    + intros u Hu. rewrite set_nth_length in Hu.
      destruct (Nat.eq_dec u t) as [->|NEu].
      * rewrite nth_set_nth_same by exact Hu. reflexivity.
      * rewrite nth_set_nth_other by congruence. rewrite (PR u Hu).
        unfold ops_of', results_of'. simpl.
        destruct (Nat.eqb_spec t u); [congruence|]. reflexivity.
Qed.
