(* C02: the programs regenerated from the CURRENT source of the public methods
   (coq/Gen/C02_GenM.v), run by Model/C02_MethInterp.v, are the methods of the
   pointer-level cache model (Model/C02_PtrCache.v).  Re-checked on every run. *)
From Boltons Require Import Lib.Prelude Lib.C02_Syntax Model.C02_Model Model.C02_PtrModel Model.C02_PtrCache
  Model.C02_MethInterp Gen.C02_GenM Spec.C02_Spec Proofs.C02_Lists.
Open Scope nat_scope.

(* how a model outcome is seen by a caller of the interpreted method *)
Definition er_of_out (r : res outv) : er :=
  match r with
  | Ok ONone => EV MNone
  | Ok (OVal v) => EV (MVal v)
  | Ok (OItem k v) => EV (MItem k v)
  | Ok (OBool b) => EV (MBool b)
  | Ok (ONat n) => EV (MNat n)
  | Ok _ => EStuck
  | Raise e => ERaise e
  end.

Definition of_step (x : pcache * res outv) : pcache * er := (fst x, er_of_out (snd x)).

Definition params (k : K) (v d e f : mv) : param -> mv :=
  fun q => match q with PKey => MKey k | PValue => v | PDefault => d | PE => e | PF => f end.

Local Arguments d_get : simpl never.
Local Arguments d_set : simpl never.
Local Arguments d_del : simpl never.
Local Arguments d_mem : simpl never.
Local Arguments p_move_to_front : simpl never.
Local Arguments p_add_to_front : simpl never.
Local Arguments p_evict : simpl never.
Local Arguments p_remove : simpl never.
Local Arguments p_init : simpl never.
Local Arguments p_set_value : simpl never.
Local Arguments psetitem : simpl never.
Local Arguments pgetitem : simpl never.
Local Arguments rev : simpl never.
Local Arguments Nat.ltb : simpl never.
Local Arguments N.add : simpl never.

Ltac crush :=
  repeat (simpl;
          match goal with
          | |- context [match ?x with _ => _ end] =>
              lazymatch x with
              | context [match _ with _ => _ end] => fail
              | _ => destruct x eqn:?
              end
          end);
  simpl; try reflexivity; try congruence.

Ltac obl tac :=
  let H := fresh "H" in
  intro H; unfold genm_present in H; first [discriminate H | (clear H; tac)].

Lemma genm_delitem_ok c p k :
  genm_present = true ->
  call_method c genm_delitem (params k MNone MNone MNone MNone) p = of_step (pstep1 c p (DelItem k)).
Proof.
  obl ltac:(destruct p as [st rg h m s cl]; unfold call_method, genm_delitem, of_step; simpl pstep1;
            unfold premove_after; crush).
Qed.

Lemma genm_popitem_ok c p :
  genm_present = true ->
  call_method c genm_popitem (params 0 MNone MNone MNone MNone) p = of_step (pstep1 c p PopItem).
Proof.
  obl ltac:(destruct p as [st rg h m s cl]; unfold call_method, genm_popitem, of_step; simpl pstep1;
            unfold premove_after; crush).
Qed.

Lemma genm_clear_ok c p :
  genm_present = true ->
  call_method c genm_clear (params 0 MNone MNone MNone MNone) p = of_step (pstep1 c p Clear).
Proof.
  obl ltac:(destruct p as [st rg h m s cl]; unfold call_method, genm_clear, of_step; simpl pstep1; crush).
Qed.

Definition default_mv (d : option V) : mv := match d with Some v => MVal v | None => MMissing end.

Lemma genm_pop_ok c p k d :
  genm_present = true ->
  call_method c genm_pop (params k MNone (default_mv d) MNone MNone) p = of_step (pstep1 c p (Pop k d)).
Proof.
  obl ltac:(destruct p as [st rg h m s cl]; destruct d; unfold call_method, genm_pop, of_step; simpl pstep1;
            unfold premove_after; crush).
Qed.

Definition of_unit (x : pcache * res unit) : pcache * er :=
  match x with (p, Ok _) => (p, EV MNone) | (p, Raise e) => (p, ERaise e) end.

Lemma genm_setitem_ok c p k v :
  genm_present = true ->
  call_method c genm_setitem (params k (MVal v) MNone MNone MNone) p = of_unit (psetitem c p k v).
Proof.
  obl ltac:(destruct p as [st rg h m s cl]; unfold call_method, genm_setitem, of_unit, psetitem, pset_sr; crush).
Qed.

Definition of_val (x : pcache * res V) : pcache * er :=
  match x with (p, Ok v) => (p, EV (MVal v)) | (p, Raise e) => (p, ERaise e) end.

(* a link that the table knows holds a value (never _MISSING): true of every
   represented ring (Proofs/C02_PtrRep.v: rep_find, rep_move) *)
Definition link_has_value (pr : pring) (k : K) : Prop :=
  forall n, d_get (pr_lookup pr) k = Some n -> c_val (pr_heap pr n) <> None.

Definition moved_link_has_value (pr : pring) (k : K) : Prop :=
  forall r' n, p_move_to_front pr k = Some (r', n) -> c_val (pr_heap r' n) <> None.

Lemma genm_getitem_lri_ok c p k :
  genm_present = true -> c_cls c = LRI -> link_has_value (ps_ring p) k ->
  call_method c genm_getitem_lri (params k MNone MNone MNone MNone) p = of_val (pgetitem c p k).
Proof.
  obl ltac:(intros CL LV; destruct p as [st rg h m s cl]; unfold link_has_value in LV; simpl in LV;
            unfold call_method, genm_getitem_lri, of_val, pgetitem, p_find; rewrite CL; crush;
            try (exfalso; eapply LV; eauto; fail)).
Qed.

Lemma genm_getitem_lru_ok c p k :
  genm_present = true -> c_cls c = LRU -> moved_link_has_value (ps_ring p) k ->
  call_method c genm_getitem_lru (params k MNone MNone MNone MNone) p = of_val (pgetitem c p k).
Proof.
  obl ltac:(intros CL LV; destruct p as [st rg h m s cl]; unfold moved_link_has_value in LV; simpl in LV;
            unfold call_method, genm_getitem_lru, of_val, pgetitem; rewrite CL; crush;
            try (exfalso; eapply LV; eauto; fail)).
Qed.

Lemma genm_get_ok c p k d :
  genm_present = true ->
  call_method c genm_get (params k MNone (MVal d) MNone MNone) p = of_step (pstep1 c p (Get k d)).
Proof.
  obl ltac:(destruct p as [st rg h m s cl]; unfold call_method, genm_get, of_step; simpl pstep1; crush).
Qed.

Lemma genm_setdefault_ok c p k d :
  genm_present = true ->
  call_method c genm_setdefault (params k MNone (MVal d) MNone MNone) p = of_step (pstep1 c p (SetDefault k d)).
Proof.
  obl ltac:(destruct p as [st rg h m s cl]; unfold call_method, genm_setdefault, of_step; simpl pstep1;
            unfold plift, pbump_soft; crush).
Qed.

(* ---- update: the three loops are psetitems ------------------------------------------------ *)
Definition outc (r : res unit) : outcome := match r with Ok _ => ONormalO | Raise ex => ORaiseO ex end.

Lemma loop_pairs_spec c runb x y :
  (forall s k w, exists env',
      runb (bind (bind s x (MKey k)) y (MVal w))
      = (mkMS (fst (psetitem c (ms_cache s) k w)) env', outc (snd (psetitem c (ms_cache s) k w)))) ->
  forall l s, exists env',
      loop_pairs runb x y l s
      = (mkMS (fst (psetitems c (ms_cache s) l)) env', outc (snd (psetitems c (ms_cache s) l))).
Proof.
  intros HB l. induction l as [|[k w] rest IH]; intro s.
  - exists (ms_env s). destruct s; reflexivity.
  - cbn [loop_pairs psetitems]. destruct (HB s k w) as [env1 E]. rewrite E.
    destruct (psetitem c (ms_cache s) k w) as [p1 [u|ex]]; cbn [fst snd outc].
    + destruct (IH (mkMS p1 env1)) as [env2 E2]. exists env2. exact E2.
    + exists env1. reflexivity.
Qed.

Lemma loop_keys_spec c runb x (lfull : list (K * V)) :
  (forall s k w, d_get lfull k = Some w -> exists env',
      runb (bind s x (MKey k))
      = (mkMS (fst (psetitem c (ms_cache s) k w)) env', outc (snd (psetitem c (ms_cache s) k w)))) ->
  forall l s, (forall k w, In (k, w) l -> d_get lfull k = Some w) -> exists env',
      loop_keys runb x l s
      = (mkMS (fst (psetitems c (ms_cache s) l)) env', outc (snd (psetitems c (ms_cache s) l))).
Proof.
  intros HB l. induction l as [|[k w] rest IH]; intros s HL.
  - exists (ms_env s). destruct s; reflexivity.
  - cbn [loop_keys psetitems]. destruct (HB s k w (HL k w (or_introl eq_refl))) as [env1 E]. rewrite E.
    destruct (psetitem c (ms_cache s) k w) as [p1 [u|ex]]; cbn [fst snd outc].
    + destruct (IH (mkMS p1 env1)) as [env2 E2]; [intros; apply HL; now right|]. exists env2. exact E2.
    + exists env1. reflexivity.
Qed.

Lemma psetitems_app c e f p :
  psetitems c p (e ++ f)
  = match psetitems c p e with (p', Ok _) => psetitems c p' f | (p', Raise ex) => (p', Raise ex) end.
Proof.
  revert p. induction e as [|[k v] rest IH]; intro p; simpl; [reflexivity|].
  destruct (psetitem c p k v) as [p1 [u|ex]]; [apply IH|reflexivity].
Qed.

Ltac keys_loop c f :=
  match goal with |- context [loop_keys ?r ?x f ?s] =>
    let LK := fresh "LK" in let env := fresh "env" in let E := fresh "E" in
    pose proof (fun HB HL => loop_keys_spec c r x f HB f s HL) as LK;
    destruct LK as [env E];
    [ (let s0 := fresh "s" in let k0 := fresh "k" in let w0 := fresh "w" in let G := fresh "G" in
       intros s0 k0 w0 G; cbn; rewrite G; unfold of_er; cbn;
       destruct (psetitem c (ms_cache s0) k0 w0) as [? [?|?]]; eexists; reflexivity)
    | (intros; apply d_get_in_nd; assumption)
    | rewrite E; clear E ]
  end.

Ltac pairs_loop c :=
  match goal with |- context [loop_pairs ?r ?x ?y ?l ?s] =>
    let LP := fresh "LP" in let env := fresh "env" in let E := fresh "E" in
    pose proof (fun HB => loop_pairs_spec c r x y HB l s) as LP;
    destruct LP as [env E];
    [ (let s0 := fresh "s" in let k0 := fresh "k" in let w0 := fresh "w" in
       intros s0 k0 w0; cbn; destruct (psetitem c (ms_cache s0) k0 w0) as [? [?|?]]; eexists; reflexivity)
    | rewrite E; clear E ]
  end.

Lemma genm_update_seq_ok c p e f :
  genm_present = true -> NoDup (keys f) ->
  call_method c genm_update (params 0 MNone MNone (MSeq e) (MMap f)) p = of_step (pstep1 c p (Update e f)).
Proof.
  obl ltac:(intro NDf; unfold call_method, genm_update, of_step; simpl pstep1; rewrite psetitems_app;
            cbn -[loop_pairs loop_keys psetitems]; pairs_loop c; cbn -[loop_keys psetitems];
            destruct (psetitems c p e) as [p1 [u|ex]]; cbn -[loop_keys psetitems];
            [ keys_loop c f; cbn -[psetitems]; destruct (psetitems c p1 f) as [? [?|?]]; reflexivity
            | reflexivity ]).
Qed.

Lemma genm_update_map_ok c p e f :
  genm_present = true -> NoDup (keys e) -> NoDup (keys f) ->
  call_method c genm_update (params 0 MNone MNone (MMap e) (MMap f)) p = of_step (pstep1 c p (Update e f)).
Proof.
  obl ltac:(intros NDe NDf; unfold call_method, genm_update, of_step; simpl pstep1; rewrite psetitems_app;
            cbn -[loop_pairs loop_keys psetitems]; keys_loop c e; cbn -[loop_keys psetitems];
            destruct (psetitems c p e) as [p1 [u|ex]]; cbn -[loop_keys psetitems];
            [ keys_loop c f; cbn -[psetitems]; destruct (psetitems c p1 f) as [? [?|?]]; reflexivity
            | reflexivity ]).
Qed.

Lemma genm_update_self_ok c p f :
  genm_present = true -> NoDup (keys f) ->
  call_method c genm_update (params 0 MNone MNone MSelf (MMap f)) p = of_step (pstep1 c p (UpdateSelf f)).
Proof.
  obl ltac:(intros NDf; unfold call_method, genm_update, of_step; simpl pstep1;
            cbn -[loop_keys psetitems]; keys_loop c f; cbn -[psetitems];
            destruct (psetitems c p f) as [? [?|?]]; reflexivity).
Qed.

(* the two side conditions of the __getitem__ obligations hold for every represented ring *)
From Boltons Require Import Proofs.C02_PtrLemmas Proofs.C02_PtrRep.

Lemma rep_link_has_value pr l ids k : Rep pr l ids -> NoDup (keys l) -> link_has_value pr k.
Proof.
  intros R ND n G. pose proof (rep_find pr l ids k R ND) as F. unfold p_find in F.
  change (@d_get id) with (@d_get V) in *. rewrite G in F.
  destruct (d_get l k) as [v|] eqn:GL.
  - rewrite F. discriminate.
  - destruct (rep_absent pr l ids k R GL) as [Z _]. change (@d_get id) with (@d_get V) in *. congruence.
Qed.

Lemma rep_moved_link_has_value pr l ids k : Rep pr l ids -> NoDup (keys l) -> moved_link_has_value pr k.
Proof.
  intros R ND r' n M. destruct (d_get l k) as [v|] eqn:GL.
  - destruct (rep_move pr l ids k v R ND GL) as [pr' [n' [ids' [E [_ [VV _]]]]]].
    rewrite E in M. inversion M; subst. rewrite VV. discriminate.
  - destruct (rep_absent pr l ids k R GL) as [_ [Z _]]. congruence.
Qed.

Lemma method_side_conditions pr l ids k :
  Rep pr l ids -> NoDup (keys l) -> link_has_value pr k /\ moved_link_has_value pr k.
Proof. intros. split; [eapply rep_link_has_value|eapply rep_moved_link_has_value]; eassumption. Qed.

(* ---- __contains__, __len__, __ior__, __eq__, __ne__ ------------------------------------------------------ *)
Lemma genm_contains_ok c p k :
  genm_present = true ->
  call_method c genm_contains (params k MNone MNone MNone MNone) p = of_step (pstep1 c p (Contains k)).
Proof. obl ltac:(destruct p as [st rg h m s cl]; unfold call_method, genm_contains, of_step; simpl pstep1; crush). Qed.

Lemma genm_len_ok c p :
  genm_present = true ->
  call_method c genm_len (params 0 MNone MNone MNone MNone) p = of_step (pstep1 c p Len).
Proof. obl ltac:(destruct p as [st rg h m s cl]; unfold call_method, genm_len, of_step; simpl pstep1; crush). Qed.

Definition of_self (x : pcache * res outv) : pcache * er :=
  match x with (p, Ok _) => (p, EV MSelf) | (p, Raise e) => (p, ERaise e) end.

Lemma genm_ior_pairs_ok c p e :
  genm_present = true ->
  call_method c genm_ior (params 0 MNone MNone (MSeq e) MNone) p = of_self (pstep1 c p (IOr e)).
Proof.
  obl ltac:(unfold call_method, genm_ior, of_self; simpl pstep1; cbn -[psetitems];
            destruct (psetitems c p e) as [? [?|?]]; reflexivity).
Qed.

Lemma genm_ior_mapping_ok c p e :
  genm_present = true ->
  call_method c genm_ior (params 0 MNone MNone (MMap e) MNone) p = of_self (pstep1 c p (IOr e)).
Proof.
  obl ltac:(unfold call_method, genm_ior, of_self; simpl pstep1; cbn -[psetitems];
            destruct (psetitems c p e) as [? [?|?]]; reflexivity).
Qed.

Lemma pcache_eq_dict_eq p d : pcache_eq p d = dict_eq (ps_store p) d.
Proof.
  unfold pcache_eq, dict_eq. destruct (Nat.eqb_spec (length d) (length (ps_store p))) as [E|NE]; simpl.
  - reflexivity.
  - destruct (Nat.eqb_spec (length (ps_store p)) (length d)); [congruence|reflexivity].
Qed.

Lemma genm_eq_dict_ok c p d :
  genm_present = true ->
  call_method c genm_eq (params 0 MNone MNone (MMap d) MNone) p = of_step (pstep1 c p (EqDict d)).
Proof.
  obl ltac:(unfold call_method, genm_eq, of_step; simpl pstep1; rewrite pcache_eq_dict_eq; reflexivity).
Qed.

Lemma genm_eq_self_ok c p :
  genm_present = true ->
  call_method c genm_eq (params 0 MNone MNone MSelf MNone) p = (p, EV (MBool true)).
Proof. obl ltac:(destruct p; reflexivity). Qed.

(* for an operand that is not a mapping dict.__eq__ answers NotImplemented (and Python's == then False) *)
Lemma genm_eq_other_ok c p :
  genm_present = true ->
  call_method c genm_eq (params 0 MNone MNone MNone MNone) p = (p, EV MNotImplemented).
Proof. obl ltac:(destruct p; reflexivity). Qed.

Lemma genm_ne_dict_ok c p d :
  genm_present = true ->
  call_method c genm_ne (params 0 MNone MNone (MMap d) MNone) p = of_step (pstep1 c p (NeDict d)).
Proof. obl ltac:(destruct p; reflexivity). Qed.

Lemma genm_ne_other_ok c p :
  genm_present = true ->
  call_method c genm_ne (params 0 MNone MNone MNone MNone) p = of_step (pstep1 c p NeOther).
Proof. obl ltac:(destruct p; reflexivity). Qed.

(* ---- copy(), __copy__ ------------------------------------------------------------------------------------- *)
(* a loop whose body assigns into another cache held by the local x0 *)
Lemma loop_pairs_obj c runb x y x0 :
  (forall s k w q, ms_env s x0 = MObj q -> exists s',
      runb (bind (bind s x (MKey k)) y (MVal w)) = (s', outc (snd (psetitem c q k w)))
      /\ ms_cache s' = ms_cache s /\ ms_env s' x0 = MObj (fst (psetitem c q k w))) ->
  forall l s q, ms_env s x0 = MObj q -> exists s',
      loop_pairs runb x y l s = (s', outc (snd (psetitems c q l)))
      /\ ms_cache s' = ms_cache s /\ ms_env s' x0 = MObj (fst (psetitems c q l)).
Proof.
  intros HB l. induction l as [|[k w] rest IH]; intros s q E.
  - exists s. simpl. auto.
  - cbn [loop_pairs psetitems]. destruct (HB s k w q E) as [s1 [R1 [C1 E1]]]. rewrite R1.
    destruct (psetitem c q k w) as [q1 [u|ex]]; cbn [fst snd outc] in *.
    + destruct (IH s1 q1 E1) as [s2 [R2 [C2 E2]]]. exists s2. rewrite R2. repeat split; congruence.
    + exists s1. auto.
Qed.

Definition of_copy (p : pcache) (x : pcache * res unit) : pcache * er :=
  match x with (q, Ok _) => (p, EV (MObj q)) | (_, Raise e) => (p, ERaise e) end.

Lemma genm_copy_ok c p :
  genm_present = true ->
  call_method c genm_copy (params 0 MNone MNone MNone MNone) p = of_copy p (pcopy_cache c p).
Proof.
  obl ltac:(unfold call_method, genm_copy, of_copy, pcopy_cache; cbn -[loop_pairs psetitems p_flatten];
    match goal with |- context [loop_pairs ?r ?x ?y ?l ?s] =>
      let LP := fresh "LP" in
      pose proof (fun HB => loop_pairs_obj c r x y 0 HB l s p_empty eq_refl) as LP;
      destruct LP as [s' [R [C E]]];
      [ (let s0 := fresh "s" in let k0 := fresh "k" in let w0 := fresh "w" in let q0 := fresh "q" in
         let G := fresh "G" in
         intros s0 k0 w0 q0 G; cbn; rewrite G; unfold of_er; cbn;
         destruct (psetitem c q0 k0 w0) as [? [?|?]]; eexists; cbn; repeat split; reflexivity)
      | rewrite R; clear R;
        destruct (psetitems c p_empty (p_flatten (ps_ring p))) as [q [u|ex]]; cbn [outc fst snd] in *;
        [ rewrite C, E; destruct p; reflexivity | rewrite C; destruct p; reflexivity ] ]
    end).
Qed.

Lemma genm_copy_module_ok c p :
  genm_present = true ->
  call_method c genm_copy_module (params 0 MNone MNone MNone MNone) p = of_copy p (pcopy_cache c p).
Proof.
  obl ltac:(unfold call_method, genm_copy_module, of_copy; cbn -[pcopy_cache];
            destruct (pcopy_cache c p) as [q [u|ex]]; destruct p; reflexivity).
Qed.

(* ---- __init__ ------------------------------------------------------------------------------------------------ *)
Definition init_result (c : cfg) (ok : bool) (init : list (K * V)) : pcache * er :=
  match ctor_outcome (c_max c) ok with
  | Some ValueError => (raw_object, ERaise ValueError)      (* raised before anything is set *)
  | Some ex => (p_empty, ERaise ex)                         (* counters and linked list are set, then TypeError *)
  | None => of_unit (pinit_cache c init)
  end.

Lemma genm_init_pairs_ok c ok init :
  genm_present = true ->
  call_method c genm_init (params 0 MNone (MBool ok) (MSeq init) MNone) raw_object = init_result c ok init.
Proof.
  obl ltac:(unfold call_method, genm_init, init_result, ctor_outcome, pinit_cache, of_unit;
            cbn -[psetitems Nat.leb]; destruct (c_max c <=? 0); cbn -[psetitems]; [reflexivity|];
            destruct ok; cbn -[psetitems]; [|reflexivity];
            destruct init as [|kv rest]; cbn -[psetitems]; [reflexivity|];
            unfold p_empty, set_ring, with_cache; cbn -[psetitems];
            match goal with |- context [psetitems c ?q ?l] => destruct (psetitems c q l) as [? [?|?]] end;
            reflexivity).
Qed.

Lemma genm_init_mapping_ok c ok init :
  genm_present = true ->
  call_method c genm_init (params 0 MNone (MBool ok) (MMap init) MNone) raw_object = init_result c ok init.
Proof.
  obl ltac:(unfold call_method, genm_init, init_result, ctor_outcome, pinit_cache, of_unit;
            cbn -[psetitems Nat.leb]; destruct (c_max c <=? 0); cbn -[psetitems]; [reflexivity|];
            destruct ok; cbn -[psetitems]; [|reflexivity];
            destruct init as [|kv rest]; cbn -[psetitems]; [reflexivity|];
            unfold p_empty, set_ring, with_cache; cbn -[psetitems];
            match goal with |- context [psetitems c ?q ?l] => destruct (psetitems c q l) as [? [?|?]] end;
            reflexivity).
Qed.

(* values=None *)
Lemma genm_init_none_ok c ok :
  genm_present = true ->
  call_method c genm_init (params 0 MNone (MBool ok) MNone MNone) raw_object = init_result c ok [].
Proof.
  obl ltac:(unfold call_method, genm_init, init_result, ctor_outcome, pinit_cache, of_unit;
            cbn -[Nat.leb]; destruct (c_max c <=? 0); cbn; [reflexivity|]; destruct ok; reflexivity).
Qed.
