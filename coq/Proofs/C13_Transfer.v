(* C13: TRANSFER.  If, on a case, the implementation's observations agree with
   the model ([agree]), then they satisfy the Spec predicate ([holds]).  So a run
   in which every case has agree = true needs no further trust in [holds] being
   evaluated: the property of the implementation on those cases is a corollary
   of the theorems about the model. *)
From Boltons Require Import Lib.Prelude Spec.C13_Spec Model.C13_Model Check.C13_Check
     Proofs.C13_Dict Proofs.C13_Bind Proofs.C13_Shape Proofs.C13_Realign Proofs.C13_Sig Proofs.C13_Main Proofs.C13_Holds.

(* ---- boolean equalities are equalities ---------------------------------------------------- *)
Lemma option_eqb_eq {A} (eqb : A -> A -> bool) (H : forall a b, eqb a b = true <-> a = b) :
  forall x y, option_eqb eqb x y = true <-> x = y.
Proof.
  intros [a|] [b|]; simpl; split; intro E; try discriminate; try reflexivity.
  - apply H in E. congruence.
  - inversion E; subst. apply H. reflexivity.
Qed.

Lemma pair_eqb_eq {A B} (ea : A -> A -> bool) (eb : B -> B -> bool)
  (HA : forall a b, ea a b = true <-> a = b) (HB : forall a b, eb a b = true <-> a = b) :
  forall x y, pair_eqb ea eb x y = true <-> x = y.
Proof.
  intros [a1 b1] [a2 b2]. unfold pair_eqb. simpl. rewrite andb_true_iff, HA, HB. split.
  - intros [-> ->]. reflexivity.
  - intro E. inversion E. split; reflexivity.
Qed.

Lemma nat_eqb_eq a b : Nat.eqb a b = true <-> a = b.
Proof. apply Nat.eqb_eq. Qed.

Lemma kind_eqb_eq' a b : kind_eqb a b = true <-> a = b.
Proof. apply kind_eqb_eq. Qed.

Lemma param_eqb_eq p q : param_eqb p q = true <-> p = q.
Proof.
  destruct p as [n1 k1 d1 a1], q as [n2 k2 d2 a2]. unfold param_eqb. simpl.
  rewrite !andb_true_iff, nat_eqb_eq, kind_eqb_eq', !(option_eqb_eq _ nat_eqb_eq). split.
  - intros [[[-> ->] ->] ->]. reflexivity.
  - intro E. inversion E. repeat split.
Qed.

Lemma sig_eqb_eq s t : sig_eqb s t = true <-> s = t.
Proof.
  destruct s as [p1 r1], t as [p2 r2]. unfold sig_eqb. simpl.
  rewrite andb_true_iff, (list_eqb_eq _ param_eqb_eq), (option_eqb_eq _ nat_eqb_eq). split.
  - intros [-> ->]. reflexivity.
  - intro E. inversion E. split; reflexivity.
Qed.

Lemma nv_eqb_eq x y : nv_eqb x y = true <-> x = y.
Proof. apply pair_eqb_eq; apply nat_eqb_eq. Qed.

Lemma call_eqb_eq c d : call_eqb c d = true <-> c = d.
Proof.
  destruct c as [p1 k1], d as [p2 k2]. unfold call_eqb. simpl.
  rewrite andb_true_iff, (list_eqb_eq _ nat_eqb_eq), (list_eqb_eq _ nv_eqb_eq). split.
  - intros [-> ->]. reflexivity.
  - intro E. inversion E. split; reflexivity.
Qed.

Lemma bval_eqb_eq x y : bval_eqb x y = true <-> x = y.
Proof.
  destruct x, y; simpl; split; intro E; try discriminate; try (inversion E; subst).
  - apply nat_eqb_eq in E. congruence.
  - apply Nat.eqb_refl.
  - apply (list_eqb_eq _ nat_eqb_eq) in E. congruence.
  - apply (list_eqb_eq _ nat_eqb_eq). reflexivity.
  - apply (list_eqb_eq _ nv_eqb_eq) in E. congruence.
  - apply (list_eqb_eq _ nv_eqb_eq). reflexivity.
Qed.

Lemma binding_eqb_eq x y : binding_eqb x y = true <-> x = y.
Proof. apply list_eqb_eq. apply pair_eqb_eq; [apply nat_eqb_eq | apply bval_eqb_eq]. Qed.

Lemma exn_eqb_eq a b : exn_eqb a b = true <-> a = b.
Proof.
  destruct a, b; simpl; split; intro E; try discriminate; try reflexivity;
    try (apply nat_eqb_eq in E; congruence); try (inversion E; apply Nat.eqb_refl).
Qed.

Lemma rb_eqb_eq x y : rb_eqb x y = true <-> x = y.
Proof.
  destruct x as [a|e], y as [b|e']; simpl; split; intro E; try discriminate.
  - apply binding_eqb_eq in E. congruence.
  - inversion E. apply binding_eqb_eq. reflexivity.
  - apply exn_eqb_eq in E. congruence.
  - inversion E. apply exn_eqb_eq. reflexivity.
Qed.

Lemma call_obs_eqb_eq x y : call_obs_eqb x y = true <-> x = y.
Proof.
  destruct x as [s1 o1], y as [s2 o2]. unfold call_obs_eqb. simpl.
  rewrite andb_true_iff, (option_eqb_eq _ call_eqb_eq), rb_eqb_eq. split.
  - intros [-> ->]. reflexivity.
  - intro E. inversion E. split; reflexivity.
Qed.

Lemma bool_eqb_eq a b : Bool.eqb a b = true <-> a = b.
Proof. destruct a, b; simpl; split; intro; congruence. Qed.

(* equivalent dicts answer every lookup alike *)
Lemma dict_equiv_get a b : dict_equiv a b = true -> forall k, d_get a k = d_get b k.
Proof.
  unfold dict_equiv. intro H. apply andb_true_iff in H as [_ H]. rewrite forallb_forall in H. intro k.
  destruct (d_get a k) as [v|] eqn:GA.
  - apply d_get_some_in in GA as IA.
    specialize (H (k, v) (in_or_app _ _ _ (or_introl IA))). simpl in H.
    rewrite GA in H. destruct (d_get b k); simpl in H; [apply nat_eqb_eq in H; congruence | discriminate].
  - destruct (d_get b k) as [w|] eqn:GB; [|reflexivity].
    apply d_get_some_in in GB as IB.
    specialize (H (k, w) (in_or_app _ _ _ (or_intror IB))). simpl in H.
    rewrite GA, GB in H. discriminate.
Qed.

(* ---- levels: [levels_ok] cannot tell an agreeing observation from the model's own ----------- *)
Lemma levels_ok_agree base fa : forall steps s below gs levels fail,
  forall2b level_agree gs levels = true ->
  levels_ok base fa s below steps levels fail =
  levels_ok base fa s below steps (map obs_of_built gs) fail.
Proof.
  induction steps as [|st r IH]; intros s below gs levels fail FA.
  - destruct gs, levels; simpl in FA; try discriminate; reflexivity.
  - cbn [levels_ok]. destruct (spec_wraps_opt (o_inject_to_varkw (s_options st)) s (s_injected st) (s_expected st)) as [s'|e].
    + destruct gs as [|g gs'], levels as [|o levels']; simpl in FA; try discriminate; [reflexivity|].
      apply andb_true_iff in FA as [LA FA']. cbn [map].
      unfold level_agree in LA. repeat (apply andb_true_iff in LA as [LA ?]).
      destruct (sig_of (b_func g)) as [sg|] eqn:SG; simpl in LA; [|discriminate].
      apply (proj1 (sig_eqb_eq _ _)) in LA. subst sg.
      match goal with H : Nat.eqb _ _ = true |- _ => apply (proj1 (nat_eqb_eq _ _)) in H; rename H into HN end.
      match goal with H : Bool.eqb _ _ = true |- _ => apply (proj1 (bool_eqb_eq _ _)) in H; rename H into HA end.
      match goal with H : dict_rel _ _ = true |- _ => unfold dict_rel in H; apply andb_true_iff in H as [HD _]; apply (proj1 (option_eqb_eq _ nat_eqb_eq _ _)) in HD end.
      repeat match goal with H : option_eqb Nat.eqb _ _ = true |- _ => apply (proj1 (option_eqb_eq _ nat_eqb_eq _ _)) in H end.
      unfold obs_of_built. cbn [bo_sig bo_name bo_doc bo_module bo_dict bo_async].
      rewrite SG. rewrite <- HN, <- HA, <- HD.
      match goal with H1 : f_doc (b_func g) = bo_doc o, H2 : f_module (b_func g) = bo_module o |- _ => rewrite <- H1, <- H2 end.
      rewrite (IH s' (s_id st) gs' levels' fail FA'). reflexivity.
    + destruct gs, levels; simpl in FA; try discriminate; reflexivity.
Qed.

Lemma calls_ok_ext k1 k2 gsig : k_steps k1 = k_steps k2 -> k_forward k1 = k_forward k2 ->
  forall cs d o, calls_ok k1 gsig cs d o = calls_ok k2 gsig cs d o.
Proof.
  intros ES EF. induction cs as [|c r IH]; intros d o; destruct d, o; try reflexivity.
  destruct p as [saw out]. cbn [calls_ok]. unfold plain. rewrite ES, EF, IH. reflexivity.
Qed.

Lemma lower_ok_ext k1 k2 : k_forward k1 = k_forward k2 -> k_partial k1 = k_partial k2 ->
  forall obs lower, lower_ok k1 obs lower = lower_ok k2 obs lower.
Proof.
  intros EF EP. induction obs as [|[saw out] r IH]; intros lower; destruct lower; try reflexivity.
  cbn [lower_ok]. rewrite EF, EP, IH. reflexivity.
Qed.

(* THE TRANSFER THEOREM *)
Theorem agree_implies_holds k :
  wf_func (k_f k) -> k_steps k <> [] -> steps_nonzero (k_steps k) ->
  Forall (fun c => NoDup (keys (c_kw c))) (k_calls k) ->
  (k_forward k = true -> forallb plain_step (k_steps k) = true) ->
  (k_forward k = false -> partial_ok (k_steps k) (k_partial k) = true) ->
  kinds_ok (k_f k) (k_steps k) (k_wkinds k) ->
  agree k = true -> holds k = true.
Proof.
  intros WF NE NZ NDc PL PA KO AG.
  unfold agree in AG.
  destruct (run_steps (k_f k) (k_steps k)) as [gs e] eqn:RS.
  repeat match goal with H : _ && _ = true |- _ => apply andb_true_iff in H as [? ?] end.
  pose proof (model_holds (k_f k) (k_steps k) (k_forward k) (k_partial k) (k_wkinds k) (k_calls k) WF NE NZ KO NDc PL PA) as MH.
  unfold holds, model_case in MH. unfold holds.
  cbn [k_f k_fsig k_fasync k_calls k_direct k_steps k_forward k_partial k_levels k_fail k_top_calls k_lower_saws k_fsig_after k_fdict_after k_again k_wkinds k_extra] in MH.
  rewrite RS in MH. cbn [fst snd] in MH.
  rewrite (sig_of_func_sig _ (wf_len _ WF)) in *.
  repeat match goal with
  | H : res_eqb sig_eqb (Ok _) (Ok _) = true |- _ => simpl in H; apply (proj1 (sig_eqb_eq _ _)) in H
  | H : Bool.eqb _ _ = true |- _ => apply (proj1 (bool_eqb_eq _ _)) in H
  | H : list_eqb rb_eqb _ _ = true |- _ => apply (proj1 (list_eqb_eq _ rb_eqb_eq _ _)) in H
  | H : option_eqb sig_eqb _ _ = true |- _ => apply (proj1 (option_eqb_eq _ sig_eqb_eq _ _)) in H
  | H : option_eqb exn_eqb _ _ = true |- _ => apply (proj1 (option_eqb_eq _ exn_eqb_eq _ _)) in H
  end.
  (* every observed component is the model's, dicts up to equivalence *)
  match goal with H : func_sig (k_f k) = k_fsig k |- _ => rewrite <- H end.
  match goal with H : func_sig (k_f k) = k_fsig_after k |- _ => rewrite <- H end.
  match goal with H : map (call_func (k_f k)) (k_calls k) = k_direct k |- _ => rewrite <- H end.
  match goal with H : model_again (k_f k) = k_again k |- _ => rewrite <- H end.
  match goal with H : f_async (k_f k) = k_fasync k |- _ => rewrite <- H end.
    match goal with H : e = k_fail k |- _ => rewrite <- H end.
  match goal with H : dict_equiv (f_dict (k_f k)) (k_fdict_after k) = true |- _ => rewrite H end.
  match goal with H : forall2b level_agree gs (k_levels k) = true |- _ =>
    rewrite (levels_ok_agree (k_f k) (f_async (k_f k)) (k_steps k) (func_sig (k_f k)) (f_id (k_f k)) gs (k_levels k) e H) end.
  rewrite dict_equiv_refl in MH.
  destruct e as [ex|].
  - revert MH. repeat match goal with H : _ && _ = true |- _ => apply andb_true_iff in H as [? ?] end. intro MH.
    match goal with H : Nat.eqb (k_extra k) 0 = true |- _ => apply (proj1 (nat_eqb_eq _ _)) in H; rewrite H end.
    destruct (k_top_calls k); [|discriminate]. destruct (k_lower_saws k); [exact MH | discriminate].
  - revert MH. repeat match goal with H : _ && _ = true |- _ => apply andb_true_iff in H as [? ?] end. intro MH.
    match goal with H : Nat.eqb (k_extra k) _ = true |- _ => apply (proj1 (nat_eqb_eq _ _)) in H; rewrite H end.
    match goal with H : list_eqb call_obs_eqb _ _ = true |- _ => apply (proj1 (list_eqb_eq _ call_obs_eqb_eq _ _)) in H; rewrite <- H end.
    match goal with H : list_eqb (list_eqb call_eqb) _ _ = true |- _ =>
      apply (proj1 (list_eqb_eq _ (list_eqb_eq _ call_eqb_eq) _ _)) in H; rewrite <- H end.
    destruct (levels_ok (k_f k) (f_async (k_f k)) (func_sig (k_f k)) (f_id (k_f k)) (k_steps k) (map obs_of_built gs) None) as [top|];
      [|exact MH].
    match type of MH with context [calls_ok ?k' _ _ _ _] =>
      rewrite (calls_ok_ext k k' top eq_refl eq_refl), (lower_ok_ext k k' eq_refl eq_refl) end.
    exact MH.
Qed.
