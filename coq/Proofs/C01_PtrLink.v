(* C01: the link between the model's primitives and the pointer-level layer.  From a state
   satisfying the cell-map invariant, each of _insert / _remove / _remove_all changes the cell
   list exactly by a VALID sequence of list-level operations (llop), hence (ptr_simulates) is
   carried out correctly by the pointer code on any heap representing the list. *)
From Boltons Require Import Lib.Prelude Spec.C01_Spec Model.C01_Model Model.C01_Ptr Proofs.C01_Base Proofs.C01_Prim Proofs.C01_Ptr.

(* Proofs.C01_Ptr defines a heap-level relation also called [nxt]; here [nxt] is the allocation
   counter of the model state (the record field of Model.C01_Model.omd) *)
Local Notation nxt := Boltons.Model.C01_Model.nxt (only parsing).

Lemma ids_of_sub l k i: In i (ids_of l k) -> In i (map c_id l).
Proof.
  unfold ids_of. intro H. apply in_map_iff in H as [c [E Hc]].
  apply filter_In in Hc as [Hc _]. apply in_map_iff. exists c. split; assumption.
Qed.

Lemma unlink_ids l i j : In j (map c_id (unlink l i)) <-> In j (map c_id l) /\ j <> i.
Proof.
  unfold unlink. split.
  - intro H. apply in_map_iff in H as [c [E Hc]]. apply filter_In in Hc as [Hc Hn].
    apply negb_true_iff, Nat.eqb_neq in Hn. split.
    + apply in_map_iff. exists c. split; assumption.
    + congruence.
  - intros [H Hn]. apply in_map_iff in H as [c [E Hc]]. apply in_map_iff. exists c.
    split; [assumption|]. apply filter_In. split; [assumption|].
    apply negb_true_iff, Nat.eqb_neq. congruence.
Qed.

Lemma ne_opt_Some {A} (l cells : list A) : ne_opt l = Some cells -> cells = l.
Proof. destruct l; simpl; intro H; [discriminate | injection H as H; symmetry; assumption]. Qed.

Lemma NoDup_ids_of l k : NoDup (map c_id l) -> NoDup (ids_of l k).
Proof. intro H. unfold ids_of. apply NoDup_map_filter. assumption. Qed.

(* unlinking a duplicate-free list of present ids, one after the other *)
Lemma fold_unlink_llops ids : forall l, NoDup ids -> incl ids (map c_id l) ->
  fold_left unlink ids l = ll_run l (map LUnlink ids) /\ ll_valid_run l (map LUnlink ids).
Proof.
  induction ids as [|i r IH]; intros l Hnd Hincl; simpl.
  - split; [reflexivity | exact I].
  - inversion Hnd as [|x y Hni Hnr]; subst.
    assert (Hr : incl r (map c_id (unlink l i))).
    { intros j Hj. apply unlink_ids. split.
      - apply Hincl. right. assumption.
      - intro E. subst j. contradiction. }
    destruct (IH (unlink l i) Hnr Hr) as [E Hv].
    split; [exact E|]. split; [|exact Hv].
    apply Hincl. left. reflexivity.
Qed.

Lemma insert_llops s k v : CmapOk s ->
  ll (ll_insert s k v) = ll_run (ll s) [LInsert (nxt s) k v] /\ ll_valid_run (ll s) [LInsert (nxt s) k v].
Proof.
  intros [_ [Hfresh _]]. simpl. split; [reflexivity|]. split; [|exact I].
  intro Hin. apply in_map_iff in Hin as [c [E Hc]]. apply Hfresh in Hc. lia.
Qed.

Lemma remove_llops s k s' : CmapOk s -> ll_remove s k = Ok s' ->
  exists ops, ll s' = ll_run (ll s) ops /\ ll_valid_run (ll s) ops.
Proof.
  intros [_ [_ [_ Hget]]] H. unfold ll_remove in H.
  destruct (d_get (cmap s) k) as [cells|] eqn:Ec; [|discriminate].
  rewrite Hget in Ec. apply ne_opt_Some in Ec.
  destruct (rev cells) as [|id rrest] eqn:Er; [discriminate|].
  injection H as H. subst s'. simpl.
  exists [LUnlink id]. simpl. split; [reflexivity|]. split; [|exact I].
  apply (ids_of_sub _ k). rewrite <- Ec. apply in_rev. rewrite Er. left. reflexivity.
Qed.

Lemma remove_all_llops s k s' : CmapOk s -> ll_remove_all s k = Ok s' ->
  exists ops, ll s' = ll_run (ll s) ops /\ ll_valid_run (ll s) ops.
Proof.
  intros [Hid [_ [_ Hget]]] H. unfold ll_remove_all in H.
  destruct (d_get (cmap s) k) as [cells|] eqn:Ec; [|discriminate].
  rewrite Hget in Ec. apply ne_opt_Some in Ec.
  injection H as H. subst s'. simpl.
  exists (map LUnlink (rev cells)). apply fold_unlink_llops.
  - apply NoDup_rev. subst cells. apply NoDup_ids_of. assumption.
  - intros j Hj. apply in_rev in Hj. subst cells. apply (ids_of_sub _ k). assumption.
Qed.

(* hence each primitive is carried out correctly by the pointer code on any heap representing ll *)
Theorem prims_on_heap s h : CmapOk s -> Rep h (ll s) ->
  (forall k v, exists h', h_run h [LInsert (nxt s) k v] = Ok h' /\ Rep h' (ll (ll_insert s k v))) /\
  (forall k s', ll_remove s k = Ok s' -> exists ops h', h_run h ops = Ok h' /\ Rep h' (ll s')) /\
  (forall k s', ll_remove_all s k = Ok s' -> exists ops h', h_run h ops = Ok h' /\ Rep h' (ll s')).
Proof.
  intros HC R. split; [|split].
  - intros k v. destruct (insert_llops s k v HC) as [E Hv].
    destruct (ptr_simulates _ _ _ R Hv) as [h' [Hr R']].
    exists h'. split; [assumption|]. rewrite E. assumption.
  - intros k s' H. destruct (remove_llops s k s' HC H) as [ops [E Hv]].
    destruct (ptr_simulates _ _ _ R Hv) as [h' [Hr R']].
    exists ops, h'. split; [assumption|]. rewrite E. assumption.
  - intros k s' H. destruct (remove_all_llops s k s' HC H) as [ops [E Hv]].
    destruct (ptr_simulates _ _ _ R Hv) as [h' [Hr R']].
    exists ops, h'. split; [assumption|]. rewrite E. assumption.
Qed.

Print Assumptions prims_on_heap.
