(* C06: the UTF-8 decoder (with CPython's replacement policy) inverts the
   encoder on Unicode scalar values.  No oracle: UTF-8 is modelled and proved. *)
From Boltons Require Import Lib.Prelude Lib.C06_Text.
From Coq Require Import ZifyBool.
Open Scope N_scope.

Ltac Zify.zify_post_hook ::= Z.to_euclidean_division_equations.

Ltac split_ifs :=
  repeat match goal with
         | |- context [if ?b then _ else _] =>
           let E := fresh "E" in destruct b eqn:E; try (exfalso; lia)
         end.

Lemma utf8_dec_enc1 c r : scalar c = true -> utf8_dec (utf8_enc1 c ++ r) = c :: utf8_dec r.
Proof.
  intro S. unfold scalar in S. unfold utf8_enc1.
  destruct (c <? 128) eqn:E1.
  { cbn [app utf8_dec]. rewrite E1. reflexivity. }
  destruct (c <? 2048) eqn:E2.
  { cbn [app utf8_dec]. unfold is_cont. split_ifs. f_equal. lia. }
  destruct (c <? 65536) eqn:E3.
  { cbn [app utf8_dec]. unfold ok2_3, is_cont. split_ifs. all: try (f_equal; lia). }
  cbn [app utf8_dec]. unfold ok2_4, is_cont. split_ifs. all: try (f_equal; lia).
Qed.

Theorem utf8_roundtrip s : all_scalar s = true -> utf8_dec (utf8_enc s) = s.
Proof.
  induction s as [|c r IH]; intro H; [reflexivity|].
  cbn [all_scalar forallb] in H. apply andb_true_iff in H as [Hc Hr].
  unfold utf8_enc. cbn [flat_map]. rewrite (utf8_dec_enc1 c _ Hc). f_equal. apply IH. exact Hr.
Qed.

Lemma utf8_enc1_bytes c : scalar c = true -> forallb (fun b => b <? 256) (utf8_enc1 c) = true.
Proof.
  intro S. unfold scalar in S. unfold utf8_enc1.
  destruct (c <? 128) eqn:E1; [cbn [forallb]; lia|].
  destruct (c <? 2048) eqn:E2; [cbn [forallb]; lia|].
  destruct (c <? 65536) eqn:E3; cbn [forallb]; lia.
Qed.

Lemma utf8_enc_bytes s : all_scalar s = true -> forallb (fun b => b <? 256) (utf8_enc s) = true.
Proof.
  induction s as [|c r IH]; intro H; [reflexivity|].
  cbn [all_scalar forallb] in H. apply andb_true_iff in H as [Hc Hr].
  unfold utf8_enc. cbn [flat_map]. rewrite forallb_app, (utf8_enc1_bytes c Hc). apply IH. exact Hr.
Qed.

Lemma utf8_enc_nil s : utf8_enc s = [] -> s = [].
Proof.
  destruct s as [|c r]; [reflexivity|]. unfold utf8_enc. cbn [flat_map]. unfold utf8_enc1.
  destruct (c <? 128); [discriminate|]. destruct (c <? 2048); [discriminate|].
  destruct (c <? 65536); discriminate.
Qed.

Lemma utf8_dec_ascii bs : forallb is_ascii bs = true -> utf8_dec bs = bs.
Proof.
  induction bs as [|b r IH]; intro H; [reflexivity|].
  cbn [forallb] in H. apply andb_true_iff in H as [Hb Hr]. unfold is_ascii in Hb.
  cbn [utf8_dec]. rewrite Hb. f_equal. apply IH. exact Hr.
Qed.

(* the encoding of a text is ASCII only if the text is, and then it is the text itself *)
Lemma utf8_enc_ascii s : all_scalar s = true -> forallb is_ascii (utf8_enc s) = true -> utf8_enc s = s.
Proof.
  intros S A. rewrite <- (utf8_roundtrip s S) at 2. symmetry. apply utf8_dec_ascii. exact A.
Qed.
