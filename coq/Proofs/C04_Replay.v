(* The model's own trace, replayed on the file-system model, reproduces the model's state:
   [replay] (which knows nothing of AtomicSaver) and the program agree on what each call does. *)
From Boltons Require Import Lib.Prelude Model.C04_Model Proofs.C04_Hoare Proofs.C04_Pass.

Lemma no_appear_none l k : no_appear l = true -> sched_appear l k = None.
Proof.
  induction l as [|[k' a] r IH]; cbn; [reflexivity|]. destruct a; cbn; [exact IH|discriminate].
Qed.

Lemma sem_fail_state um e s f x :
  fst (fst (sem um e s f)) = Some x ->
  (snd (fst (sem um e s f)), snd (sem um e s f)) = after_fault um e s f.
Proof.
  destruct e; cbn [sem after_fault].
  - destruct (f_dir s n); cbn; [discriminate|reflexivity].
  - destruct (f_dir s n); [destruct excl|]; cbn; try discriminate; reflexivity.
  - cbn. discriminate.
  - destruct (f_dir s n); cbn; [discriminate|reflexivity].
  - destruct f; cbn; try reflexivity.
    destruct ((blen (i_vol (f_ino s ino)) <=? disk)%N && (disk <=? blen (i_vol (f_ino s ino) ++ buf ++ data))%N); cbn;
      [discriminate|reflexivity].
  - destruct f; cbn; try discriminate; reflexivity.
  - destruct f; cbn; try discriminate; reflexivity.
  - destruct f; cbn; discriminate.
  - destruct (f_dir s src); cbn; [destruct (Nat.eqb src dst); cbn; discriminate|reflexivity].
  - destruct (f_dir s src); cbn; [|reflexivity]. destruct (f_dir s dst); cbn; [reflexivity|discriminate].
Qed.

Section RP.
  Variable s0 : fs.
  Variable um : N.

  Definition RPJ (w : world) : Prop :=
    no_appear (w_sched w) = true /\ w_umask w = um /\
    replay um (rev (w_trace w)) (s0, FNone) = (w_fs w, w_file w).

  Lemma rp_prim e forced : triple RPJ (prim_f e forced) (fun _ => RPJ) (fun _ => RPJ) RPJ.
  Proof.
    intros w (Hna & Hu & Hr). unfold prim_f. destruct (crash_now w); [repeat split; auto|].
    assert (Hi : interfere w = w_fs w). { unfold interfere. rewrite (no_appear_none _ _ Hna). reflexivity. }
    unfold step. rewrite Hi, Hu. destruct (fault_of forced w) as [errno|].
    - split; [exact Hna|]. split; [exact Hu|]. cbn [next_world w_trace w_fs w_file rev].
      unfold replay in *. rewrite fold_left_app, Hr. cbn [fold_left replay_step fst snd].
      destruct (after_fault um e (w_fs w) (w_file w)); reflexivity.
    - destruct (fst (fst (sem um e (w_fs w) (w_file w)))) as [x|] eqn:Er;
        (split; [exact Hna|]; split; [exact Hu|]); cbn [next_world w_trace w_fs w_file rev];
        unfold replay in *; rewrite fold_left_app, Hr; cbn [fold_left replay_step fst snd].
      + symmetry. apply (sem_fail_state um e _ _ x Er).
      + reflexivity.
  Qed.

  Lemma replay_run c ops raises crash sched o w :
    no_appear sched = true ->
    run_save c ops raises s0 um crash sched = (o, w) ->
    replay um (rev (w_trace w)) (s0, FNone) = (w_fs w, w_file w).
  Proof.
    intros Hna Hr. unfold run_save in Hr.
    assert (H0 : RPJ (init_world s0 um (c_dest c) crash sched)) by (repeat split; auto).
    pose proof (pass_save RPJ rp_prim c ops raises _ H0) as H. rewrite Hr in H.
    destruct o; apply H.
  Qed.
End RP.
