(* C13: obligations over data regenerated from the source on every run
   (Gen/C13_Gen.v, written by harness/c13.py translators()).  If the regular
   expression _KWONLY_MARKER, inspect_formatargspec, get_sig_str or
   get_invocation_str change behaviour, these stop compiling. *)
From Boltons Require Import Lib.Prelude Spec.C13_Spec Model.C13_Model Model.C13_Text Gen.C13_Gen.
Local Open Scope N_scope.

(* the model's state machine [scan] computes what the real
   FunctionBuilder._KWONLY_MARKER.sub('', s) returned, for every string of
   length <= 5 over { '*' ',' ' ' 'a' tab } *)
Definition marker_probe_ok (pr : text * text) : bool := text_eqb (sub_marker (fst pr)) (snd pr).

Lemma marker_tie : forallb (forallb marker_probe_ok) gen_marker_probes = true.
Proof. vm_compute. reflexivity. Qed.

Lemma marker_probes_many : (3000 <=? N.of_nat (length (concat gen_marker_probes))) = true.
Proof. vm_compute. reflexivity. Qed.

(* the strings the real get_sig_str(with_annotations=False) / get_invocation_str()
   returned for the 36 shapes of the grid are the model's, modulo blanks *)
Definition text_shape_ok (e : fbuilder * text * text) : bool :=
  let '(b, s, i) := e in
  text_eqb (squeeze (sig_text gen_render b)) (squeeze s) &&
  text_eqb (squeeze (inv_text gen_render b)) (squeeze i).

Lemma text_tie : forallb text_shape_ok gen_texts = true.
Proof. vm_compute. reflexivity. Qed.

Lemma text_shapes_many : (36 <=? N.of_nat (length gen_texts)) = true.
Proof. vm_compute. reflexivity. Qed.

(* the rendering used there produces identifiers *)
Lemma gen_render_ident : forall n, ident (gen_render n) = true.
Proof.
  intro n. unfold gen_render.
  do 12 (destruct n as [|n]; [reflexivity|]). reflexivity.
Qed.

(* ---- the names chosen for the generated source (Model/C13_Names.v) ------------------------------- *)
From Boltons Require Import Model.C13_Names.

(* no Python keyword begins or ends with an underscore (hypotheses kw_no_us_front/back of
   C13_def_name_ok, checked on the regenerated keyword.kwlist) *)
Definition kw_underscore_free (k : text) : bool :=
  match k with
  | [] => true
  | c :: _ => negb (c =? UNDERSCORE) && negb (last k 0 =? UNDERSCORE)
  end.

Lemma keywords_tie : forallb kw_underscore_free gen_keywords = true /\ (30 <=? N.of_nat (length gen_keywords)) = true.
Proof. split; vm_compute; reflexivity. Qed.

(* for ASCII names the model picks exactly the def name and the call name found in the
   __source__ of real wraps results *)
Definition names_row_ok (r : text * list text * text * text) : bool :=
  let '(fn, ps, dn, cn) := r in
  let cn' := pick_call_name (ps ++ [fn]) in
  text_eqb cn' cn &&
  text_eqb (pick_def_name ascii_xid_start ascii_xid_continue (fun t => t)
                          (fun t => mem_text t gen_keywords) fn [cn'; FUNC]) dn.

Lemma names_tie : forallb names_row_ok gen_names = true /\ (100 <=? N.of_nat (length gen_names)) = true.
Proof. split; vm_compute; reflexivity. Qed.
