(* C01, pointer layer: the PREV/NEXT surgery of Model/C01_Ptr.v implements the list-level
   operations of Model/C01_Model.v (append a cell, unlink a cell by id, forward / backward
   traversal, root[PREV]) under the representation predicate [Rep]. *)
From Boltons Require Import Lib.Prelude Spec.C01_Spec Model.C01_Model Model.C01_Ptr Proofs.C01_Base.

(* ---- the three "fields" of a heap address, as relations ------------------------------------- *)
Definition nxt (h : heap) (a b : nat) : Prop := exists c, d_get h a = Some c /\ p_next c = b.
Definition prv (h : heap) (a b : nat) : Prop := exists c, d_get h a = Some c /\ p_prev c = b.
Definition kv (h : heap) (a : nat) (k : K) (v : V) : Prop :=
  exists c, d_get h a = Some c /\ p_key c = k /\ p_val c = v.
Definition has (h : heap) (a : nat) : Prop := exists c, d_get h a = Some c.

Lemma nxt_has h a b : nxt h a b -> has h a.
Proof. intros (c & E & _). exists c. exact E. Qed.
Lemma prv_has h a b : prv h a b -> has h a.
Proof. intros (c & E & _). exists c. exact E. Qed.

(* NEXT half and PREV half of [links] *)
Fixpoint nlinks (h : heap) (ids : list nat) : Prop :=
  match ids with
  | a :: ((b :: _) as r) => nxt h a b /\ nlinks h r
  | _ => True
  end.
Fixpoint plinks (h : heap) (ids : list nat) : Prop :=
  match ids with
  | a :: ((b :: _) as r) => prv h b a /\ plinks h r
  | _ => True
  end.

Lemma links_iff h ids : links h ids <-> nlinks h ids /\ plinks h ids.
Proof.
  induction ids as [|a r IH]; [simpl; tauto|].
  destruct r as [|b r]; [simpl; tauto|].
  change (links h (a :: b :: r)) with
    ((exists ca cb, d_get h a = Some ca /\ d_get h b = Some cb /\ p_next ca = b /\ p_prev cb = a)
     /\ links h (b :: r)).
  change (nlinks h (a :: b :: r)) with (nxt h a b /\ nlinks h (b :: r)).
  change (plinks h (a :: b :: r)) with (prv h b a /\ plinks h (b :: r)).
  rewrite IH. unfold nxt, prv. split.
  - intros ((ca & cb & E1 & E2 & E3 & E4) & H1 & H2). repeat split; eauto.
  - intros (((ca & E1 & E3) & H1) & ((cb & E2 & E4) & H2)). repeat split; eauto.
    exists ca, cb. auto.
Qed.

Lemma nlinks_app h xs a ys : nlinks h (xs ++ a :: ys) <-> nlinks h (xs ++ [a]) /\ nlinks h (a :: ys).
Proof.
  induction xs as [|x xs IH]; [simpl; tauto|].
  destruct xs as [|x' xs].
  - simpl. tauto.
  - change (nlinks h ((x :: x' :: xs) ++ a :: ys)) with (nxt h x x' /\ nlinks h ((x' :: xs) ++ a :: ys)).
    change (nlinks h ((x :: x' :: xs) ++ [a])) with (nxt h x x' /\ nlinks h ((x' :: xs) ++ [a])).
    rewrite IH. tauto.
Qed.

Lemma plinks_app h xs a ys : plinks h (xs ++ a :: ys) <-> plinks h (xs ++ [a]) /\ plinks h (a :: ys).
Proof.
  induction xs as [|x xs IH]; [simpl; tauto|].
  destruct xs as [|x' xs].
  - simpl. tauto.
  - change (plinks h ((x :: x' :: xs) ++ a :: ys)) with (prv h x' x /\ plinks h ((x' :: xs) ++ a :: ys)).
    change (plinks h ((x :: x' :: xs) ++ [a])) with (prv h x' x /\ plinks h ((x' :: xs) ++ [a])).
    rewrite IH. tauto.
Qed.

(* frame rules: NEXT links only read the sources (all but the last address), PREV links only
   the targets (all but the first address) *)
Lemma nlinks_frame h h' ids :
  (forall x y, In x (removelast ids) -> nxt h x y -> nxt h' x y) -> nlinks h ids -> nlinks h' ids.
Proof.
  induction ids as [|a r IH]; [simpl; tauto|].
  destruct r as [|b r]; [simpl; tauto|].
  change (removelast (a :: b :: r)) with (a :: removelast (b :: r)).
  change (nlinks h (a :: b :: r)) with (nxt h a b /\ nlinks h (b :: r)).
  change (nlinks h' (a :: b :: r)) with (nxt h' a b /\ nlinks h' (b :: r)).
  intros F [H1 H2]. split.
  - apply F; [left; reflexivity | exact H1].
  - apply IH; [|exact H2]. intros x y Hx. apply F. right. exact Hx.
Qed.

Lemma plinks_frame h h' ids :
  (forall x y, In x (tl ids) -> prv h x y -> prv h' x y) -> plinks h ids -> plinks h' ids.
Proof.
  induction ids as [|a r IH]; [simpl; tauto|].
  destruct r as [|b r]; [simpl; tauto|].
  change (tl (a :: b :: r)) with (b :: tl (b :: r)).
  change (plinks h (a :: b :: r)) with (prv h b a /\ plinks h (b :: r)).
  change (plinks h' (a :: b :: r)) with (prv h' b a /\ plinks h' (b :: r)).
  intros F [H1 H2]. split.
  - apply F; [left; reflexivity | exact H1].
  - apply IH; [|exact H2]. intros x y Hx. apply F. right. exact Hx.
Qed.

Lemma nlinks_step h a r d : r <> [] -> nlinks h (a :: r) -> nxt h a (hd d r) /\ nlinks h r.
Proof. destruct r as [|b r]; [congruence|]. simpl. tauto. Qed.

Lemma plinks_last h xs a d : xs <> [] -> plinks h (xs ++ [a]) -> prv h a (last xs d).
Proof.
  induction xs as [|x xs IH]; [congruence|]. intros _.
  destruct xs as [|x' xs].
  - simpl. tauto.
  - change (plinks h ((x :: x' :: xs) ++ [a])) with (prv h x' x /\ plinks h ((x' :: xs) ++ [a])).
    intros [_ H]. change (last (x :: x' :: xs) d) with (last (x' :: xs) d).
    apply IH; [discriminate | exact H].
Qed.

(* ---- effect of the three heap writes ---------------------------------------------------------- *)
Lemma set_next_spec h a n : has h a ->
  exists h', set_next h a n = Ok h' /\ nxt h' a n /\
    (forall x y, x <> a -> nxt h x y -> nxt h' x y) /\
    (forall x y, prv h x y -> prv h' x y) /\
    (forall x k v, kv h x k v -> kv h' x k v).
Proof.
  intros (c & E). unfold set_next. rewrite E. eexists. split; [reflexivity|].
  unfold nxt, prv, kv. repeat split.
  - rewrite d_get_set, Nat.eqb_refl. eexists. split; reflexivity.
  - intros x y Hx (cx & E1 & E2). rewrite d_get_set.
    apply Nat.eqb_neq in Hx. rewrite Hx. eauto.
  - intros x y (cx & E1 & E2). rewrite d_get_set. destruct (Nat.eqb x a) eqn:Ex; [|eauto].
    apply Nat.eqb_eq in Ex. subst x. rewrite E in E1. inversion E1; subst cx.
    eexists. split; [reflexivity|]. exact E2.
  - intros x k v (cx & E1 & E2 & E3). rewrite d_get_set. destruct (Nat.eqb x a) eqn:Ex; [|eauto].
    apply Nat.eqb_eq in Ex. subst x. rewrite E in E1. inversion E1; subst cx.
    eexists. split; [reflexivity|]. split; assumption.
Qed.

Lemma set_prev_spec h a p : has h a ->
  exists h', set_prev h a p = Ok h' /\ prv h' a p /\
    (forall x y, x <> a -> prv h x y -> prv h' x y) /\
    (forall x y, nxt h x y -> nxt h' x y) /\
    (forall x k v, kv h x k v -> kv h' x k v).
Proof.
  intros (c & E). unfold set_prev. rewrite E. eexists. split; [reflexivity|].
  unfold nxt, prv, kv. repeat split.
  - rewrite d_get_set, Nat.eqb_refl. eexists. split; reflexivity.
  - intros x y Hx (cx & E1 & E2). rewrite d_get_set.
    apply Nat.eqb_neq in Hx. rewrite Hx. eauto.
  - intros x y (cx & E1 & E2). rewrite d_get_set. destruct (Nat.eqb x a) eqn:Ex; [|eauto].
    apply Nat.eqb_eq in Ex. subst x. rewrite E in E1. inversion E1; subst cx.
    eexists. split; [reflexivity|]. exact E2.
  - intros x k v (cx & E1 & E2 & E3). rewrite d_get_set. destruct (Nat.eqb x a) eqn:Ex; [|eauto].
    apply Nat.eqb_eq in Ex. subst x. rewrite E in E1. inversion E1; subst cx.
    eexists. split; [reflexivity|]. split; assumption.
Qed.

Lemma d_set_spec h a p n k v :
  let h' := d_set h a (mkP p n k v) in
  nxt h' a n /\ prv h' a p /\ kv h' a k v /\
  (forall x y, x <> a -> nxt h x y -> nxt h' x y) /\
  (forall x y, x <> a -> prv h x y -> prv h' x y) /\
  (forall x k' v', x <> a -> kv h x k' v' -> kv h' x k' v').
Proof.
  intro h'. unfold h', nxt, prv, kv. repeat split.
  - rewrite d_get_set, Nat.eqb_refl. eexists. split; reflexivity.
  - rewrite d_get_set, Nat.eqb_refl. eexists. split; reflexivity.
  - rewrite d_get_set, Nat.eqb_refl. eexists. repeat split; reflexivity.
  - intros x y Hx (cx & E1 & E2). rewrite d_get_set. apply Nat.eqb_neq in Hx. rewrite Hx. eauto.
  - intros x y Hx (cx & E1 & E2). rewrite d_get_set. apply Nat.eqb_neq in Hx. rewrite Hx. eauto.
  - intros x k' v' Hx (cx & E1 & E2). rewrite d_get_set. apply Nat.eqb_neq in Hx. rewrite Hx. eauto.
Qed.

(* ---- Rep, reformulated ------------------------------------------------------------------------ *)
Definition Rep' (h : heap) (l : list cell) : Prop :=
  NoDup (map addr l) /\
  nlinks h (root :: map addr l ++ [root]) /\
  plinks h (root :: map addr l ++ [root]) /\
  (forall c, In c l -> kv h (addr c) (c_key c) (c_val c)).

Lemma Rep_iff h l : Rep h l <-> Rep' h l.
Proof.
  unfold Rep, Rep'. rewrite links_iff. split.
  - intros (N & _ & (L1 & L2) & KV). repeat split; assumption.
  - intros (N & L1 & L2 & KV). repeat split; try assumption.
    apply (nlinks_step h root _ root) in L1; [|destruct (map addr l); discriminate].
    destruct L1 as [L1 _]. apply nxt_has in L1. exact L1.
Qed.

Lemma root_not_addr l : ~ In root (map addr l).
Proof. intro H. apply in_map_iff in H as (c & E & _). discriminate. Qed.

Lemma addr_id_In l id : In (S id) (map addr l) <-> In id (map c_id l).
Proof.
  rewrite !in_map_iff. split; intros (c & E & H); exists c; split; try assumption.
  - unfold addr in E. congruence.
  - unfold addr. congruence.
Qed.

Lemma NoDup_snoc {A} (l : list A) a : NoDup l -> ~ In a l -> NoDup (l ++ [a]).
Proof.
  induction l as [|x l IH]; simpl; intros N H.
  - constructor; [tauto | constructor].
  - inversion N; subst. constructor.
    + rewrite in_app_iff. simpl. intros [H1|[H1|[]]]; [contradiction | subst; tauto].
    + apply IH; tauto.
Qed.

Lemma last_addr l : last (root :: map addr l) root = match rev l with [] => root | c :: _ => addr c end.
Proof.
  destruct l as [|c0 l0] using rev_ind; [reflexivity|].
  rewrite rev_unit, map_app. simpl map. rewrite app_comm_cons, last_last. reflexivity.
Qed.

(* ---- clear ------------------------------------------------------------------------------------ *)
Lemma Rep_clear : Rep h_clear [].
Proof.
  apply Rep_iff. unfold Rep', h_clear. simpl. repeat split; try constructor.
  - exists (mkP root root 0 0). split; reflexivity.
  - exists (mkP root root 0 0). split; reflexivity.
  - intros c [].
Qed.

(* ---- last ------------------------------------------------------------------------------------- *)
Lemma Rep'_root_prev h l : Rep' h l -> prv h root (last (root :: map addr l) root).
Proof.
  intros (_ & _ & L2 & _). rewrite app_comm_cons in L2.
  apply plinks_last; [discriminate | exact L2].
Qed.

Lemma Rep'_root_next h l : Rep' h l -> nxt h root (hd root (map addr l ++ [root])).
Proof.
  intros (_ & L1 & _ & _).
  apply (nlinks_step h root _ root) in L1; [tauto | destruct (map addr l); discriminate].
Qed.

Lemma Rep_last h l : Rep h l ->
  h_last h = Ok (match rev l with [] => root | c :: _ => addr c end).
Proof.
  intro R. apply Rep_iff in R. apply Rep'_root_prev in R as (r & E1 & E2).
  unfold h_last. rewrite E1, E2, last_addr. reflexivity.
Qed.

(* ---- traversals ------------------------------------------------------------------------------- *)
Lemma walk_next h l : forall a0 fuel,
  nlinks h (a0 :: map addr l ++ [root]) ->
  (forall c, In c l -> kv h (addr c) (c_key c) (c_val c)) ->
  length l < fuel ->
  h_walk p_next h fuel (hd root (map addr l ++ [root])) = Ok (map cell_triple l).
Proof.
  induction l as [|c l IH]; intros a0 fuel L KV F.
  - destruct fuel as [|f]; [inversion F|]. reflexivity.
  - destruct fuel as [|f]; [inversion F|]. simpl in F.
    simpl map in L. simpl app in L. destruct L as [_ L]. pose proof L as L0.
    apply (nlinks_step h (addr c) _ root) in L0; [|destruct (map addr l); discriminate].
    destruct L0 as [(pc & E1 & E2) _].
    destruct (KV c (or_introl eq_refl)) as (pc' & E1' & E3 & E4).
    rewrite E1 in E1'. inversion E1'; subst pc'.
    simpl. rewrite E1, E2.
    rewrite (IH (addr c) f L); [|intros c' Hc'; apply KV; right; exact Hc' | lia].
    simpl. unfold cell_triple at 1. rewrite E3, E4. reflexivity.
Qed.

Lemma Rep_forward h l fuel : Rep h l -> length l < fuel ->
  h_forward h fuel = Ok (map cell_triple l).
Proof.
  intros R F. apply Rep_iff in R. pose proof (Rep'_root_next h l R) as (r & E1 & E2).
  destruct R as (_ & L1 & _ & KV).
  unfold h_forward. rewrite E1, E2. apply (walk_next h l root); assumption.
Qed.

Lemma walk_prev h l : forall z fuel,
  plinks h (root :: map addr l ++ [z]) ->
  (forall c, In c l -> kv h (addr c) (c_key c) (c_val c)) ->
  length l < fuel ->
  h_walk p_prev h fuel (last (root :: map addr l) root) = Ok (rev (map cell_triple l)).
Proof.
  induction l as [|c l IH] using rev_ind; intros z fuel L KV F.
  - destruct fuel as [|f]; [inversion F|]. reflexivity.
  - destruct fuel as [|f]; [inversion F|]. rewrite app_length in F. simpl in F.
    rewrite map_app in L. simpl map in L. rewrite <- app_assoc in L. simpl app in L.
    rewrite app_comm_cons in L. apply plinks_app in L as [L _].
    assert (NE : root :: map addr l <> []) by discriminate.
    pose proof (plinks_last h _ _ root NE L) as (pc & E1 & E2).
    destruct (KV c) as (pc' & E1' & E3 & E4); [apply in_or_app; right; left; reflexivity|].
    rewrite E1 in E1'. inversion E1'; subst pc'.
    rewrite !map_app. simpl map. rewrite rev_unit, app_comm_cons, last_last.
    simpl. rewrite E1, E2.
    rewrite (IH (addr c) f L); [|intros c' Hc'; apply KV, in_or_app; left; exact Hc' | lia].
    simpl. unfold cell_triple at 1. rewrite E3, E4. reflexivity.
Qed.

Lemma Rep_backward h l fuel : Rep h l -> length l < fuel ->
  h_backward h fuel = Ok (rev (map cell_triple l)).
Proof.
  intros R F. apply Rep_iff in R. pose proof (Rep'_root_prev h l R) as (r & E1 & E2).
  destruct R as (_ & _ & L2 & KV).
  unfold h_backward. rewrite E1, E2. apply (walk_prev h l root); assumption.
Qed.

(* ---- insert ----------------------------------------------------------------------------------- *)
Lemma insert_generic h P lst a k v :
  nlinks h (P ++ [lst; root]) -> plinks h (P ++ [lst; root]) ->
  ~ In lst P -> ~ In a (P ++ [lst]) -> a <> root -> ~ In root (tl (P ++ [lst])) ->
  exists h', h_insert h a k v = Ok h' /\
    nlinks h' (P ++ [lst; a; root]) /\ plinks h' (P ++ [lst; a; root]) /\
    kv h' a k v /\ (forall x k' v', x <> a -> kv h x k' v' -> kv h' x k' v').
Proof.
  intros L1 L2 F1 F2 F3 F4.
  apply nlinks_app in L1 as [L1 [N1 _]]. apply plinks_app in L2 as [L2 [P1 _]].
  assert (Hal : a <> lst) by (intro; subst; apply F2, in_or_app; right; left; reflexivity).
  destruct P1 as (r & Er & Ep). unfold h_insert. rewrite Er, Ep.
  destruct (d_set_spec h a lst root k v) as (A1 & A2 & A3 & A4 & A5 & A6).
  set (h1 := d_set h a (mkP lst root k v)) in *.
  destruct (set_next_spec h1 lst a) as (h2 & E2 & B1 & B2 & B3 & B4).
  { apply nxt_has with root. apply A4; [congruence | exact N1]. }
  destruct (set_prev_spec h2 root a) as (h3 & E3 & C1 & C2 & C3 & C4).
  { apply prv_has with lst. apply B3, A5; [congruence|]. exists r. auto. }
  exists h3. unfold bind. rewrite E2. split; [exact E3|].
  split; [|split; [|split]].
  - apply nlinks_app. split.
    + apply nlinks_frame with h; [|exact L1]. rewrite removelast_last.
      intros x y Hx Hn. apply C3, B2; [congruence|]. apply A4; [|exact Hn].
      intro; subst x. apply F2, in_or_app. left. exact Hx.
    + simpl. repeat split.
      * apply C3, B1.
      * apply C3, B2; [exact Hal | exact A1].
  - apply plinks_app. split.
    + apply plinks_frame with h; [|exact L2].
      intros x y Hx Hp. apply C2; [congruence|]. apply B3, A5; [|exact Hp].
      intro; subst x. apply F2. destruct P; [destruct Hx | right; exact Hx].
    + simpl. repeat split.
      * apply C2; [exact F3|]. apply B3. exact A2.
      * exact C1.
  - apply C4, B4, A3.
  - intros x k' v' Hx Hk. apply C4, B4, A6; assumption.
Qed.

Lemma Rep_insert h l id k v : Rep h l -> ~ In id (map c_id l) ->
  exists h', h_insert h (S id) k v = Ok h' /\ Rep h' (l ++ [mkCell id k v]).
Proof.
  intros R Hid. apply Rep_iff in R. destruct R as (N & L1 & L2 & KV).
  assert (Ha : ~ In (S id) (map addr l)) by (rewrite addr_id_In; exact Hid).
  assert (NE : root :: map addr l <> []) by discriminate.
  pose proof (app_removelast_last root NE) as E.
  set (P := removelast (root :: map addr l)) in *.
  set (lst := last (root :: map addr l) root) in *.
  assert (ND : NoDup (P ++ [lst])).
  { rewrite <- E. constructor; [apply root_not_addr | exact N]. }
  rewrite app_comm_cons, E, <- app_assoc in L1, L2. simpl app in L1, L2.
  destruct (insert_generic h P lst (S id) k v L1 L2) as (h' & E' & M1 & M2 & M3 & M4).
  - apply NoDup_remove_2 in ND. rewrite app_nil_r in ND. exact ND.
  - rewrite <- E. simpl. intros [H|H]; [discriminate | contradiction].
  - discriminate.
  - rewrite <- E. simpl. apply root_not_addr.
  - exists h'. split; [exact E'|]. apply Rep_iff. unfold Rep'.
    rewrite map_app. simpl map. change (addr (mkCell id k v)) with (S id).
    rewrite <- app_assoc, app_comm_cons. simpl app.
    rewrite (app_comm_cons (map addr l)), E, <- app_assoc. simpl app.
    split; [|split; [|split]]; try assumption.
    + apply NoDup_snoc; assumption.
    + intros c Hc. apply in_app_or in Hc as [Hc|[Hc|[]]].
      * apply M4; [|apply KV; exact Hc]. intro Hx. apply Ha. rewrite <- Hx. apply in_map. exact Hc.
      * subst c. exact M3.
Qed.

(* ---- unlink ----------------------------------------------------------------------------------- *)
Lemma unlink_generic h P p a n Q :
  nlinks h (P ++ p :: a :: n :: Q) -> plinks h (P ++ p :: a :: n :: Q) ->
  ~ In p P -> ~ In p (removelast (n :: Q)) -> ~ In n (tl (P ++ [p])) -> ~ In n Q ->
  exists h', h_unlink h a = Ok h' /\
    nlinks h' (P ++ p :: n :: Q) /\ plinks h' (P ++ p :: n :: Q) /\
    (forall x k v, kv h x k v -> kv h' x k v).
Proof.
  intros L1 L2 F1 F2 F3 F4.
  apply nlinks_app in L1 as [L1 L1']. apply plinks_app in L2 as [L2 L2'].
  change (nlinks h (p :: a :: n :: Q)) with (nxt h p a /\ nxt h a n /\ nlinks h (n :: Q)) in L1'.
  change (plinks h (p :: a :: n :: Q)) with (prv h a p /\ prv h n a /\ plinks h (n :: Q)) in L2'.
  destruct L1' as (N1 & N2 & L1'). destruct L2' as (P1 & P2 & L2').
  destruct N2 as (ca & Ea & En). destruct P1 as (ca' & Ea' & Ep).
  rewrite Ea in Ea'. inversion Ea'; subst ca'. clear Ea'.
  unfold h_unlink. rewrite Ea, En, Ep.
  destruct (set_next_spec h p n) as (h1 & E1 & B1 & B2 & B3 & B4).
  { apply nxt_has with a. exact N1. }
  destruct (set_prev_spec h1 n p) as (h2 & E2 & C1 & C2 & C3 & C4).
  { apply prv_has with a. apply B3. exact P2. }
  exists h2. unfold bind. rewrite E1. split; [exact E2|].
  split; [|split].
  - apply nlinks_app. split.
    + apply nlinks_frame with h; [|exact L1]. rewrite removelast_last.
      intros x y Hx Hn. apply C3, B2; [|exact Hn]. intro; subst x. contradiction.
    + change (nlinks h2 (p :: n :: Q)) with (nxt h2 p n /\ nlinks h2 (n :: Q)). split.
      * apply C3, B1.
      * apply nlinks_frame with h; [|exact L1'].
        intros x y Hx Hn. apply C3, B2; [|exact Hn]. intro; subst x. contradiction.
  - apply plinks_app. split.
    + apply plinks_frame with h; [|exact L2].
      intros x y Hx Hp. apply C2; [|apply B3; exact Hp]. intro; subst x. contradiction.
    + change (plinks h2 (p :: n :: Q)) with (prv h2 n p /\ plinks h2 (n :: Q)). split.
      * exact C1.
      * apply plinks_frame with h; [|exact L2'].
        intros x y Hx Hp. apply C2; [|apply B3; exact Hp]. intro; subst x. contradiction.
  - intros x k v Hk. apply C4, B4, Hk.
Qed.

Lemma unlink_split l1 c l2 : NoDup (map addr (l1 ++ c :: l2)) ->
  unlink (l1 ++ c :: l2) (c_id c) = l1 ++ l2.
Proof.
  intro N. rewrite map_app in N. simpl map in N. apply NoDup_remove_2 in N.
  assert (H : forall x, In x (l1 ++ l2) -> negb (Nat.eqb (c_id x) (c_id c)) = true).
  { intros x Hx. apply negb_true_iff, Nat.eqb_neq. intro E. apply N.
    replace (addr c) with (addr x) by (unfold addr; congruence).
    rewrite <- map_app. apply in_map. exact Hx. }
  unfold unlink. rewrite filter_app. simpl. rewrite Nat.eqb_refl. simpl.
  f_equal; apply filter_all; intros x Hx; apply H, in_or_app; [left | right]; exact Hx.
Qed.

Lemma Rep_unlink h l id : Rep h l -> In id (map c_id l) ->
  exists h', h_unlink h (S id) = Ok h' /\ Rep h' (unlink l id).
Proof.
  intros R Hid. apply Rep_iff in R. destruct R as (N & L1 & L2 & KV).
  apply in_map_iff in Hid as (c & Ec & Hc). apply in_split in Hc as (l1 & l2 & El). subst l id.
  rewrite (unlink_split l1 c l2 N).
  pose proof (root_not_addr (l1 ++ c :: l2)) as NR.
  rewrite map_app in N, L1, L2, NR. simpl map in N, L1, L2, NR.
  change (S (c_id c)) with (addr c).
  set (A1 := map addr l1) in *. set (A2 := map addr l2) in *. set (a := addr c) in *.
  assert (NE : root :: A1 <> []) by discriminate.
  pose proof (app_removelast_last root NE) as E1.
  set (P := removelast (root :: A1)) in *. set (p := last (root :: A1) root) in *.
  destruct (A2 ++ [root]) as [|n Q] eqn:E2; [destruct A2; discriminate|].
  assert (ND1 : NoDup (P ++ p :: a :: A2)).
  { change (P ++ p :: a :: A2) with (P ++ [p] ++ a :: A2). rewrite app_assoc, <- E1.
    simpl. constructor; assumption. }
  assert (ND2 : NoDup ((A1 ++ [a]) ++ n :: Q)).
  { rewrite <- E2, <- app_assoc. simpl app.
    change (A1 ++ a :: A2 ++ [root]) with (A1 ++ (a :: A2) ++ [root]). rewrite app_assoc.
    apply NoDup_snoc; assumption. }
  apply NoDup_remove_2 in ND1, ND2.
  rewrite <- app_assoc in L1, L2. simpl app in L1, L2.
  rewrite E2, app_comm_cons, E1, <- app_assoc in L1, L2. simpl app in L1, L2.
  destruct (unlink_generic h P p a n Q L1 L2) as (h' & E' & M1 & M2 & M3).
  - intro H. apply ND1, in_or_app. left. exact H.
  - rewrite <- E2, removelast_last. intro H. apply ND1, in_or_app. right. right. exact H.
  - rewrite <- E1. simpl. intro H. apply ND2, in_or_app. left. apply in_or_app. left. exact H.
  - intro H. apply ND2, in_or_app. right. exact H.
  - exists h'. split; [exact E'|]. apply Rep_iff. unfold Rep'.
    rewrite map_app. fold A1 A2.
    rewrite <- app_assoc, E2, app_comm_cons, E1, <- app_assoc. simpl app.
    split; [|split; [|split]]; try assumption.
    + apply NoDup_remove_1 with a. exact N.
    + intros c' Hc'. apply M3, KV. apply in_app_or in Hc' as [H|H]; apply in_or_app; [left | right; right]; exact H.
Qed.

(* ---- runs ------------------------------------------------------------------------------------- *)
(* every valid sequence of list-level operations is carried out correctly by the pointer code *)
Theorem ptr_simulates : forall ops h l, Rep h l -> ll_valid_run l ops ->
  exists h', h_run h ops = Ok h' /\ Rep h' (ll_run l ops).
Proof.
  induction ops as [|o ops IH]; intros h l R Hv.
  - exists h. split; [reflexivity | exact R].
  - destruct Hv as [Hv1 Hv2].
    assert (exists h1, h_apply h o = Ok h1 /\ Rep h1 (ll_apply l o)) as (h1 & E1 & R1).
    { destruct o as [id k v | id]; simpl in *.
      - apply Rep_insert; assumption.
      - apply Rep_unlink; assumption. }
    destruct (IH h1 _ R1 Hv2) as (h' & E' & R').
    exists h'. simpl. unfold bind. rewrite E1. split; assumption.
Qed.

Print Assumptions ptr_simulates.
Print Assumptions Rep_backward.
