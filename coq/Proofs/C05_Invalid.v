(* C05: the configuration whose arguments the io layer rejects (text mode with buffering=0):
   os.fdopen always raises, the save never completes and never publishes. *)
From Boltons Require Import Lib.Prelude Model.C04_Model Spec.C04_Spec Check.C04_Check Proofs.C04_Hoare Proofs.C04_Inv
     Proofs.C04_Abort Proofs.C05_Intrude.
Open Scope nat_scope.
Arguments upd {A} f k v x : simpl never.

Definition NoV {A} : A -> world -> Prop := fun _ _ => False.

Lemma forced_never_val e x : triple TT (prim_f e (Some x)) NoV ET TT.
Proof. intros w _. unfold prim_f. destruct (crash_now w); [exact I|]. unfold step, fault_of. exact I. Qed.

Section Invalid.
  Variable c : cfg.
  Hypothesis Hinv : c_fdopen_invalid c = true.

  Lemma nv_open_part : triple TT (open_part_file c) NoV ET TT.
  Proof.
    unfold open_part_file. eapply t_bind with (Q := fun _ => TT); [apply t_true|].
    intros [perms do_chmod]. eapply t_bind with (Q := fun _ => TT); [apply t_true|]. intros ?; cbv beta.
    eapply t_bind with (Q := NoV).
    - eapply t_catch with (E' := ET).
      + unfold fdopen. rewrite Hinv. apply forced_never_val.
      + intro e. apply h_rm_raise.
    - intros ?; cbv beta. apply t_false.
  Qed.

  Lemma nv_setup : triple TT (setup c) NoV ET TT.
  Proof.
    unfold setup. eapply t_bind with (Q := fun _ => TT); [apply t_true|]. intro de.
    destruct (de && negb (c_overwrite c)); [apply t_raise; intros; exact I|].
    eapply t_bind with (Q := fun _ => TT); [apply t_true|]. intro pe.
    eapply t_bind with (Q := fun _ => TT); [apply t_true|]. intros ?; cbv beta. apply nv_open_part.
  Qed.

  Lemma save_is_setup ops raises w0 :
    save c ops raises w0 = (let '(o, w') := setup c w0 in
                            (match o with Val _ => Crashed | Exc e => Exc e | Crashed => Crashed end, w')).
  Proof.
    unfold save, bind. pose proof (nv_setup w0 I) as H. destruct (setup c w0) as [[x|e|] w']; [destruct H| |]; reflexivity.
  Qed.

  Lemma invalid_never_val ops raises s um crash sched x w :
    run_save c ops raises s um crash sched = (Val x, w) -> False.
  Proof.
    unfold run_save. rewrite save_is_setup. destruct (setup c _) as [[y|e|] w']; discriminate.
  Qed.

  Lemma invalid_np ops raises s um crash sched :
    NP (snd (run_save c ops raises s um crash sched)).
  Proof.
    unfold run_save. rewrite save_is_setup.
    pose proof (np_setup c (init_world s um (c_dest c) crash sched) eq_refl) as H.
    destruct (setup c _) as [[y|e|] w']; exact H.
  Qed.
End Invalid.

(* the failure-free invalid run on a directory without a part file: it creates the part file, fdopen
   fails, the clean-up removes it again *)
Lemma invalid_run_part c ops s um :
  c_dest c <> c_part c -> c_fdopen_invalid c = true -> c_rm_part_on_exc c = true ->
  f_dir s (c_part c) = None ->
  f_dir (w_fs (snd (run_save c ops false s um None []))) (c_part c) = None.
Proof.
  intros Hdp Hinv Hrm Hp. unfold run_save. rewrite (save_is_setup c Hinv).
  assert (Hsnd : forall X : outcome unit * world,
             snd (let '(o, w') := X in (match o with Val _ => Crashed | Exc e => Exc e | Crashed => @Crashed unit end, w')) = snd X)
    by (intros [o w']; reflexivity).
  rewrite Hsnd. clear Hsnd.
  unfold setup, bind at 1, lexists at 1. cbn [init_world w_fs w_file].
  destruct ((match f_dir s (c_dest c) with Some _ => true | None => false end) && negb (c_overwrite c)).
  - cbn. exact Hp.
  - unfold bind at 1, lexists at 1. cbn [init_world w_fs]. rewrite Hp. rewrite andb_false_r.
    unfold bind at 1, ret at 1.
    unfold open_part_file.
    assert (Hcn : forall w, w_crash w = None -> crash_now w = false) by (intros w H; unfold crash_now; rewrite H; reflexivity).
    (* the permission choice does not matter *)
    assert (G : forall (perms : N) (do_chmod : bool),
              f_dir (w_fs (snd ((prim (EOpen (c_part c) true perms) ;;;
                                 catch (fdopen c) (fun e => rm_part_file c ;;; raise e) ;;;
                                 (if do_chmod
                                  then catch (prim (EChmod (c_part c) perms))
                                         (fun e => catch (prim EClose) (fun e2 => rm_part_file c ;;; raise e2) ;;;
                                                   rm_part_file c ;;; raise e)
                                  else ret tt)) (init_world s um (c_dest c) None [])))) (c_part c) = None).
    { intros perms do_chmod. unfold init_world.
      unfold bind at 1. unfold prim, prim_f at 1. rewrite Hcn by reflexivity.
      unfold step, fault_of, interfere. cbn [init_world w_sched w_tick w_fs w_file w_umask sched_fault sched_appear].
      cbn [sem]. rewrite Hp. cbn [fst snd].
      unfold bind at 1, catch at 1, fdopen. rewrite Hinv. unfold prim_f at 1.
      rewrite Hcn by reflexivity. unfold step, fault_of, interfere.
      cbn [next_world w_sched w_tick w_fs w_file w_umask w_crash w_dest w_trace sched_fault sched_appear after_fault fst snd].
      unfold bind at 1, rm_part_file. rewrite Hrm. unfold catch at 1, prim, prim_f at 1.
      rewrite Hcn by reflexivity. unfold step, fault_of, interfere.
      cbn [next_world w_sched w_tick w_fs w_file w_umask w_crash w_dest w_trace sched_fault sched_appear after_fault fst snd].
      cbn [sem].
      assert (Hc : f_dir (fs_create s (c_part c) [] false (N.ldiff perms um)) (c_part c) = Some (f_next s))
        by (cbn; apply upd_eq).
      rewrite Hc. cbn [fst snd raise next_world w_fs set_name f_dir]. apply upd_eq. }
    destruct (c_file_perms c) as [q|].
    + unfold bind at 1, ret at 1. cbn beta iota. exact (G q true).
    + unfold bind at 1, stat_mode at 1, bind at 1, ret at 1.
      cbn [init_world w_fs]. destruct (f_dir s (c_dest c)) as [jd|]; cbn beta iota;
        [exact (G (i_mode (f_ino s jd)) true)|exact (G RW_PERMS false)].
Qed.
