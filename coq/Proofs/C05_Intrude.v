(* C05 no-clobber: with overwrite=False a save that returns normally was never
   overtaken by another process creating the destination (had the destination
   appeared before the link, the link would have failed; afterwards it cannot appear). *)
From Boltons Require Import Lib.Prelude Model.C04_Model Spec.C04_Spec Check.C04_Check Proofs.C04_Hoare Proofs.C04_Inv.
Open Scope nat_scope.
Arguments upd {A} f k v x : simpl never.

Definition TT : world -> Prop := fun _ => True.
Definition ET : exn -> world -> Prop := fun _ _ => True.

Lemma t_true {A} (m : M A) (P : world -> Prop) : triple P m (fun _ _ => True) ET TT.
Proof. intros w _. destruct (m w) as [[a|e|] w']; exact I. Qed.

Section Intr.
  Variable c : cfg.
  Notation dest := (c_dest c).
  Notation part := (c_part c).
  Hypothesis Hdp : dest <> part.

  Definition Inv1 (w : world) : Prop :=
    w_dest w = dest /\ (w_intruded w = true -> f_dir (w_fs w) dest <> None).
  Definition Inv2 (w : world) : Prop :=
    w_dest w = dest /\ w_intruded w = false /\ f_dir (w_fs w) dest <> None.

  (* events that never unbind the destination *)
  Definition okev (e : ev) : Prop :=
    match e with EUnlink n => n <> dest | ERename s _ => s <> dest | _ => True end.

  Lemma sem_keeps um e s f :
    okev e -> f_dir s dest <> None -> f_dir (snd (fst (sem um e s f))) dest <> None.
  Proof.
    intros Hok Hd. destruct e; cbn [sem]; cbn in Hok.
    - destruct (f_dir s n); cbn; [|exact Hd]. rewrite upd_neq by congruence. exact Hd.
    - destruct (f_dir s n) eqn:E; [destruct excl; cbn; exact Hd|]. cbn.
      unfold upd. destruct (Nat.eqb dest n); [discriminate|exact Hd].
    - exact Hd.
    - destruct (f_dir s n); cbn; exact Hd.
    - destruct f; cbn; try exact Hd.
      destruct ((blen (i_vol (f_ino s ino)) <=? disk)%N && (disk <=? blen (i_vol (f_ino s ino) ++ buf ++ data))%N); cbn; exact Hd.
    - destruct f; cbn; exact Hd.
    - destruct f; cbn; exact Hd.
    - destruct f; cbn; exact Hd.
    - destruct (f_dir s src) eqn:E; cbn; [|exact Hd]. destruct (Nat.eqb src dst); cbn; [exact Hd|].
      rewrite upd_neq by congruence. unfold upd. destruct (Nat.eqb dest dst); [discriminate|exact Hd].
    - destruct (f_dir s src); cbn; [|exact Hd]. destruct (f_dir s dst) eqn:E; cbn; [exact Hd|].
      unfold upd. destruct (Nat.eqb dest dst); [discriminate|exact Hd].
  Qed.

  Lemma fault_keeps um e s f : f_dir s dest <> None -> f_dir (fst (after_fault um e s f)) dest <> None.
  Proof.
    intro Hd. destruct e; cbn [after_fault fst]; try exact Hd.
    pose proof (sem_keeps um EClose s f I Hd) as H. destruct (sem um EClose s f) as [[r s'] f']. exact H.
  Qed.

  Lemma interfere_present w : f_dir (w_fs w) dest <> None -> w_dest w = dest -> interfere w = w_fs w /\ intrudes w = false.
  Proof.
    intros Hd Hw. unfold interfere, intrudes. rewrite Hw.
    destruct (sched_appear (w_sched w) (w_tick w)) as [[cnt m]|]; [|auto].
    destruct (f_dir (w_fs w) dest); [auto|contradiction].
  Qed.

  Lemma interfere_intrudes w : w_dest w = dest -> intrudes w = true -> f_dir (interfere w) dest <> None.
  Proof.
    intros Hw. unfold interfere, intrudes. rewrite Hw.
    destruct (sched_appear (w_sched w) (w_tick w)) as [[cnt m]|]; [|discriminate].
    destruct (f_dir (w_fs w) dest); [discriminate|]. intros _. cbn. rewrite upd_eq. discriminate.
  Qed.

  Lemma interfere_absent w : w_dest w = dest -> intrudes w = false -> interfere w = w_fs w.
  Proof.
    intros Hw. unfold interfere, intrudes. rewrite Hw.
    destruct (sched_appear (w_sched w) (w_tick w)) as [[cnt m]|]; [|auto].
    destruct (f_dir (w_fs w) dest); [auto|discriminate].
  Qed.

  Lemma inv1_prim e forced : okev e -> triple Inv1 (prim_f e forced) (fun _ => Inv1) (fun _ => Inv1) Inv1.
  Proof.
    intros Hok w (Hw & Hi). unfold prim_f. destruct (crash_now w); [split; auto|].
    assert (Hkey : w_intruded w || intrudes w = true -> f_dir (interfere w) dest <> None).
    { intro H. apply orb_true_iff in H as [H|H].
      - destruct (interfere_present w (Hi H) Hw) as [-> _]. auto.
      - apply interfere_intrudes; auto. }
    unfold step. destruct (fault_of forced w).
    - split; [exact Hw|]. cbn [next_world w_intruded w_fs]. intro H. apply fault_keeps. auto.
    - pose proof (sem_keeps (w_umask w) e (interfere w) (w_file w) Hok) as Hs.
      destruct (sem (w_umask w) e (interfere w) (w_file w)) as [[r s'] f']. cbn [fst snd] in *.
      destruct r; (split; [exact Hw|]; cbn [next_world w_intruded w_fs]; intro H; auto).
  Qed.

  Lemma inv2_prim e forced : okev e -> triple Inv2 (prim_f e forced) (fun _ => Inv2) (fun _ => Inv2) Inv2.
  Proof.
    intros Hok w (Hw & Hf & Hd). unfold prim_f. destruct (crash_now w); [split; auto|].
    destruct (interfere_present w Hd Hw) as [Hs Hn].
    unfold step. rewrite Hs. destruct (fault_of forced w).
    - split; [exact Hw|]. cbn [next_world w_intruded w_fs]. rewrite Hf, Hn. split; [reflexivity|]. apply fault_keeps. auto.
    - pose proof (sem_keeps (w_umask w) e (w_fs w) (w_file w) Hok Hd) as Hk.
      destruct (sem (w_umask w) e (w_fs w) (w_file w)) as [[r s'] f']. cbn [fst snd] in *.
      destruct r; (split; [exact Hw|]; cbn [next_world w_intruded w_fs]; rewrite Hf, Hn; split; [reflexivity|exact Hk]).
  Qed.

  (* the no-clobber publication: if the link succeeds, nobody had got in *)
  Lemma inv_link forced :
    triple Inv1 (prim_f (ELink part dest) forced) (fun _ => Inv2) (fun _ => Inv1) Inv1.
  Proof.
    intros w Hw. pose proof (inv1_prim (ELink part dest) forced I w Hw) as H1.
    destruct Hw as (Hw & Hi). unfold prim_f in *. destruct (crash_now w); [exact H1|].
    unfold step in *. destruct (fault_of forced w); [exact H1|].
    cbn [sem] in *. destruct (f_dir (interfere w) part) as [p|] eqn:Ep; cbn [fst snd] in *; [|exact H1].
    destruct (f_dir (interfere w) dest) eqn:Ed; cbn [fst snd] in *; [exact H1|].
    (* success: the destination was absent after the interference step *)
    assert (Hnot : w_intruded w || intrudes w = false).
    { destruct (w_intruded w || intrudes w) eqn:E; [|reflexivity]. exfalso.
      apply orb_true_iff in E as [E|E].
      - destruct (interfere_present w (Hi E) Hw) as [Hs _]. rewrite Hs in Ed. apply (Hi E). exact Ed.
      - apply (interfere_intrudes w Hw E). exact Ed. }
    split; [exact Hw|]. cbn [next_world w_intruded w_fs]. split; [exact Hnot|].
    cbn. rewrite upd_eq. discriminate.
  Qed.

  (* ---- the pass over the program (only the normal-return path matters) ---- *)
  Lemma h_rm_raise {A} e (Q : A -> world -> Prop) : triple TT (rm_part_file c ;;; raise e) Q ET TT.
  Proof.
    eapply t_bind with (Q := fun _ => TT); [apply t_true|]. intros ?; cbv beta. apply t_raise. intros; exact I.
  Qed.

  Lemma ip_open_part : triple Inv1 (open_part_file c) (fun _ => Inv1) ET TT.
  Proof.
    unfold open_part_file. eapply t_bind with (Q := fun _ => Inv1).
    - destruct (c_file_perms c); [apply t_ret; auto|].
      eapply t_bind with (Q := fun _ => Inv1); [apply t_read; auto|]. intro. apply t_ret. auto.
    - intros [perms do_chmod].
      eapply t_bind with (Q := fun _ => Inv1).
      + eapply t_conseq; [apply (inv1_prim (EOpen part true perms) None I)|idc|idc| |]; intros; exact I.
      + intros ?; cbv beta. eapply t_bind with (Q := fun _ => Inv1).
        * eapply t_catch with (E' := fun _ => TT).
          -- unfold fdopen. eapply t_conseq; [apply (inv1_prim EFdopen _ I)|idc|idc| |]; intros; exact I.
          -- intro e. apply h_rm_raise.
        * intros ?; cbv beta. destruct do_chmod; [|apply t_ret; auto].
          eapply t_catch with (E' := fun _ => TT).
          -- eapply t_conseq; [apply (inv1_prim (EChmod part perms) None I)|idc|idc| |]; intros; exact I.
          -- intro e. eapply t_bind with (Q := fun _ => TT); [apply t_true|]. intros ?; cbv beta. apply h_rm_raise.
  Qed.

  Lemma ip_setup : triple Inv1 (setup c) (fun _ => Inv1) ET TT.
  Proof.
    unfold setup. eapply t_bind with (Q := fun _ => Inv1); [apply t_read; auto|]. intro de.
    destruct (de && negb (c_overwrite c)); [apply t_raise; intros; exact I|].
    eapply t_bind with (Q := fun _ => Inv1); [apply t_read; auto|]. intro pe.
    eapply t_bind with (Q := fun _ => Inv1).
    - destruct (c_overwrite_part c && pe); [|apply t_ret; auto].
      eapply t_conseq; [apply (inv1_prim (EUnlink part) None)|idc|idc| |]; [cbn; congruence|intros; exact I|intros; exact I].
    - intros ?; cbv beta. apply ip_open_part.
  Qed.

  Lemma ip_run_body ops : triple Inv1 (run_body ops) (fun _ => Inv1) ET TT.
  Proof.
    induction ops as [|o r IH]; cbn [run_body]; [apply t_ret; auto|].
    destruct o; (eapply t_bind with (Q := fun _ => Inv1); [|intros ?; cbv beta; exact IH]).
    - eapply t_conseq; [apply (inv1_prim (EWrite data disk) None I)|idc|idc| |]; intros; exact I.
    - eapply t_conseq; [apply (inv1_prim EFlush None I)|idc|idc| |]; intros; exact I.
    - eapply t_conseq; [apply (inv1_prim EClose None I)|idc|idc| |]; intros; exact I.
  Qed.

  Lemma ip_exit_false :
    c_overwrite c = false -> triple Inv1 (exit_ c false) (fun _ => Inv2) ET TT.
  Proof.
    intro How. unfold exit_. eapply t_bind with (Q := fun _ => Inv1); [apply t_read; auto|]. intro f.
    eapply t_bind with (Q := fun _ => Inv1).
    - assert (H : triple Inv1
                    (catch (prim EFlush;;; prim EFsync;;; prim EClose)
                           (fun e => catch (prim EClose) (fun _ => ret tt);;; rm_part_file c;;; raise e))
                    (fun _ => Inv1) ET TT).
      { eapply t_catch with (E' := fun _ => TT).
        - eapply t_bind with (Q := fun _ => Inv1).
          + eapply t_conseq; [apply (inv1_prim EFlush None I)|idc|idc| |]; intros; exact I.
          + intros ?; cbv beta. eapply t_bind with (Q := fun _ => Inv1).
            * eapply t_conseq; [apply (inv1_prim EFsync None I)|idc|idc| |]; intros; exact I.
            * intros ?; cbv beta. eapply t_conseq; [apply (inv1_prim EClose None I)|idc|idc| |]; intros; exact I.
        - intro e. eapply t_bind with (Q := fun _ => TT); [apply t_true|]. intros ?; cbv beta. apply h_rm_raise. }
      destruct f; [apply t_ret; auto|exact H|exact H].
    - intros ?; cbv beta. eapply t_catch with (E' := fun _ => TT).
      + unfold atomic_rename. rewrite How.
        eapply t_bind with (Q := fun _ => Inv2).
        * eapply t_conseq; [apply (inv_link None)|idc|idc| |]; intros; exact I.
        * intros ?; cbv beta.
          eapply t_conseq; [apply (inv2_prim (EUnlink part) None)|idc|idc| |]; [cbn; congruence|intros; exact I|intros; exact I].
      + intro e. apply h_rm_raise.
  Qed.

  Lemma ip_save ops raises :
    c_overwrite c = false -> triple Inv1 (save c ops raises) (fun _ => Inv2) ET TT.
  Proof.
    intro How. unfold save. eapply t_bind; [apply ip_setup|]. intros ?; cbv beta.
    intros w Hw.
    assert (Hb : triple Inv1 (body ops raises) (fun _ => Inv1) ET TT).
    { unfold body. eapply t_bind; [apply ip_run_body|]. intros ?; cbv beta.
      destruct raises; [apply t_raise; intros; exact I|apply t_ret; auto]. }
    specialize (Hb w Hw). destruct (body ops raises w) as [[x|e|] w'].
    - apply ip_exit_false; auto.
    - assert (T : triple TT (exit_ c true ;;; raise e) (fun _ : unit => Inv2) ET TT).
      { eapply t_bind with (Q := fun _ => TT); [apply t_true|]. intros ?; cbv beta. apply t_raise. intros; exact I. }
      apply T. exact I.
    - exact I.
  Qed.
End Intr.

Lemma no_intrusion_lemma c ops raises s0 umask crash sched x w :
  c_dest c <> c_part c -> c_overwrite c = false ->
  run_save c ops raises s0 umask crash sched = (Val x, w) -> w_intruded w = false.
Proof.
  intros Hdp How Hr. unfold run_save in Hr.
  assert (H0 : Inv1 c (init_world s0 umask (c_dest c) crash sched)).
  { split; [reflexivity|]. cbn. discriminate. }
  pose proof (ip_save c Hdp ops raises How _ H0) as H. rewrite Hr in H. apply H.
Qed.
