(* C01: every operation refines the pair-list reference; histories; consequences. *)
From Boltons Require Import Lib.Prelude Spec.C01_Spec Model.C01_Model Check.C01_Check
  Proofs.C01_Base Proofs.C01_Prim Proofs.C01_Refine Proofs.C01_Mut1 Proofs.C01_Mut2
  Proofs.C01_Pop Proofs.C01_Reads1 Proofs.C01_Reads2 Proofs.C01_Bad.

Theorem step_refines : forall op_, refines_op op_.
Proof.
  destruct op_.
  - apply add_refines.
  - apply addlist_refines.
  - apply setitem_refines.
  - apply delitem_refines.
  - apply update_refines.
  - apply update_extend_refines.
  - apply ior_refines.
  - apply setdefault_refines.
  - apply pop_refines.
  - apply popall_refines.
  - apply poplast_refines.
  - apply popitem_refines.
  - apply clear_refines.
  - apply new_refines.
  - apply fromkeys_refines.
  - apply copyother_refines.
  - apply copycyc_refines.
  - apply items_refines.
  - apply keys_refines.
  - apply values_refines.
  - apply len_refines.
  - apply iter_refines.
  - apply reversed_refines.
  - apply get_refines.
  - apply getlist_refines.
  - apply getitem_refines.
  - apply contains_refines.
  - apply todict_refines.
  - apply counts_refines.
  - apply inverted_refines.
  - apply sorted_refines.
  - apply sortedvalues_refines.
  - apply repr_refines.
  - apply eqother_refines.
  - apply eqself_refines.
  - apply eqpairs_refines.
  - apply eqmap_refines.
  - apply eqjunk_refines.
  - apply ormap_refines.
  - apply rormap_refines.
  - apply viewkeys_refines.
  - apply viewvalues_refines.
  - apply viewitems_refines.
  - apply dictof_refines.
  - apply truth_refines.
  - apply updatebad_refines.
  - apply updateextendbad_refines.
  - apply addlistbad_refines.
  - apply badkey_refines.
Qed.

(* one step of one object *)
Lemma m_step_refines s o op_ : Inv s -> Inv o -> wf_op op_ = true ->
  Inv (fst (m_step s o op_)) /\
  spec_step (abs s) (abs o) op_ = (abs (fst (m_step s o op_)), snd (m_step s o op_)).
Proof.
  intros Hs Ho Hwf. pose proof (step_refines op_ s o Hs Ho Hwf) as H.
  unfold m_step. destruct (m_op s o op_) as [[s' x]|e]; simpl.
  - exact H.
  - split; [exact Hs | exact H].
Qed.

(* the two live objects *)
Definition Inv2 (st : mstate) : Prop := Inv (fst st) /\ Inv (snd st).
Definition abs2 (st : mstate) : sstate := (abs (fst st), abs (snd st)).

Lemma m_step2_refines st reg op_ : Inv2 st -> wf_op op_ = true ->
  Inv2 (fst (m_step2 st reg op_)) /\
  spec_step2 (abs2 st) reg op_ = (abs2 (fst (m_step2 st reg op_)), snd (m_step2 st reg op_)).
Proof.
  destruct st as [s0 s1]. intros [H0 H1] Hwf. simpl in H0, H1.
  unfold m_step2, spec_step2, abs2. simpl fst. simpl snd. destruct reg.
  - destruct (m_step_refines s1 s0 op_ H1 H0 Hwf) as [Hi Hs].
    destruct (m_step s1 s0 op_) as [s' r] eqn:E. simpl in *. rewrite Hs. simpl.
    split; [split; assumption | reflexivity].
  - destruct (m_step_refines s0 s1 op_ H0 H1 Hwf) as [Hi Hs].
    destruct (m_step s0 s1 op_) as [s' r] eqn:E. simpl in *. rewrite Hs. simpl.
    split; [split; assumption | reflexivity].
Qed.

Definition wf_history (ops : list (bool * op)) : Prop := Forall (fun ro => wf_op (snd ro) = true) ops.

(* histories: outputs and snapshot views, after every step *)
Theorem run_refines : forall ops st, Inv2 st -> wf_history ops ->
  m_run st ops = spec_run (abs2 st) ops.
Proof.
  induction ops as [|[reg o] r IH]; intros st Hst Hwf; [reflexivity|].
  inversion Hwf as [|x y Hw Hr]; subst. simpl in Hw.
  destruct (m_step2_refines st reg o Hst Hw) as [Hi Hs].
  cbn [m_run spec_run]. rewrite Hs. destruct (m_step2 st reg o) as [st' x] eqn:E. cbn [fst snd] in *.
  rewrite (IH st' Hi Hr). destruct Hi as [Hi0 Hi1].
  rewrite (view_correct _ (proj1 Hi0)), (view_correct _ (proj1 Hi1)). reflexivity.
Qed.

(* the state reached by a history *)
Fixpoint m_final (st : mstate) (ops : list (bool * op)) : mstate :=
  match ops with [] => st | (reg, o) :: r => m_final (fst (m_step2 st reg o)) r end.

Theorem inv_preserved : forall ops st, Inv2 st -> wf_history ops -> Inv2 (m_final st ops).
Proof.
  induction ops as [|[reg o] r IH]; intros st Hst Hwf; [exact Hst|].
  inversion Hwf as [|x y Hw Hr]; subst. simpl in Hw. simpl.
  apply IH; [|exact Hr]. apply (m_step2_refines st reg o Hst Hw).
Qed.

Lemma Inv2_init : Inv2 (m_empty, m_empty).
Proof. split; apply Inv_empty. Qed.

Theorem history_refines : forall ops, wf_history ops ->
  m_run (m_empty, m_empty) ops = spec_run ([], []) ops.
Proof. intros ops H. apply (run_refines ops (m_empty, m_empty) Inv2_init H). Qed.

Theorem history_invariant : forall ops, wf_history ops -> Inv2 (m_final (m_empty, m_empty) ops).
Proof. intros ops H. apply inv_preserved; [apply Inv2_init | exact H]. Qed.

(* ---- reads are total and do not change the object --------------------------------------- *)
Definition is_read (o : op) : bool :=
  match o with
  | Items _ | Keys _ | Values _ | Len | Iter | Reversed | Get _ _ | GetList _ _ | GetItem _
  | Contains _ | ToDict _ | Counts | Inverted | Sorted _ _ | SortedValues _ _ | Repr
  | EqOther _ | EqSelf _ | EqPairs _ _ | EqMap _ _ | EqJunk _ | OrMap _ | ROrMap _
  | ViewKeys | ViewValues | ViewItems | DictOf | Truth => true
  | _ => false
  end.

Theorem reads_total s o op_ : Inv s -> Inv o -> wf_op op_ = true -> is_read op_ = true ->
  abs (fst (m_step s o op_)) = abs s /\
  ((exists x, snd (m_step s o op_) = Ok x) \/
   (exists k, op_ = GetItem k /\ has_key (abs s) k = false /\ snd (m_step s o op_) = Raise KeyError) \/
   (op_ = Inverted /\ existsb unhashable (map snd (abs s)) = true /\ snd (m_step s o op_) = Raise TypeError)).
Proof.
  intros Hs Ho Hwf Hr. destruct (m_step_refines s o op_ Hs Ho Hwf) as [_ H].
  destruct (m_step s o op_) as [s' x]. simpl in *.
  destruct op_; try discriminate Hr; simpl in H;
    try (inversion H; split; [congruence | left; eexists; reflexivity]).
  - (* GetItem *)
    destruct (has_key (abs s) k) eqn:E; inversion H; split; try congruence.
    + left. eexists. reflexivity.
    + right. left. exists k. repeat split; assumption || reflexivity.
  - (* Inverted *)
    destruct (existsb unhashable (map snd (abs s))) eqn:E; inversion H; split; try congruence.
    + right. right. repeat split; reflexivity.
    + left. eexists. reflexivity.
Qed.

(* ---- agree => holds: the checker's two walks coincide on well-formed histories ------------ *)
Theorem agree_implies_holds : forall c st, Inv2 st ->
  walk_model st c = true -> walk_spec (abs2 st) c = true.
Proof.
  induction c as [|[reg o r snap] rest IH]; intros st Hst H; [reflexivity|].
  simpl in H. destruct (m_step2 st reg o) as [st' x] eqn:E.
  apply andb_true_iff in H as [H Hrest]. apply andb_true_iff in H as [H Hsnap].
  apply andb_true_iff in H as [Hwf Hres].
  destruct (m_step2_refines st reg o Hst Hwf) as [Hi Hs]. rewrite E in Hi, Hs. simpl in Hi, Hs.
  simpl. rewrite Hs. rewrite Hres. simpl.
  destruct Hi as [Hi0 Hi1].
  rewrite (view_correct _ (proj1 Hi0)), (view_correct _ (proj1 Hi1)) in Hsnap.
  unfold abs2. simpl. rewrite Hsnap. simpl. apply (IH st' (conj Hi0 Hi1) Hrest).
Qed.

Theorem verdict_agree_implies_holds : forall c,
  fst (fst (c01_verdict c)) = true -> snd (fst (c01_verdict c)) = true.
Proof.
  intros c H. unfold c01_verdict in *. simpl in *. apply andb_true_iff in H as [H _].
  apply (agree_implies_holds c (m_empty, m_empty) Inv2_init H).
Qed.
