(* from_string on the text as Python >= 3.11 really prints it: folded entries and
   position-marker lines together. *)
From Boltons Require Import Lib.Prelude Lib.C16_Text Spec.C16_Spec Model.C16_Model
  Proofs.C16_Text Proofs.C16_Regex Proofs.C16_Parse Proofs.C16_Fold.
Open Scope N_scope.

Section FoldM.
  Context (C : cc) (OK : cc_ok C).

  Lemma fold_head_ok_m r0 R' : E_ok C r0 -> forall fms last count,
    Forall (fm_ok C) fms ->
    exists x X, fold_entries_m last count fms ++ r0 :: R' = x :: X /\ R_ok C x.
  Proof.
    intros HE. induction fms as [|[f m] fms IH]; intros last count Hall; cbn [fold_entries_m fst].
    - unfold flush_repeat. destruct (3 <? count); cbn [app].
      + eexists _, _. split; [reflexivity|apply (repeat_line_R_ok C OK)].
      + eexists _, _. split; [reflexivity|apply E_ok_R_ok; exact HE].
    - inversion Hall as [|x xs [Hf Hm] Hrest]; subst. cbn [fst snd] in Hf, Hm.
      assert (FR : R_ok C (frame_line f)).
      { destruct f as [p n [g|] s]; [apply (frame_line_R_ok C OK); exact Hf|].
        apply (frame_ok_inv C) in Hf as [_ [_ [Hg _]]]. discriminate. }
      destruct (match last with Some l => same_place l f | None => false end).
      + destruct (3 <? count + 1).
        * apply IH. exact Hrest.
        * unfold entry_lines_m. cbn [app]. eexists _, _. split; [reflexivity|exact FR].
      + unfold flush_repeat. destruct (3 <? count); cbn [app].
        * eexists _, _. split; [reflexivity|apply (repeat_line_R_ok C OK)].
        * unfold entry_lines_m. cbn [app]. eexists _, _. split; [reflexivity|exact FR].
  Qed.

  Lemma scan_entry_fold_m prev f m fms last count r0 R' :
    fm_ok C (f, m) -> Forall (fm_ok C) fms -> E_ok C r0 ->
    scan C (frame_re C) prev (entry_lines_m (f, m) ++ fold_entries_m last count fms ++ r0 :: R') =
    cons_frame f (scan C (frame_re C) (Some f) (fold_entries_m last count fms ++ r0 :: R')).
  Proof.
    intros [Hf Hm] Hall HE. cbn [fst snd] in Hf, Hm.
    destruct (fold_head_ok_m r0 R' HE fms last count Hall) as [x [X [EX HX]]]. rewrite EX.
    destruct f as [p n [g|] s].
    - apply (scan_entry C OK); [exact Hf|exact Hm|exact HX].
    - apply (frame_ok_inv C) in Hf as [_ [_ [Hg _]]]. discriminate.
  Qed.

  Lemma scan_fold_m r0 R' : E_ok C r0 -> forall fms l count,
    frame_ok C l = true -> Forall (fm_ok C) fms -> runs_equal l (map fst fms) -> 1 <= count ->
    scan C (frame_re C) (Some l) (fold_entries_m (Some l) count fms ++ r0 :: R') =
    Ok (repeat l (N.to_nat (count - 3)) ++ map fst fms, r0 :: R').
  Proof.
    intros HE. induction fms as [|[f m] fms IH]; intros l count Hl Hall Hruns Hc; cbn [fold_entries_m map fst].
    - rewrite (scan_flush C OK l count).
      destruct HE as [_ [_ [HF HR]]]. rewrite (scan_stop C _ _ _ _ (or_intror HR) HF).
      rewrite app_nil_r. reflexivity.
    - inversion Hall as [|x xs Hfm Hrest]; subst. cbn [map fst] in Hruns. destruct Hruns as [Hsame Hruns].
      pose proof Hfm as [Hf _]. cbn [fst] in Hf.
      destruct (same_place l f) eqn:SP.
      + specialize (Hsame eq_refl). subst f. clear SP.
        destruct (3 <? count + 1) eqn:E.
        * rewrite (IH l (count + 1) Hl Hrest Hruns) by lia.
          apply N.ltb_lt in E. replace (N.to_nat (count + 1 - 3)) with (Datatypes.S (N.to_nat (count - 3))) by lia.
          rewrite <- repeat_snoc. reflexivity.
        * apply N.ltb_ge in E. rewrite <- app_assoc.
          rewrite (scan_entry_fold_m (Some l) l m fms (Some l) (count + 1) r0 R' Hfm Hrest HE).
          rewrite (IH l (count + 1) Hl Hrest Hruns) by lia.
          replace (count + 1 - 3) with 0 by lia. replace (count - 3) with 0 by lia. reflexivity.
      + rewrite <- app_assoc, (scan_flush C OK l count). rewrite <- app_assoc.
        rewrite (scan_entry_fold_m (Some l) f m fms (Some f) 1 r0 R' Hfm Hrest HE).
        rewrite (IH f 1 Hf Hrest Hruns) by lia. cbn [N.sub N.to_nat repeat app cons_frame]. reflexivity.
  Qed.

  Lemma scan_folded_m r0 R' fms :
    E_ok C r0 -> Forall (fm_ok C) fms ->
    match map fst fms with [] => True | f :: r => runs_equal f r end ->
    scan C (frame_re C) None (fold_entries_m None 0 fms ++ r0 :: R') = Ok (map fst fms, r0 :: R').
  Proof.
    intros HE Hall Hruns. destruct fms as [|[f m] fms]; cbn [fold_entries_m map fst] in *.
    - cbn [flush_repeat N.ltb N.compare app]. destruct HE as [_ [_ [HF HR]]].
      apply (scan_stop C); [left; reflexivity|exact HF].
    - inversion Hall as [|x xs Hfm Hrest]; subst. cbn [flush_repeat N.ltb N.compare app].
      pose proof Hfm as [Hf _]. cbn [fst] in Hf.
      rewrite <- app_assoc, (scan_entry_fold_m None f m fms (Some f) 1 r0 R' Hfm Hrest HE).
      rewrite (scan_fold_m r0 R' HE fms f 1 Hf Hrest Hruns) by lia. reflexivity.
  Qed.

  Lemma fold_no_break_m fms : forall last count,
    Forall (fm_ok C) fms -> Forall (fun l => no_break C l = true) (fold_entries_m last count fms).
  Proof.
    assert (FL : forall count, Forall (fun l => no_break C l = true) (flush_repeat count)).
    { intro count. unfold flush_repeat. destruct (3 <? count); constructor; [|constructor].
      apply (no_break_repeat_line C OK). }
    induction fms as [|fm fms IH]; intros last count Hall; cbn [fold_entries_m]; [apply FL|].
    inversion Hall as [|x xs Hfm Hrest]; subst.
    pose proof (entry_lines_no_break C OK fm Hfm) as EN.
    destruct (match last with Some l => same_place l (fst fm) | None => false end).
    - destruct (3 <? count + 1); [apply IH; exact Hrest|]. apply Forall_app. split; [exact EN|apply IH; exact Hrest].
    - apply Forall_app. split; [apply FL|]. apply Forall_app. split; [exact EN|apply IH; exact Hrest].
  Qed.

  (* the first half of the property on the text as the interpreter really prints it *)
  Theorem parse_real (T : tb) (ms : list (option str)) :
    wf C T = true -> markers_ok ms = true -> length ms = length (t_frames T) ->
    src_consistent (t_frames T) = true ->
    from_string C (real_text T ms) = Ok T.
  Proof.
    intros Hwf Hms Hlen Hc. destruct T as [frames ty msg]. apply (wf_inv C) in Hwf as [Hfr [Hty Hmsg]].
    cbn [t_frames t_type t_msg] in *.
    set (fms := combine frames ms).
    assert (Hfms : Forall (fm_ok C) fms).
    { subst fms. clear - Hfr Hms Hlen. revert ms Hms Hlen.
      induction frames as [|f frames IH]; intros ms Hms Hlen; [constructor|].
      destruct ms as [|m ms]; [discriminate|]. cbn [combine].
      inversion Hfr as [|x xs Hf Hfr']; subst.
      unfold markers_ok in Hms. cbn [forallb] in Hms. apply andb_true_iff in Hms as [Hm Hms].
      constructor.
      - split; [exact Hf|]. cbn [snd]. destruct m; [exact Hm|exact I].
      - apply IH; [exact Hfr'|exact Hms|]. cbn [length] in Hlen. congruence. }
    assert (Hmap : map fst fms = frames).
    { subst fms. clear - Hlen. revert ms Hlen. induction frames as [|f frames IH]; intros ms Hlen; [reflexivity|].
      destruct ms as [|m ms]; [discriminate|]. cbn [combine map fst]. f_equal. apply IH. cbn [length] in Hlen. congruence. }
    unfold real_text, real_lines. cbn [t_frames t_type t_msg]. fold fms.
    apply (parse_lines C OK); [apply fold_no_break_m; exact Hfms| |exact Hty|exact Hmsg].
    intros r0 R' HE. rewrite (scan_folded_m r0 R' fms HE Hfms); [rewrite Hmap; reflexivity|].
    rewrite Hmap. destruct frames as [|f fs]; [exact I|]. inversion Hfr; subst.
    apply (runs_equal_of C); assumption.
  Qed.
End FoldM.
