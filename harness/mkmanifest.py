#!/usr/bin/env python3
"""Assemble MANIFEST.json and known_findings.json from per-property fragments
(manifest.d/Cxx.json, known_findings.d/Cxx.json) so that parallel work on
different properties never edits a shared file."""
import json, os, glob, sys
V = os.path.dirname(os.path.dirname(os.path.abspath(__file__)))
props = [json.loads(l) for l in open(os.path.join(V, "properties.jsonl")) if l.strip()]
checks, na = [], []
na_reasons = {}
p = os.path.join(V, "manifest.d", "_not_applicable.json")
if os.path.exists(p):
    na_reasons = json.load(open(p))
for pr in props:
    pid = pr["id"]
    frag = os.path.join(V, "manifest.d", pid + ".json")
    if os.path.exists(frag) and pid not in na_reasons:
        f = json.load(open(frag))
        entry = {
            "property_id": pid,
            "quick_cmd": "/venv/bin/python harness/vcheck.py %s --tier quick" % pid,
            "thorough_cmd": "/venv/bin/python harness/vcheck.py %s --tier thorough" % pid,
            "evidence_file": "/verif/evidence/%s.json" % pid,
            "replay_cmd_template": "/venv/bin/python harness/vcheck.py %s --replay {path}" % pid,
            "engine": "coq-model+correspondence",
            "level_claimed": {"category": "proof", "text": f["level_text"], "design_ref": f.get("design_ref", "DESIGN.md section 3, " + pid)},
            "level_note": f["level_note"],
            "technique": f.get("technique", "Coq theorems over an executable Gallina model; model tied to the code by differential correspondence evaluated in Coq (vm_compute)"),
        }
        checks.append(entry)
    else:
        na.append({"property_id": pid, "reason": na_reasons.get(pid, "check not built yet in this session (see DESIGN.md section 3 for the plan)")})
manifest = {
    "version": 1,
    "setup_cmd": "/venv/bin/python harness/vcheck.py --setup",
    "hooks": {"guard": "MAHMOUD_BOLTONS_VERIF", "enable": "no source hooks are needed: every observation point is reachable from outside (DESIGN 1.8)",
              "baseline_off_cmd": "cd /repo && /venv/bin/python -m pytest -ra -q -p no:cacheprovider --timeout=900 --continue-on-collection-errors",
              "source_commits": [], "add_only": True},
    "engines": [{"name": "coq-model+correspondence", "path": "harness/vcheck.py",
                 "serves_properties": [c["property_id"] for c in checks],
                 "kind_free_text": "Coq 8.16.1 development under coq/ (Spec, Model, Proofs, Props, Check) + Python harness that regenerates data from /repo, runs the implementation and lets Coq evaluate agree/holds/known per case"}],
    "checks": checks,
    "notes": "See DESIGN.md. Fragments in manifest.d/ and known_findings.d/ are assembled by harness/mkmanifest.py.",
    "not_applicable": na,
}
json.dump(manifest, open(os.path.join(V, "MANIFEST.json"), "w"), indent=1)
kf = []
for fn in sorted(glob.glob(os.path.join(V, "known_findings.d", "*.json"))):
    kf += json.load(open(fn))
json.dump(kf, open(os.path.join(V, "known_findings.json"), "w"), indent=1)
try:
    import jsonschema
    jsonschema.validate(manifest, json.load(open("/root/.vp/MANIFEST.schema.json")))
    print("MANIFEST valid: %d checks, %d not_applicable; %d known-finding entries" % (len(checks), len(na), len(kf)))
except ImportError:
    print("written (jsonschema not available to validate)")
