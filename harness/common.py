"""Shared machinery for the Coq-backed checks (DESIGN 1.3-1.7).

A property plug-in is a module harness/cXX.py; see harness/AGENT_GUIDE.md for
the interface.  Nothing in here states a property: Coq evaluates the three
booleans (agree, holds, known) for every case; this file only moves data.
"""
import hashlib
import json
import os
import random
import re
import signal
import subprocess
import sys
import time
import traceback

VERIF = os.path.dirname(os.path.dirname(os.path.abspath(__file__)))
COQ = os.environ.get("VERIF_COQ") or os.path.join(VERIF, "coq")   # VERIF_COQ: private copy for scratch/mutant runs
REPO = os.environ.get("VERIF_REPO", "/repo")
BUILD = os.environ.get("VERIF_BUILD", os.path.join(VERIF, "build"))
PY = "/venv/bin/python"
COQC_TIMEOUT = 900


# --------------------------------------------------------------------------
# Coq term rendering
# --------------------------------------------------------------------------
def cnat(n):
    assert isinstance(n, int) and 0 <= n < 5000, n
    return "%d%%nat" % n


def cN(n):
    assert isinstance(n, int) and n >= 0, n
    return "%d%%N" % n


def cZ(n):
    assert isinstance(n, int)
    return "(%d)%%Z" % n


def cbool(b):
    return "true" if b else "false"


def clist(items, per_line=0):
    items = list(items)
    if not items:
        return "[]"
    return "[" + "; ".join(items) + "]"


def cpair(*xs):
    return "(" + ", ".join(xs) + ")"


def copt(x):
    return "None" if x is None else "(Some %s)" % x


def cstring(s):
    """Coq string literal for an ASCII/latin-1 python str (bytes-like).
    Non-printable characters are not representable in a plain literal, so any
    text that may contain them should be passed as a list of N code points
    (ccodes) instead."""
    assert all(32 <= ord(c) < 127 for c in s), s
    return '"' + s.replace('"', '""') + '"%string'


def ccodes(s):
    """list N of code points (str) or byte values (bytes)."""
    if isinstance(s, (bytes, bytearray)):
        return clist(cN(b) for b in s)
    return clist(cN(ord(c)) for c in s)


# --------------------------------------------------------------------------
# running the implementation (worker pool)
# --------------------------------------------------------------------------
class CaseTimeout(Exception):
    pass


def _alarm(signum, frame):
    raise CaseTimeout()


_PLUGIN = None


def _worker_init(plugin_name, repo):
    global _PLUGIN
    sys.path.insert(0, repo)
    sys.path.insert(0, os.path.join(VERIF, "harness"))
    import importlib
    _PLUGIN = importlib.import_module(plugin_name)
    signal.signal(signal.SIGALRM, _alarm)
    init = getattr(_PLUGIN, "worker_init", None)
    if init:
        init()


def _worker_run(case):
    tmo = getattr(_PLUGIN, "CASE_TIMEOUT", 10)
    signal.setitimer(signal.ITIMER_REAL, tmo)
    try:
        return _PLUGIN.run_impl(case)
    except CaseTimeout:
        return {"__timeout__": True}
    except BaseException:
        return {"__crash__": traceback.format_exc()[-2000:]}
    finally:
        signal.setitimer(signal.ITIMER_REAL, 0)


def run_impl_many(plugin, cases, procs=None):
    """Run plugin.run_impl over cases in worker processes importing boltons
    from REPO.  Returns the list of observations."""
    import multiprocessing as mp
    procs = procs or min(16, max(1, len(cases) // 20 + 1))
    if getattr(plugin, "SERIAL_IMPL", False):
        procs = 1
    ctx = mp.get_context("spawn")
    # Early stop: a hang or crash inside run_impl is a violation by itself (fail closed).  When a change makes
    # MANY cases hang, waiting for every per-case time-out would keep the check running for a long time, so
    # after ABNORMAL_STOP such outcomes the remaining cases are not run: the observations returned cover a
    # prefix of the cases (the driver pairs them up with zip) and the abnormal ones are reported at once.
    stop_after = int(os.environ.get("VERIF_ABNORMAL_STOP", "12"))
    out, bad = [], 0
    pool = ctx.Pool(procs, initializer=_worker_init, initargs=(plugin.__name__, REPO))
    chunk = 1          # IMapIterator.next(timeout) exists only for chunksize 1
    # hard limit per result: the in-worker alarm cannot interrupt a loop that never returns to the bytecode
    # interpreter (e.g. list.extend over an endless iterator); the parent then gives up on that case
    hard = chunk * getattr(plugin, "CASE_TIMEOUT", 10) + 60
    try:
        it = pool.imap(_worker_run, cases, chunksize=chunk)
        while len(out) < len(cases):
            try:
                o = it.next(timeout=hard)
            except StopIteration:
                break
            except mp.TimeoutError:
                out.append({"__timeout__": True, "hard": "no result within %ds: the case never returned to the interpreter" % hard})
                break
            out.append(o)
            if is_abnormal(o):
                bad += 1
                if bad >= stop_after:
                    break
    finally:
        pool.terminate()
        pool.join()
    return out


def is_abnormal(obs):
    return isinstance(obs, dict) and ("__timeout__" in obs or "__crash__" in obs)


# --------------------------------------------------------------------------
# running Coq
# --------------------------------------------------------------------------
def sh(cmd, cwd=None, timeout=None, env=None):
    p = subprocess.run(cmd, cwd=cwd, shell=isinstance(cmd, str), stdout=subprocess.PIPE,
                       stderr=subprocess.STDOUT, timeout=timeout, env=env, text=True,
                       errors="replace")
    return p.returncode, p.stdout


def coqc_cmd(path):
    return ["coqc", "-q", "-noglob", "-Q", COQ, "Boltons", path]


_OCAML_ENV = dict(os.environ, OCAMLRUNPARAM="s=8M,h=128M,i=64M")


def coqc(path, timeout=COQC_TIMEOUT):
    try:
        return sh(coqc_cmd(path), timeout=timeout, env=_OCAML_ENV)
    except subprocess.TimeoutExpired:
        return 124, "coqc timed out after %ss on %s" % (timeout, path)


def coqc_many(paths, jobs=int(os.environ.get("VERIF_JOBS", "10"))):
    from concurrent.futures import ThreadPoolExecutor
    with ThreadPoolExecutor(max_workers=jobs) as ex:
        return list(ex.map(coqc, paths))


_CODES = re.compile(r"(\d+)")


def parse_failing(out):
    """Output of `Eval vm_compute in (failing ...)`:  = [17%N; 42%N] : list N"""
    m = re.search(r"=\s*(\[.*?\])\s*:\s*list N", out, re.S)
    if not m:
        return None
    res = []
    for code in _CODES.findall(m.group(1)):
        code = int(code)
        res.append((code // 8, bool(code & 4), bool(code & 2), bool(code & 1)))
    return res


def write_cases_file(plugin, path, coq_terms):
    """One Definition per case (elaboration cost is super-linear in the size of a
    single term), then one vm_compute over the list of them."""
    with open(path, "w") as f:
        f.write("(* generated by harness/vcheck.py; evaluates definitions on data, nothing is trusted *)\n")
        f.write(plugin.IMPORTS + "\n")
        for i, t in enumerate(coq_terms):
            f.write("Definition c%d : %s := %s.\n" % (i, plugin.CASE_TYPE, t))
        f.write("Definition cases : list %s := [%s].\n" % (plugin.CASE_TYPE, "; ".join("c%d" % i for i in range(len(coq_terms)))))
        f.write("Eval vm_compute in (failing (map %s cases)).\n" % plugin.VERDICT)


def case_hash(case):
    return hashlib.sha1(json.dumps(case, sort_keys=True, default=str).encode()).hexdigest()[:16]


# --------------------------------------------------------------------------
# build (static development + regenerated Gen files + Props)
# --------------------------------------------------------------------------
def vfiles():
    out = []
    for sub in ("Lib", "Spec", "Model", "Proofs", "Props", "Check", "Gen"):
        d = os.path.join(COQ, sub)
        if os.path.isdir(d):
            for fn in sorted(os.listdir(d)):
                if fn.endswith(".v") and not fn.startswith("."):
                    out.append("%s/%s" % (sub, fn))
    return out


def refresh_coqproject():
    want = "-Q . Boltons\n" + "\n".join(vfiles()) + "\n"
    path = os.path.join(COQ, "_CoqProject")
    have = open(path).read() if os.path.exists(path) else None
    if have != want or not os.path.exists(os.path.join(COQ, "Makefile")):
        with open(path, "w") as f:
            f.write(want)
        rc, out = sh("coq_makefile -f _CoqProject -o Makefile", cwd=COQ, timeout=120)
        if rc != 0:
            raise RuntimeError("coq_makefile failed:\n" + out)


class BuildLock:
    """Serialises make invocations (several checks may run at once)."""
    def __enter__(self):
        import fcntl
        os.makedirs(BUILD, exist_ok=True)
        self.f = open(os.path.join(BUILD, ".lock"), "w")
        fcntl.flock(self.f, fcntl.LOCK_EX)
        return self

    def __exit__(self, *a):
        import fcntl
        fcntl.flock(self.f, fcntl.LOCK_UN)
        self.f.close()


def write_if_changed(path, text):
    if os.path.exists(path) and open(path).read() == text:
        return False
    os.makedirs(os.path.dirname(path), exist_ok=True)
    with open(path, "w") as f:
        f.write(text)
    return True


def make(targets, jobs=16, timeout=3000, keep_going=False):
    cmd = ["make", "-j%d" % jobs] + (["-k"] if keep_going else []) + list(targets)
    try:
        return sh(cmd, cwd=COQ, timeout=timeout)
    except subprocess.TimeoutExpired:
        return 124, "make timed out"


SHARED_LIBS = ("Lib/Prelude.v", "Lib/PySrc.v")


def prop_files(pid, depends=()):
    """The .v files that belong to a property (plus the shared Lib and the
    properties it declares it depends on)."""
    ids = [pid] + list(depends)
    out = []
    for f in vfiles():
        base = os.path.basename(f)
        if f in SHARED_LIBS or any(base.startswith(i + "_") or base == i + ".v" for i in ids):
            out.append(f)
    return out


def mini_make(files, jobs=8, timeout=COQC_TIMEOUT):
    """Dependency-ordered, incremental, parallel compilation of exactly these
    files (full .vo builds with coqc).  Isolated per property, so a broken file
    of another property cannot break this one.  Returns (rc, output, compiled)."""
    from concurrent.futures import ThreadPoolExecutor
    files = sorted(set(files))
    rc, out = sh(["coqdep", "-Q", ".", "Boltons"] + files, cwd=COQ, timeout=120)
    deps = {}
    for line in out.splitlines():
        m = re.match(r"^(\S+)\.vo\b[^:]*:\s*(.*)$", line)
        if not m:
            continue
        tgt = m.group(1) + ".v"
        ds = [d[:-1] for d in m.group(2).split() if d.endswith(".vo")]
        deps[tgt] = [d for d in ds if d != tgt]
    missing = [f for f in files if f not in deps]
    if missing:
        return 1, "coqdep produced no rule for %s\n%s" % (missing, out[-2000:]), []
    log, compiled, done, failed = [], [], set(), None
    fileset = set(files)

    def stale(f):
        vo = os.path.join(COQ, f + "o")
        if not os.path.exists(vo):
            return True
        t = os.path.getmtime(vo)
        if os.path.getmtime(os.path.join(COQ, f)) > t:
            return True
        for d in deps[f]:
            dvo = os.path.join(COQ, d + "o")
            if d in compiled or not os.path.exists(dvo) or os.path.getmtime(dvo) > t:
                return True
        return False

    remaining = list(files)
    while remaining:
        ready = [f for f in remaining if all((d not in fileset) or (d in done) for d in deps[f])]
        if not ready:
            return 1, "dependency cycle or missing dependency among %s" % remaining, compiled
        todo = [f for f in ready if stale(f)]
        for f in todo:
            for d in deps[f]:
                if d not in fileset and not os.path.exists(os.path.join(COQ, d + "o")):
                    return 1, "%s depends on %s which is not built and not part of this property" % (f, d), compiled
        with ThreadPoolExecutor(max_workers=jobs) as ex:
            outs = list(ex.map(lambda f: coqc(os.path.join(COQ, f), timeout), todo))
        for f, (r, o) in zip(todo, outs):
            log.append("COQC %s%s" % (f, "" if r == 0 else " FAILED"))
            if r != 0:
                log.append(o[-3000:])
                failed = failed or f
                vo = os.path.join(COQ, f + "o")
                if os.path.exists(vo):
                    os.remove(vo)
            else:
                compiled.append(f)
        if failed:
            return 1, "\n".join(log), compiled
        done.update(ready)
        remaining = [f for f in remaining if f not in done]
    return 0, "\n".join(log), compiled


FORBIDDEN = re.compile(
    r"\b(Admitted|admit|Axiom|Axioms|Parameter|Parameters|Conjecture|Conjectures|"
    r"Admit Obligations|bypass_check|Unset Guard Checking|Unset Positivity Checking|"
    r"Unset Universe Checking|type-in-type|impredicative-set)\b")


def strip_coq_comments(src):
    out, depth, i = [], 0, 0
    while i < len(src):
        if src.startswith("(*", i):
            depth += 1
            i += 2
        elif src.startswith("*)", i) and depth:
            depth -= 1
            i += 2
        else:
            if not depth:
                out.append(src[i])
            i += 1
    return "".join(out)


def forbidden_gate(files=None):
    """Return list of 'file: word' for forbidden vernacular outside comments.
    `Variable`/`Hypothesis` are allowed inside sections only; checked crudely:
    every such line must be between Section ... End."""
    bad = []
    for rel in (files or vfiles()):
        src = strip_coq_comments(open(os.path.join(COQ, rel)).read())
        # strings may legitimately contain words; drop string literals
        src_ns = re.sub(r'"(?:[^"]|"")*"', '""', src)
        for m in FORBIDDEN.finditer(src_ns):
            bad.append("%s: %s" % (rel, m.group(1)))
        depth = 0
        for line in src_ns.splitlines():
            s = line.strip()
            if re.match(r"(Section|Module)\b", s) and not re.match(r"Module\s+(Import|Export)\b", s):
                if re.match(r"Section\b", s):
                    depth += 1
            elif re.match(r"End\b", s) and depth:
                depth -= 1
            elif re.match(r"(Variable|Variables|Hypothesis|Hypotheses|Context)\b", s) and depth == 0:
                bad.append("%s: %s outside a Section" % (rel, s.split()[0]))
    return bad


def count_obligations(props_rel):
    src = strip_coq_comments(open(os.path.join(COQ, props_rel)).read())
    names = re.findall(r"^\s*(?:Theorem|Lemma|Example|Corollary|Fact|Remark)\s+([A-Za-z0-9_']+)", src, re.M)
    return names


def parse_assumptions(out):
    """Split coqc output of a Props file into per-theorem Print Assumptions blocks
    (axiom names start in column 0, their types continue on indented lines)."""
    blocks = []
    cur = None
    for line in out.splitlines():
        if line.startswith("Closed under the global context"):
            blocks.append("Closed under the global context")
            cur = None
        elif line.startswith("Axioms:"):
            cur = [line]
            blocks.append(cur)
        elif cur is not None:
            if line.startswith(("File ", "Warning", "Error")):
                cur = None
            elif line.strip():
                if line[0].isspace() and len(cur) > 1:
                    cur[-1] += " " + line.strip()       # continuation of the previous axiom's type
                else:
                    cur.append(line.strip())
    return [b if isinstance(b, str) else (b[0] + " " + " ;; ".join(b[1:])) for b in blocks]


# --------------------------------------------------------------------------
# known findings
# --------------------------------------------------------------------------
def load_known(pid):
    path = os.path.join(VERIF, "known_findings.d", pid + ".json")
    if not os.path.exists(path):
        return []
    return json.load(open(path))


def load_corpus(pid):
    d = os.path.join(VERIF, "corpus", pid)
    out = []
    if os.path.isdir(d):
        for fn in sorted(os.listdir(d)):
            if fn.endswith(".json"):
                j = json.load(open(os.path.join(d, fn)))
                out.append((os.path.join("corpus", pid, fn), j["case"]))
    return out


def now():
    return time.time()
