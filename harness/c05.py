"""C05: a failed or refused atomic_save leaves the destination intact and cleans up.

Same model, recorder and runner as C04 (harness/c04.py); here the schedule
injects OSErrors at chosen primitive events (and lets the destination appear
behind the saver's back), nobody is killed, and an immediate retry without
failures is run in the directory the failed save left behind."""
import copy

import c04
from c04 import EIO, ENOSPC, EPERM, EINVAL, EEXIST
from common import clist, cnat

ID = "C05"
DEPENDS = ["C04"]
IMPORTS = ("From Boltons Require Import Lib.Prelude Model.C04_Model Spec.C04_Spec Check.C04_Check "
           "Spec.C05_Spec Check.C05_Check.")
CASE_TYPE = "c05_case"
VERDICT = "c05_verdict"
EXPLAIN = "c05_explain"
CASES_PER_FILE = 100
CASE_TIMEOUT = 60
TIERS = {"quick": {"n": 1000, "search_n": 600}, "thorough": {"n": 30000, "search_n": 4000}}
RULE = ("about half of the cases come from systematic sweeps (one scenario, a single fault at every event index; thorough: also every pair); one case = one (configuration incl. umask, initial destination/part file/bystander, body, schedule of 0-2 "
        "injected OSErrors at state-changing primitives and optionally the destination appearing before event k) of "
        "atomic_save/AtomicSaver run for real, followed by an immediate retry without failures in the directory left "
        "behind; observed: exception type/errno, event trace, real directory (bytes and modes) after run and after "
        "retry; non-trivial = the caller got an exception after the part file had been created, or a refusal; "
        "distinct = distinct canonical case hash")
ASSUMPTIONS = c04.ASSUMPTIONS + [
    "an injected failure has no effect on the file system except that a failing close()/fdopen() still releases the "
    "descriptor (as the OS does); failures are injected at the Python-level primitives, not inside the kernel",
]
TRUSTED = [
    "Model/C04_Model.v (shared with C04) is hand-written; tied to boltons.fileutils by the correspondence run",
    "harness/c04.py recorder + fault injector, harness/c05.py serialiser",
]


def _base(rng, tier):
    cfg = c04.gen_cfg(rng)
    body = c04.gen_body(rng, tier, big_ok=False)
    r = rng.random()
    if r < 0.55:
        # the save would go through: failures decide
        init = c04.gen_init(rng, cfg, want_part=(cfg["overwrite_part"] and rng.random() < 0.4))
        if not cfg["overwrite"]:
            init.pop("dest", None)
    elif r < 0.75:
        init = c04.gen_init(rng, cfg, want_dest=True)            # refusal when overwrite=False
    elif r < 0.9:
        init = c04.gen_init(rng, cfg, want_part=True)            # stale part file
    else:
        init = c04.gen_init(rng, cfg)
    if init.get("sub"):
        body = list(body)
        body.insert(rng.randint(0, max(0, len(body) - (1 if body and body[-1][0] == "r" else 0))), ["cd"])
    if rng.random() < 0.08:
        body = c04.misuse(rng, body)
    umask = rng.choice([0o022, 0o022, 0o077, 0, 0o027])
    c04.resolve_perms(cfg, umask)
    return {"cfg": cfg, "umask": umask, "init": init, "body": body,
            "body_exc": rng.random() < 0.15, "sched": [], "crash": None, "retry": True}


ERRNOS = [EIO, ENOSPC, EPERM, EEXIST, 13, 18, 30]        # incl. EXDEV, EROFS
LINK_ERRNOS = [EPERM, 95, 31, 18, 13, 2, EIO, ENOSPC, 30]   # EPERM ENOTSUP EMLINK EXDEV EACCES ENOENT EIO ENOSPC EROFS


def generate(rng, tier, n):
    """A third of the budget: systematic sweeps (one base scenario, a single fault at EVERY event index
    it can have; in the thorough tier also every pair for some).  The rest: random schedules of 0-2 faults,
    optionally with the destination appearing before some event."""
    i = 0
    if tier == "thorough":
        # the complete binary-mode grid of C04 x a single fault at every event index
        for g in c04.grid_cases():
            if g["cfg"]["text_mode"]:
                continue
            for k in range(9 + len(g["body"]) + 1):
                if i >= n:
                    return
                i += 1
                yield dict(g, sched=[[k, "fault", ERRNOS[k % len(ERRNOS)]]], crash=None, retry=True, sweep="grid")
    while i < n:
        case = _base(rng, tier)
        hi = 9 + len(case["body"])           # open fdopen chmod body.. flush fsync close link unlink (+ clean-up)
        mode = rng.random()
        if mode < 0.06:
            errno = rng.choice(ERRNOS)
            for k in range(hi + 1):
                if i >= n:
                    return
                c = dict(case, sched=[[k, "fault", errno]], sweep="single")
                i += 1
                yield c
            continue
        if mode < 0.07 and tier == "thorough":
            for k1 in range(hi + 1):
                for k2 in range(k1 + 1, hi + 3):
                    if i >= n:
                        return
                    c = dict(case, sched=[[k1, "fault", rng.choice(ERRNOS)], [k2, "fault", rng.choice(ERRNOS)]],
                             sweep="pair")
                    i += 1
                    yield c
            continue
        if mode < 0.095:
            # the no-clobber publication under attack: overwrite=False, the destination appears while the body
            # runs, and the publishing link fails with each errno a "fallback" might be tempted by
            case["cfg"]["overwrite"] = False
            case["init"].pop("dest", None)
            if c04.is_partlink(case["init"]) or (case["init"].get("part") and not case["cfg"]["overwrite_part"]):
                case["init"].pop("part", None)
            case["init"].pop("partlink", None)
            case["body_exc"] = False
            pi = c04.publish_index(case)
            ka = rng.randint(1, pi)
            who = [rng.choice(["INTRUDER", "", "other writer"]), rng.choice([0o644, 0o600, 0o666])]
            for errno in LINK_ERRNOS:
                if i >= n:
                    return
                i += 1
                yield dict(case, sched=sorted([[ka, "appear", who[0], who[1]], [pi, "fault", errno]],
                                              key=lambda x: (x[0], x[1])), sweep="link-errno")
            continue
        sched = []
        nf = rng.choice([0, 1, 1, 2, 2, 2] + ([3, 3] if tier == "thorough" else []))
        for _ in range(nf):
            k = rng.randint(0, hi + 1)
            if k not in [s[0] for s in sched]:
                sched.append([k, "fault", rng.choice(ERRNOS)])
        if rng.random() < 0.3:
            sched.append([rng.randint(0, hi), "appear", rng.choice(["INTRUDER", "", "other writer"]),
                          rng.choice([0o644, 0o600, 0o666])])
        sched.sort(key=lambda s: (s[0], s[1]))
        case["sched"] = sched
        if not sched and not case["init"].get("sub") and i % 7 == 3:
            case["strace"] = True      # cross-check the recorder against the kernel's view (fault-free runs only)
        i += 1
        yield case


def translators(repo):
    return c04.translators(repo)        # Proofs/C04_GenCheck.v (among the C04 files C05 depends on) needs Gen/C04_Gen.v


def run_impl(case):
    return c04.run_impl(case)


def to_coq(case, obs):
    tb = c04.Table()
    base = c04.case_term(case, obs, tb)
    if obs.get("retry"):
        retry = "(Some (%s, %s))" % (c04.c_body(case, obs["retry"]["trace"], tb, body=c04.retry_body(case)),
                                     c04.c_runobs(obs["retry"], tb))
    else:
        retry = "None"
    return tb.wrap("mkCase5 %s %s" % (base, retry))


def corrupt(case, obs):
    bad = copy.deepcopy(obs)
    files = bad["run"]["files"]
    if bad["run"]["outcome"][0] != "ok":
        if not any(f[0] == 1 for f in files):
            files.append([1, "left behind", 0o644])
            files.sort()
            return bad
        return None
    for f in files:
        if f[0] == 0:
            f[2] ^= 0o020
            return bad
    return None


def raised_after_create(obs):
    t = obs["run"]["trace"]
    return obs["run"]["outcome"][0] != "ok" and any(e[0] == "open" and e[-1] is None for e in t)


def nontrivial(case, obs):
    return obs["run"]["outcome"][0] != "ok"


def sample(case, obs):
    return {"cfg": case["cfg"], "init": case["init"], "sched": case["sched"], "umask": case["umask"],
            "trace": [[e[0], e[-1]] for e in obs["run"]["trace"]], "outcome": obs["run"]["outcome"],
            "files": [[f[0], f[1][:20], oct(f[2])] for f in obs["run"]["files"]],
            "retry": obs["retry"] and obs["retry"]["outcome"]}


def distribution(d, case, obs):
    def bump(key, sub):
        d.setdefault(key, {})
        d[key][sub] = d[key].get(sub, 0) + 1
    cfg = case["cfg"]
    bump("outcome", "/".join(str(x) for x in obs["run"]["outcome"]))
    bump("retry_outcome", "/".join(str(x) for x in (obs["retry"] or {}).get("outcome", ["-"])))
    bump("faults", str(len([s for s in case["sched"] if s[1] == "fault"])))
    bump("appear", str(len([s for s in case["sched"] if s[1] == "appear"])))
    bump("sweep", case.get("sweep", "random"))
    if any(o[0] == "c" for o in case["body"]):
        d["body_closes_its_file"] = d.get("body_closes_its_file", 0) + 1
    if obs.get("strace"):
        d["strace_cross_checked_runs"] = d.get("strace_cross_checked_runs", 0) + 1
    for e in obs["run"]["trace"]:
        if e[-1] is not None:
            bump("failed_event", e[0])
    bump("flags", "ow=%d owp=%d rm=%d" % (cfg["overwrite"], cfg["overwrite_part"], cfg["rm_part_on_exc"]))
    bump("init", "dest=%d part=%d%s" % ("dest" in case["init"], "part" in case["init"], " (hard link)" if c04.is_partlink(case["init"]) else ""))
    bump("umask", oct(case["umask"]))
    bump("perms", str(cfg["file_perms"]))
    bump("api", cfg.get("api", "func"))
    if raised_after_create(obs):
        d["raised_after_part_created"] = d.get("raised_after_part_created", 0) + 1
    if any(f[0] == 1 for f in obs["run"]["files"]):
        d["part_file_present_after_run"] = d.get("part_file_present_after_run", 0) + 1


def shrink(case):
    body = case["body"]
    for i in range(len(body)):
        c = dict(case)
        c["body"] = body[:i] + body[i + 1:]
        yield c
    sched = case.get("sched", [])
    for i in range(len(sched)):
        c = dict(case)
        c["sched"] = sched[:i] + sched[i + 1:]
        yield c
    for key in ("other", "part", "dest"):
        if key in case["init"]:
            c = dict(case)
            c["init"] = {k: v for k, v in case["init"].items() if k != key}
            yield c
    if case.get("body_exc"):
        c = dict(case)
        c["body_exc"] = False
        yield c
