"""C02 LRI/LRU caches: capacity, recency eviction, counters, copy -- plug-in.

Python only moves data: histories are generated here, run on the real
boltons.cacheutils.LRI/LRU through the public dict API, and the observations
are rendered as Coq terms; Coq (Check/C02_Check.v) computes agree/holds.
"""
import copy as _copy
import os
import sys
from common import cnat, cN, clist, cpair, cbool

sys.path.insert(0, os.path.join(os.path.dirname(os.path.abspath(__file__)), "translators"))

ID = "C02"
IMPORTS = ("From Boltons Require Import Lib.Prelude Lib.C02_Syntax Spec.C02_Spec "
           "Model.C02_Model Check.C02_Check.")
CASE_TYPE = "c02_case"
VERDICT = "c02_verdict"
EXPLAIN = "c02_explain"
CASES_PER_FILE = 120
CASE_FILE_BYTES = 150000
CASE_TIMEOUT = 20
TIERS = {"quick": {"n": 1800}, "thorough": {"n": 8000, "exhaustive": True}}   # + 21 952 swept cases
RULE = ("[12 % of the cases use an on_miss that is not pure: it raises KeyError/ValueError/RuntimeError for some keys and/or re-enters the cache (assigns, deletes, pops, clears, often the key being looked up) before returning] [2 % of the cases are Spec validation: same lookups driven through functools.lru_cache(max_size)(on_miss), observations taken from it, so that Spec and model are compared with an independent standard-library LRU] histories of 1-50 (thorough: up to 120) public dict-API calls (item get/set/del, get, setdefault, update "
        "with dict/mapping/pairs/generator + kwargs, |=, pop, popitem, clear, copy, in, len, iteration, items, "
        "==/!= against dicts, caches and non-mappings, update(self, **kw), update(other cache)) on an LRI or LRU with max_size 1-4 (sometimes 5-8, thorough also 128), 3-7 "
        "keys, on_miss None or a recording function, optional constructor values; ops are spread over the original "
        "and its copies; every history ends with an eviction probe (max_size fresh keys inserted one by one, full "
        "view after each) on every cache; observed after every call: outcome, len, the three counters, on_miss "
        "calls, full items view.  non-trivial = at least one eviction that happens after a lookup hit or a "
        "re-assignment of an existing key; distinct = distinct canonical history hash")
ASSUMPTIONS = ["keys are hashable with lawful __eq__/__hash__ (tokens mapped to pairwise unequal Python objects)",
               "CPython dict preserves insertion order; popitem is LIFO (used by agree only, not by the Spec)",
               "on_miss is a total function of the key (does not raise, does not touch the cache)",
               "single-threaded use (concurrency is property C03)"]
def translators(repo):
    """(T): the five linked-list helpers of LRI, regenerated from the ast of the current source as
    programs for Model/C02_PtrInterp.v; Props/C02.v proves that running them is the pointer-level model.
    Fails closed (raises) on any construct it does not understand."""
    import c02_helpers
    import c02_methods
    return {"C02_Gen": c02_helpers.translate(repo),       # the five linked-list helpers
            "C02_GenM": c02_methods.translate(repo)}      # the public methods (Model/C02_MethInterp.v)


TRUSTED = ["Model/C02_Model.v is hand-written (linked-list cells/pointers abstracted to a list); tied to "
           "boltons.cacheutils.LRI/LRU by the correspondence run",
           "harness/c02.py serialiser (tokens <-> Python objects, observation rendering)",
           "harness/translators/c02_helpers.py + c02_methods.py (ast of the five helpers and of ten public methods -> "
           "programs) and the interpreters Model/C02_PtrInterp.v, Model/C02_MethInterp.v (semantics of the Python "
           "subset: evaluation order, chained assignment, try/except KeyError/else, with, for, calls)"]

# ---------------------------------------------------------------------------
# tokens <-> Python objects.  No two tokens map to ==-equal objects.
KEYS = ["a", 1, (1, 2), None, 3.5, "b", frozenset([7]), -1, "key", (), 17, "z", b"y", 99, "q", ("t", None)]
KW0 = 16        # kwargs-capable key tokens 16..23
ADD0 = 24       # 24..31: keys only used to enlarge an == operand
FRESH0 = 32     # >= 32: eviction-probe keys (small histories); big histories use 100.. for ordinary keys
VALS = [None, 10, "v1", [7], {"x": 1}, 2.5, ("t",), "a", 0, True, [], "v11", -3, (None,), "None", "one"]


def key(tok):
    # small tokens only: Coq's nat numerals are unary, a token like 1150 costs 1150 constructors to elaborate
    if tok < len(KEYS):
        return KEYS[tok]
    if KW0 <= tok < KW0 + 8:
        return "kw%d" % (tok - KW0)          # identifier-safe: usable as **kwargs names
    if tok >= FRESH0:
        return ("fresh", tok)                # eviction-probe keys
    return "k%d" % tok


def val(tok):
    return _copy.deepcopy(VALS[tok]) if tok < len(VALS) else "val%d" % tok


_KINV, _VINV = {}, {}


def _inv():
    if not _KINV:
        for t in range(0, 700):
            _KINV[repr(key(t))] = t
        for t in range(0, 400):
            _VINV[repr(val(t))] = t
        assert len(_KINV) == 700 and len(_VINV) == 400
    return _KINV, _VINV


def ktok(obj):
    return _inv()[0][repr(obj)]


def vtok(obj):
    return _inv()[1][repr(obj)]


# ---------------------------------------------------------------------------
# generation
LOOKUPS = ("getitem", "get", "setdefault")
W_OPS = [("set", 22), ("getitem", 14), ("get", 8), ("setdefault", 7), ("del", 5), ("pop", 6), ("popitem", 3),
         ("clear", 1), ("update", 5), ("ior", 3), ("in", 4), ("len", 1), ("iter", 2), ("items", 2), ("eq", 3),
         ("ne", 1), ("copy", 3), ("eqc", 2), ("updself", 1), ("eqo", 1), ("neo", 1), ("updfrom", 2)]


def _pairs(rng, keys, nvals, lo, hi, unique):
    n = rng.randint(lo, hi)
    if unique:
        ks = rng.sample(keys, min(n, len(keys)))
    else:
        ks = [rng.choice(keys) for _ in range(n)]
    return [[k, rng.randrange(nvals)] for k in ks]


OTHERS = [None, 5, "a", [("a", 1)], {"a"}, ("a",), 2.5, b"a"]     # operands of == that are not mappings


def gen_ctor_case(rng):
    """Constructor outcomes: non-positive max_size (ValueError), non-callable on_miss (TypeError)."""
    mx = rng.choice([0, 0, -1, -3, 1, 2, 5])
    bad = rng.random() < 0.6 or mx > 0
    return {"cls": rng.choice(["LRI", "LRU"]), "max": mx, "on_miss": None, "on_miss_bad": bad, "init": [],
            "init_kind": "none", "full": "all", "ops": []}


def gen_specval_case(rng, tier):
    """Spec validation (testing the Spec, not boltons): the observations come from the standard library's
    functools.lru_cache(maxsize)(on_miss) driven by the same lookups; Spec and model must accept them."""
    mx = rng.choice([1, 2, 2, 3, 3, 4, 6])
    keys = rng.sample(range(len(KEYS)), min(mx + rng.choice([1, 2, 3]), len(KEYS)))
    return {"cls": "LRU", "max": mx, "ref": "functools.lru_cache",
            "on_miss": {"table": [[k, rng.randrange(1, 12)] for k in keys], "default": 1},
            "init": [], "init_kind": "none", "full": "none",
            "ops": [{"op": "getitem", "i": 0, "k": rng.choice(keys)} for _ in range(rng.randint(1, 40))]}


def gen_impure_case(rng, tier):
    """on_miss is not pure: for some keys it raises (KeyError / ValueError / RuntimeError) instead of returning,
    and/or first re-enters the cache it serves (assigns / deletes / pops keys, often the very key being looked
    up, or clears it).  Lookup-heavy histories on small caches."""
    mx = rng.choice([1, 2, 2, 3, 3, 4])
    nkeys = mx + rng.choice([1, 2, 3])
    keys = rng.sample(range(len(KEYS)), min(nkeys, len(KEYS) - 2))
    nvals = 12
    on_miss = {"table": [[k, rng.randrange(1, nvals)] for k in rng.sample(keys, rng.randint(0, len(keys)))],
               "default": rng.randrange(1, nvals)}
    beh = []
    rank = {k: i for i, k in enumerate(keys)}      # nested lookups only go to keys of lower rank: no cycles
    for k in rng.sample(keys, rng.randint(1, len(keys))):
        script = []
        if rng.random() < 0.7:
            for _ in range(rng.choice([1, 1, 2, 3])):
                k2 = k if rng.random() < 0.5 else rng.choice(keys)
                kind = rng.choice(["set", "set", "set", "del", "pop", "clear", "in", "len", "lookup", "lookup"])
                if kind == "lookup":
                    lower = [x for x in keys if rank[x] < rank[k]]
                    if not lower:
                        kind = "in"
                    else:
                        k2 = rng.choice(lower)
                        kind = rng.choice(["getitem", "get", "setdefault"])
                if kind in ("get", "setdefault"):
                    script.append({"op": kind, "k": k2, "d": rng.randrange(nvals)})
                    continue
                if kind in ("getitem", "in"):
                    script.append({"op": kind, "k": k2})
                    continue
                if kind == "len":
                    script.append({"op": "len"})
                    continue
                if kind == "set":
                    script.append({"op": "set", "k": k2, "v": rng.randrange(nvals)})
                elif kind == "del":
                    script.append({"op": "del", "k": k2})
                elif kind == "pop":
                    script.append({"op": "pop", "k": k2, "d": rng.randrange(nvals)})
                else:
                    script.append({"op": "clear"})
        raises = rng.choice([None, None, "KeyError", "KeyError", "ValueError", "RuntimeError"]) \
            if script else rng.choice(["KeyError", "KeyError", "ValueError", "RuntimeError"])
        beh.append([k, {"script": script, "raise": raises}])
    ops, ncaches = [], 1
    nops = rng.randint(3, 40 if tier == "quick" else 80)
    while len(ops) < nops:
        name = rng.choices(["getitem", "get", "setdefault", "set", "del", "pop", "popitem", "copy", "in", "clear"],
                           [30, 18, 16, 12, 6, 5, 3, 3, 3, 1])[0]
        i = rng.randrange(ncaches)
        k, v = rng.choice(keys), rng.randrange(nvals)
        op = {"op": name, "i": i}
        if name == "set":
            op.update(k=k, v=v)
        elif name in ("getitem", "in", "del"):
            op.update(k=k)
        elif name in ("get", "setdefault"):
            op.update(k=k, d=rng.choice([0, v]), style=rng.choice(["pos", "kw", "omit"]))
        elif name == "pop":
            op.update(k=k, d=rng.choice([None, v]))
        elif name == "copy":
            if ncaches >= 2:
                continue
            ncaches += 1
            op.update(how=rng.randrange(2))
        ops.append(op)
    for ci in range(ncaches):
        for t in range(mx):
            ops.append({"op": "set", "i": ci, "k": FRESH0 + 8 * ci + t, "v": rng.randrange(nvals)})
    return {"cls": rng.choice(["LRI", "LRU"]), "max": mx, "on_miss": on_miss, "beh": beh, "init": [],
            "init_kind": "none", "full": "all", "ops": ops}


def gen_case(rng, tier):
    if rng.random() < 0.015:
        return gen_ctor_case(rng)
    if rng.random() < 0.12:
        return gen_impure_case(rng, tier)
    if rng.random() < 0.02:
        return gen_specval_case(rng, tier)
    big = tier == "thorough" and rng.random() < 0.015
    if big:
        mx = 128
        nkeys = rng.choice([100, 140, 200])
        keys = [FRESH0 + 128 + i for i in range(nkeys)]
        nops = rng.randint(100, 260)
    else:
        mx = rng.choice([1, 1, 2, 2, 2, 3, 3, 3, 4, 4, 5, 6, 8])
        nkeys = rng.choice([3, 4, 5, 6, 7]) if mx <= 4 else mx + rng.choice([1, 2, 4])
        keys = rng.sample(range(len(KEYS)), min(nkeys, len(KEYS) - 2)) + [KW0 + rng.randrange(3)]
        nops = rng.randint(1, 50 if tier == "quick" else 120)
    nvals = 12
    on_miss = None
    if rng.random() < 0.45:
        on_miss = {"table": [[k, rng.randrange(1, nvals)] for k in rng.sample(keys, rng.randint(0, len(keys)))],
                   "default": rng.randrange(1, nvals)}
    init, init_kind = [], "none"
    if rng.random() < 0.25:
        init_kind = rng.choice(["dict", "pairs", "gen", "mapping"])
        init = _pairs(rng, keys, nvals, 0, mx + 2, init_kind in ("dict", "mapping"))
    names = [w[0] for w in W_OPS]
    weights = [w[1] for w in W_OPS]
    style = rng.choice(["mixed", "mixed", "lookup-heavy", "insert-heavy", "delete-heavy"])
    ops = []
    ncaches = 1
    recent = {0: [k for k, _ in init]}
    while len(ops) < nops:
        name = rng.choices(names, weights)[0]
        if style == "lookup-heavy" and rng.random() < 0.4:
            name = rng.choice(LOOKUPS)
        elif style == "insert-heavy" and rng.random() < 0.4:
            name = rng.choice(["set", "set", "setdefault", "update"])
        elif style == "delete-heavy" and rng.random() < 0.3:
            name = rng.choice(["del", "pop", "popitem"])
        i = min(ncaches - 1, int(rng.expovariate(1.2))) if rng.random() < 0.7 else rng.randrange(ncaches)
        i = ncaches - 1 - i if rng.random() < 0.5 else i
        k = rng.choice(keys)
        # bias (no judgement involved): half of the time pick among the keys most recently assigned to this
        # cache, which are likely to be present, so that del/pop/lookups succeed more often
        rec = recent.setdefault(i, [])
        if rec and rng.random() < 0.5:
            k = rng.choice(rec[-mx:])
        v = rng.randrange(nvals)
        op = {"op": name, "i": i}
        if name in ("set", "setdefault"):
            rec.append(k)
        if name == "set":
            op.update(k=k, v=v)
        elif name in ("getitem", "in", "del"):
            op.update(k=k)
        elif name in ("get", "setdefault"):
            op.update(k=k, d=rng.choice([0, 0, v]), style=rng.choice(["pos", "kw", "omit"]))
        elif name == "pop":
            op.update(k=k, d=rng.choice([None, None, v]))
        elif name == "update":
            kind = rng.choice(["dict", "mapping", "pairs", "gen", "iter"])
            op.update(e=_pairs(rng, keys, nvals, 0, 4, kind in ("dict", "mapping")), kind=kind,
                      f=[[KW0 + t, rng.randrange(nvals)] for t in
                         rng.sample(range(4), rng.choice([0, 0, 0, 1, 2]))])
        elif name == "ior":
            kind = rng.choice(["dict", "dict", "pairs", "gen"])
            op.update(e=_pairs(rng, keys, nvals, 0, 4, kind == "dict"), kind=kind)
        elif name in ("iter", "items"):
            op.update(how=rng.randrange(3))
        elif name in ("eq", "ne"):
            op.update(mode=rng.choice(["same", "same", "chg", "drop", "add", "rand"]),
                      d=_pairs(rng, keys, nvals, 0, mx + 1, True), how=rng.randrange(2), pick=rng.randrange(8))
        elif name == "copy":
            if ncaches >= 3 or big:
                continue
            recent[ncaches] = list(rec)
            ncaches += 1
            op.update(how=rng.randrange(2))        # c.copy() / copy.copy(c)
            ops.append(op)
            ops.append({"op": "len", "i": i})      # the source right after copy(): counters/contents unchanged
            continue
        elif name == "eqc":
            op.update(j=rng.randrange(ncaches))
        elif name == "updfrom":
            if ncaches < 2 and rng.random() < 0.8:
                continue
            j = rng.randrange(ncaches)
            op.update(j=j)
            ops.append(op)
            ops.append({"op": "len", "i": j})       # the source right after: its hits / recency
            continue
        elif name == "updself":
            op.update(f=[[KW0 + t, rng.randrange(nvals)] for t in rng.sample(range(4), rng.choice([0, 1, 1, 2, 3]))])
        elif name in ("eqo", "neo"):
            op.update(x=rng.randrange(len(OTHERS)), how=rng.randrange(2))
        ops.append(op)
        if rng.random() < 0.03 and not big:         # eviction probe in the middle of the history
            for t in range(mx):
                ops.append({"op": "set", "i": i, "k": FRESH0 + 30 + (len(ops) * 7) % 36, "v": v})
    # eviction probe at the end on every cache: the order in which old keys vanish is the recency order
    for ci in range(ncaches):
        for t in range(mx):
            ops.append({"op": "set", "i": ci, "k": FRESH0 + (8 if mx <= 8 else 130) * ci + t, "v": rng.randrange(nvals)})
    full = "all" if mx <= 8 else "sparse"
    return {"cls": rng.choice(["LRI", "LRU", "LRU"]), "max": mx, "on_miss": on_miss, "init": init,
            "init_kind": init_kind, "full": full, "ops": ops}


def exhaustive_small(depth=3):
    """Every history of `depth` calls drawn from 14 call shapes over two keys, for both classes, max_size 1 and 2,
    with and without on_miss, followed by the eviction probe: a complete sweep of the smallest scope."""
    import itertools
    shapes = []
    for k in (0, 5):
        shapes += [{"op": "set", "i": 0, "k": k, "v": 1 + (k == 5)}, {"op": "getitem", "i": 0, "k": k},
                   {"op": "get", "i": 0, "k": k, "d": 3, "style": "pos"},
                   {"op": "setdefault", "i": 0, "k": k, "d": 4, "style": "pos"},
                   {"op": "del", "i": 0, "k": k}, {"op": "pop", "i": 0, "k": k, "d": 5}]
    shapes += [{"op": "popitem", "i": 0}, {"op": "clear", "i": 0}]
    for cls in ("LRI", "LRU"):
        for mx in (1, 2):
            for om in (None, {"table": [[0, 6]], "default": 7}):
                for combo in itertools.product(range(len(shapes)), repeat=depth):
                    ops = [dict(shapes[j]) for j in combo]
                    ops += [{"op": "set", "i": 0, "k": FRESH0 + t, "v": 1} for t in range(mx)]
                    yield {"cls": cls, "max": mx, "on_miss": om, "init": [], "init_kind": "none", "full": "all",
                           "ops": ops, "sweep": depth}


def generate(rng, tier, n):
    if tier == "thorough" and TIERS[tier].get("exhaustive"):
        for c in exhaustive_small(3):
            yield c
    for _ in range(n):
        yield gen_case(rng, tier)


# ---------------------------------------------------------------------------
# running the implementation
class _Mapping:
    """A non-dict mapping: only keys() and __getitem__ (what LRI.update uses)."""
    def __init__(self, pairs):
        self._p = list(pairs)

    def keys(self):
        return [k for k, _ in self._p]

    def __getitem__(self, k):
        for k2, v in self._p:
            if k2 == k:
                return v
        raise KeyError(k)

    def __len__(self):
        return len(self._p)


def _arg(kind, pairs):
    pairs = [(key(k), val(v)) for k, v in pairs]
    if kind == "dict":
        return dict(pairs)
    if kind == "mapping":
        return _Mapping(pairs)
    if kind == "pairs":
        return list(pairs)
    if kind == "gen":
        return ((k, v) for k, v in pairs)
    if kind == "iter":
        return iter([[k, v] for k, v in pairs])
    raise ValueError(kind)


def _eq_operand(op, c):
    """The plain dict `c` is compared with: derived from the cache's current public
    contents (mode) so that equal / nearly equal operands are frequent.  Returned
    as the list of its items; reported in the observation and used as the Coq
    operand."""
    cur = [(ktok(k), vtok(v)) for k, v in c.items()]
    mode = op["mode"]
    if mode == "rand":
        return [tuple(p) for p in op["d"]]
    if mode == "same" or not cur:
        d = cur
    elif mode == "chg":
        j = op["pick"] % len(cur)
        d = [(k, (v + 1) % 12 if idx == j else v) for idx, (k, v) in enumerate(cur)]
    elif mode == "drop":
        j = op["pick"] % len(cur)
        d = cur[:j] + cur[j + 1:]
    else:  # add
        d = cur + [(ADD0 + op["pick"] % 8, 1)]
    if op["pick"] % 2:
        d = list(reversed(d))
    return d


def rng_free_noncallable(case):
    """A non-callable, non-None on_miss argument, chosen from the case (no randomness here)."""
    return [5, "f", (1,), 0, [], {"k": 1}][(case["max"] + len(case["cls"])) % 6]


def resolve(i, ncaches):
    return i % ncaches


def run_reference(case):
    """functools.lru_cache as an independent LRU with on_miss: c[k] == cached_f(k)."""
    import functools
    table = {key(k): v for k, v in case["on_miss"]["table"]}
    dflt = case["on_miss"]["default"]
    calls = []

    def f(k):
        calls.append(ktok(k))
        return val(table.get(k, dflt))
    cached = functools.lru_cache(maxsize=case["max"])(f)
    obs = []
    for op in case["ops"]:
        assert op["op"] == "getitem"
        del calls[:]
        r = cached(key(op["k"]))
        info = cached.cache_info()
        obs.append({"out": ["ok", "val", vtok(r)], "len": info.currsize, "hit": info.hits, "miss": info.misses,
                    "soft": 0, "calls": list(calls), "items": None})
    return obs


def run_impl(case):
    if case.get("ref") == "functools.lru_cache":
        return run_reference(case)
    from boltons.cacheutils import LRI, LRU
    cls = {"LRI": LRI, "LRU": LRU}[case["cls"]]
    calls = []
    on_miss = None
    if case["on_miss"] is not None:
        table = {key(k): v for k, v in case["on_miss"]["table"]}
        dflt = case["on_miss"]["default"]

        beh = {key(k): b for k, b in case.get("beh", [])}
        current = []                       # the cache the running operation was applied to

        def on_miss(k):
            calls.append(ktok(k))
            b = beh.get(k)
            if b is not None:
                cur = current[0]
                for sop in b["script"]:    # re-entrant use of the cache by on_miss itself
                    try:
                        if sop["op"] == "set":
                            cur[key(sop["k"])] = val(sop["v"])
                        elif sop["op"] == "del":
                            del cur[key(sop["k"])]
                        elif sop["op"] == "pop":
                            cur.pop(key(sop["k"]), val(sop["d"]))
                        elif sop["op"] == "clear":
                            cur.clear()
                        elif sop["op"] == "getitem":
                            cur[key(sop["k"])]
                        elif sop["op"] == "get":
                            cur.get(key(sop["k"]), val(sop["d"]))
                        elif sop["op"] == "setdefault":
                            cur.setdefault(key(sop["k"]), val(sop["d"]))
                        elif sop["op"] == "in":
                            key(sop["k"]) in cur
                        elif sop["op"] == "len":
                            len(cur)
                        else:
                            raise AssertionError(sop)
                    except KeyError:
                        pass
                if b["raise"] is not None:
                    raise {"KeyError": KeyError, "ValueError": ValueError, "RuntimeError": RuntimeError}[b["raise"]](k)
            return val(table.get(k, dflt))
    if case.get("on_miss_bad"):
        on_miss = rng_free_noncallable(case)
    try:
        if case["init_kind"] == "none":
            c0 = cls(case["max"], on_miss=on_miss) if case["max"] % 2 else cls(max_size=case["max"], on_miss=on_miss)
        else:
            c0 = cls(max_size=case["max"], values=_arg(case["init_kind"], case["init"]), on_miss=on_miss)
    except (ValueError, TypeError) as e:
        return [{"ctor": type(e).__name__}]
    caches = [c0]
    obs = []
    for n, op in enumerate(case["ops"]):
        name = op["op"]
        i = resolve(op["i"], len(caches))
        c = caches[i]
        if case["on_miss"] is not None:
            current[:] = [c]
        del calls[:]
        extra = None
        try:
            if name == "set":
                c[key(op["k"])] = val(op["v"])
                out = ["none"]
            elif name == "getitem":
                out = ["val", vtok(c[key(op["k"])])]
            elif name == "get":
                if op["d"] == 0 and op["style"] == "omit":
                    r = c.get(key(op["k"]))
                elif op["style"] == "kw":
                    r = c.get(key(op["k"]), default=val(op["d"]))
                else:
                    r = c.get(key(op["k"]), val(op["d"]))
                out = ["val", vtok(r)]
            elif name == "setdefault":
                if op["d"] == 0 and op["style"] == "omit":
                    r = c.setdefault(key(op["k"]))
                elif op["style"] == "kw":
                    r = c.setdefault(key(op["k"]), default=val(op["d"]))
                else:
                    r = c.setdefault(key(op["k"]), val(op["d"]))
                out = ["val", vtok(r)]
            elif name == "del":
                del c[key(op["k"])]
                out = ["none"]
            elif name == "pop":
                r = c.pop(key(op["k"])) if op["d"] is None else c.pop(key(op["k"]), val(op["d"]))
                out = ["val", vtok(r)]
            elif name == "popitem":
                k, v = c.popitem()
                out = ["item", ktok(k), vtok(v)]
            elif name == "clear":
                r = c.clear()
                assert r is None
                out = ["none"]
            elif name == "update":
                kw = {key(k): val(v) for k, v in op["f"]}
                r = c.update(_arg(op["kind"], op["e"]), **kw)
                assert r is None
                out = ["none"]
            elif name == "ior":
                c2 = c
                c2 |= _arg(op["kind"], op["e"])
                out = ["bool", c2 is c]
            elif name == "in":
                out = ["bool", key(op["k"]) in c]
            elif name == "len":
                out = ["nat", len(c)]
            elif name == "iter":
                ks = [list(c), list(c.keys()), [k for k in c]][op["how"]]
                out = ["keys", [ktok(k) for k in ks]]
            elif name == "items":
                its = [list(c.items()), list(zip(c.keys(), c.values())), list(dict(c).items())][op["how"]]
                out = ["items", [[ktok(k), vtok(v)] for k, v in its]]
            elif name in ("eq", "ne"):
                extra = _eq_operand(op, c)
                d = {key(k): val(v) for k, v in extra}
                if name == "eq":
                    r = (c == d) if op["how"] == 0 else (d == c)
                else:
                    r = (c != d) if op["how"] == 0 else (d != c)
                assert r is True or r is False
                out = ["bool", r]
            elif name == "copy":
                new = c.copy() if op.get("how", 0) == 0 else _copy.copy(c)
                assert type(new) is type(c) and new is not c and new.max_size == c.max_size
                caches.append(new)
                c = new
                out = ["none"]
            elif name == "eqc":
                r = (c == caches[resolve(op["j"], len(caches))])
                assert r is True or r is False
                out = ["bool", r]
            elif name == "updfrom":
                src = caches[resolve(op["j"], len(caches))]
                order = [ktok(k) for k in list(src)]      # iteration order of the source, before
                r = c.update(src)
                assert r is None
                out = ["keys", order]
            elif name == "updself":
                r = c.update(c, **{key(k): val(v) for k, v in op["f"]})
                assert r is None
                out = ["none"]
            elif name in ("eqo", "neo"):
                x = _copy.deepcopy(OTHERS[op["x"]])
                if name == "eqo":
                    r = (c == x) if op["how"] == 0 else (x == c)
                else:
                    r = (c != x) if op["how"] == 0 else (x != c)
                assert r is True or r is False
                out = ["bool", r]
            else:
                raise ValueError(name)
            out = ["ok"] + out
        except KeyError:
            out = ["raise", "KeyError"]
        except (ValueError, RuntimeError) as e:
            if not case.get("beh"):
                raise                       # only an impure on_miss may raise these
            out = ["raise", type(e).__name__]
        full = case["full"] == "all" or n % 7 == 0 or n >= len(case["ops"]) - 3 or name in ("copy", "clear")
        o = {"out": out, "len": len(c), "hit": c.hit_count, "miss": c.miss_count, "soft": c.soft_miss_count,
             "calls": list(calls), "items": [[ktok(k), vtok(v)] for k, v in c.items()] if full else None}
        if extra is not None:
            o["arg"] = [list(p) for p in extra]
        obs.append(o)
    return obs


# ---------------------------------------------------------------------------
# rendering
def _kv(l):
    return clist(cpair(cnat(k), cnat(v)) for k, v in l)


def _op1(op, o):
    n = op["op"]
    if n == "set":
        return "SetItem %s %s" % (cnat(op["k"]), cnat(op["v"]))
    if n == "getitem":
        return "GetItem %s" % cnat(op["k"])
    if n == "get":
        return "Get %s %s" % (cnat(op["k"]), cnat(op["d"]))
    if n == "setdefault":
        return "SetDefault %s %s" % (cnat(op["k"]), cnat(op["d"]))
    if n == "del":
        return "DelItem %s" % cnat(op["k"])
    if n == "pop":
        return "Pop %s %s" % (cnat(op["k"]), "None" if op["d"] is None else "(Some %s)" % cnat(op["d"]))
    if n == "popitem":
        return "PopItem"
    if n == "clear":
        return "Clear"
    if n == "update":
        return "Update %s %s" % (_kv(op["e"]), _kv(op["f"]))
    if n == "ior":
        return "IOr %s" % _kv(op["e"])
    if n == "in":
        return "Contains %s" % cnat(op["k"])
    if n == "len":
        return "Len"
    if n == "iter":
        return "Iter"
    if n == "items":
        return "Items"
    if n == "eq":
        return "EqDict %s" % _kv(o["arg"])
    if n == "ne":
        return "NeDict %s" % _kv(o["arg"])
    if n == "updself":
        return "UpdateSelf %s" % _kv(op["f"])
    if n == "eqo":
        return "EqOther"
    if n == "neo":
        return "NeOther"
    raise ValueError(n)


def _script_op(o):
    if o["op"] == "set":
        return "SetItem %s %s" % (cnat(o["k"]), cnat(o["v"]))
    if o["op"] == "del":
        return "DelItem %s" % cnat(o["k"])
    if o["op"] == "pop":
        return "Pop %s (Some %s)" % (cnat(o["k"]), cnat(o["d"]))
    if o["op"] == "clear":
        return "Clear"
    if o["op"] == "getitem":
        return "GetItem %s" % cnat(o["k"])
    if o["op"] == "get":
        return "Get %s %s" % (cnat(o["k"]), cnat(o["d"]))
    if o["op"] == "setdefault":
        return "SetDefault %s %s" % (cnat(o["k"]), cnat(o["d"]))
    if o["op"] == "in":
        return "Contains %s" % cnat(o["k"])
    if o["op"] == "len":
        return "Len"
    raise ValueError(o)


def _out(out):
    if out[0] == "raise":
        return "(Raise %s)" % out[1]
    kind = out[1]
    if kind == "none":
        t = "ONone"
    elif kind == "val":
        t = "(OVal %s)" % cnat(out[2])
    elif kind == "bool":
        t = "(OBool %s)" % cbool(out[2])
    elif kind == "nat":
        t = "(ONat %s)" % cnat(out[2])
    elif kind == "item":
        t = "(OItem %s %s)" % (cnat(out[2]), cnat(out[3]))
    elif kind == "keys":
        t = "(OKeys %s)" % clist(cnat(k) for k in out[2])
    elif kind == "items":
        t = "(OItems %s)" % _kv(out[2])
    else:
        raise ValueError(kind)
    return "(Ok %s)" % t


def to_coq(case, obs):
    steps = []
    ncaches = 1
    ctor = "None"
    if len(obs) == 1 and "ctor" in obs[0]:
        ctor = "(Some %s)" % obs[0]["ctor"]
        obs = []
    assert len(obs) == len(case["ops"])
    for op, o in zip(case["ops"], obs):
        i = resolve(op["i"], ncaches)
        if op["op"] == "copy":
            h = "Copy %s" % cnat(i)
            ncaches += 1
        elif op["op"] == "eqc":
            h = "EqCache %s %s" % (cnat(i), cnat(resolve(op["j"], ncaches)))
        elif op["op"] == "updfrom":
            h = "UpdateFrom %s %s" % (cnat(i), cnat(resolve(op["j"], ncaches)))
        else:
            h = "On %s (%s)" % (cnat(i), _op1(op, o))
        ob = "mkObs %s %s %s %s %s %s %s" % (
            _out(o["out"]), cnat(o["len"]), cN(o["hit"]), cN(o["miss"]), cN(o["soft"]),
            clist(cnat(k) for k in o["calls"]),
            "None" if o["items"] is None else "(Some %s)" % _kv(o["items"]))
        steps.append("(%s, %s)" % (h, ob))
    om = case["on_miss"]
    om_t = "None" if om is None else "(Some (%s, %s))" % (_kv(om["table"]), cnat(om["default"]))
    init = case["init"]
    if case["init_kind"] in ("dict", "mapping"):
        assert len({k for k, _ in init}) == len(init)
    beh = clist("(%s, (%s, %s))" % (cnat(k), clist(_script_op(o) for o in b["script"]),
                                    "None" if b["raise"] is None else "(Some %s)" % b["raise"])
                for k, b in case.get("beh", []))
    return "mkCase %s %s %s %s %s %s %s %s" % (case["cls"], cnat(max(0, case["max"])), om_t,
                                               cbool(not case.get("on_miss_bad")), ctor, beh, _kv(init), clist(steps))


# ---------------------------------------------------------------------------
def corrupt(case, obs):
    """A wrong observation for the canary: one hit counter off by one from some step on."""
    if not obs or "ctor" in obs[0]:
        return None
    bad = _copy.deepcopy(obs)
    j = len(bad) // 2
    bad[j]["hit"] += 1
    return bad


def _views(case, obs):
    """(op, cache index, keys before, keys after) for steps with consecutive full views."""
    if obs and "ctor" in obs[0]:
        return
    last = {}
    ncaches = 1
    for op, o in zip(case["ops"], obs):
        i = resolve(op["i"], ncaches)
        if op["op"] == "copy":
            i = ncaches
            ncaches += 1
        after = None if o["items"] is None else {k for k, _ in o["items"]}
        yield op, o, i, last.get(i), after
        last[i] = after


def extra_evidence(results):
    """Whether the (T) obligations are about real programs or vacuous (a source without a linked list)."""
    import common
    try:
        gen = open(os.path.join(common.COQ, "Gen", "C02_Gen.v")).read()
    except OSError:
        return {"t_tie": "no generated file"}
    return {"t_tie": "present: the five helpers were extracted from the source" if "gen_present : bool := true" in gen
            else "vacuous: the source keeps no hand-written linked list"}


def nontrivial(case, obs):
    touched = False
    for op, o, i, before, after in _views(case, obs):
        n = op["op"]
        if before is not None and after is not None and (before - after) and n in (
                "set", "getitem", "get", "setdefault", "update", "ior", "updfrom", "updself") and touched:
            return True
        if n in LOOKUPS and o["out"][0] == "ok" and not o["calls"] and before is not None and op["k"] in before:
            touched = True
        if n == "set" and before is not None and op["k"] in before:
            touched = True
    return False


def distribution(d, case, obs):
    def inc(group, k, by=1):
        d.setdefault(group, {})
        d[group][str(k)] = d[group].get(str(k), 0) + by
    if case.get("ref"):
        inc("spec_validation", case["ref"])
    if case.get("beh"):
        inc("impure_on_miss", "histories")
        for _, b in case["beh"]:
            inc("impure_on_miss", "raising keys: %s" % b["raise"] if b["raise"] else "returning keys")
            if b["script"]:
                inc("impure_on_miss", "re-entrant keys")
    if case.get("sweep"):
        inc("exhaustive_sweep", "depth %d, 14 call shapes, 2 keys, both classes, max_size 1-2, on_miss None/f" % case["sweep"])
    if not case["ops"] and (case["max"] <= 0 or case.get("on_miss_bad")):
        inc("constructor", obs[0]["ctor"] if obs and "ctor" in obs[0] else "constructed")
    inc("class", case["cls"])
    inc("max_size", case["max"])
    inc("on_miss", "function" if case["on_miss"] else "None")
    inc("init", case["init_kind"])
    inc("caches", 1 + sum(1 for op in case["ops"] if op["op"] == "copy"))
    for op, o, i, before, after in _views(case, obs):
        n = op["op"]
        if n in ("update", "ior"):
            n += ":" + op["kind"]
        inc("ops", n)
        if o["out"][0] == "raise":
            inc("errors", op["op"] + ":" + o["out"][1])
        if before is not None and after is not None and (before - after) and op["op"] in (
                "set", "getitem", "get", "setdefault", "update", "ior"):
            inc("depth", "evictions", len(before - after))
        if o["calls"]:
            inc("depth", "on_miss_calls", len(o["calls"]))
        if i > 0:
            inc("depth", "ops_on_copies")
    inc("history_len", min(len(case["ops"]) // 10 * 10, 120))


def sample(case, obs):
    return {"cls": case["cls"], "max": case["max"], "on_miss": case["on_miss"], "init": case["init"],
            "ops": case["ops"][:8], "obs": obs[:8]}


def shrink(case):
    """Remove chunks of ops (indices are resolved modulo the number of caches, so
    removing a copy keeps the case well-formed); then try dropping init/on_miss."""
    ops = case["ops"]
    n = len(ops)
    chunk = max(1, n // 2)
    count = 0
    while chunk >= 1 and count < 70:
        for s in range(0, n, chunk):
            cand = ops[:s] + ops[s + chunk:]
            if cand:
                c = dict(case)
                c["ops"] = cand
                count += 1
                yield c
        chunk //= 2
    if case["init"]:
        c = dict(case)
        c["init"], c["init_kind"] = [], "none"
        yield c
