"""C08 remap / research / get_path: plug-in.

A case is an object graph (heap description: containers of the five built-in
kinds, leaves, arbitrary sharing and back-edges), a visit program and a query
predicate from a small language.  run_impl builds the graph as real Python
objects, runs boltons.iterutils.remap / research / get_path on it and
serialises what it sees (graphs with identities, calls received by visit,
exception types).  Coq decides everything else.
"""
import copy

ID = "C08"
IMPORTS = ("From Boltons Require Import Lib.Prelude Lib.C08_Py Spec.C08_Spec Model.C08_Model "
           "Check.C08_Check.")
CASE_TYPE = "c08_any"
VERDICT = "c08_any_verdict"
EXPLAIN = "c08_any_explain"
CASES_PER_FILE = 120
CASE_TIMEOUT = 90
TIERS = {"quick": {"n": 1600}, "thorough": {"n": 40000, "exhaustive": True}}
RULE = ("object graphs of <= 12 containers (list/tuple/dict/set/frozenset, empty ones included), leaves of 8 python "
        "types, sharing probability ~0.2 and back-edge (cycle) probability ~0.1, visit programs (ordered rules "
        "predicate -> drop | keep | new key/new leaf) over key, depth, path, leaf token, kind and len, or the "
        "default visit, plus a query predicate for research; non-trivial = at least 3 containers and (a shared or "
        "cyclic reference, or a non-default visit that was called); distinct = distinct canonical case hash")
ASSUMPTIONS = ["leaves/keys are tokens mapped to pairwise != hashable python objects of varied types",
               "visit/query callbacks are pure functions of (path, key, shallow look of value) from the program language",
               "CPython: dict insertion order, list.extend/tuple()/dict.update/set.update/frozenset() semantics, "
               "id() of live objects unique, () is a singleton"]
TRUSTED = ["harness/translators/c08_src.py: default_visit/default_enter/default_exit and the isinstance/hasattr facts they "
           "use are regenerated from the source on every run (Gen/C08_Src.v) and proved equal to the model's decision "
           "functions (C08_source_*); the `while stack` loop of remap is hand-modelled",
           "Model/C08_Model.v is hand-written; tied to boltons.iterutils.remap/research/get_path by the correspondence run",
           "Lib/C08_Py.v canon (graph comparison up to renaming of identities, sets sorted structurally) and build "
           "(container constructor semantics)",
           "harness/c08.py graph builder / serialiser / interpreter of the visit-program language"]

def translators(repo):
    """(T): default_visit / default_enter / default_exit regenerated from the source (fail closed)"""
    import os
    import sys
    sys.path.insert(0, os.path.join(os.path.dirname(os.path.abspath(__file__)), "translators"))
    import c08_src
    return c08_src.generate(repo)


KINDS = {"list": list, "tuple": tuple, "dict": dict, "set": set, "frozenset": frozenset}
KNAME = {list: "list", tuple: "tuple", dict: "dict", set: "set", frozenset: "frozenset"}
KCOQ = {"list": "KList", "tuple": "KTuple", "dict": "KDict", "set": "KSet", "frozenset": "KFrozen"}
MUTABLE = ("list", "dict", "set")
NTOK = 96


# --------------------------------------------------------------------------
# tokens <-> python objects
# --------------------------------------------------------------------------
# leaves that are == to another leaf of a different type (classes: Lib.C08_Py.leaf_cls); token 1 is False
_EQ_LEAVES = {64: 2, 65: 2.0, 66: 1, 67: True, 68: 1.0, 69: 0, 70: 0.0}


class _Odd:
    """scalar leaves with unhelpful equality: remap must treat leaves by identity, never compare them"""
    def __init__(self, name):
        self.name = name

    def __repr__(self):
        return "<odd %s>" % self.name

    def __deepcopy__(self, memo):
        return self


class _AlwaysEq(_Odd):
    def __eq__(self, other):
        return True

    def __hash__(self):
        return 1


class _NeverEq(_Odd):
    def __eq__(self, other):
        return False

    def __hash__(self):
        return 2


class _EqRaises(_Odd):
    def __eq__(self, other):
        raise RuntimeError("leaves must not be compared")
    __hash__ = None

    def __bool__(self):
        raise RuntimeError("leaves must not be tested for truth")

    def __len__(self):
        raise RuntimeError("leaves have no len")


class _ReprRaises(_Odd):
    """remap must not need the text of a value"""
    def __repr__(self):
        raise RuntimeError("leaves must not be printed")
    __str__ = __repr__


# only ever placed where no hashing/equality is needed (not in sets, not as replacement values)
_ODD_LEAVES = {71: float("nan"), 72: _AlwaysEq("always-eq"), 73: _NeverEq("never-eq"), 74: _EqRaises("eq-raises"),
               75: _Odd("plain"), 76: iter(()), 77: _ReprRaises("repr-raises")}


def leaf(n):
    if n == 0:
        return None
    if n == 1:
        return False
    if n == 2:
        return ""
    if n == 3:
        return b""
    if n in _EQ_LEAVES:
        return _EQ_LEAVES[n]
    if n in _ODD_LEAVES:
        return _ODD_LEAVES[n]
    f = n % 4
    if f == 0:
        return 1000 + n
    if f == 1:
        return "s%d" % n
    if f == 2:
        return n + 0.5
    return b"b%d" % n


def keyobj(k):
    if k[0] == "N":
        return None
    if k[0] == "I":
        return k[1]
    if k[0] == "S":
        return str(k[1])             # a string of digits: get_path accepts it as a list index
    t = k[1]
    if t in _ODD_KEYS:
        return _ODD_KEYS[t]
    f = t % 4
    if f < 2:
        return "k%d" % t
    if f == 2:
        return ("t", t)
    return b"k%d" % t


# falsy / unusual hashable keys (None is KNone, 0 is KI 0)
_ODD_KEYS = {9: "", 10: (), 11: b"", 12: frozenset()}


def _tkey(o):
    if type(o).__name__ in ("tuple_iterator", "_ReprRaises"):
        return (type(o).__name__, "")
    return (type(o).__name__, repr(o))


_LEAF_INV = {_tkey(leaf(n)): n for n in range(NTOK * 2)}
_KEY_INV = {_tkey(keyobj(["T", t])): t for t in range(NTOK)}


def key_tok(o):
    if o is None:
        return ["N"]
    if type(o) is int:
        return ["I", o]
    if type(o) is str and o.isdigit():
        return ["S", int(o)]
    return ["T", _KEY_INV[_tkey(o)]]


def leaf_tok(o):
    return _LEAF_INV[_tkey(o)]


# --------------------------------------------------------------------------
# building the input graph
# --------------------------------------------------------------------------
def build_graph(nodes, root):
    objs = [None] * len(nodes)
    state = [0] * len(nodes)          # 0 untouched, 1 in progress (immutable), 2 done
    for i, nd in enumerate(nodes):
        if nd["k"] in MUTABLE:
            objs[i] = KINDS[nd["k"]]()
            state[i] = 2

    def get(ref):
        if ref[0] == "L":
            return leaf(ref[1])
        i = ref[1]
        if state[i] == 2:
            return objs[i]
        if state[i] == 1:
            raise ValueError("cycle through immutable containers only")
        state[i] = 1
        objs[i] = KINDS[nodes[i]["k"]]([get(r) for r in nodes[i]["c"]])
        state[i] = 2
        return objs[i]

    for i, nd in enumerate(nodes):
        if nd["k"] in ("tuple", "frozenset"):
            get(["N", i])
    for i, nd in enumerate(nodes):
        if nd["k"] == "list":
            objs[i].extend(get(r) for r in nd["c"])
        elif nd["k"] == "set":
            for r in nd["c"]:
                objs[i].add(get(r))
        elif nd["k"] == "dict":
            for k, r in nd["c"]:
                objs[i][keyobj(k)] = get(r)
    return get(root)


# --------------------------------------------------------------------------
# serialising python graphs (identity-aware)
# --------------------------------------------------------------------------
class Ser:
    """obj terms as JSON: ["L",n] | ["N",id,kind,[[key,obj],...]] | ["R",id,kind] | ["A",id,kind]"""

    def __init__(self, ids=None, alias=None):
        self.ids = {} if ids is None else ids      # id(object) -> number (persists between serialisations)
        self.alias = alias                         # id(input container) -> its number, for outputs
        self.keep = []                             # keep serialised objects alive so that id() stays unique
        self.count = 0

    def number(self, o):
        if id(o) not in self.ids:
            self.ids[id(o)] = len(self.ids)
            self.keep.append(o)
        return self.ids[id(o)]

    def ser(self, root):
        seen = set()

        def go(o, depth):
            t = type(o)
            if t not in KNAME:
                return ["L", leaf_tok(o)]
            self.count += 1
            if self.count > 4000 or depth > 200:
                raise ValueError("graph too large to serialise")
            kind = KNAME[t]
            if self.alias is not None and id(o) in self.alias and kind in MUTABLE:
                return ["A", self.alias[id(o)], kind]
            n = self.number(o)
            if id(o) in seen:
                return ["R", n, kind]
            seen.add(id(o))
            if t is dict:
                items = [[key_tok(k), go(v, depth + 1)] for k, v in o.items()]
            else:
                items = [[["I", i], go(v, depth + 1)] for i, v in enumerate(o)]
            return ["N", n, kind, items]
        return go(root, 0)


# --------------------------------------------------------------------------
# visit / query programs
# --------------------------------------------------------------------------
def shallow(v):
    t = type(v)
    if t in KNAME:
        return ["C", KNAME[t], len(v)]
    return ["L", leaf_tok(v)]


def eval_pred(q, p, k, s):
    op = q[0]
    if op == "true":
        return True
    if op == "keyis":
        return k == q[1]
    if op == "idxlt":
        return k[0] == "I" and k[1] < q[1]
    if op == "depthlt":
        return len(p) < q[1]
    if op == "leaflt":
        return s[0] == "L" and s[1] < q[1]
    if op == "leafmod":
        return s[0] == "L" and s[1] % q[1] == q[2]
    if op == "isleaf":
        return s[0] == "L"
    if op == "iskind":
        return s[0] == "C" and s[1] == q[1]
    if op == "lenlt":
        return s[0] == "C" and s[2] < q[1]
    if op == "pathhas":
        return any(x == q[1] for x in p)
    if op == "not":
        return not eval_pred(q[1], p, k, s)
    if op == "and":
        return eval_pred(q[1], p, k, s) and eval_pred(q[2], p, k, s)
    if op == "or":
        return eval_pred(q[1], p, k, s) or eval_pred(q[2], p, k, s)
    raise ValueError(op)


def fresh_value(d):
    """the new value a visit rule returns: a leaf token, or ["V", desc] = a container built afresh on every
    call (desc = ["L", n] | ["N", kind, [desc, ...]]; only hashable kinds, so it may replace a set member)"""
    if isinstance(d, int):
        return leaf(d)

    def mk(x):
        if x[0] == "L":
            return leaf(x[1])
        return KINDS[x[1]](mk(c) for c in x[2])
    return mk(d[1])


def cval(x):
    if x[0] == "L":
        return "(VLeaf %d)" % x[1]
    return "(VNode %s [%s])" % (KCOQ[x[1]], "; ".join("(KI %d, %s)" % (i, cval(c)) for i, c in enumerate(x[2])))


class VisitBoom(Exception):
    pass


def make_visit(prog, calls, seen_ids, keep_alive):
    def visit(path, key, value):
        p = [key_tok(x) for x in path]
        k = key_tok(key)
        s = shallow(value)
        calls.append([p, k, s])
        seen_ids.append(id(value) if type(value) in KNAME else None)
        keep_alive.append(value)
        for q, a in prog:
            if eval_pred(q, p, k, s):
                if a[0] == "drop":
                    return False
                if a[0] == "keep":
                    return True
                if a[0] == "raise":
                    raise VisitBoom()
                nk = key if a[1] is None else keyobj(a[1])
                nv = value if a[2] is None else fresh_value(a[2])
                return (nk, nv)
        return True
    return visit


class QueryBoom(Exception):
    pass


def make_query(q, qraise=None, style=0):
    def query(path, key, value):
        p, k, s = [key_tok(x) for x in path], key_tok(key), shallow(value)
        if qraise is not None and eval_pred(qraise, p, k, s):
            raise QueryBoom()
        r = eval_pred(q, p, k, s)
        # "returns a bool": any truthy / falsy object counts
        return [r, 1 if r else 0, "x" if r else "", [0] if r else [], r, (None,) if r else None][style % 6]
    return query


# --------------------------------------------------------------------------
# --------------------------------------------------------------------------
# very deep chains: built, walked and observed iteratively; compact observation
# --------------------------------------------------------------------------
def _walk_chain(obj, pat):
    """kinds met walking down (first child each time) as (pattern, repetitions, remainder), and the leaf token"""
    kinds = []
    while type(obj) in KNAME:
        kinds.append(KNAME[type(obj)])
        if len(obj) != 1 or len(kinds) > 200000:
            kinds.append("set")               # marks "not a chain": sets never occur in the input
            obj = None
            break
        obj = next(iter(obj.values())) if type(obj) is dict else next(iter(obj))
    reps, lp = 0, len(pat)
    while lp and kinds[reps * lp:(reps + 1) * lp] == pat:
        reps += 1
    return [pat, reps, kinds[reps * lp:][:300]], leaf_tok(obj)


def run_deep(case):
    from boltons.iterutils import remap, research, get_path
    pat, reps = case["deep"]["pat"], case["deep"]["reps"]
    leaf_obj = leaf(case["deep"]["leaf"])
    obj, levels = leaf_obj, []
    for k in reversed(pat * reps):
        obj = [obj] if k == "list" else (obj,) if k == "tuple" else {"k0": obj}
        levels.append(obj)
    levels.reverse()
    root = obj
    obs = {}
    calls = [0, 0]
    mode = case["deep"]["visit"]

    def visit(path, key, value):
        calls[0] += 1
        calls[1] = max(calls[1], len(path))
        if mode[0] == "leaf" and type(value) not in KNAME:
            return (key, leaf(mode[1]))
        return True
    try:
        out = remap(root) if mode[0] == "default" else remap(root, visit)
        obs["out"] = ["ok"] + list(_walk_chain(out, pat))
        shared, o = 0, out
        for lv in levels:                      # identity of each level against the input's level
            if type(o) not in KNAME or len(o) != 1:
                break
            if o is lv and type(o) is not tuple:
                shared += 1
            o = next(iter(o.values())) if type(o) is dict else next(iter(o))
        obs["shared"] = shared
        del out, o
    except Exception as e:                     # remap is iterative: nothing may escape, whatever the depth
        obs["out"] = ["raise", type(e).__name__]
        obs["shared"] = 0
    obs["calls"] = calls
    obs["in_after"] = list(_walk_chain(root, pat))
    try:
        found = research(root, lambda p, k, v: type(v) not in KNAME)
        plen, ok = 0, False
        if found:
            plen = len(found[-1][0])
            ok = get_path(root, found[-1][0]) is leaf_obj and found[-1][1] is leaf_obj
        obs["research"] = ["ok", len(found), plen, ok]
    except Exception as e:
        obs["research"] = ["raise", type(e).__name__]
    return obs


def _ckinds(d):
    return "([%s], %d, [%s])" % ("; ".join(KCOQ[k] for k in d[0]), d[1], "; ".join(KCOQ[k] for k in d[2]))


def deep_to_coq(case, obs):
    d = case["deep"]
    vis = {"default": "DVDefault", "keep": "DVKeep"}.get(d["visit"][0]) or "(DVLeaf %d)" % d["visit"][1]
    out = "(Ok (%s, %d))" % (_ckinds(obs["out"][1]), obs["out"][2]) if obs["out"][0] == "ok" \
        else "(Raise (OtherExn %d))" % (9 if obs["out"][1] == "RecursionError" else 11)
    res = "(Ok (%d, %d, %s))" % (obs["research"][1], obs["research"][2], "true" if obs["research"][3] else "false") \
        if obs["research"][0] == "ok" else "(Raise (OtherExn %d))" % (9 if obs["research"][1] == "RecursionError" else 11)
    return "Deep (mkDeep [%s] %d %d %s %s %d %d (%s, %d) %d %s)" % (
        "; ".join(KCOQ[k] for k in d["pat"]), d["reps"], d["leaf"], vis, out, obs["calls"][0], obs["calls"][1],
        _ckinds(obs["in_after"][0]), obs["in_after"][1], obs["shared"], res)


def run_impl(case):
    if "deep" in case:
        return run_deep(case)
    from boltons.iterutils import remap, research, get_path, PathAccessError
    root = build_graph(case["nodes"], case["root"])
    s_in = Ser()
    obs = {"in": s_in.ser(root)}
    in_ids = dict(s_in.ids)

    def ref_of(v):
        if type(v) in KNAME:
            return ["O", in_ids[id(v)]] if id(v) in in_ids else ["X"]
        return ["L", leaf_tok(v)]

    calls, seen_ids, keep_alive = [], [], []
    out_ser = None
    try:
        kw = {} if case.get("reraise") is None else {"reraise_visit": case["reraise"]}
        if case.get("hooks"):
            # logging wrappers around the default enter/exit (public API): every call, in order
            from boltons.iterutils import default_enter, default_exit
            enters, exits = [], []

            def log_enter(path, key, value):
                enters.append([[key_tok(x) for x in path], key_tok(key), ref_of(value), shallow(value)])
                return default_enter(path, key, value)

            def log_exit(path, key, old_parent, new_parent, new_items):
                exits.append([[key_tok(x) for x in path], key_tok(key), in_ids[id(old_parent)],
                              [[key_tok(k2), shallow(v2)] for k2, v2 in new_items]])
                return default_exit(path, key, old_parent, new_parent, new_items)
            kw.update(enter=log_enter, exit=log_exit)
            obs["hooks"] = [enters, exits]
        if case["visit"] is None:
            out = remap(root, **kw)
        else:
            out = remap(root, make_visit(case["visit"], calls, seen_ids, keep_alive), **kw)
        out_ser = Ser(alias=in_ids)
        obs["out"] = ["ok", out_ser.ser(out)]
    except VisitBoom:
        obs["out"] = ["raise", "VisitBoom"]
    except TypeError:
        obs["out"] = ["raise", "TypeError"]
    except RecursionError:
        obs["out"] = ["raise", "RecursionError"]
    obs["calls"] = calls
    # which object of the output graph each call was handed (its number in the serialisation of the output)
    obs["call_ids"] = [out_ser.ids.get(i) if (out_ser is not None and i is not None) else None for i in seen_ids]
    obs["in_after"] = Ser(ids=s_in.ids).ser(root)
    entries = []
    try:
        kw = {} if case.get("qreraise") is None else {"reraise": case["qreraise"]}
        found = research(root, make_query(case["query"], case.get("qraise"), case.get("style", 0) // 6), **kw)
    except TypeError:
        found = None
        obs["research"] = ["raise", "TypeError"]
    except QueryBoom:
        found = None
        obs["research"] = ["raise", "QueryBoom"]
    if found is not None:
        for path, value in found:
            try:
                got = ["ok", ref_of(get_path(root, path))]
            except PathAccessError:
                got = ["raise"]
            entries.append([[key_tok(x) for x in path], ref_of(value), got])
        obs["research"] = ["ok", entries]
    probes = []
    # the default= argument: an arbitrary object, or a falsy one (a default is a value, not a flag)
    # (fresh objects, so that `is` cannot confuse the default with a value of the graph)
    sentinel = [object(), [], {}, 0j, set(), bytearray()][case.get("style", 0) % 6]
    for pth in case.get("probes", []):
        tp = tuple(keyobj(k) for k in pth)
        if pth and case.get("dotted") and all(type(x) is str and "." not in x for x in tp):
            tp = ".".join(tp)                      # get_path also accepts 'a.b.0'
        elif case.get("dotted"):
            tp = list(tp)
        try:
            got = ["ok", ref_of(get_path(root, tp))]
        except PathAccessError:
            got = ["raise"]
        probes.append([pth, got, get_path(root, tp, default=sentinel) is sentinel])
    obs["probes"] = probes
    obs["in_final"] = Ser(ids=s_in.ids).ser(root)
    if case.get("dc"):
        obs["deepcopy"] = Ser(alias=in_ids).ser(copy.deepcopy(root))
    return obs


# --------------------------------------------------------------------------
# rendering
# --------------------------------------------------------------------------
def ckey(k):
    if k[0] == "N":
        return "KNone"
    return "(K%s %d)" % (k[0], k[1])


def cobj(o):
    if o[0] == "L":
        return "(OLeaf %d)" % o[1]
    if o[0] == "R":
        return "(ORef %d %s)" % (o[1], KCOQ[o[2]])
    if o[0] == "A":
        return "(OAlias %d %s)" % (o[1], KCOQ[o[2]])
    return "(ONode %d %s [%s])" % (o[1], KCOQ[o[2]], "; ".join("(%s, %s)" % (ckey(k), cobj(c)) for k, c in o[3]))


def cpath(p):
    return "[" + "; ".join(ckey(k) for k in p) + "]"


def cpred(q):
    op = q[0]
    if op == "true":
        return "PTrue"
    if op == "keyis":
        return "(PKeyIs %s)" % ckey(q[1])
    if op == "pathhas":
        return "(PPathHas %s)" % ckey(q[1])
    if op in ("idxlt", "depthlt", "leaflt", "lenlt"):
        return "(%s %d)" % ({"idxlt": "PKeyIdxLt", "depthlt": "PDepthLt", "leaflt": "PLeafLt", "lenlt": "PLenLt"}[op], q[1])
    if op == "leafmod":
        return "(PLeafMod %d %d)" % (q[1], q[2])
    if op == "isleaf":
        return "PIsLeaf"
    if op == "iskind":
        return "(PIsKind %s)" % KCOQ[q[1]]
    if op == "not":
        return "(PNot %s)" % cpred(q[1])
    return "(%s %s %s)" % ("PAnd" if op == "and" else "POr", cpred(q[1]), cpred(q[2]))


def cact(a):
    if a[0] == "drop":
        return "(Some Drop)"
    if a[0] == "keep":
        return "(Some (Put None None))"
    if a[0] == "raise":
        return "None"
    return "(Some (Put %s %s))" % ("None" if a[1] is None else "(Some %s)" % ckey(a[1]),
                                   "None" if a[2] is None else
                                   "(Some (VLeaf %d))" % a[2] if isinstance(a[2], int) else "(Some %s)" % cval(a[2][1]))


def csview(s):
    return "(SLeaf %d)" % s[1] if s[0] == "L" else "(SCont %s %d)" % (KCOQ[s[1]], s[2])


def coref(r):
    if r[0] == "L":
        return "(RLeaf %d)" % r[1]
    if r[0] == "O":
        return "(RObj %d)" % r[1]
    return "ROther"


EXN = {"TypeError": "TypeError", "RecursionError": "(OtherExn 9)", "VisitBoom": "VisitError", "QueryBoom": "QueryError"}


def to_coq(case, obs):
    if "deep" in case:
        return deep_to_coq(case, obs)
    return "Graph (%s)" % graph_to_coq(case, obs)


def graph_to_coq(case, obs):
    visit = "None" if case["visit"] is None else \
        "(Some [%s])" % "; ".join("(%s, %s)" % (cpred(q), cact(a)) for q, a in case["visit"])
    out = "(Ok %s)" % cobj(obs["out"][1]) if obs["out"][0] == "ok" else "(Raise %s)" % EXN[obs["out"][1]]
    calls = "[" + "; ".join("(%s, %s, %s)" % (cpath(p), ckey(k), csview(s)) for p, k, s in obs["calls"]) + "]"
    if obs["research"][0] == "ok":
        ents = "(Ok [" + "; ".join(
            "(%s, %s, %s)" % (cpath(p), coref(r), "Ok %s" % coref(g[1]) if g[0] == "ok" else "Raise KeyError")
            for p, r, g in obs["research"][1]) + "])"
    else:
        ents = "(Raise %s)" % EXN[obs["research"][1]]
    dc = "(Some %s)" % cobj(obs["deepcopy"]) if "deepcopy" in obs else "None"
    if "hooks" in obs:
        hooks = "(Some ([%s], [%s]))" % (
            "; ".join("(%s, %s, %s, %s)" % (cpath(p), ckey(k), coref(r), csview(s)) for p, k, r, s in obs["hooks"][0]),
            "; ".join("(%s, %s, %d, [%s])" % (cpath(p), ckey(k), i, "; ".join("(%s, %s)" % (ckey(k2), csview(s2))
                                                                              for k2, s2 in l))
                      for p, k, i, l in obs["hooks"][1]))
    else:
        hooks = "None"
    probes = "[" + "; ".join(
        "(%s, %s, %s)" % (cpath(p), "Ok %s" % coref(g[1]) if g[0] == "ok" else "Raise KeyError",
                          "true" if d else "false") for p, g, d in obs.get("probes", [])) + "]"
    qr = "None" if case.get("qraise") is None else "(Some %s)" % cpred(case["qraise"])
    return "mkCase %s %s %s %s %s %s %s %s %s %s %s %s %s %s %s" % (
        cobj(obs["in"]), visit, "false" if case.get("reraise") is False else "true", out,
        calls, "[" + "; ".join("None" if i is None else "Some %d" % i for i in obs["call_ids"]) + "]", cobj(obs["in_after"]), cpred(case["query"]), qr, "true" if case.get("qreraise") else "false", ents,
        cobj(obs["in_final"]), hooks, probes, dc)


# --------------------------------------------------------------------------
# generation
# --------------------------------------------------------------------------
def gen_pred(rng, depth=0):
    r = rng.random()
    if depth < 2 and r < 0.25:
        op = rng.choice(["not", "and", "or"])
        if op == "not":
            return ["not", gen_pred(rng, depth + 1)]
        return [op, gen_pred(rng, depth + 1), gen_pred(rng, depth + 1)]
    op = rng.choice(["true", "keyis", "idxlt", "depthlt", "leaflt", "leafmod", "isleaf", "iskind", "lenlt",
                     "lenlt", "pathhas", "leafmod", "isleaf"])
    if op in ("keyis", "pathhas"):
        return [op, gen_key(rng)]
    if op == "idxlt":
        return [op, rng.randint(0, 3)]
    if op == "depthlt":
        return [op, rng.randint(0, 4)]
    if op == "leaflt":
        return [op, rng.choice([1, 4, 8, 20])]
    if op == "leafmod":
        m = rng.choice([2, 3, 4])
        return [op, m, rng.randrange(m)]
    if op == "iskind":
        return [op, rng.choice(list(KINDS))]
    if op == "lenlt":
        return [op, rng.choice([1, 1, 2, 3])]
    return [op]


def gen_key(rng):
    r = rng.random()
    if r < 0.35:
        return ["I", rng.randint(0, 3)]
    if r < 0.5:
        return ["S", rng.randint(0, 3)]
    if r < 0.6:
        return ["N"]                      # None is a legitimate dict key (and the root's key)
    return ["T", rng.randint(0, 12)]


def gen_leaf(rng, odd=False):
    r = rng.random()
    if odd and r > 0.93:
        return rng.randint(71, 77)                               # leaves with unhelpful __eq__/__bool__/hash

    if r < 0.15:
        return rng.choice([1, 64, 65, 66, 67, 68, 69, 70])      # equal-but-different leaves
    return rng.randrange(24) if r < 0.85 else rng.randrange(64)


def gen_newval(rng):
    if rng.random() < 0.7:
        return gen_leaf(rng)
    a, b, c = rng.sample(range(4, 24), 3)           # plain leaves, pairwise !=
    return ["V", rng.choice([
        ["N", "tuple", []], ["N", "tuple", [["L", a]]], ["N", "tuple", [["L", a], ["N", "tuple", [["L", b]]]]],
        ["N", "frozenset", []], ["N", "frozenset", [["L", a], ["L", b]]],
        ["N", "tuple", [["N", "frozenset", [["L", c]]], ["L", a]]]])]


def gen_prog(rng):
    r = rng.random()
    if r < 0.15:
        return None
    if r < 0.22:
        return []
    prog = []
    for _ in range(rng.randint(1, 3)):
        a = rng.random()
        if a < 0.4:
            act = ["drop"]
        elif a < 0.5:
            act = ["keep"]
        elif a < 0.61:
            act = ["raise"]
        else:
            act = ["put", gen_key(rng) if rng.random() < 0.5 else None,
                   gen_newval(rng) if rng.random() < 0.55 else None]
        prog.append([gen_pred(rng), act])
    return prog


def gen_graph(rng, max_nodes, max_depth):
    nodes = []
    hashable = []                      # node i was created where a hashable value is required

    def new_node(depth, need_hash, anc):
        # anc: list of (index, kind) of the enclosing containers, outermost first
        if need_hash:
            kind = rng.choice(["tuple", "tuple", "frozenset"])
        else:
            kind = rng.choice(["list", "list", "dict", "dict", "tuple", "tuple", "set", "frozenset"])
        idx = len(nodes)
        nd = {"k": kind, "c": []}
        nodes.append(nd)
        hashable.append(need_hash)
        child_hash = need_hash or kind in ("set", "frozenset")
        width = rng.choice([0, 1, 2, 2, 3, 3, 4]) if depth > 0 else rng.choice([0, 1, 2, 2, 3, 3, 4, 5, 6, 12])
        keys = set()
        anc2 = anc + [(idx, kind)]
        for _ in range(width):
            ref = child(depth + 1, child_hash, anc2)
            if kind == "dict":
                k = gen_key(rng)
                if tuple(k) in keys:
                    continue
                keys.add(tuple(k))
                nd["c"].append([k, ref])
            else:
                nd["c"].append(ref)
        return ["N", idx]

    def child(depth, need_hash, anc):
        r = rng.random()
        if r < 0.28 and len(nodes) > 1:
            # shared reference or back-edge to an existing node
            cands = []
            open_idx = [i for i, _ in anc]
            for i in range(len(nodes)):
                if need_hash:
                    if hashable[i] and i not in open_idx:
                        cands.append(i)
                elif i in open_idx:
                    # back-edge: the cycle must pass through a mutable container
                    j = open_idx.index(i)
                    if any(k in MUTABLE for _, k in anc[j:]):
                        cands.append(i)
                        if rng.random() < 0.5:
                            cands.append(i)
                else:
                    cands.append(i)
            if cands:
                return ["N", rng.choice(cands)]
        if r < 0.52 or depth >= max_depth or len(nodes) >= max_nodes:
            return ["L", gen_leaf(rng, odd=not need_hash)]
        return new_node(depth, need_hash, anc)

    root = new_node(0, False, [])
    return nodes, root


def buildable(nodes):
    """no cycle that runs through tuples/frozensets only (such a graph cannot exist in Python)"""
    imm = [nd["k"] not in MUTABLE for nd in nodes]
    state = [0] * len(nodes)

    def refs(nd):
        return [(c[1] if nd["k"] == "dict" else c) for c in nd["c"]]

    def dfs(i):
        state[i] = 1
        for r in refs(nodes[i]):
            if r[0] == "N" and imm[r[1]]:
                if state[r[1]] == 1 or (state[r[1]] == 0 and not dfs(r[1])):
                    return False
        state[i] = 2
        return True
    return all(dfs(i) for i in range(len(nodes)) if imm[i] and state[i] == 0)


def valid_members(nodes):
    """members of sets/frozensets are hashable (leaves, or tuples/frozensets of hashables)"""
    memo = {}

    def hashable(i, stack=()):
        if i in memo:
            return memo[i]
        if i in stack or nodes[i]["k"] not in ("tuple", "frozenset"):
            return False
        r = all(c[0] == "L" or hashable(c[1], stack + (i,)) for c in nodes[i]["c"])
        memo[i] = r
        return r
    for nd in nodes:
        if nd["k"] in ("set", "frozenset"):
            if not all(c[0] == "L" or hashable(c[1]) for c in nd["c"]):
                return False
    return True


def small_graphs():
    """EXHAUSTIVE: every buildable graph of one or two containers (all five kinds), each with at most two
    children drawn from two leaves and references to either container (self-references, mutual references,
    sharing), every node reachable from the root - under the default visit and under one dropping/re-keying
    visit program."""
    import itertools
    progs = [None, [[["leaflt", 5], ["drop"]], [["true"], ["put", ["T", 1], None]]]]
    dkeys = [["T", 0], ["T", 1]]
    for n in (1, 2):
        slots = [["L", 4], ["L", 5]] + [["N", j] for j in range(n)]
        kids = [()] + [(a,) for a in slots] + [(a, b) for a in slots for b in slots]
        for kinds in itertools.product(list(KINDS), repeat=n):
            for ch in itertools.product(kids, repeat=n):
                if n == 2 and not any(c == ["N", 1] for c in ch[0]):
                    continue                                  # node 1 unreachable (only node 0 -> 1 can reach it)
                nodes = []
                for k, cs in zip(kinds, ch):
                    if k == "dict":
                        nodes.append({"k": k, "c": [[dkeys[i], c] for i, c in enumerate(cs)]})
                    else:
                        nodes.append({"k": k, "c": [list(c) for c in cs]})
                plain = [{"k": nd["k"], "c": [(c[1] if nd["k"] == "dict" else c) for c in nd["c"]]} for nd in nodes]
                if not buildable(nodes) or not valid_members(plain):
                    continue
                for pr in progs:
                    yield {"nodes": nodes, "root": ["N", 0], "visit": pr, "query": ["true"], "dc": pr is None}


def gen_probes(rng, nodes, root, count, dotted=False):
    """paths for get_path: random walks through the graph description, then possibly one segment too far,
    an index out of range, a key that is absent, or a step into a set.  Never an int segment into a leaf
    (str/bytes leaves are indexable in Python; the model treats leaves as atoms)."""
    out = []
    for _ in range(count):
        cur, path = root, []
        for _step in range(rng.randint(0, 5)):
            if cur[0] == "L":
                if rng.random() < 0.5:
                    path.append(["T", rng.randint(0, 8)])     # never an index into a leaf
                break
            nd = nodes[cur[1]]
            r = rng.random()
            if not nd["c"] or r < 0.15:
                path.append(gen_key(rng) if rng.random() < 0.6 else ["I", len(nd["c"]) + rng.randint(0, 1)])
                break
            j = rng.randrange(len(nd["c"]))
            if nd["k"] == "dict":
                path.append(nd["c"][j][0])
                cur = nd["c"][j][1]
            else:
                path.append(["I", j] if rng.random() < (0.1 if dotted else 0.75) else ["S", j])
                if nd["k"] in ("set", "frozenset"):
                    break
                cur = nd["c"][j]
        out.append(path)
    return out


def gen_deep(rng, depth):
    """a chain of `depth` nested containers (kinds in rotation, a few siblings), with back-edges from the
    bottom to far ancestors and a shared sub-object: stresses path bookkeeping far from the root"""
    nodes = []
    for d in range(depth):
        kind = rng.choice(["list", "dict", "tuple", "list", "dict"])
        nodes.append({"k": kind, "c": []})
    extra = len(nodes)
    nodes.append({"k": "list", "c": [["L", gen_leaf(rng)]]})          # shared by several levels
    for d in range(depth):
        kids = []
        if rng.random() < 0.3:
            kids.append(["L", gen_leaf(rng, odd=True)])
        if d + 1 < depth:
            kids.append(["N", d + 1])
        else:
            # bottom: back-edges to mutable ancestors
            for _ in range(3):
                j = rng.randrange(depth)
                if nodes[j]["k"] in MUTABLE:
                    kids.append(["N", j])
        if rng.random() < 0.15:
            kids.append(["N", extra])
        rng.shuffle(kids)
        if nodes[d]["k"] == "dict":
            ks = rng.sample([["I", 0], ["T", 0], ["N"], ["T", 9], ["S", 1], ["T", 2]], len(kids))
            nodes[d]["c"] = [[k, r] for k, r in zip(ks, kids)]
        else:
            nodes[d]["c"] = kids
    return nodes, ["N", 0]


def gen_deep_case(rng, tier):
    """a chain of thousands of nested list/tuple/dict levels (one child each, a leaf at the bottom):
    deeper than any recursive treatment (repr, ==, copy, a recursive helper) survives"""
    pat = rng.choice([["list", "dict"], ["list", "dict", "tuple"], ["dict"], ["list"], ["tuple", "list"],
                      ["dict", "list", "list", "tuple"]])
    levels = rng.choice([2000, 5000, 12000] if tier == "quick" else [2000, 5000, 12000, 20000, 30000])
    visit = rng.choice([["default"], ["default"], ["keep"], ["leaf", rng.randrange(4, 24)]])
    return {"deep": {"pat": pat, "reps": max(1, levels // len(pat)), "leaf": rng.randrange(0, 24), "visit": visit}}


def generate(rng, tier, n):
    if tier == "thorough":
        yield from small_graphs()
    for i in range(n):
        if i % 100 == 50:
            yield gen_deep_case(rng, tier)
            continue
        if rng.random() < 0.015:
            nodes, root = [], ["L", gen_leaf(rng)]
        elif rng.random() < 0.03:
            while True:
                nodes, root = gen_deep(rng, rng.choice([15, 30, 60, 100] if tier == "thorough" else [15, 30, 60]))
                if buildable(nodes):
                    break
        else:
            big = tier == "thorough" and rng.random() < 0.3
            while True:
                nodes, root = gen_graph(rng, rng.choice([4, 6, 8, 12, 20 if big else 12]), rng.choice([2, 3, 4, 6]))
                if buildable(nodes):
                    break
        dotted = rng.random() < 0.5
        prog = gen_prog(rng)
        raises = prog is not None and any(a[0] == "raise" for _, a in prog)
        yield {"nodes": nodes, "root": root, "visit": prog,
               "reraise": rng.choice([None, True, False, False, False] if raises else [None, None, True, False]),
               "query": ["true"] if rng.random() < 0.35 else gen_pred(rng), "dc": rng.random() < 0.3,
               "dotted": dotted, "hooks": rng.random() < 0.4, "style": rng.randrange(36),
               "qraise": gen_pred(rng, 1) if rng.random() < 0.2 else None,
               "qreraise": rng.choice([None, None, False, True]),
               "probes": gen_probes(rng, nodes, root, rng.randint(0, 4), dotted)}


# --------------------------------------------------------------------------
def corrupt(case, obs):
    if "deep" in case:
        if obs["out"][0] != "ok":
            return None
        bad = copy.deepcopy(obs)
        bad["out"][1][1] += 1                  # one more repetition of the pattern than there is
        return bad
    """A wrong observation for the canary: one leaf of the output replaced by an unused token,
    or (no leaf) the root's kind changed."""
    if obs["out"][0] != "ok":
        return None
    bad = copy.deepcopy(obs)

    def first_leaf(o):
        if o[0] == "L":
            o[1] = NTOK + 5
            return True
        if o[0] == "N":
            for _, c in o[3]:
                if first_leaf(c):
                    return True
        return False
    if first_leaf(bad["out"][1]):
        return bad
    o = bad["out"][1]
    if o[0] == "N":
        o[2] = "list" if o[2] != "list" else "tuple"
        return bad
    return None


def _stats(o, st, depth=1):
    if o[0] == "N":
        st["containers"] += 1
        st["depth"] = max(st["depth"], depth)
        st["kinds"].add(o[2])
        for _, c in o[3]:
            _stats(c, st, depth + 1)
    elif o[0] == "R":
        st["refs"] += 1


def nontrivial(case, obs):
    if "deep" in case:
        return True
    st = {"containers": 0, "depth": 0, "refs": 0, "kinds": set()}
    _stats(obs["in"], st)
    return st["containers"] >= 3 and (st["refs"] > 0 or (case["visit"] is not None and len(obs["calls"]) > 0))


def distribution(d, case, obs):
    if "deep" in case:
        d.setdefault("deep_chains", {})
        k = "%d levels, %s" % (len(case["deep"]["pat"]) * case["deep"]["reps"], case["deep"]["visit"][0])
        d["deep_chains"][k] = d["deep_chains"].get(k, 0) + 1
        return
    st = {"containers": 0, "depth": 0, "refs": 0, "kinds": set()}
    _stats(obs["in"], st)

    def bump(k, sub):
        d.setdefault(k, {})
        d[k][str(sub)] = d[k].get(str(sub), 0) + 1
    bump("containers", min(st["containers"], 13))
    bump("depth", st["depth"])
    bump("shared_or_cyclic_refs", min(st["refs"], 4))
    for k in sorted(st["kinds"]):
        bump("kinds", k)
    bump("visit", "default" if case["visit"] is None else "rules=%d" % len(case["visit"]))
    bump("remap_outcome", obs["out"][0] if obs["out"][0] == "ok" else obs["out"][1])
    bump("visit_calls", min(len(obs["calls"]), 30) // 5 * 5)
    ents = obs["research"][1] if obs["research"][0] == "ok" else []
    bump("research_entries", min(len(ents), 30) // 5 * 5)
    bump("unretrievable_entries", min(sum(1 for e in ents if e[2][0] != "ok"), 5))


def extra_evidence(results):
    """counts for the evidence file: how much of each observation kind this run contained"""
    deep = [r for r in results if "deep" in r["case"]]
    ok = [r for r in results if not r.get("abnormal") and "deep" not in r["case"]]
    probes = sum(len(r["obs"].get("probes", [])) for r in ok)
    return {
        "spec_validation": {"what": "Spec.spec_remap (default visit) compared with copy.deepcopy(root) in Coq (folded into agree)",
                            "cases": sum(1 for r in ok if "deepcopy" in r["obs"])},
        "enter_exit_hook_cases": sum(1 for r in ok if "hooks" in r["obs"]),
        "visit_calls_observed": sum(len(r["obs"].get("calls", [])) for r in ok),
        "visit_calls_with_container_identity": sum(1 for r in ok for i in r["obs"].get("call_ids", []) if i is not None),
        "get_path_probes": probes,
        "research_entries": sum(len(r["obs"]["research"][1]) for r in ok if r["obs"].get("research", ["x"])[0] == "ok"),
        "visit_raised_and_propagated": sum(1 for r in ok if r["obs"].get("out", ["ok"])[0] == "raise" and r["obs"]["out"][1] == "VisitBoom"),
        "cases_inside_a_known_guard": sum(1 for r in results if r.get("known") and not r.get("holds")),
        "deep_chain_cases": sum(1 for r in ok if len(r["case"].get("nodes", [])) >= 16),
        "very_deep_cases": len(deep),
        "very_deep_max_levels": max([len(r["case"]["deep"]["pat"]) * r["case"]["deep"]["reps"] for r in deep] or [0]),
    }


def sample(case, obs):
    if "deep" in case:
        return {"deep": case["deep"], "obs": obs}
    return {"nodes": case["nodes"], "root": case["root"], "visit": case["visit"], "query": case["query"],
            "out": obs["out"], "calls": obs["calls"][:5],
            "research": obs["research"][1][:5] if obs["research"][0] == "ok" else obs["research"]}


def shrink(case):
    if "deep" in case:
        r = case["deep"]["reps"]
        for nr in (r // 2, r // 4, 400, 100, 10, 1):
            if 0 < nr < r:
                c = copy.deepcopy(case)
                c["deep"]["reps"] = nr
                yield c
        return
    """smaller cases: simpler program/query, a child removed, a node's children emptied"""
    if case["visit"]:
        for i in range(len(case["visit"])):
            c = copy.deepcopy(case)
            del c["visit"][i]
            yield c
    if case["visit"] is not None:
        c = copy.deepcopy(case)
        c["visit"] = None
        yield c
    if case["query"] != ["true"]:
        c = copy.deepcopy(case)
        c["query"] = ["true"]
        yield c
    for i, nd in enumerate(case["nodes"]):
        for j in range(len(nd["c"])):
            c = copy.deepcopy(case)
            del c["nodes"][i]["c"][j]
            yield c
        for j in range(len(nd["c"])):
            ref = nd["c"][j][1] if nd["k"] == "dict" else nd["c"][j]
            if ref[0] == "N":
                c = copy.deepcopy(case)
                if nd["k"] == "dict":
                    c["nodes"][i]["c"][j][1] = ["L", 5]
                else:
                    c["nodes"][i]["c"][j] = ["L", 5]
                yield c
