"""C17 OneToOne / ManyToMany / FrozenDict: plug-in.

Python only moves data: it runs the histories on boltons, records what the
public API returns (ordered item lists, exception types, identities), and
renders case + observation as a Coq term; Coq (Check/C17_Check.v) decides
agree / holds.  Tokens (small nats) stand for varied, pairwise != hashable
python objects; tokens >= 900 stand for unhashable values (FrozenDict only);
tokens 50.. are "junk" written into argument containers AFTER a call to expose
aliasing (they must never show up in any view)."""
import copy as _copy

ID = "C17"
IMPORTS = ("From Boltons Require Import Lib.Prelude Model.C17_Model Spec.C17_Spec Check.C17_Check.\n"
           "Open Scope nat_scope.")
CASE_TYPE = "c17_case"
VERDICT = "c17_verdict"
EXPLAIN = "c17_explain"
CASES_PER_FILE = 120
CASE_FILE_BYTES = 140000
TIERS = {"quick": {"n": 1500}, "thorough": {"n": 24000, "exhaustive": True}}
RULE = ("three families of histories. oto: up to 3 OneToOne instances built from pairs (dict/pairs/generator/iterator/"
        "kwargs/positional+kwargs sharing keys/non-dict mapping, .unique, .fromkeys), copied (.copy(), OneToOne(x), copy.copy), mutated through either side by "
        "[]=, del, pop, popitem, clear, setdefault, update, |=, update-from-another-instance, in 30 % of the histories also "
        "with unhashable operands (TypeError, nothing written); tokens rendered as equal-but-not-identical objects in "
        "rotation, instances of trivial user subclasses mixed in; every instance's "
        "list(items()), list(inv.items()) and inv.inv identity observed after EVERY step. m2m: same for ManyToMany "
        "(add/remove/[]=/del/replace/update/update(other)/ManyToMany(other)/==) with canonical sorted views read "
        "alternately through keys()+[] and keys()+iteritems(). fd: a FrozenDict, every mutator, hash (repeated), "
        "updated/copy/pickle/deepcopy, a pickle loaded in a fresh interpreter with another hash seed, and a second FrozenDict with the same items inserted in another order (or a "
        "perturbed one). non-trivial = oto: an op through .inv and an eviction-capable write on a non-empty instance; "
        "m2m: an op through .inv and an entry that disappeared; fd: >= 2 items and a twin; distinct = canonical hash")
ASSUMPTIONS = ["keys/values are hashable with lawful __eq__/__hash__ (tokens mapped to pairwise != python objects)",
               "CPython >= 3.7 dict preserves insertion order",
               "hash of a (key, value) tuple is an oracle supplied by the run; frozenset's hash is CPython 3.12's "
               "frozenset_hash (modelled, proved order-independent)"]
TRUSTED = ["Model/C17_Model.v is hand-written; tied to boltons.dictutils.OneToOne/ManyToMany/FrozenDict by the "
           "correspondence run (ordered views after every step)",
           "harness/c17.py serialiser and token <-> object mapping",
           "instance independence (no aliasing) is outside the pure model: it is checked on the code by observing "
           "every instance after every step and by writing junk into argument containers after each call"]

def translators(repo):
    """(T): table of dict's callable attributes vs FrozenDict, regenerated from the source (fail closed)."""
    import os
    import sys
    here = os.path.join(os.path.dirname(os.path.abspath(__file__)), "translators")
    if here not in sys.path:
        sys.path.insert(0, here)
    import c17_frozen
    import c17_src
    return {"C17_Gen": c17_frozen.generate(repo),      # tables: dict mutators vs FrozenDict / OneToOne
            "C17_Src": c17_src.generate(repo)}         # OneToOne method bodies transcribed into Gallina


# --------------------------------------------------------------------------
# tokens
# --------------------------------------------------------------------------
OBJ = ['a', 1, (1, 2), None, 'b', 2.5, frozenset([7]), 'k7', -3, 'c', (), b'y', 'd', 99, ('t', None), 'e', Ellipsis]
FD_TOK = 16      # rendered as a FrozenDict (built lazily, in two insertion orders): its order-free __hash__ / == are
                 # then exercised as a KEY of the other structures and as a nested value
IDENT = [i for i, o in enumerate(OBJ) if isinstance(o, str)]     # usable as **kwargs names
NONE_TOK = 3
JUNK = 50


# equal-but-not-identical renderings of some tokens (1 == 1.0 == True, fresh str / tuple objects): the model
# identifies a token with its equality class, so code that compares with `is` or relies on the type is exposed
ALT = {1: [1, 1.0, True], 8: [-3, -3.0], 13: [99, 99.0], 2: [(1, 2), (1.0, 2), (True, 2.0)], 5: [2.5],
       14: [('t', None)], 10: [()]}
_variant = [0]


def obj(t):
    if t >= 900:
        return [t - 900]
    if t >= JUNK:
        return "junk%d" % t
    _variant[0] += 1
    if t == FD_TOK:
        from boltons.dictutils import FrozenDict
        pairs = [('n', 1), (2, None), ((), 'z')]
        return FrozenDict(pairs if _variant[0] % 2 else pairs[::-1])
    if t in ALT:
        alts = ALT[t]
        return alts[_variant[0] % len(alts)]
    o = OBJ[t]
    if isinstance(o, str) and _variant[0] % 2:
        return "".join(list(o))          # an equal str object that is not the interned literal
    return o


_INV = None


def tok(o):
    global _INV
    if _INV is None:
        _INV = {}
        for i, x in enumerate(OBJ):
            _INV[x] = i
        saved = _variant[0]
        _INV[obj(FD_TOK)] = FD_TOK
        _variant[0] = saved
        for i in range(JUNK, JUNK + 20):
            _INV["junk%d" % i] = i
    if isinstance(o, list):
        assert len(o) == 1
        return 900 + o[0]
    return _INV[o]


# --------------------------------------------------------------------------
# user subclasses (the statement speaks of the types, not of exact classes): the model identifies an
# instance of a subclass with an instance of the base class holding the same items, so == / hash / copies /
# updated() / fromkeys / pickle must not depend on the concrete class
# --------------------------------------------------------------------------
_CLS = {}


def classes():
    """-> dict of the three base classes and a trivial subclass of each (module-level names, so pickle finds them)"""
    if not _CLS:
        from boltons.dictutils import OneToOne, ManyToMany, FrozenDict
        g = globals()
        for base, name in ((OneToOne, "SubOneToOne"), (ManyToMany, "SubManyToMany"), (FrozenDict, "SubFrozenDict")):
            sub = type(name, (base,), {"__module__": __name__, "__slots__": ()} if base is not ManyToMany
                       else {"__module__": __name__})
            g[name] = sub
            _CLS[base.__name__] = (base, sub)
    return _CLS


def pick_cls(basename, sub):
    return classes()[basename][1 if sub else 0]


# --------------------------------------------------------------------------
# argument forms
# --------------------------------------------------------------------------
class _Mapping:
    """a mapping that is not a dict: keys() + __getitem__ (+ iteration over keys)"""
    def __init__(self, pairs):
        self._d = dict(pairs)

    def keys(self):
        return self._d.keys()

    def __getitem__(self, k):
        return self._d[k]

    def __iter__(self):
        return iter(self._d)

    def __len__(self):
        return len(self._d)


UNIQUE_KEY_FORMS = ("dict", "kwargs", "mapping", "userdict", "proxy")


def make_arg(form, pairs):
    """-> (args, kwargs, cleanup) for a call taking (mapping-or-iterable, **kw).
    cleanup() scribbles over the argument container afterwards."""
    ps = [(obj(k), obj(v)) for k, v in pairs]
    if form == "dict":
        d = dict(ps)
        return (d,), {}, lambda: (d.clear(), d.update({obj(JUNK): obj(JUNK + 1)}))
    if form == "pairs":
        l = list(ps)
        return (l,), {}, lambda: (l.clear(), l.append((obj(JUNK), obj(JUNK + 1))))
    if form == "lists":
        l = [list(p) for p in ps]
        return (l,), {}, lambda: [p.__setitem__(1, obj(JUNK)) for p in l]
    if form == "tuple":
        return (tuple(ps),), {}, lambda: None
    if form == "gen":
        return ((p for p in ps),), {}, lambda: None
    if form == "iter":
        return (iter(list(ps)),), {}, lambda: None
    if form == "kwargs":
        return ((),), dict(ps), lambda: None
    if form == "dict+kw":
        h = len(ps) // 2
        d = dict(ps[:h])
        return (d,), dict(ps[h:]), lambda: d.clear()
    if form == "pairs+kw":
        h = len(ps) // 2
        l = list(ps[:h])
        return (l,), dict(ps[h:]), lambda: l.clear()
    if form == "mapping":
        m = _Mapping(ps)
        return (m,), {}, lambda: m._d.clear()
    if form == "userdict":
        import collections
        u = collections.UserDict(ps)
        return (u,), {}, lambda: u.data.clear()
    if form == "proxy":
        import types
        d = dict(ps)
        return (types.MappingProxyType(d),), {}, lambda: d.clear()
    raise ValueError(form)


def form_ok(form, pairs):
    keys = [k for k, _ in pairs]
    if form in ("dict+kw", "pairs+kw"):
        # a positional source AND keyword arguments; the two may SHARE keys (dict.update order: positional
        # first, keywords last).  Each half must be representable: dict / kwargs need distinct keys.
        h = len(keys) // 2
        first, second = keys[:h], keys[h:]
        if len(set(second)) != len(second) or not all(k in IDENT for k in second):
            return False
        if form == "dict+kw" and (len(set(first)) != len(first) or any(k >= 900 for k in first)):
            return False
        return True
    if form in UNIQUE_KEY_FORMS and (len(set(keys)) != len(keys) or any(k >= 900 for k in keys)):
        return False
    if form == "kwargs" and not all(k in IDENT for k in keys):
        return False
    return True


# --------------------------------------------------------------------------
# generation
# --------------------------------------------------------------------------
OTO_FORMS = ["dict", "pairs", "lists", "tuple", "gen", "iter", "kwargs", "dict+kw", "mapping", "userdict", "proxy"]
M2M_PAIR_FORMS = ["pairs", "lists", "tuple", "gen", "iter", "dict", "mapping"]
SET_FORMS = ["list", "set", "tuple", "iter", "frozenset"]


def _pairs(rng, toks, lo, hi):
    return [[rng.choice(toks), rng.choice(toks)] for _ in range(rng.randint(lo, hi))]


def _kw_pairs(rng, toks, lo, hi, unhash=False):
    """pairs whose keys are distinct identifier strings, so that the kwargs forms apply"""
    keys = rng.sample(IDENT, min(len(IDENT), rng.randint(max(lo, 1), max(hi, 1))))
    out = []
    for k in keys:
        v = rng.choice(toks)
        if unhash and rng.random() < 0.3:
            v = 900 + rng.randrange(3)
        out.append([k, v])
    return out


def _poskw_pairs(rng, toks, unhash=False):
    """-> (pairs, form): a positional half and a keyword half that usually SHARE a key (and, with few tokens,
    values): first half = positional dict / list of pairs (the list may repeat a key), second half = kwargs"""
    n1 = rng.randint(1, 3)
    n2 = n1 + rng.randint(0, 1)
    form = rng.choice(["dict+kw", "pairs+kw"])
    k1 = rng.sample(IDENT, n1)
    if form == "pairs+kw" and n1 >= 2 and rng.random() < 0.5:
        k1[-1] = k1[0]                                   # a repeated key inside the positional pairs
    pool = list(dict.fromkeys(k1)) + [k for k in IDENT if k not in k1]
    k2 = []
    for k in (pool if rng.random() < 0.75 else pool[::-1]):      # usually start with keys of the positional half
        if len(k2) < n2:
            k2.append(k)
    rng.shuffle(k2)

    def val():
        return 900 + rng.randrange(3) if unhash and rng.random() < 0.2 else rng.choice(toks)
    return [[k, val()] for k in k1 + k2], form


def _pick_form(rng, forms, pairs):
    for _ in range(6):
        f = rng.choice(forms)
        if form_ok(f, pairs):
            return f
    return "pairs"


def _creates(pairs):
    """does OneToOne.unique(pairs) return an instance (input bookkeeping for index validity only)"""
    d = {}
    for k, v in pairs:
        d[k] = v
    return len(set(d.values())) == len(d)


def _unh(x):
    """does this operand (token, list of tokens/pairs) mention an unhashable token"""
    if isinstance(x, int) and not isinstance(x, bool):
        return x >= 900
    if isinstance(x, list):
        return any(_unh(y) for y in x)
    return False


def _new_rejects(pairs):
    """OneToOne(pairs) raises TypeError: an unhashable key, or an unhashable value that survives in dict(pairs)
    (input bookkeeping for index validity only)"""
    d = {}
    for k, v in pairs:
        d[k] = v
    return any(k >= 900 for k, _ in pairs) or any(v >= 900 for v in d.values())


def oto_op_has_unhashable(op):
    if op[0] == "new":
        return _unh(op[3])
    if op[0] == "op":
        return any(_unh(a) for a in op[4:])
    if op[0] == "fromkeys":
        return _unh(op[1]) or _unh(op[2])
    return False


def gen_oto(rng, tier):
    ntok = rng.choice([3, 4, 4, 5, 6, 8])
    toks = rng.sample(range(len(OBJ)), ntok)
    if rng.random() < 0.5 and NONE_TOK not in toks:
        toks[0] = NONE_TOK
    ops = []
    p = _pairs(rng, toks, 0, 4)
    def CL():
        return ["sub"] if rng.random() < 0.3 else []
    ops.append(["new", rng.random() < 0.15 and _creates(p), _pick_form(rng, OTO_FORMS, p), p] + CL())
    ninst = 1
    nops = rng.randint(2, 14 if tier == "quick" else 30)
    # three in ten histories also hand unhashable objects (lists) to the operations: TypeError, nothing written
    punh = 0.14 if rng.random() < 0.3 else 0.0

    def U(t):
        return 900 + rng.randrange(3) if punh and rng.random() < punh else t

    def Up(ps):
        return [[U(k), U(v)] for k, v in ps]
    for _ in range(nops):
        r = rng.random()
        i = rng.randrange(ninst)
        s = int(rng.random() < 0.45)
        if r < 0.06 and ninst < 3:
            uniq = rng.random() < 0.3
            if rng.random() < 0.3:
                p, f = _poskw_pairs(rng, toks)
                ops.append(["new", uniq, f, p] + CL())
            else:
                p = Up(_pairs(rng, toks, 0, 4))
                ops.append(["new", uniq, _pick_form(rng, OTO_FORMS, p), p] + CL())
            if not _new_rejects(p) and (not uniq or _creates(p)):     # a constructor that raises creates nothing
                ninst += 1
        elif r < 0.13 and ninst < 3:
            ops.append(["copy", rng.choice(["copy", "ctor", "ctor_other", "copycopy", "deepcopy"]), i, s])
            ninst += 1
        elif r < 0.16 and ninst < 3:
            keys = [U(rng.choice(toks)) for _ in range(rng.randint(0, 4))]
            if len(keys) >= 2 and rng.random() < 0.4:
                keys.append(keys[0])          # a repeated key: the LAST write decides who keeps the value
            v = U(rng.choice(toks))
            ops.append(["fromkeys", keys, v, rng.choice(["list", "tuple", "iter", "gen"])] + CL())
            if not (keys and (_unh(keys) or _unh(v))):
                ninst += 1
        elif r < 0.24 and ninst >= 1:
            ops.append(["updfrom", rng.random() < 0.4, i, s, rng.randrange(ninst), int(rng.random() < 0.5)])
        elif r < 0.28:
            ops.append(["eq", i, s, rng.randrange(ninst), int(rng.random() < 0.5)])
        else:
            name = rng.choice(["set", "set", "set", "set", "del", "pop", "popd", "popitem", "clear", "setdefault",
                               "setdefault", "update", "update", "update", "ior", "get"])
            k, v = U(rng.choice(toks)), U(rng.choice(toks))
            if name in ("update", "ior"):
                if name == "update" and rng.random() < 0.2:
                    p, f = _poskw_pairs(rng, toks)       # positional source + keywords sharing keys
                    ops.append(["op", i, s, name, [[a, U(b)] for a, b in p], f])
                elif rng.random() < 0.2:
                    p = [[a, U(b)] for a, b in _kw_pairs(rng, toks, 1, 3)]
                    ops.append(["op", i, s, name, p, rng.choice(["kwargs", "dict+kw"])])
                else:
                    p = Up(_pairs(rng, toks, 0, 4))
                    f = _pick_form(rng, OTO_FORMS, p)
                    if name == "ior" and f == "dict+kw" and len({k for k, _ in p}) != len(p):
                        f = "pairs"      # |= takes ONE operand: a merged dict would not be the sequence of writes
                    ops.append(["op", i, s, name, p, f])
            elif name in ("set", "setdefault", "popd"):
                ops.append(["op", i, s, name, k, v])
            elif name in ("popitem", "clear"):
                ops.append(["op", i, s, name])
            else:
                ops.append(["op", i, s, name, k])
    return {"kind": "oto", "ops": ops}


def gen_m2m(rng, tier):
    ntok = rng.choice([3, 4, 4, 5, 6])
    toks = rng.sample(range(len(OBJ)), ntok)
    ops = []
    p = _pairs(rng, toks, 0, 5)
    ops.append(["new", _pick_form(rng, M2M_PAIR_FORMS + ["none"], p), p])
    ninst = 1
    nops = rng.randint(2, 12 if tier == "quick" else 28)
    for _ in range(nops):
        r = rng.random()
        i = rng.randrange(ninst)
        s = int(rng.random() < 0.45)
        if r < 0.06 and ninst < 3:
            p = _pairs(rng, toks, 0, 4)
            ops.append(["new", _pick_form(rng, M2M_PAIR_FORMS + ["none"], p), p])
            ninst += 1
        elif r < 0.13 and ninst < 3:
            ops.append(["newfrom", i, s, rng.choice(["ctor", "ctor", "deepcopy", "pickle0", "pickle2", "pickle5"])])
            ninst += 1
        elif r < 0.25:
            ops.append(["updfrom", i, s, rng.randrange(ninst), int(rng.random() < 0.5)])
        elif r < 0.32:
            ops.append(["eq", i, s, rng.randrange(ninst), int(rng.random() < 0.5)])
        else:
            name = rng.choice(["add", "add", "add", "remove", "remove", "setitem", "setitem", "delitem", "replace",
                               "replace", "update", "get", "getd", "contains"])
            k, v = rng.choice(toks), rng.choice(toks)
            if name in ("add", "remove", "replace"):
                ops.append(["op", i, s, name, k, v])
            elif name == "setitem":
                ops.append(["op", i, s, name, k, [rng.choice(toks) for _ in range(rng.randint(0, 4))],
                            rng.choice(SET_FORMS)])
            elif name == "update":
                p = _pairs(rng, toks, 0, 4)
                ops.append(["op", i, s, name, p, _pick_form(rng, M2M_PAIR_FORMS, p)])
            else:
                ops.append(["op", i, s, name, k])
    return {"kind": "m2m", "ops": ops, "sub": rng.random() < 0.3}


FD_FORMS = ["dict", "pairs", "tuple", "gen", "iter", "kwargs", "dict+kw"]


def _fd_pairs(rng, toks, lo, hi, unhash):
    ps = []
    for _ in range(rng.randint(lo, hi)):
        v = rng.choice(toks)
        if unhash and rng.random() < 0.3:
            v = 900 + rng.randrange(3)
        ps.append([rng.choice(toks), v])
    return ps


def gen_fd(rng, tier):
    ntok = rng.choice([3, 4, 5, 6, 8])
    toks = rng.sample(range(len(OBJ)), ntok)
    unhash = rng.random() < 0.2
    kvs = _fd_pairs(rng, toks, 0, 6, unhash)
    ops = []
    for _ in range(rng.randint(1, 8 if tier == "quick" else 16)):
        name = rng.choice(["setitem", "delitem", "update", "ior", "setdefault", "pop", "popd", "popitem", "clear",
                           "hash", "hash", "get", "updated", "updated", "copy", "clone"])
        k, v = rng.choice(toks), rng.choice(toks)
        if name in ("update", "ior", "updated"):
            if name != "ior" and rng.random() < 0.3:
                p, f = _poskw_pairs(rng, toks, unhash and name == "updated")
                ops.append([name, p, f])
            elif rng.random() < 0.3:
                p = _kw_pairs(rng, toks, 1, 3, unhash and name == "updated")
                ops.append([name, p, rng.choice(["kwargs", "dict+kw"])])
            else:
                p = _fd_pairs(rng, toks, 0, 3, unhash and name == "updated")
                ops.append([name, p, _pick_form(rng, FD_FORMS, p)])
        elif name in ("setitem", "setdefault", "popd"):
            ops.append([name, k, v])
        elif name in ("delitem", "pop", "get"):
            ops.append([name, k])
        elif name == "clone":
            ops.append([name, rng.choice(["pickle0", "pickle2", "pickle5", "deepcopy", "dictcopy", "ctor", "ctor_other"])])
        else:
            ops.append([name])
    ops.insert(rng.randint(0, len(ops)), ["hash"])
    if rng.random() < 0.3:
        # a pickle taken here and loaded in ANOTHER process (another hash seed), usually AFTER hash() was taken
        x = ["xproc", rng.choice([0, 1, 2, 3, 4, 5]), rng.randint(1, 4000000000)]
        if rng.random() < 0.8:
            hs = [i for i, o in enumerate(ops) if o[0] == "hash"]
            ops.insert(rng.randint(hs[0] + 1, len(ops)), x)
        else:
            ops.insert(rng.randint(0, len(ops)), x)
    # the twin: same items in another insertion order, sometimes perturbed
    d = {}
    for k, v in kvs:
        d[k] = v
    items = [[k, v] for k, v in d.items()]
    rng.shuffle(items)
    r = rng.random()
    if r < 0.12 and items:
        items[rng.randrange(len(items))][1] = rng.choice(toks)
    elif r < 0.2 and items:
        items.pop()
    elif r < 0.28:
        items.append([rng.choice(toks), rng.choice(toks)])
    if rng.random() < 0.12:           # FrozenDict.fromkeys: one value for every key
        v0 = rng.choice(toks)
        kvs = [[k, v0] for k, _ in kvs]
        ctor = "fromkeys"
        d = {}
        for k, v in kvs:
            d[k] = v
        items = [[k, v] for k, v in d.items()]
        rng.shuffle(items)
    elif rng.random() < 0.15:         # FrozenDict(positional, **kw) with shared keys: the keyword value wins
        kvs, ctor = _poskw_pairs(rng, toks, unhash)
        d = {}
        for k, v in kvs:
            d[k] = v
        items = [[k, v] for k, v in d.items()]
        rng.shuffle(items)
    else:
        ctor = _pick_form(rng, FD_FORMS, kvs)
    return {"kind": "fd", "cls": rng.choice(["base", "base", "sub"]), "cls2": rng.choice(["base", "base", "sub"]),
            "kvs": kvs, "ctor": ctor, "ops": ops,
            "kvs2": items, "ctor2": _pick_form(rng, FD_FORMS, items)}


def grid():
    """exhaustive small scope (thorough tier): two tokens, every history of at most 2 operations through
    either side after each of 4 initial contents, for OneToOne and ManyToMany"""
    T = [0, 4]          # 'a', 'b' (also valid kwargs names)
    oto_ops = []
    for s in (0, 1):
        for k in T:
            oto_ops += [["op", 0, s, "del", k], ["op", 0, s, "pop", k]]
            for v in T:
                oto_ops += [["op", 0, s, "set", k, v], ["op", 0, s, "setdefault", k, v],
                            ["op", 0, s, "update", [[k, v]], "iter"], ["op", 0, s, "ior", [[k, v]], "dict"]]
        oto_ops += [["op", 0, s, "popitem"], ["op", 0, s, "clear"],
                    # unhashable operands: refused before anything is written, update all-or-nothing
                    ["op", 0, s, "set", 0, 900], ["op", 0, s, "setdefault", 4, 900],
                    ["op", 0, s, "update", [[4, 0], [0, 900]], "pairs"]]
    for init in ([], [[0, 0]], [[0, 4]], [[0, 4], [4, 0]]):
        first = ["new", False, "pairs", init]
        for a in oto_ops:
            yield {"kind": "oto", "ops": [first, a]}
            for b in oto_ops:
                yield {"kind": "oto", "ops": [first, a, b]}
    m_ops = []
    for s in (0, 1):
        for k in T:
            m_ops += [["op", 0, s, "delitem", k]]
            for v in T:
                m_ops += [["op", 0, s, "add", k, v], ["op", 0, s, "remove", k, v], ["op", 0, s, "replace", k, v],
                          ["op", 0, s, "update", [[k, v]], "gen"]]
            for vals in ([], [0], [4], [0, 4]):
                m_ops += [["op", 0, s, "setitem", k, vals, "set"]]
    m_ops += [["eq", 0, 0, 0, 1]]
    for init in ([], [[0, 4]], [[0, 0], [0, 4]], [[0, 4], [4, 4]]):
        first = ["new", "pairs", init]
        for a in m_ops:
            yield {"kind": "m2m", "ops": [first, a]}
            for b in m_ops:
                yield {"kind": "m2m", "ops": [first, a, b]}


def generate(rng, tier, n):
    if tier == "thorough" and TIERS["thorough"].get("exhaustive"):
        for c in grid():
            yield c
    for i in range(n):
        r = rng.random()
        if r < 0.42:
            yield gen_oto(rng, tier)
        elif r < 0.80:
            yield gen_m2m(rng, tier)
        else:
            yield gen_fd(rng, tier)


# --------------------------------------------------------------------------
# running the implementation
# --------------------------------------------------------------------------
def _res_ok(v):
    return ["ok", v]


def _val(v):
    """a returned key/value object -> ["tok", t]"""
    return ["tok", tok(v)]


def _oto_views(insts):
    out = []
    for o in insts:
        out.append([[[tok(k), tok(v)] for k, v in list(o.items())],
                    [[tok(k), tok(v)] for k, v in list(o.inv.items())],
                    bool(o.inv.inv is o and o.inv.inv.inv is o.inv)])
    return out


def run_oto(case):
    from boltons.dictutils import OneToOne
    insts, obs = [], []
    for op in case["ops"]:
        res = _res_ok(["none"])
        try:
            if op[0] == "new":
                a, kw, cleanup = make_arg(op[2], op[3])
                if op[2] == "kwargs":
                    a = ()
                C = pick_cls("OneToOne", len(op) > 4 and op[4] == "sub")
                o = C.unique(*a, **kw) if op[1] else C(*a, **kw)
                cleanup()
                assert type(o) is C and type(o.inv) is C
                insts.append(o)
            elif op[0] == "fromkeys":
                ks = [obj(k) for k in op[1]]
                arg = {"list": list, "tuple": tuple, "iter": iter, "gen": lambda l: (k for k in l)}[op[3]](ks)
                C = pick_cls("OneToOne", len(op) > 4 and op[4] == "sub")
                if op[2] == NONE_TOK and len(op[1]) % 2:
                    o = C.fromkeys(arg)
                else:
                    o = C.fromkeys(arg, obj(op[2]))
                assert type(o) is C and type(o.inv) is C
                insts.append(o)
            elif op[0] == "copy":
                x = insts[op[2]].inv if op[3] else insts[op[2]]
                if op[1] == "copy":
                    c = x.copy()
                elif op[1] == "ctor":
                    c = type(x)(x)
                elif op[1] == "ctor_other":          # the other class (base <-> subclass) built from x
                    base, sub = classes()["OneToOne"]
                    c = (base if type(x) is sub else sub)(x)
                elif op[1] == "deepcopy":
                    c = _copy.deepcopy(x)
                else:
                    c = _copy.copy(x)
                assert (type(c) is not type(x)) == (op[1] == "ctor_other") and type(c.inv) is type(c)
                insts.append(c)
            elif op[0] == "eq":
                x = insts[op[1]].inv if op[2] else insts[op[1]]
                y = insts[op[3]].inv if op[4] else insts[op[3]]
                r = (x == y)
                # the inherited dict.__eq__ must say the same against plain-dict copies, either way round
                assert isinstance(r, bool) and (x != y) == (not r) and (y == x) == r
                assert (x == dict(y)) == r and (dict(x) == y) == r
                res = _res_ok(["bool", r])
            elif op[0] == "updfrom":
                x = insts[op[2]].inv if op[3] else insts[op[2]]
                y = insts[op[4]].inv if op[5] else insts[op[4]]
                if op[1]:
                    import operator
                    r = operator.ior(x, y)
                    res = _res_ok(["self"] if r is x else ["other"])
                else:
                    r = x.update(y)
                    assert r is None
            else:
                x = insts[op[1]].inv if op[2] else insts[op[1]]
                name = op[3]
                if name == "set":
                    x[obj(op[4])] = obj(op[5])
                elif name == "del":
                    del x[obj(op[4])]
                elif name == "pop":
                    res = _res_ok(_val(x.pop(obj(op[4]))))
                elif name == "popd":
                    if (op[4] + op[5]) % 2:        # the default given by keyword / positionally, in rotation
                        res = _res_ok(_val(x.pop(obj(op[4]), default=obj(op[5]))))
                    else:
                        res = _res_ok(_val(x.pop(obj(op[4]), obj(op[5]))))
                elif name == "popitem":
                    k, v = x.popitem()
                    res = _res_ok(["pair", tok(k), tok(v)])
                elif name == "clear":
                    assert x.clear() is None
                elif name == "setdefault":
                    if op[5] == NONE_TOK and (len(case["ops"]) + op[4]) % 2:
                        res = _res_ok(_val(x.setdefault(obj(op[4]))))
                    else:
                        if (op[4] + op[5]) % 2:
                            res = _res_ok(_val(x.setdefault(obj(op[4]), default=obj(op[5]))))
                        else:
                            res = _res_ok(_val(x.setdefault(obj(op[4]), obj(op[5]))))
                elif name == "get":
                    res = _res_ok(_val(x[obj(op[4])]))
                elif name in ("update", "ior"):
                    a, kw, cleanup = make_arg(op[5], op[4])
                    if name == "update":
                        assert x.update(*a, **kw) is None
                    else:
                        import operator
                        if kw:
                            # |= takes one operand: fold the keywords into a dict operand
                            a = (dict(list(dict(a[0]).items()) + list(kw.items())),)
                        r = operator.ior(x, a[0])
                        res = _res_ok(["self"] if r is x else ["other"])
                    cleanup()
                else:
                    raise ValueError(name)
        except KeyError:
            res = ["raise", "KeyError"]
        except ValueError:
            if not (op[0] == "new" and op[1]):
                raise
            res = ["raise", "ValueError"]
        except TypeError:
            if not oto_op_has_unhashable(op):      # only an unhashable operand may be refused
                raise
            res = ["raise", "TypeError"]
        obs.append([res, _oto_views(insts)])
    return obs


def _m2m_side_view(x, via):
    keys = list(x.keys())
    assert len(x) == len(keys) and list(iter(x)) == keys
    if via:
        items = list(x.iteritems())
        return sorted([tok(k), sorted(tok(v) for kk, v in items if kk == k)] for k in keys) + \
            sorted([tok(kk), ["orphan", tok(v)]] for kk, v in items if kk not in keys)
    return sorted([tok(k), sorted(tok(v) for v in x[k])] for k in keys)


def _m2m_views(insts, via):
    return [[_m2m_side_view(m, via), _m2m_side_view(m.inv, via), bool(m.inv.inv is m)] for m in insts]


def _set_arg(form, vals):
    vs = [obj(v) for v in vals]
    if form == "list":
        l = list(vs)
        return l, lambda: l.append(obj(JUNK))
    if form == "set":
        s = set(vs)
        return s, lambda: s.add(obj(JUNK))
    if form == "tuple":
        return tuple(vs), lambda: None
    if form == "iter":
        return iter(list(vs)), lambda: None
    return frozenset(vs), lambda: None


def run_m2m(case):
    from boltons.dictutils import ManyToMany
    insts, obs = [], []
    for n, op in enumerate(case["ops"]):
        res = _res_ok(["none"])
        try:
            if op[0] == "new":
                M = pick_cls("ManyToMany", bool(case.get("sub")))     # one class per history, see notes
                if op[1] == "none":
                    m = M() if not op[2] else M([(obj(k), obj(v)) for k, v in op[2]])
                else:
                    a, kw, cleanup = make_arg(op[1], op[2])
                    m = M(items=a[0]) if len(op[2]) % 2 else M(a[0])
                    cleanup()
                assert type(m.inv) is M
                insts.append(m)
            elif op[0] == "newfrom":
                x = insts[op[1]].inv if op[2] else insts[op[1]]
                how = op[3] if len(op) > 3 else "ctor"
                if how == "ctor":
                    c = type(x)(x)
                elif how == "deepcopy":
                    c = _copy.deepcopy(x)
                else:
                    import pickle
                    c = pickle.loads(pickle.dumps(x, int(how[6:])))
                assert type(c) is type(x) and type(c.inv) is type(x) and c is not x and c.inv is not x.inv
                insts.append(c)
            elif op[0] == "updfrom":
                x = insts[op[1]].inv if op[2] else insts[op[1]]
                y = insts[op[3]].inv if op[4] else insts[op[3]]
                assert x.update(y) is None
            elif op[0] == "eq":
                x = insts[op[1]].inv if op[2] else insts[op[1]]
                y = insts[op[3]].inv if op[4] else insts[op[3]]
                r = (x == y)
                assert isinstance(r, bool) and (x != y) == (not r) and (y == x) == r
                res = _res_ok(["bool", r])
            else:
                x = insts[op[1]].inv if op[2] else insts[op[1]]
                name = op[3]
                if name == "add":
                    assert x.add(obj(op[4]), obj(op[5])) is None
                elif name == "remove":
                    assert x.remove(obj(op[4]), obj(op[5])) is None
                elif name == "replace":
                    assert x.replace(obj(op[4]), obj(op[5])) is None
                elif name == "setitem":
                    arg, cleanup = _set_arg(op[6], op[5])
                    x[obj(op[4])] = arg
                    cleanup()
                elif name == "delitem":
                    del x[obj(op[4])]
                elif name == "update":
                    a, kw, cleanup = make_arg(op[5], op[4])
                    assert x.update(a[0]) is None
                    cleanup()
                elif name == "get":
                    r = x[obj(op[4])]
                    assert isinstance(r, frozenset)
                    res = _res_ok(["set", sorted(tok(v) for v in r)])
                elif name == "getd":
                    r = x.get(obj(op[4]))
                    assert isinstance(r, frozenset)
                    res = _res_ok(["set", sorted(tok(v) for v in r)])
                elif name == "contains":
                    res = _res_ok(["bool", bool(obj(op[4]) in x)])
                else:
                    raise ValueError(name)
        except KeyError:
            res = ["raise", "KeyError"]
        obs.append([res, _m2m_views(insts, n % 2)])
    return obs


def _exn_name(e):
    return type(e).__name__


def _fd_new(form, pairs, sub=False):
    F = pick_cls("FrozenDict", sub)
    if form == "fromkeys":          # all values are the same token (or there are no pairs)
        f = F.fromkeys(iter([obj(k) for k, _ in pairs]), *([obj(pairs[0][1])] if pairs else []))
        assert type(f) is F
        return f
    a, kw, cleanup = make_arg(form, pairs)
    if form == "kwargs":
        a = ()
    f = F(*a, **kw)
    cleanup()
    assert type(f) is F
    return f


_XPROC = r"""
import sys, json, pickle
import c17
c17.classes()
from boltons.dictutils import FrozenDict, FrozenHashError
loaded = pickle.loads(bytes.fromhex(sys.stdin.read().strip()))
assert isinstance(loaded, FrozenDict)
rebuilt = type(loaded)(dict(loaded))            # same items, built in THIS process
def h(x):
    try:
        return ["ok", hash(x)]
    except FrozenHashError:
        return ["raise"]
h1, h2 = h(loaded), h(rebuilt)
member = None
if h1[0] == "ok" and h2[0] == "ok":
    member = bool(loaded in {rebuilt} and rebuilt in {loaded} and {loaded: 1}.get(rebuilt) == 1)
print(json.dumps([[[c17.tok(k), c17.tok(v)] for k, v in loaded.items()], h1 == h2,
                  bool(loaded == rebuilt and rebuilt == loaded and not (loaded != rebuilt)), member]))
"""


def _load_in_other_process(data, seed):
    """pickle.loads in a fresh interpreter started with ANOTHER hash seed (the workers run with PYTHONHASHSEED=0),
    importing boltons from the same tree; -> [items seen there, hash outcomes agree, ==, membership or None]"""
    import json as _json
    import os
    import subprocess
    import sys
    import boltons
    repo = os.path.dirname(os.path.dirname(os.path.abspath(boltons.__file__)))
    here = os.path.dirname(os.path.abspath(__file__))
    env = dict(os.environ, PYTHONHASHSEED=str(seed), PYTHONPATH=repo + os.pathsep + here)
    p = subprocess.run([sys.executable, "-c", _XPROC], input=data.hex(), capture_output=True, text=True, env=env, timeout=60)
    if p.returncode != 0:
        raise RuntimeError("loading the pickle in another process failed: " + p.stderr[-800:])
    return _json.loads(p.stdout.strip().splitlines()[-1])


def run_fd(case):
    import pickle
    import operator
    from boltons.dictutils import FrozenDict, FrozenHashError
    fd = _fd_new(case["ctor"], case["kvs"], case.get("cls") == "sub")

    def items(d):
        return [[tok(k), tok(v)] for k, v in list(d.items())]

    def hash_res(f):
        try:
            return ["ok", ["hash", hash(f)]]
        except FrozenHashError as e:
            assert type(e) is FrozenHashError
            return ["raise", "FrozenHashError"]

    def new_res(r):
        # hash() of the returned object is taken only when it is a FrozenDict (dict.copy gives a plain dict)
        h = hash_res(r) if isinstance(r, FrozenDict) else ["na"]
        returned.append(r)
        return ["ok", ["new", items(r), bool(r is fd), bool(r == fd and fd == r and not (r != fd)), h]]
    obs = []
    returned = []
    for op in case["ops"]:
        name = op[0]
        try:
            if name == "setitem":
                fd[obj(op[1])] = obj(op[2])
                res = ["ok", ["none"]]
            elif name == "delitem":
                del fd[obj(op[1])]
                res = ["ok", ["none"]]
            elif name in ("update", "ior"):
                a, kw, cleanup = make_arg(op[2], op[1])
                if name == "update":
                    if op[2] == "kwargs":
                        a = ()
                    fd.update(*a, **kw)
                else:
                    operator.ior(fd, a[0] if not kw else dict(kw))
                res = ["ok", ["none"]]
            elif name == "setdefault":
                res = ["ok", _val(fd.setdefault(obj(op[1]), obj(op[2])))]
            elif name == "pop":
                res = ["ok", _val(fd.pop(obj(op[1])))]
            elif name == "popd":
                res = ["ok", _val(fd.pop(obj(op[1]), obj(op[2])))]
            elif name == "popitem":
                fd.popitem()
                res = ["ok", ["none"]]
            elif name == "clear":
                fd.clear()
                res = ["ok", ["none"]]
            elif name == "hash":
                res = hash_res(fd)
            elif name == "get":
                res = ["ok", _val(fd[obj(op[1])])]
            elif name == "updated":
                a, kw, cleanup = make_arg(op[2], op[1])
                if op[2] == "kwargs":
                    a = ()
                r = fd.updated(*a, **kw)
                cleanup()
                assert type(r) is type(fd)
                res = new_res(r)
            elif name == "xproc":
                res = ["ok", ["x"] + _load_in_other_process(pickle.dumps(fd, op[1]), op[2])]
            elif name == "copy":
                res = new_res(_copy.copy(fd))
            elif name == "clone":
                how = op[1]
                if how.startswith("pickle"):
                    r = pickle.loads(pickle.dumps(fd, int(how[6:])))
                    assert type(r) is type(fd)
                elif how == "deepcopy":
                    r = _copy.deepcopy(fd)
                    assert type(r) is type(fd)
                elif how == "dictcopy":
                    r = fd.copy()
                elif how == "ctor_other":            # the other class (FrozenDict <-> subclass) with the same items
                    base, sub = classes()["FrozenDict"]
                    r = (base if type(fd) is sub else sub)(fd)
                    assert type(r) is not type(fd)
                else:
                    r = type(fd)(fd)
                res = new_res(r)
            else:
                raise ValueError(name)
        except KeyError:
            res = ["raise", "KeyError"]
        except TypeError as e:
            res = ["raise", _exn_name(e)]
        obs.append([res, items(fd)])
    fd2 = _fd_new(case["ctor2"], case["kvs2"], case.get("cls2") == "sub")
    ihs = []
    seen = set()
    for d in [fd, fd2] + returned:      # oracle: hash of every (key, value) tuple any hashed object holds
        for k, v in d.items():
            t = (tok(k), tok(v))
            if t[1] < 900 and t not in seen:
                seen.add(t)
                ihs.append([t[0], t[1], hash((k, v))])
    return {"steps": obs, "items2": items(fd2), "eq12": bool(fd == fd2 and fd2 == fd and not (fd != fd2)),
            "h2": hash_res(fd2), "ihs": ihs}


def run_impl(case):
    _variant[0] = 0
    if case["kind"] == "oto":
        return run_oto(case)
    if case["kind"] == "m2m":
        return run_m2m(case)
    return run_fd(case)


# --------------------------------------------------------------------------
# rendering
# --------------------------------------------------------------------------
def cn(n):
    assert isinstance(n, int) and 0 <= n < 5000, n
    return str(n)


def cb(b):
    assert isinstance(b, bool)
    return "true" if b else "false"


def cl(xs):
    xs = list(xs)
    return "[" + "; ".join(xs) + "]"


def ckvs(ps):
    return cl("(%s,%s)" % (cn(k), cn(v)) for k, v in ps)


EXN = {"KeyError": "KeyError", "ValueError": "ValueError", "TypeError": "TypeError",
       "FrozenHashError": "FrozenHashError"}


def cres(res):
    if res[0] == "raise":
        return "(Raise %s)" % EXN[res[1]]
    v = res[1]
    if v[0] == "none":
        return "(Ok VNone)"
    if v[0] == "tok":
        return "(Ok (VTok %s))" % cn(v[1])
    if v[0] == "pair":
        return "(Ok (VPair %s %s))" % (cn(v[1]), cn(v[2]))
    if v[0] == "self":
        return "(Ok VSelf)"
    if v[0] == "bool":
        return "(Ok (VBool %s))" % cb(v[1])
    if v[0] == "set":
        return "(Ok (VSet %s))" % cl(cn(x) for x in v[1])
    raise ValueError(v)       # e.g. "other": |= returned a different object -> unrenderable -> violation


def eff_pairs(form, pairs):
    """the (key, value) sequence the call presents, in order"""
    return pairs


def c_oto_op(op):
    name = op[3]
    if name == "set":
        return "OSet %s %s" % (cn(op[4]), cn(op[5]))
    if name == "del":
        return "ODel %s" % cn(op[4])
    if name == "pop":
        return "OPop %s None" % cn(op[4])
    if name == "popd":
        return "OPop %s (Some %s)" % (cn(op[4]), cn(op[5]))
    if name == "popitem":
        return "OPopitem"
    if name == "clear":
        return "OClear"
    if name == "setdefault":
        return "OSetdefault %s %s" % (cn(op[4]), cn(op[5]))
    if name == "get":
        return "OGet %s" % cn(op[4])
    if name == "update":
        return "OUpdate %s" % ckvs(op[4])
    if name == "ior":
        return "OIor %s" % ckvs(op[4])
    raise ValueError(name)


def c_oto_hop(op):
    if op[0] == "new":
        return "HNew %s %s" % (cb(op[1]), ckvs(op[3]))
    if op[0] == "copy":
        return "%s %s %s" % ("HDeepcopy" if op[1] == "deepcopy" else "HCopy", cn(op[2]), cb(bool(op[3])))
    if op[0] == "eq":
        return "HEq %s %s %s %s" % (cn(op[1]), cb(bool(op[2])), cn(op[3]), cb(bool(op[4])))
    if op[0] == "fromkeys":
        return "HFromkeys %s %s" % (cl(cn(k) for k in op[1]), cn(op[2]))
    if op[0] == "updfrom":
        return "HUpdFrom %s %s %s %s %s" % (cb(op[1]), cn(op[2]), cb(bool(op[3])), cn(op[4]), cb(bool(op[5])))
    return "HOp %s %s (%s)" % (cn(op[1]), cb(bool(op[2])), c_oto_op(op))


def c_oview(v):
    return "(%s,%s,%s)" % (ckvs(v[0]), ckvs(v[1]), cb(v[2]))


def c_m2m_op(op):
    name = op[3]
    if name == "add":
        return "MAdd %s %s" % (cn(op[4]), cn(op[5]))
    if name == "remove":
        return "MRemove %s %s" % (cn(op[4]), cn(op[5]))
    if name == "replace":
        return "MReplace %s %s" % (cn(op[4]), cn(op[5]))
    if name == "setitem":
        return "MSetitem %s %s" % (cn(op[4]), cl(cn(v) for v in op[5]))
    if name == "delitem":
        return "MDelitem %s" % cn(op[4])
    if name == "update":
        return "MUpdPairs %s" % ckvs(op[4])
    if name == "get":
        return "MGet %s" % cn(op[4])
    if name == "getd":
        return "MGetD %s" % cn(op[4])
    if name == "contains":
        return "MContains %s" % cn(op[4])
    raise ValueError(name)


def c_m2m_hop(op):
    if op[0] == "new":
        return "MNew %s" % ckvs(op[2])
    if op[0] == "newfrom":
        return "MNewFrom %s %s" % (cn(op[1]), cb(bool(op[2])))
    if op[0] == "updfrom":
        return "MUpdFrom %s %s %s %s" % (cn(op[1]), cb(bool(op[2])), cn(op[3]), cb(bool(op[4])))
    if op[0] == "eq":
        return "MEq %s %s %s %s" % (cn(op[1]), cb(bool(op[2])), cn(op[3]), cb(bool(op[4])))
    return "MOp %s %s (%s)" % (cn(op[1]), cb(bool(op[2])), c_m2m_op(op))


def c_sview(d):
    return cl("(%s,%s)" % (cn(k), cl(cn(v) for v in vs)) for k, vs in d)


def c_mview(v):
    return "(%s,%s,%s)" % (c_sview(v[0]), c_sview(v[1]), cb(v[2]))


def cz(n):
    assert isinstance(n, int)
    return "(%d)%%Z" % n


def c_fres(res):
    if res[0] == "raise":
        return "(Raise %s)" % EXN[res[1]]
    v = res[1]
    if v[0] == "none":
        return "(Ok FNone)"
    if v[0] == "tok":
        return "(Ok (FTok %s))" % cn(v[1])
    if v[0] == "hash":
        return "(Ok (FHashV %s))" % cz(v[1])
    if v[0] == "x":
        return "(Ok (FX %s %s %s %s))" % (ckvs(v[1]), cb(v[2]), cb(v[3]), "None" if v[4] is None else "(Some %s)" % cb(v[4]))
    if v[0] == "new":
        h = v[4]
        hout = "HNA" if h[0] == "na" else ("HRaise" if h[0] == "raise" else "(HOk %s)" % cz(h[1][1]))
        return "(Ok (FNew %s %s %s %s))" % (ckvs(v[1]), cb(v[2]), cb(v[3]), hout)
    raise ValueError(v)


def c_fd_op(op):
    name = op[0]
    if name == "setitem":
        return "FSetitem %s %s" % (cn(op[1]), cn(op[2]))
    if name == "delitem":
        return "FDelitem %s" % cn(op[1])
    if name == "update":
        return "FUpdate %s" % ckvs(op[1])
    if name == "ior":
        return "FIor %s" % ckvs(op[1])
    if name == "setdefault":
        return "FSetdefault %s %s" % (cn(op[1]), cn(op[2]))
    if name == "pop":
        return "FPop %s None" % cn(op[1])
    if name == "popd":
        return "FPop %s (Some %s)" % (cn(op[1]), cn(op[2]))
    if name == "popitem":
        return "FPopitem"
    if name == "clear":
        return "FClear"
    if name == "hash":
        return "FHash"
    if name == "get":
        return "FGet %s" % cn(op[1])
    if name == "updated":
        return "FUpdated %s" % ckvs(op[1])
    if name == "copy":
        return "FCopy"
    if name == "clone":
        return "FClone %s" % cb(op[1] == "dictcopy")
    if name == "xproc":
        return "FXProc"
    raise ValueError(name)


def to_coq(case, obs):
    if case["kind"] == "oto":
        return "COto %s" % cl("(%s,(%s,%s))" % (c_oto_hop(op), cres(o[0]), cl(c_oview(v) for v in o[1]))
                              for op, o in zip(case["ops"], obs))
    if case["kind"] == "m2m":
        for o in obs:
            for v in o[1]:
                for side in v[:2]:
                    for k, vs in side:
                        assert all(isinstance(x, int) for x in vs), "orphan pair from iteritems(): %r" % (side,)
        return "CM2m %s" % cl("(%s,(%s,%s))" % (c_m2m_hop(op), cres(o[0]), cl(c_mview(v) for v in o[1]))
                              for op, o in zip(case["ops"], obs))
    steps = cl("(%s,(%s,%s))" % (c_fd_op(op), c_fres(o[0]), ckvs(o[1])) for op, o in zip(case["ops"], obs["steps"]))
    ihs = cl("((%s,%s),%s)" % (cn(k), cn(v), cz(h)) for k, v, h in obs["ihs"])
    return "CFd %s %s %s %s %s %s %s" % (ckvs(case["kvs"]), ihs, steps, ckvs(case["kvs2"]), ckvs(obs["items2"]),
                                         cb(obs["eq12"]), c_fres(obs["h2"]))


# --------------------------------------------------------------------------
# canary, statistics, shrinking
# --------------------------------------------------------------------------
def corrupt(case, obs):
    """A wrong observation: one pair dropped from one side of the last view
    (OneToOne / ManyToMany) or a hash off by one (FrozenDict)."""
    bad = _copy.deepcopy(obs)
    if case["kind"] in ("oto", "m2m"):
        for step in reversed(bad):
            for v in step[1]:
                if v[1]:
                    v[1].pop()
                    return bad
        return None
    if bad["h2"][0] == "ok":
        bad["h2"][1][1] += 1
        return bad
    for step in bad["steps"]:
        if step[1]:
            step[1].pop()
            return bad
    return None


def nontrivial(case, obs):
    if case["kind"] == "fd":
        return len(obs["items2"]) >= 2 and len(case["ops"]) >= 2
    inv_op = any((op[0] == "op" and op[2]) or (op[0] == "updfrom" and op[2]) for op in case["ops"])
    if case["kind"] == "oto":
        grew = any(len(v[0]) >= 2 for o in obs for v in o[1])
        shrank = any(len(b[0]) > len(a[0]) for o1, o2 in zip(obs, obs[1:]) for b, a in zip(o1[1], o2[1]))
        return inv_op and grew and shrank
    gone = any(len(b[0]) > len(a[0]) for o1, o2 in zip(obs, obs[1:]) for b, a in zip(o1[1], o2[1]))
    return inv_op and gone


def distribution(d, case, obs):
    k = d.setdefault("kind", {})
    k[case["kind"]] = k.get(case["kind"], 0) + 1
    ops = d.setdefault("ops", {})
    for op in case["ops"]:
        if case["kind"] == "fd":
            name = "fd:" + op[0] + (":" + op[-1] if op[0] in ("update", "ior", "updated", "clone") else "")
        elif op[0] == "op":
            name = "%s:%s%s" % (case["kind"], op[3], ".inv" if op[2] else "")
            if op[3] in ("update", "ior"):
                name += ":" + op[5]
        elif op[0] == "new":
            name = "%s:new:%s" % (case["kind"], op[2] if case["kind"] == "oto" else op[1])
        else:
            name = "%s:%s" % (case["kind"], op[0])
        ops[name] = ops.get(name, 0) + 1
    if case["kind"] == "fd":
        r = d.setdefault("fd", {})
        key = "twin_equal" if obs["eq12"] else "twin_differs"
        r[key] = r.get(key, 0) + 1
        if obs["h2"][0] == "raise":
            r["FrozenHashError"] = r.get("FrozenHashError", 0) + 1
        for o in obs["steps"]:
            if o[0][0] == "raise":
                r[o[0][1]] = r.get(o[0][1], 0) + 1
    else:
        r = d.setdefault(case["kind"] + "_results", {})
        for o in obs:
            key = o[0][1] if o[0][0] == "raise" else "ok"
            r[key] = r.get(key, 0) + 1
        d["max_instances"] = max(d.get("max_instances", 0), max(len(o[1]) for o in obs))
        d["max_pairs"] = max(d.get("max_pairs", 0), max([len(v[0]) for o in obs for v in o[1]] or [0]))


def sample(case, obs):
    if case["kind"] == "fd":
        return {"kind": "fd", "kvs": case["kvs"], "ops": case["ops"][:5], "obs": obs["steps"][:5],
                "kvs2": case["kvs2"], "eq12": obs["eq12"], "h2": obs["h2"]}
    return {"kind": case["kind"], "ops": case["ops"][:6], "obs_after_last": obs[-1] if obs else None}


def shrink(case):
    """smaller cases: drop a suffix, or drop single non-creating operations"""
    ops = case["ops"]
    n = len(ops)
    if n <= 1:
        return
    for cut in (n // 2, n - 1):
        if 0 < cut < n:
            c = dict(case)
            c["ops"] = ops[:cut]
            if case["kind"] == "fd" and not any(o[0] == "hash" for o in c["ops"]):
                c["ops"] = c["ops"] + [["hash"]]
            yield c
    for i in range(n):
        if case["kind"] != "fd" and ops[i][0] in ("new", "copy", "newfrom", "fromkeys"):
            continue
        rest = ops[:i] + ops[i + 1:]
        if case["kind"] == "fd" and not any(o[0] == "hash" for o in rest):
            continue
        if rest:
            c = dict(case)
            c["ops"] = rest
            yield c
