#!/venv/bin/python
"""Driver: `vcheck.py Cxx --tier quick|thorough`, `vcheck.py Cxx --replay f`,
`vcheck.py --setup`.  Exit 0 = property held on everything explored and every
obligation was discharged; exit 1 + `VIOLATION property=<id> replay=<path>`
otherwise (DESIGN 1.5)."""
import argparse
import importlib
import json
import os
import random
import re
import shutil
import sys
import time

HERE = os.path.dirname(os.path.abspath(__file__))
sys.path.insert(0, HERE)

if os.environ.get("PYTHONHASHSEED") != "0":
    os.environ["PYTHONHASHSEED"] = "0"
    os.execv(sys.executable, [sys.executable] + sys.argv)

import common as C  # noqa: E402


def plugin_ids():
    return sorted(fn[:-3].upper() for fn in os.listdir(HERE) if re.fullmatch(r"c\d\d\.py", fn))


def load_plugin(pid):
    sys.path.insert(0, C.REPO)
    return importlib.import_module(pid.lower())


# --------------------------------------------------------------------------
def run_translators(plugin, log):
    """Regenerate coq/Gen/*.v for this property from REPO.  Returns
    (ok, message).  Fails closed: an exception is a broken tie."""
    tr = getattr(plugin, "translators", None)
    if tr is None:
        return True, "no generated data for this property"
    try:
        files = tr(C.REPO)
    except Exception as e:  # fail closed
        import traceback
        return False, "translator failed closed: %s\n%s" % (e, traceback.format_exc()[-1500:])
    for name, text in files.items():
        C.write_if_changed(os.path.join(C.COQ, "Gen", name + ".v"), text)
    return True, "regenerated %s" % ", ".join(sorted(files))


def setup():
    t0 = time.time()
    for pid in plugin_ids():
        try:
            plugin = load_plugin(pid)
        except Exception as e:
            print("setup: cannot import plug-in %s: %s" % (pid, e))
            continue
        ok, msg = run_translators(plugin, print)
        print("setup: %s: %s" % (pid, msg.splitlines()[0]))
    failed = []
    with C.BuildLock():
        C.refresh_coqproject()
        rc, out, _ = C.mini_make(["Lib/Prelude.v"])
        print(out)
        for pid in plugin_ids():
            try:
                dep = getattr(load_plugin(pid), "DEPENDS", ())
            except Exception:
                dep = ()
            rc, out, compiled = C.mini_make(C.prop_files(pid, dep), jobs=16)
            print("setup: %s: rc=%d, compiled %d files" % (pid, rc, len(compiled)))
            if rc != 0:
                failed.append(pid)
                print(out[-2500:])
        # second pass: a translator may read compiled files of another property (fails closed when absent)
        for pid in list(failed):
            try:
                plugin = load_plugin(pid)
                run_translators(plugin, print)
                rc, out, compiled = C.mini_make(C.prop_files(pid, getattr(plugin, "DEPENDS", ())), jobs=16)
            except Exception as e:
                rc, out, compiled = 1, repr(e), []
            print("setup: %s (second pass): rc=%d, compiled %d files" % (pid, rc, len(compiled)))
            if rc == 0:
                failed.remove(pid)
    bad = C.forbidden_gate()
    for b in bad:
        print("setup: FORBIDDEN " + b)
    print("setup: failed=%s, %d forbidden, %.0fs" % (failed, len(bad), time.time() - t0))
    return 0


# --------------------------------------------------------------------------
def build_property(plugin, pid):
    """make the static development needed by pid and compile Props/pid.v
    capturing Print Assumptions.  Returns dict."""
    res = {"ok": True, "messages": [], "obligations": [], "assumptions": [], "checker_cmd": []}
    ok, msg = run_translators(plugin, None)
    res["messages"].append(msg)
    if not ok:
        res["ok"] = False
        res["broken"] = "translator"
    props_rel = "Props/%s.v" % pid
    files = C.prop_files(pid, getattr(plugin, "DEPENDS", ()))
    has_props = props_rel in files
    with C.BuildLock():
        C.refresh_coqproject()
        rc, out, _ = C.mini_make(files)
    res["files"] = files
    res["checker_cmd"].append("coqc -q -noglob -Q coq Boltons <each of: %s> (dependency order, full .vo)" % " ".join(files))
    if rc != 0:
        res["ok"] = False
        res.setdefault("broken", "build")
        res["messages"].append(out[-4000:])
        m = re.search(r'File "([^"]+)", line (\d+)', out)
        res["failed_file"] = os.path.relpath(m.group(1), C.COQ) if m else "?"
        res["failed_line"] = int(m.group(2)) if m else 0
    if has_props:
        names = C.count_obligations(props_rel)
        res["obligations"] = names
        if rc == 0:
            rc2, out2 = C.coqc(os.path.join(C.COQ, props_rel))
            res["checker_cmd"].append(" ".join(C.coqc_cmd("coq/" + props_rel)))
            res["assumptions"] = C.parse_assumptions(out2)
            res["props_output"] = out2[-6000:]
            if rc2 != 0:
                res["ok"] = False
                res.setdefault("broken", "props")
                res["messages"].append(out2[-4000:])
    bad = C.forbidden_gate(files)
    if bad:
        res["ok"] = False
        res.setdefault("broken", "forbidden")
        res["messages"].append("forbidden vernacular: " + "; ".join(bad))
    return res


def evaluate(plugin, pid, cases, tag, procs=None, obs=None):
    """Run implementation and Coq on cases -> list of dicts
    {case, obs, agree, holds, known, abnormal}."""
    if not cases:
        return []
    if obs is None:
        obs = C.run_impl_many(plugin, cases, procs)
    results = []
    coq_terms, idxmap = [], []
    for i, (c, o) in enumerate(zip(cases, obs)):
        r = {"case": c, "obs": o, "agree": True, "holds": True, "known": False, "abnormal": False}
        if C.is_abnormal(o):
            r.update(agree=False, holds=False, abnormal=True)
        else:
            try:
                coq_terms.append(plugin.to_coq(c, o))
                idxmap.append(i)
            except Exception as e:   # unrenderable observation = outside the model's domain
                r.update(agree=False, holds=False, abnormal=True)
                r["obs"] = {"__crash__": "to_coq failed: %r; obs=%r" % (e, o)}
        results.append(r)
    per = getattr(plugin, "CASES_PER_FILE", 300)
    max_bytes = getattr(plugin, "CASE_FILE_BYTES", 150000)
    d = os.path.join(C.BUILD, "cases", pid)
    os.makedirs(d, exist_ok=True)
    paths, spans = [], []
    k = 0
    while k < len(coq_terms):
        hi, size = k, 0
        while hi < len(coq_terms) and hi - k < per and (hi == k or size + len(coq_terms[hi]) <= max_bytes):
            size += len(coq_terms[hi])
            hi += 1
        path = os.path.join(d, "%s_%s_%d_%04d.v" % (pid, tag, os.getpid(), len(paths)))
        C.write_cases_file(plugin, path, coq_terms[k:hi])
        paths.append(path)
        spans.append((k, hi))
        k = hi
    outs = C.coqc_many(paths)
    for (rc, out), (lo, hi), path in zip(outs, spans, paths):
        fails = C.parse_failing(out) if rc == 0 else None
        if fails is None:
            # the case file itself does not compile/evaluate: every case in it is unchecked
            for j in range(lo, hi):
                r = results[idxmap[j]]
                r.update(agree=False, holds=False, abnormal=True)
                r["coq_error"] = out[-1500:]
            continue
        for (j, a, h, kn) in fails:
            r = results[idxmap[lo + j]]
            r.update(agree=a, holds=h, known=kn)
        for ext in (".v", ".vo", ".vok", ".vos", ".glob"):
            p = path[:-2] + ext
            if os.path.exists(p) and not os.environ.get("VERIF_KEEP_CASES"):
                os.remove(p)
        aux = os.path.join(os.path.dirname(path), "." + os.path.basename(path)[:-2] + ".aux")
        if os.path.exists(aux):
            os.remove(aux)
    return results


def explain(plugin, pid, case, obs):
    fn = getattr(plugin, "EXPLAIN", None)
    if not fn or C.is_abnormal(obs):
        return None
    d = os.path.join(C.BUILD, "cases", pid)
    os.makedirs(d, exist_ok=True)
    path = os.path.join(d, "%s_explain_%d.v" % (pid, os.getpid()))
    with open(path, "w") as f:
        f.write(plugin.IMPORTS + "\n")
        f.write("Definition c : %s := %s.\n" % (plugin.CASE_TYPE, plugin.to_coq(case, obs)))
        f.write("Eval vm_compute in (%s c).\nEval vm_compute in (%s c).\n" % (plugin.VERDICT, fn))
    rc, out = C.coqc(path)
    for ext in (".v", ".vo", ".vok", ".vos", ".glob"):
        if os.path.exists(path[:-2] + ext):
            os.remove(path[:-2] + ext)
    return out[-6000:]


def classify(r):
    if r["holds"] and r["agree"]:
        return "ok"
    if not r["holds"] and r["known"] and r["agree"]:
        return "known"
    if not r["holds"]:
        return "violation"
    return "disagree"


def default_shrink(case):
    """Candidates with parts of case['ops'] removed (if present)."""
    ops = case.get("ops")
    if not isinstance(ops, list) or len(ops) <= 1:
        return
    n = len(ops)
    chunk = max(1, n // 2)
    seen = set()
    while chunk >= 1:
        for s in range(0, n, chunk):
            cand = ops[:s] + ops[s + chunk:]
            key = json.dumps(cand, sort_keys=True, default=str)
            if cand and key not in seen:
                seen.add(key)
                c = dict(case)
                c["ops"] = cand
                yield c
        chunk //= 2
        if len(seen) > 60:
            return


def shrink(plugin, pid, r, budget_s=120):
    want = classify(r)
    t0 = time.time()
    best = r
    gen = getattr(plugin, "shrink", default_shrink)
    for _round in range(12):
        if time.time() - t0 > budget_s:
            break
        cands = list(gen(best["case"]))[:80]
        if not cands:
            break
        rs = evaluate(plugin, pid, cands, "shrink")
        good = [x for x in rs if classify(x) == want and not x["abnormal"]]
        if not good:
            break
        nb = min(good, key=lambda x: len(json.dumps(x["case"], default=str)))
        if len(json.dumps(nb["case"], default=str)) >= len(json.dumps(best["case"], default=str)):
            break
        best = nb
    return best


def write_replay(pid, kind, payload):
    d = os.environ.get("VERIF_REPLAY_DIR") or os.path.join(C.VERIF, "replays")
    os.makedirs(d, exist_ok=True)
    h = C.case_hash(payload)
    path = os.path.join(d, "%s-%s.json" % (pid, h))
    payload = dict(payload, property=pid, kind=kind, repo=C.REPO)
    with open(path, "w") as f:
        json.dump(payload, f, indent=1, default=str)
    return os.path.relpath(path, C.VERIF) if path.startswith(C.VERIF + os.sep) else path


# --------------------------------------------------------------------------
def check(pid, tier, seed, n_override=None):
    t0 = time.time()
    plugin = load_plugin(pid)
    rng = random.Random(seed)
    out_lines = []
    violations = []          # (replay_path, suffix)
    known_hit = []

    build = build_property(plugin, pid)
    if tier == "thorough" and build["ok"] and build["obligations"] and not os.environ.get("VERIF_NO_COQCHK"):
        # independent re-check of the property's theorems and everything they depend on
        cmd = ["coqchk", "-silent", "-o", "-Q", C.COQ, "Boltons", "Boltons.Props.%s" % pid]
        try:
            rc_chk, out_chk = C.sh(cmd, timeout=2400)
        except Exception as e:
            rc_chk, out_chk = 124, "coqchk did not finish: %r" % (e,)
        build["coqchk"] = {"cmd": " ".join(cmd), "rc": rc_chk, "output_tail": out_chk[-3000:]}
        build["checker_cmd"].append(" ".join(cmd))
        if rc_chk != 0:
            build["ok"] = False
            build["broken"] = "coqchk"
            build["messages"].append(out_chk[-3000:])

    # ---- cases: corpus first, then generated --------------------------------
    corpus = C.load_corpus(pid)
    known_entries = C.load_known(pid)
    open_witnesses = {e["witness"]: e for e in known_entries if e.get("status") == "open" and e.get("witness")}
    cases = [c for (_, c) in corpus]
    origin = [p for (p, _) in corpus]
    n = n_override if n_override is not None else plugin.TIERS[tier]["n"]
    gen_cases = []
    check_ok = os.path.exists(os.path.join(C.COQ, "Check/%s_Check.vo" % pid))
    if check_ok:
        for c in plugin.generate(rng, tier, n):
            gen_cases.append(c)
    cases += gen_cases
    origin += ["generated"] * len(gen_cases)
    results = evaluate(plugin, pid, cases, tier) if check_ok else []

    stats = {"ok": 0, "known": 0, "violation": 0, "disagree": 0}
    distinct = set()
    dist = {}
    samples = []
    for r, org in zip(results, origin):
        cl = classify(r)
        stats[cl] += 1
        r["origin"] = org
        if not r["abnormal"]:
            try:
                if plugin.nontrivial(r["case"], r["obs"]):
                    distinct.add(C.case_hash(r["case"]))
                if hasattr(plugin, "distribution"):
                    plugin.distribution(dist, r["case"], r["obs"])
            except Exception as e:
                dist["_error"] = repr(e)
    for r in results[len(corpus):len(corpus) + 3] + results[:1]:
        try:
            samples.append(plugin.sample(r["case"], r["obs"]))
        except Exception as e:
            samples.append({"error": repr(e)})

    # ---- canary: a corrupted observation must be rejected by the Coq checker -----
    canary = "no corrupt() in plug-in"
    corrupt = getattr(plugin, "corrupt", None)
    if corrupt and check_ok:
        canary = "no usable case"
        tried = 0
        for r in results[len(corpus):]:
            if r["abnormal"] or classify(r) != "ok":
                continue
            bad_obs = corrupt(r["case"], r["obs"])
            if bad_obs is None:
                continue
            tried += 1
            cr = evaluate(plugin, pid, [r["case"]], "canary", obs=[bad_obs])[0]
            if classify(cr) == "ok":
                print("HARNESS-ERROR property=%s: corrupted observation accepted by %s (case %s)"
                      % (pid, plugin.VERDICT, json.dumps(r["case"], default=str)[:300]))
                canary = "FAILED"
                break
            canary = "rejected corrupted observations (%d tried)" % tried
            if tried >= 3:
                break

    # ---- concrete violations --------------------------------------------------
    viol = [r for r in results if classify(r) == "violation"]
    reported = 0
    for r in viol[:3]:
        if r["abnormal"]:
            best = r
        else:
            best = shrink(plugin, pid, r)
        payload = {"case": best["case"], "obs": best["obs"], "origin": r["origin"],
                   "verdict": {k: best[k] for k in ("agree", "holds", "known")},
                   "what": "implementation's observation does not satisfy Spec (holds=false)"
                           if not best["abnormal"] else "implementation raised/hung outside the modelled outcomes",
                   "coq": explain(plugin, pid, best["case"], best["obs"]),
                   "coq_error": best.get("coq_error")}
        violations.append((write_replay(pid, "input", payload), ""))
        reported += 1

    # ---- known findings ---------------------------------------------------------
    for r in results:
        if classify(r) == "known":
            e = open_witnesses.get(r["origin"])
            if e:
                known_hit.append(e)
            else:
                # inside a recorded guard but not the stored witness: count it, name the guard
                stats.setdefault("known_other", 0)
                stats["known_other"] += 1
    # a case inside a guard with no open entry at all is a violation (guard without finding)
    if stats.get("known_other") and not [e for e in known_entries if e.get("status") == "open"]:
        r = next(r for r in results if classify(r) == "known")
        violations.append((write_replay(pid, "input", {"case": r["case"], "obs": r["obs"],
                           "what": "guarded case but no open known finding is recorded"}), ""))
    seen = set()
    for e in known_hit:
        if e["id"] not in seen:
            seen.add(e["id"])
            out_lines.append("KNOWN-FINDING: property=%s %s" % (pid, e["what"]))

    # ---- broken tie / broken obligations ---------------------------------------
    broken = []
    if not build["ok"]:
        broken.append({"kind": build.get("broken"), "file": build.get("failed_file"),
                       "line": build.get("failed_line"), "messages": build["messages"][-2:]})
    dis = [r for r in results if classify(r) == "disagree"]
    if dis:
        best = shrink(plugin, pid, dis[0])
        broken.append({"kind": "correspondence", "disagreeing_cases": len(dis),
                       "case": best["case"], "obs": best["obs"],
                       "coq": explain(plugin, pid, best["case"], best["obs"])})
    if not check_ok:
        broken.append({"kind": "checker-not-built", "file": "Check/%s_Check.v" % pid})
    searched = 0
    if broken and not violations:
        # the property is no longer shown to hold: search for a concrete failing input
        found = None
        if check_ok:
            search = getattr(plugin, "search", None)
            budget = plugin.TIERS[tier].get("search_n", max(n, 2000))
            rng2 = random.Random(seed + 7919)
            extra = list(search(rng2, tier, budget, broken)) if search else list(plugin.generate(rng2, tier, budget))
            searched = len(extra)
            rs = evaluate(plugin, pid, extra, "search")
            bad = [r for r in rs if classify(r) == "violation"]
            if bad:
                found = shrink(plugin, pid, bad[0])
        if found:
            payload = {"case": found["case"], "obs": found["obs"],
                       "verdict": {k: found[k] for k in ("agree", "holds", "known")},
                       "what": "found while searching after a broken tie", "broken": broken,
                       "coq": explain(plugin, pid, found["case"], found["obs"])}
            violations.append((write_replay(pid, "input", payload), ""))
        else:
            names = []
            for b in broken:
                if b["kind"] == "correspondence":
                    names.append("correspondence Check/%s_Check.v:%s (model and implementation differ on the stored case)" % (pid, plugin.VERDICT))
                else:
                    names.append("%s %s line %s" % (b["kind"], b.get("file"), b.get("line")))
            payload = {"what": "property no longer shown to hold; no failing input found in %d searched cases" % searched,
                       "no_longer_checks": names, "broken": broken}
            violations.append((write_replay(pid, "tie", payload), " no-failing-input-found"))

    # ---- evidence -------------------------------------------------------------------
    obligations = build["obligations"]
    discharged = len(obligations) if build["ok"] else 0
    trusted = list(getattr(plugin, "TRUSTED", []))
    trusted.append("Coq 8.16.1 kernel + vm_compute (no native_compute); hand-written model tied by correspondence on the cases counted here")
    for name, a in zip([o for o in obligations], build["assumptions"] + ["?"] * len(obligations)):
        pass
    trusted.append("Print Assumptions (in file order, theorems only): " + " | ".join(build["assumptions"]))
    ev = {
        "property_id": pid, "tier": tier, "seed": seed, "level": "proof",
        "coverage": {
            "obligations": len(obligations), "discharged": discharged,
            "checker_cmd": " && ".join(build["checker_cmd"]),
            "trusted_base": trusted,
            "theorems": obligations,
            "evaluations": len(results) + searched,
            "distinct_nontrivial": len(distinct),
            "rule": getattr(plugin, "RULE", ""),
            "samples": samples,
            "distribution": dist,
            "corpus_cases": len(corpus),
            "verdicts": stats,
            "known_findings_hit": sorted(seen),
            "translators": build["messages"][:1],
            "canary": canary,
            "coqchk": build.get("coqchk"),
            "exhaustive": bool(plugin.TIERS[tier].get("exhaustive", False)),
            "repo": C.REPO,
        },
        "assumptions": list(getattr(plugin, "ASSUMPTIONS", [])),
        "wall_s": round(time.time() - t0, 2),
        "violations": len(violations),
    }
    extra_ev = getattr(plugin, "extra_evidence", None)
    if extra_ev:
        try:
            ev["coverage"].update(extra_ev(results))
        except Exception as e:
            ev["coverage"]["extra_evidence_error"] = repr(e)
    evdir = os.environ.get("VERIF_EVIDENCE_DIR") or os.path.join(C.VERIF, "evidence")   # scratch runs on mutants only
    os.makedirs(evdir, exist_ok=True)
    with open(os.path.join(evdir, pid + ".json"), "w") as f:
        json.dump(ev, f, indent=1, default=str)

    for l in out_lines:
        print(l)
    print("%s tier=%s seed=%d cases=%d (corpus %d) verdicts=%s obligations=%d/%d nontrivial=%d wall=%.1fs"
          % (pid, tier, seed, len(results), len(corpus), stats, discharged, len(obligations), len(distinct), time.time() - t0))
    for path, suffix in violations:
        print("VIOLATION property=%s replay=%s%s" % (pid, path, suffix))
    if canary == "FAILED":
        return 2
    return 1 if violations else 0


def replay(pid, path):
    plugin = load_plugin(pid)
    j = json.load(open(path))
    if j.get("kind") == "tie" or "case" not in j:
        print(json.dumps(j, indent=1)[:4000])
        print("replay: this file names a theorem/correspondence that no longer checks; re-run the check itself")
        return 1
    build_property(plugin, pid)
    rs = evaluate(plugin, pid, [j["case"]], "replay", procs=1)
    r = rs[0]
    print("case:", json.dumps(r["case"], default=str)[:3000])
    print("implementation observed:", json.dumps(r["obs"], default=str)[:3000])
    print("verdict: agree=%s holds=%s known=%s -> %s" % (r["agree"], r["holds"], r["known"], classify(r)))
    ex = explain(plugin, pid, r["case"], r["obs"])
    if ex:
        print("coq:", ex)
    return 0 if classify(r) in ("ok",) else 1


def main():
    ap = argparse.ArgumentParser()
    ap.add_argument("pid", nargs="?")
    ap.add_argument("--tier", default=os.environ.get("VERIF_TIER", "quick"), choices=["quick", "thorough"])
    ap.add_argument("--replay")
    ap.add_argument("--setup", action="store_true")
    ap.add_argument("--n", type=int)
    a = ap.parse_args()
    if a.setup:
        sys.exit(setup())
    seed = int(os.environ.get("VERIF_SEED", "0") or 0)
    if a.replay:
        sys.exit(replay(a.pid, a.replay))
    sys.exit(check(a.pid, a.tier, seed, a.n))


if __name__ == "__main__":
    main()
