"""C10 priority queues (HeapPriorityQueue / SortedPriorityQueue over BarrelList): plug-in.

Python only moves data: it runs the real classes on a history and hands the
history plus what the classes returned to Coq (Check/C10_Check.v), which decides
agree / holds.  Two kinds of case:
  q : one history of add/remove/pop/peek/len run on BOTH queue classes,
  b : a BarrelList driven directly (insert/pop/getitem/len/list).
"""
import math
from fractions import Fraction
from common import cnat, cN, cZ, clist, cpair, copt

ID = "C10"
IMPORTS = "From Boltons Require Import Lib.Prelude Spec.C10_Spec Model.C10_Model Check.C10_Check."
CASE_TYPE = "c10_case"
VERDICT = "c10_verdict"
EXPLAIN = "c10_explain"
CASES_PER_FILE = 120
CASE_TIMEOUT = 120
TIERS = {"quick": {"n": 2000}, "thorough": {"n": 40000}}
RULE = ("kind q: histories of add (with re-adds)/remove/pop/peek/len over 2..40 tasks and 1..12 priority levels, run on "
        "HeapPriorityQueue and SortedPriorityQueue with BarrelList._size_factor in {0,1,2,3,1520}; kind b: BarrelList "
        "insert/pop/getitem (also insert(-k), pop(), pop(-k), b[-k])/len/list at indices around sub-list borders; kind big: 23 000..40 000 tasks added (rank patterns "
        "descending / ascending / modular, optional re-adds and removals) to both classes at the REAL _size_factor=1520 and "
        "drained, judged by Spec.big_ok; churn histories (waves of growth and bursts of scattered removals / "
        "re-prioritisations leaving hundreds of tombstones around a handful of live tasks, then a drain); steady-state "
        "histories (50-250 live entries popped and refilled for hundreds of operations). Non-trivial (q) = a live task was re-added or "
        "removed, a pop returned a task while another live task had the same priority, and the sorted back end held "
        ">= 2 sub-lists at some point; (b) = >= 2 sub-lists and a pop and an insert at the end. "
        "Distinct = distinct canonical case hash")
ASSUMPTIONS = ["tasks are hashable with lawful __eq__/__hash__ (tokens mapped to pairwise unequal Python objects; a token is passed as the identical object or as an equal copy)",
               "accepted priorities are finite numbers or None (no NaN); priorities the key REJECTS (str, tuple, list, object, 10**400, None/negatives for a picky custom key) are exercised as error paths: add must raise what the key raises and change nothing; ranks r stand for r/2 and are passed as "
               "int / float / Fraction / bool / None / omitted argument, the extreme ranks of a case also as -inf / +inf",
               "default priority_key or a custom one given at construction that is strictly monotone where it does not raise (modelled through the order it induces); the default given to pop/peek is any object (also a queued task, also the head) except the private _REMOVED sentinel",
               "CPython dict preserves insertion order; heapq and bisect.insort meet their documented contracts"]
TRUSTED = ["Model/C10_Model.v is hand-written; tied to boltons.queueutils / boltons.listutils.BarrelList by the correspondence run",
           "heapq is modelled as the algorithm of Lib/heapq.py (heappush/heappop, _siftdown/_siftup), which _heapq.c is trusted to implement; bisect.insort_right as binary search + insert",
           "harness/c10.py serialiser",
           "harness/translators/{py2coq,c10_src}.py (Gen/C10_Src.v: _translate_index regenerated from the source on every run; "
           "C10_translate_index_src_eq proves it equal to the model function)"]

class _Collide:
    """hashable task whose hash collides with every other _Collide (dict probing by __eq__)"""
    def __init__(self, k):
        self.k = k

    def __hash__(self):
        return 7

    def __eq__(self, other):
        return isinstance(other, _Collide) and other.k == self.k

    def __repr__(self):
        return "_Collide(%d)" % self.k


# tokens -> varied hashable python objects, pairwise != (note 1 == True == 1.0: only one of them appears)
TASKS = ["a", 7, (1, 2), 3.5, "b", frozenset([7]), -1, "task", (), 17, "z", b"y", 99, ("t", None), 0, "", (0,), 2.25,
         frozenset(), "A", None, _Collide(1), _Collide(2), 10 ** 20, "long task name"]
FACTORS_Q = [1, 1, 1, 2, 2, 3, 0, 1520]


_TASK_OBJ = {}


def task(tok):
    """the SAME object every time (defaults drawn from the task universe must be identical to the queued task)"""
    if tok not in _TASK_OBJ:
        _TASK_OBJ[tok] = TASKS[tok] if tok < len(TASKS) else ("tk", tok)
    return _TASK_OBJ[tok]


def task_copy(tok):
    """an object EQUAL to task(tok) but, where the type allows, not identical to it (a queue must go by ==/hash)"""
    o = task(tok)
    if isinstance(o, tuple):
        return tuple(list(o))
    if isinstance(o, str):
        return (o + "x")[:-1]
    if isinstance(o, bytes):
        return bytes(bytearray(o))
    if isinstance(o, float):
        return float(repr(o))
    if isinstance(o, frozenset):
        return frozenset(list(o))
    if isinstance(o, _Collide):
        return _Collide(o.k)
    if isinstance(o, int) and not isinstance(o, bool):
        return int(str(o))
    return o


def default_obj(d):
    """d = ["t", tok]: a default that is a task object (possibly queued right now, possibly the head);
    d = int: an (unhashable) list that can never be a task"""
    return task(d[1]) if isinstance(d, list) else ["dflt", d]


def _pick_default(rng, ntasks, likely_head):
    r = rng.random()
    if r < 0.4:
        return None
    if r < 0.62:
        return rng.choice([0, 1, 2])
    if r < 0.8 and likely_head is not None:
        return ["t", likely_head]
    return ["t", rng.randrange(ntasks)]


def prio_obj(rank, rep, ext=None):
    """rank r stands for the number r/2; rep chooses how it is spelled.  ext = (lowest, highest) rank of the case
    when its extreme ranks are to be spelled -inf / +inf (still strictly monotone: one rank each)."""
    if rank is None:
        return None
    if ext is not None and ext[0] != ext[1]:      # every occurrence of an extreme rank, or the order would break
        if rank == ext[1]:
            return float("inf")
        if rank == ext[0]:
            return float("-inf")
    even = rank % 2 == 0
    if rep == 1 and even:
        return rank // 2
    if rep == 2:
        return Fraction(rank, 2)
    if rep == 3 and rank in (0, 2):
        return bool(rank // 2)
    if rep == 4 and even:
        return float(rank // 2) + 0.0
    return rank / 2


def translators(repo):
    """(T) tie: Gen/C10_Src.v = BarrelList._translate_index regenerated from the current source (fail closed);
    Proofs/C10_SrcEq.v proves it equal to Model.translate_index."""
    import os
    import sys
    sys.path.insert(0, os.path.join(os.path.dirname(os.path.abspath(__file__)), "translators"))
    import c10_src
    return c10_src.generate(repo)


# --------------------------------------------------------------------------
def _gen_q(rng, tier):
    long = tier != "quick"
    ntasks = rng.choice([2, 3, 4, 6, 8, 12, 25, 40])
    nprio = rng.choice([1, 2, 2, 3, 3, 5, 12])
    factor = rng.choice(FACTORS_Q)
    nops = rng.randint(1, rng.choice([12, 40, 70] if not long else [40, 120, 220]))
    style = rng.choice(["mixed", "grow_drain", "remove_heavy", "descending", "readd"])
    ops, best = [], {}
    key = rng.choice([None] * 7 + ["scaled", "min", "picky", "exact"])
    lo = rng.choice([0, -2, -5]) if key != "picky" else 0

    def bad_kind():
        kinds = ["str", "tuple", "list", "obj", "bytes", "unhashable"] + ([] if key == "exact" else ["huge"])
        return rng.choice(kinds + (["none", "neg", "none"] if key == "picky" else []))

    def rank():
        if rng.random() < 0.12 and key != "picky":
            return None
        return lo + rng.randrange(nprio)
    for j in range(nops):
        r = rng.random()
        phase2 = j >= nops * 0.6
        if style == "grow_drain":
            w = (0.85, 0.9, 0.95, 0.98) if not phase2 else (0.1, 0.2, 0.85, 0.95)
        elif style == "remove_heavy":
            w = (0.4, 0.75, 0.88, 0.96)
        elif style == "readd":
            w = (0.7, 0.75, 0.88, 0.96)
        elif style == "descending":
            w = (0.8, 0.85, 0.93, 0.98) if not phase2 else (0.05, 0.1, 0.9, 0.96)
        else:
            w = (0.45, 0.62, 0.82, 0.93)
        if r < w[0] and rng.random() < 0.1:
            # a priority the key rejects, for a fresh or a live task: add raises, nothing may change
            ops.append(["addbad", rng.randrange(ntasks), bad_kind(), int(rng.random() < 0.3)])
            if rng.random() < 0.6:
                ops.append(["len"])
        elif r < w[0]:
            if ops and ops[-1][0] == "add":
                best[ops[-1][1]] = ops[-1][2] or 0
            if style == "descending" and not phase2:
                # every new entry sorts after all others: insort inserts at len()
                ops.append(["add", j % 400 if ntasks > 8 else rng.randrange(ntasks), -(j // rng.choice([1, 1, 2, 3])), rng.randrange(6)])
            else:
                ops.append(["add", rng.randrange(ntasks), rank(), rng.randrange(6), int(rng.random() < 0.3)])
        elif r < w[1]:
            ops.append(["remove", rng.randrange(ntasks), int(rng.random() < 0.3)])
            best.pop(ops[-1][1], None)
        elif r < w[3]:
            # the live task of highest rank added so far is probably at the head (generation-side guess only)
            head = max(best, key=lambda t: (best[t], -t)) if best else None
            ops.append(["pop" if r < w[2] else "peek", _pick_default(rng, ntasks, head), rng.randrange(2)])
            if ops[-1][0] == "pop" and head is not None:
                best.pop(head, None)
            if rng.random() < 0.35:
                ops.append(["len"])           # re-observe the state after every kind of pop/peek outcome
        else:
            ops.append(["len"])
    if rng.random() < 0.5:
        # drain: expose the whole hidden state through pops (bounded by the number of adds)
        nadd = sum(1 for op in ops if op[0] == "add")
        dd = rng.choice([1, 1, ["t", rng.randrange(ntasks)]])      # also drain with a default that is a task
        ops += [["pop", dd, 0] for _ in range(min(nadd, ntasks) + 1)] + [["len"]]
    case = {"kind": "q", "factor": factor, "ops": ops}
    if key:
        case["key"] = key
        if key == "picky":
            for op in ops:                      # the descending style produces negative ranks: shift them up
                if op[0] == "add" and op[2] is not None and op[2] < 0:
                    op[2] += 2000
    if rng.random() < 0.15:
        case["inf"] = True             # the extreme ranks of this case are spelled -inf / +inf
    return case


def _gen_large(rng, tier):
    """a few hundred live entries, several sub-lists at _size_factor 4..16"""
    factor = rng.choice([4, 8, 16])
    n = rng.randint(150, 300) if tier == "quick" else rng.randint(300, 600)
    nprio = rng.choice([1, 3, 10, 1000])
    ops = []
    for i in range(n):
        ops.append(["add", i, rng.randrange(nprio) - 5, rng.randrange(6)])
        if rng.random() < 0.15:
            ops.append(["add", rng.randrange(i + 1), rng.randrange(nprio) - 5, rng.randrange(6)])
        if rng.random() < 0.1:
            ops.append(["remove", rng.randrange(i + 1)])
        if rng.random() < 0.05:
            ops.append(["peek", None, 0])
    ops.append(["len"])
    dd = rng.choice([2, ["t", rng.randrange(n)]])              # drain with a default that may be a queued task
    ops += [["pop", dd, 1] for _ in range(n + 1)] + [["len"]]
    return {"kind": "q", "factor": factor, "ops": ops}


def _gen_churn(rng, tier):
    """removal-heavy long histories: waves of (grow, burst of scattered removals / re-prioritisations) so that
    tombstones outnumber the live entries by tens to hundreds (state-size dependent maintenance such as
    compaction thresholds is reached), then late adds and a full drain."""
    long = tier != "quick"
    factor = rng.choice([2, 4, 8, 16, 1520])
    nprio = rng.choice([1, 3, 10, 50])
    waves = rng.choice([1, 1, 2] if not long else [1, 2, 3])
    ops, live, nxt, rk = [], [], 0, {}

    def rank():
        return rng.randrange(nprio) - 3
    for w in range(waves):
        grow = rng.randint(70, 220) if not long else rng.randint(100, 350)      # Coq cost is cubic in the length
        for _ in range(grow):
            ops.append(["add", nxt, rank(), rng.randrange(6)])
            rk[nxt] = ops[-1][2]
            live.append(nxt)
            nxt += 1
            if rng.random() < 0.03:
                ops.append(["peek", 1, 0])
        # (tasks popped between waves stay in [live]: removing them later raises KeyError, re-adding them is a fresh add)
        frac = rng.choice([0.6, 0.8, 0.9, 0.97, 1.0])
        rng.shuffle(live)
        if rng.random() < 0.4:
            # remove from the top: the tombstones then sit next to each other at the head of the queue
            live.sort(key=lambda t: -(rk.get(t) or 0))
        burst, live = live[:int(len(live) * frac)], live[int(len(live) * frac):]
        for t in burst:
            r = rng.random()
            if r < 0.2:
                ops.append(["add", t, rank(), rng.randrange(6)])     # re-prioritise: tombstone + fresh entry
                live.append(t)
            else:
                ops.append(["remove", t])
            if rng.random() < 0.02:
                ops.append(["peek", 2, 1])
            if rng.random() < 0.01:
                ops.append(["len"])
        for _ in range(rng.randint(0, 6)):
            ops.append(["add", nxt, rank(), rng.randrange(6)])
            live.append(nxt)
            nxt += 1
        if w + 1 < waves:
            for _ in range(rng.randint(0, 5)):
                ops.append(["pop", None, 0])
    ops.append(["len"])
    dd = rng.choice([2, ["t", rng.randrange(max(nxt, 1))]])
    ops += [["pop", dd, 1] for _ in range(len(live) + 2)] + [["len"]]
    return {"kind": "q", "factor": factor, "ops": ops}


def _gen_steady(rng, tier):
    """event-loop regime: a queue kept at 50-250 live entries while it is popped and refilled for hundreds of
    operations (new tasks, re-adds of live or already served tasks, occasional removals and peeks), then drained."""
    long = tier != "quick"
    factor = rng.choice([2, 4, 8, 16, 1520])
    nprio = rng.choice([1, 2, 5, 30])
    level = rng.randint(50, 250)
    rounds = rng.randint(100, 250) if not long else rng.randint(200, 500)
    ops, nxt = [], 0

    def rank():
        return rng.randrange(nprio) - 2
    for _ in range(level):
        ops.append(["add", nxt, rank(), rng.randrange(6)])
        nxt += 1
    for _ in range(rounds):
        ops.append(["pop", None if rng.random() < 0.7 else ["t", rng.randrange(nxt)], 0])
        r = rng.random()
        if r < 0.6:
            ops.append(["add", nxt, rank(), rng.randrange(6)])
            nxt += 1
        elif r < 0.85:
            ops.append(["add", rng.randrange(nxt), rank(), rng.randrange(6)])   # live -> re-prioritised, served -> back in
        elif r < 0.95:
            ops.append(["remove", rng.randrange(nxt)])
            ops.append(["add", nxt, rank(), rng.randrange(6)])
            nxt += 1
        else:
            ops.append(["peek", 1, 1])
        if rng.random() < 0.03:
            ops.append(["addbad", rng.randrange(nxt), rng.choice(["str", "tuple", "huge"]), 0])
        if rng.random() < 0.02:
            ops.append(["len"])
    ops.append(["len"])
    dd = rng.choice([2, ["t", rng.randrange(nxt)]])
    ops += [["pop", dd, 1] for _ in range(level + rounds // 4 + 2)] + [["len"]]
    return {"kind": "q", "factor": factor, "ops": ops}


def _gen_blong(rng, tier):
    """a BarrelList kept busy for hundreds of operations: dozens of sub-lists, many of them emptied again"""
    factor = rng.choice([0, 1, 1, 2, 3])
    nops = rng.randint(300, 700) if tier == "quick" else rng.randint(500, 1500)
    ops, n, nxt = [], 0, 0
    for j in range(nops):
        grow = (j // 150) % 2 == 0
        r = rng.random()
        if r < (0.7 if grow else 0.25):
            i = rng.choice([0, n, rng.randint(0, n), rng.randint(0, n)])
            if rng.random() < 0.1:
                ops.append(["insneg", rng.randint(0, n + 2), nxt % 4000])
            else:
                ops.append(["ins", i, nxt % 4000])
            nxt += 1
            n += 1
        elif r < 0.9:
            kind = rng.random()
            if kind < 0.4:
                i = rng.choice([0, max(n - 1, 0), max(n - 1, 0), rng.randint(0, max(n - 1, 0)), n])
                ops.append(["pop", i])
                n -= i < n
            elif kind < 0.7:
                ops.append(["poplast"])
                n -= n > 0
            else:
                k = rng.randint(0, n + 1)
                ops.append(["popneg", k])
                n -= (k == 0 and n > 0) or 1 <= k <= n
        elif r < 0.96:
            ops.append(rng.choice([["get", rng.randint(0, n)], ["getneg", rng.randint(0, n + 1)]]))
        else:
            ops.append(["len"])
    ops += [["len"], ["list"]]
    return {"kind": "b", "factor": factor, "ops": ops}


def _gen_big(rng, tier, i):
    n = rng.randint(23000, 26000) if tier == "quick" else rng.randint(23000, 40000)
    if i >= 2 and i % 3 == 2:
        n = int(10 ** rng.uniform(3.0, 4.3))       # 1 000 .. 20 000: sizes between the large cases and the split point

    def pat():
        k = rng.choice(["desc", "desc", "asc", "mod"]) if i else "desc"
        if k == "mod":
            return ["mod", rng.choice([1, 2, 7, 50, 1000, 100003]), rng.choice([1, 3, 7919])]
        return [k, rng.choice([1, 1, 2, 10, 1000, 50000])]
    # inv: remove everything EXCEPT every r-th task (tombstones outnumber the live entries by thousands)
    return {"kind": "big", "n": n, "f": pat(), "q": rng.choice([0, 0, 3, 10, 1000]), "g": pat(),
            "r": rng.choice([0, 0, 3, 7, 500]) if i != 1 else rng.choice([3, 7, 50, 500]),
            "inv": (rng.random() < 0.3) if i != 1 else True}


def _gen_b(rng, tier):
    long = tier != "quick"
    factor = rng.choice([1, 1, 2, 2, 3, 0, 1520])
    nops = rng.randint(1, rng.choice([15, 50, 90] if not long else [50, 150, 300]))
    style = rng.choice(["append", "front", "random", "churn"])
    ops, n, nxt = [], 0, 0
    for j in range(nops):
        r = rng.random()
        ins_w = 0.75 if (style != "churn" or j < nops // 2) else 0.35
        if r < ins_w:
            if style == "append":
                i = n if rng.random() < 0.8 else rng.randint(0, n)
            elif style == "front":
                i = 0 if rng.random() < 0.7 else rng.randint(0, n)
            else:
                i = rng.choice([0, n, n // 2, rng.randint(0, n), rng.randint(0, n), n + rng.randint(1, 3)])
            ops.append(["ins", i, nxt % 4000])
            nxt += 1
            n += 1
        elif r < ins_w + 0.03:
            k = rng.choice([1, n, n + 1, max(n // 2, 1), rng.randint(1, max(n, 1)), n + 3, 0])
            ops.append(["insneg", k, nxt % 4000])         # b.insert(-k, x): clamps to the front
            nxt += 1
            n += 1
        elif r < ins_w + 0.09:
            i = rng.choice([0, 0, max(n - 1, 0), rng.randint(0, max(n - 1, 0)), n, n + 2])
            ops.append(["pop", i])
            if i < n:
                n -= 1
        elif r < ins_w + 0.12:
            if rng.random() < 0.5:
                ops.append(["poplast"])                    # b.pop()
                n -= n > 0
            else:
                k = rng.choice([1, 1, 2, n, n + 1, rng.randint(1, max(n, 1)), 0])
                ops.append(["popneg", k])                  # b.pop(-k)
                if (k == 0 and n > 0) or 1 <= k <= n:
                    n -= 1
        elif r < ins_w + 0.17:
            ops.append(["get", rng.choice([0, max(n - 1, 0), rng.randint(0, max(n - 1, 0)), n, n + 1])])
        elif r < ins_w + 0.2:
            ops.append(["getneg", rng.choice([1, n, max(n // 2, 1), rng.randint(1, max(n, 1)), n + 1, 0])])   # b[-k]
        elif r < ins_w + 0.23:
            ops.append(["len"])
        elif r < ins_w + 0.25 and n < 80:
            ops.append(["list"])
    ops.append(["len"])
    if n < 400:
        ops.append(["list"])
    return {"kind": "b", "factor": factor, "ops": ops}


def generate(rng, tier, n):
    nbig = 0 if n < 1000 else (2 if tier == "quick" else 12)
    nlarge = n // 400 if tier == "quick" else n // 1000      # Coq cost is cubic in the number of entries
    nchurn = n // 160 if tier == "quick" else n // 600
    nsteady = n // 330 if tier == "quick" else n // 1000
    nblong = n // 330 if tier == "quick" else n // 1000
    # the 200 KB cases first so that their coqc jobs overlap with all the others; then a block of small cases (a
    # defect that shows on small histories is then reported and shrunk from those, cheaply); then the long ones
    nsmall = n - nbig - nlarge - nchurn - nsteady - nblong
    for i in range(nbig):
        yield _gen_big(rng, tier, i)
    for i in range(min(300, nsmall)):
        yield _gen_q(rng, tier) if rng.random() < 0.78 else _gen_b(rng, tier)
    for i in range(nlarge):
        yield _gen_large(rng, tier)
    for i in range(nchurn):
        yield _gen_churn(rng, tier)
    for i in range(nsteady):
        yield _gen_steady(rng, tier)
    for i in range(nblong):
        yield _gen_blong(rng, tier)
    for i in range(nsmall - min(300, nsmall)):
        yield _gen_q(rng, tier) if rng.random() < 0.78 else _gen_b(rng, tier)


# --------------------------------------------------------------------------
def _limit_steps(BarrelList, factor, upto):
    """_cur_size_limit as a step table [(threshold, value)], measured on the class when possible."""
    def formula(n):
        return int(round(factor * math.log(n + 2, 2)))
    try:
        probe = BarrelList()

        def measured(n):
            probe.lists = [[0] * n]
            return int(probe._cur_size_limit)
        measured(0)
        fn = measured
    except Exception:
        fn = formula
    steps, last = [], None
    for n in range(upto + 1):
        v = fn(n)
        if v != last:
            steps.append([n, v])
            last = v
    return steps


_EXC = (KeyError, IndexError)


def _picky(p):
    """a custom priority_key that raises for some priorities (None, negatives)"""
    if p is None:
        raise ValueError("priority required")
    if p < 0:
        return 1 / 0
    return -float(p)


# custom priority_key functions (each strictly monotone where it does not raise) and how a rank r must be
# spelled so that the induced order is the rank order: default / scaled: value r/2; min: value -r/2
KEYFN = {None: lambda p: -float(p or 0),            # the documented default, used here only to learn what it raises
         "scaled": lambda p: -3.0 * float(p or 0) - 7.0,
         "min": lambda p: float(p or 0),
         "exact": lambda p: -(p or 0),               # returns int / Fraction / float / bool as given, not a float
         "picky": _picky}

BAD = {"str": "urgent", "tuple": (1, 2), "list": [3], "huge": 10 ** 400, "obj": object(), "bytes": b"7x",
       "none": None, "neg": -1.5}         # the last two are rejected by the picky key only

EXN_COQ = {"ValueError": "ValueError", "TypeError": "TypeError", "KeyError": "KeyError", "IndexError": "IndexError",
           "OverflowError": "(OtherExn 10)", "ZeroDivisionError": "(OtherExn 11)"}


def _extremes(case):
    if not case.get("inf") or case.get("key"):
        return None
    rs = [op[2] for op in case["ops"] if op[0] == "add" and op[2] is not None]
    if not rs or min(rs) >= 0 or max(rs) <= 0:
        return None        # None / omitted priority means 0: the infinities must lie strictly outside it
    return (min(rs), max(rs))


def _run_queue(cls, case, inv):
    key = case.get("key")
    q = cls(priority_key=KEYFN[key]) if key else cls()
    ext = _extremes(case)
    out, maxsub = [], 1
    for op in case["ops"]:
        try:
            if op[0] == "addbad":
                # the priority key rejects this priority: add must raise exactly what the key raises
                t = task_copy(op[1]) if op[3] else task(op[1])
                try:
                    if op[2] == "unhashable":
                        r = q.add([op[1]], 1)          # a task that cannot be hashed: TypeError, nothing changes
                    else:
                        r = q.add(t, BAD[op[2]])
                    out.append(["none"])
                except Exception as e:      # whatever the key raised; compared in Coq with the key's own exception
                    out.append(["err", type(e).__name__])
                continue
            if op[0] == "add":
                rank = op[2]
                if key == "min" and rank is not None:
                    rank = -rank
                p = prio_obj(rank, op[3], ext)
                t = task_copy(op[1]) if len(op) > 4 and op[4] else task(op[1])
                if op[2] is None and op[3] % 2:
                    r = q.add(t)
                elif op[3] == 5:
                    r = q.add(t, priority=p)
                else:
                    r = q.add(t, p)
                assert r is None, r
                out.append(["none"])
            elif op[0] == "remove":
                r = q.remove(task_copy(op[1]) if len(op) > 2 and op[2] else task(op[1]))
                assert r is None, r
                out.append(["none"])
            elif op[0] in ("pop", "peek"):
                f = getattr(q, op[0])
                if op[1] is None:
                    r = f()
                elif op[2]:
                    r = f(default=default_obj(op[1]))
                else:
                    r = f(default_obj(op[1]))
                if isinstance(r, list):
                    assert r[0] == "dflt", r
                    out.append(["default", r[1]])
                else:
                    out.append(["task", inv[r]])
            else:
                out.append(["len", len(q)])
        except _EXC as e:
            out.append(["err", type(e).__name__])
        try:
            maxsub = max(maxsub, len(q._pq.lists))
        except AttributeError:
            pass
    return out, maxsub


def big_rank(pat, i):
    if pat[0] == "desc":
        return -(i // pat[1])
    if pat[0] == "asc":
        return i // pat[1]
    return (i * pat[2]) % pat[1]


def big_task(i):
    return i if i % 2 == 0 else "s%d" % i


def _run_big(cls, case):
    n, q_, r_ = case["n"], case["q"], case["r"]
    q = cls()
    inv = {}
    for i in range(n):
        inv[big_task(i)] = i
        q.add(big_task(i), prio_obj(big_rank(case["f"], i), i % 5))
    for i in range(n):
        if q_ and i % q_ == 1:         # Spec.readded
            q.add(big_task(i), prio_obj(big_rank(case["g"], i), i % 5))
    for i in range(n):
        if r_ and ((i % r_ == 2) != bool(case.get("inv"))):         # Spec.removed
            q.remove(big_task(i))
    maxsub = 1
    try:
        maxsub = len(q._pq.lists)
    except AttributeError:
        pass
    out = {"len": len(q), "pops": []}
    for _ in range(n + 5):
        try:
            out["pops"].append(inv[q.pop()])
        except IndexError:
            break
    dflt = ["dflt", 0]
    out["end"] = bool(q.pop(dflt) is dflt and q.peek(default=dflt) is dflt and len(q) == 0)
    return out, maxsub


def run_impl(case):
    from boltons.listutils import BarrelList
    if case["kind"] == "big":
        from boltons.queueutils import HeapPriorityQueue, SortedPriorityQueue
        heap, _ = _run_big(HeapPriorityQueue, case)
        srt, maxsub = _run_big(SortedPriorityQueue, case)
        return {"heap": heap, "sorted": srt, "maxsub": maxsub}
    old = BarrelList._size_factor
    BarrelList._size_factor = case["factor"]
    try:
        if case["kind"] == "q":
            from boltons.queueutils import HeapPriorityQueue, SortedPriorityQueue
            inv = {}
            for op in case["ops"]:
                if op[0] in ("add", "remove", "addbad"):
                    inv[task(op[1])] = op[1]
                elif op[0] in ("pop", "peek") and isinstance(op[1], list):
                    inv[task(op[1][1])] = op[1][1]
            nadd = sum(1 for op in case["ops"] if op[0] == "add")
            heap, _ = _run_queue(HeapPriorityQueue, case, inv)
            srt, maxsub = _run_queue(SortedPriorityQueue, case, inv)
            bad = {}
            for i, op in enumerate(case["ops"]):
                if op[0] == "addbad":
                    try:
                        if op[2] == "unhashable":
                            hash([op[1]])
                        else:
                            KEYFN[case.get("key")](BAD[op[2]])
                        raise AssertionError("harness: priority %r is not rejected by key %r" % (op[2], case.get("key")))
                    except AssertionError:
                        raise
                    except Exception as e:
                        bad[str(i)] = type(e).__name__
            return {"bad": bad, "lim": _limit_steps(BarrelList, case["factor"], nadd + 1), "heap": heap, "sorted": srt,
                    "maxsub": maxsub}
        b = BarrelList()
        out, maxsub = [], 1
        for op in case["ops"]:
            try:
                if op[0] == "ins":
                    r = b.insert(op[1], op[2])
                    assert r is None
                    out.append(["none"])
                elif op[0] == "pop":
                    out.append(["val", b.pop(op[1])])
                elif op[0] == "insneg":
                    r = b.insert(-op[1], op[2])
                    assert r is None
                    out.append(["none"])
                elif op[0] == "poplast":
                    out.append(["val", b.pop()])
                elif op[0] == "popneg":
                    out.append(["val", b.pop(-op[1])])
                elif op[0] == "get":
                    out.append(["val", b[op[1]]])
                elif op[0] == "getneg":
                    out.append(["val", b[-op[1]]])
                elif op[0] == "len":
                    out.append(["len", len(b)])
                else:
                    out.append(["items", list(b)])
            except IndexError as e:
                out.append(["err", type(e).__name__])
            try:
                maxsub = max(maxsub, len(b.lists))
            except AttributeError:
                pass
        nins = sum(1 for op in case["ops"] if op[0] in ("ins", "insneg"))
        return {"lim": _limit_steps(BarrelList, case["factor"], nins + 1), "obs": out, "maxsub": maxsub}
    finally:
        BarrelList._size_factor = old


# --------------------------------------------------------------------------
def _qop(op, expect=None):
    if op[0] == "addbad":
        return "AddBad %s %s" % (cnat(op[1]), EXN_COQ[expect])
    if op[0] == "add":
        return "Add %s %s" % (cnat(op[1]), copt(None if op[2] is None else cZ(op[2])))
    if op[0] == "remove":
        return "Remove %s" % cnat(op[1])
    if op[0] in ("pop", "peek"):
        d = op[1]
        dd = None if d is None else ("(DTask %s)" % cnat(d[1]) if isinstance(d, list) else "(DOther %s)" % cnat(d))
        return "%s %s" % ("Pop" if op[0] == "pop" else "Peek", copt(dd))
    return "Len"


def _qobs(o):
    if o[0] == "none":
        return "ONone"
    if o[0] == "task":
        return "OTask %s" % cnat(o[1])
    if o[0] == "default":
        return "ODefault %s" % cnat(o[1])
    if o[0] == "len":
        return "OLen %s" % cnat(o[1])
    return "OErr %s" % EXN_COQ[o[1]]  # exception type -> Prelude.exn (unknown types cannot be rendered: fail closed)


def _bop(op):
    if op[0] == "ins":
        return "BInsert %s %s" % (cnat(op[1]), cnat(op[2]))
    if op[0] == "pop":
        return "BPop %s" % cnat(op[1])
    if op[0] == "get":
        return "BGet %s" % cnat(op[1])
    if op[0] == "getneg":
        return "BGetNeg %s" % cnat(op[1])
    if op[0] == "insneg":
        return "BInsertNeg %s %s" % (cnat(op[1]), cnat(op[2]))
    if op[0] == "poplast":
        return "BPopLast"
    if op[0] == "popneg":
        return "BPopNeg %s" % cnat(op[1])
    return "BLen" if op[0] == "len" else "BList"


def _bobs(o):
    if o[0] == "none":
        return "BNone"
    if o[0] == "val":
        return "BVal %s" % cnat(o[1])
    if o[0] == "len":
        return "BLenIs %s" % cnat(o[1])
    if o[0] == "items":
        return "BItems %s" % clist(cnat(x) for x in o[1])
    return "BErr %s" % o[1]


def _pat(p):
    if p[0] == "desc":
        return "(RDesc %s)" % cN(p[1])
    if p[0] == "asc":
        return "(RAsc %s)" % cN(p[1])
    return "(RMod %s %s)" % (cN(p[1]), cN(p[2]))


def _chunked(items, n=4000):
    """a long list literal as (l1 ++ l2 ++ ...): Coq's parser overflows its stack on one literal of > ~33 000 items"""
    items = list(items)
    if len(items) <= n:
        return clist(items)
    return "(" + " ++ ".join(clist(items[i:i + n]) for i in range(0, len(items), n)) + ")"


def _bigobs(o):
    return "(mkBigObs %s %s %s)" % (cN(o["len"]), _chunked(cN(t) for t in o["pops"]), "true" if o["end"] else "false")


def to_coq(case, obs):
    if case["kind"] == "big":
        par = "(mkBig %s %s %s %s %s %s)" % (cN(case["n"]), _pat(case["f"]), cN(case["q"]), _pat(case["g"]), cN(case["r"]),
                                               "true" if case.get("inv") else "false")
        if obs["heap"] == obs["sorted"]:
            return "BigSame %s %s" % (par, _bigobs(obs["heap"]))
        return "BigDiff %s %s %s" % (par, _bigobs(obs["heap"]), _bigobs(obs["sorted"]))
    lim = clist(cpair(cN(a), cN(b)) for a, b in obs["lim"])
    if case["kind"] == "q":
        ops = clist(_qop(op, obs.get("bad", {}).get(str(i))) for i, op in enumerate(case["ops"]))
        if obs["heap"] == obs["sorted"]:
            return "QSame %s %s %s" % (lim, ops, clist(_qobs(o) for o in obs["heap"]))
        return "QDiff %s %s %s %s" % (lim, ops, clist(_qobs(o) for o in obs["heap"]),
                                      clist(_qobs(o) for o in obs["sorted"]))
    return "BCase %s %s %s" % (lim, clist(_bop(op) for op in case["ops"]), clist(_bobs(o) for o in obs["obs"]))


def corrupt(case, obs):
    """A wrong observation for the canary."""
    import copy
    if case["kind"] == "big" and not case.get("canary"):
        return None                   # 200 KB terms: the canary uses the ordinary cases (and corpus-sized big ones)
    if case["kind"] != "big" and len(case["ops"]) > 150:
        return None
    bad = copy.deepcopy(obs)
    if case["kind"] == "big":
        p = bad["sorted"]["pops"]
        if len(p) < 2:
            return None
        p[-1], p[-2] = p[-2], p[-1]
        return bad
    seq = bad["sorted"] if case["kind"] == "q" else bad["obs"]
    for o in reversed(seq):
        if o[0] in ("task", "val", "len"):
            o[1] += 1
            return bad
    for o in seq:
        if o[0] == "none":
            o[0] = "err"
            o.append("IndexError")
            return bad
    return None


def _tombstones(case, obs):
    """largest number of tombstones created while at most that many/3 tasks were live - statistics only:
    max over time of (tombstones created so far - 2 * live)."""
    live, made, worst = set(), 0, 0
    for op, o in zip(case["ops"], obs["heap"]):
        if op[0] == "add":
            made += op[1] in live
            live.add(op[1])
        elif op[0] == "remove":
            made += op[1] in live
            live.discard(op[1])
        elif op[0] == "pop" and o[0] == "task":
            live.discard(o[1])
        worst = max(worst, made - 2 * len(live))
    return worst


def _q_depth(case, obs):
    """(re-add or removal of a live task happened, a pop/peek had to break a tie) - statistics only."""
    live = {}
    touched = tie = False
    for op, o in zip(case["ops"], obs["heap"]):
        if op[0] == "add":
            touched |= op[1] in live
            live[op[1]] = op[2] or 0
        elif op[0] == "remove":
            touched |= op[1] in live
            live.pop(op[1], None)
        elif op[0] in ("pop", "peek") and o[0] == "task":
            p = live.get(o[1])
            tie |= sum(1 for v in live.values() if v == p) > 1
            if op[0] == "pop":
                live.pop(o[1], None)
    return touched, tie


def nontrivial(case, obs):
    if case["kind"] == "big":
        return obs["maxsub"] >= 2
    if case["kind"] == "q":
        touched, tie = _q_depth(case, obs)
        return touched and tie and obs["maxsub"] >= 2
    n, end_ins = 0, False
    for op, o in zip(case["ops"], obs["obs"]):
        if op[0] == "ins":
            end_ins |= op[1] >= n and n > 0
            n += 1
        elif op[0] == "pop" and o[0] == "val":
            n -= 1
    return obs["maxsub"] >= 2 and end_ins and any(op[0] == "pop" for op in case["ops"])


def distribution(d, case, obs):
    def bump(group, k, by=1):
        d.setdefault(group, {})
        d[group][k] = d[group].get(k, 0) + by
    bump("kind", case["kind"])
    if case["kind"] == "big":
        bump("size_factor", "1520 (class default)")
        bump("max_sublists", "big:%d" % obs["maxsub"])
        bump("big_patterns", "%s/%s q=%d r=%d%s" % (case["f"][0], case["g"][0], case["q"], case["r"],
                                                   " keep-only" if case.get("inv") else ""))
        d["max_queue_len_big"] = max(d.get("max_queue_len_big", 0), case["n"])
        bump("depth", "classes_differ", int(obs["heap"] != obs["sorted"]))
        return
    bump("size_factor", str(case["factor"]))
    bump("max_sublists", str(min(obs["maxsub"], 8)) + ("+" if obs["maxsub"] >= 8 else ""))
    for op in case["ops"]:
        bump("ops", case["kind"] + ":" + op[0])
    seq = obs["heap"] if case["kind"] == "q" else obs["obs"]
    for o in seq:
        if o[0] == "err":
            bump("errors", o[1])
        elif o[0] == "default":
            bump("errors", "default returned")
    if case["kind"] == "q":
        touched, tie = _q_depth(case, obs)
        bump("depth", "readd_or_remove_live", int(touched))
        bump("depth", "tie_broken", int(tie))
        d["max_queue_len"] = max(d.get("max_queue_len", 0), max([o[1] for o in obs["heap"] if o[0] == "len"] or [0]))
        bump("depth", "classes_differ", int(obs["heap"] != obs["sorted"]))
        t = _tombstones(case, obs)
        bump("tombstones_minus_2x_live", "<=0" if t <= 0 else "1-15" if t < 16 else "16-63" if t < 64 else
             "64-255" if t < 256 else "256-1023" if t < 1024 else "1024+")
    else:
        d["max_barrel_len"] = max(d.get("max_barrel_len", 0), max([o[1] for o in obs["obs"] if o[0] == "len"] or [0]))


def sample(case, obs):
    if case["kind"] == "big":
        return {"kind": "big", "params": {k: case.get(k) for k in ("n", "f", "q", "g", "r", "inv")}, "len": obs["sorted"]["len"],
                "first_pops_heap": obs["heap"]["pops"][:12], "first_pops_sorted": obs["sorted"]["pops"][:12],
                "max_sublists": obs["maxsub"]}
    if case["kind"] == "q":
        return {"kind": "q", "size_factor": case["factor"], "ops": case["ops"][:8], "heap": obs["heap"][:8],
                "sorted": obs["sorted"][:8], "max_sublists": obs["maxsub"]}
    return {"kind": "b", "size_factor": case["factor"], "ops": case["ops"][:8], "obs": obs["obs"][:8],
            "max_sublists": obs["maxsub"]}


def shrink(case):
    """smaller candidates: big cases lose their re-adds/removals/pattern and some length; others lose chunks of ops"""
    import json
    if case["kind"] == "big":
        for k, v in (("q", 0), ("r", 0), ("inv", False), ("g", ["desc", 1]), ("f", ["desc", 1])):
            if case.get(k, v) != v:
                c = dict(case)
                c[k] = v
                yield c
        # much shorter histories are cheap to try (small terms); near-full-size ones are not worth 10 s each
        for n in (40, 400, 4000):
            if n < case["n"]:
                c = dict(case)
                c["n"] = n
                yield c
        return
    ops = case["ops"]
    n = len(ops)
    if n <= 1:
        return
    # few candidates per round (each round costs one implementation run + one coqc): halves, quarters, eighths,
    # sixteenths; single operations only once the history is short
    seen = set()
    for parts in (2, 4, 8, 16) if n > 16 else (2, 4, n):
        chunk = max(1, n // parts)
        for s_ in range(0, n, chunk):
            cand = ops[:s_] + ops[s_ + chunk:]
            key = json.dumps(cand)
            if cand and key not in seen:
                seen.add(key)
                c = dict(case)
                c["ops"] = cand
                yield c
