"""C11 IndexedSet = ordered list of unique items + set: plug-in.

A case is a history of public operations on one IndexedSet.  Python only runs
the operations on the real class and records what the public API returns;
Coq (Check/C11_Check.v) compares every recorded observation with the model
(agree) and with the reference list/set semantics (holds)."""
import copy
from common import cnat, cN, cZ, clist, cbool, copt

ID = "C11"
IMPORTS = ("From Boltons Require Import Lib.Prelude Lib.C11_Iface Spec.C11_Spec Model.C11_Model "
           "Gen.C11_Gen Check.C11_Check. Open Scope N_scope.")
CASE_TYPE = "c11_case"
VERDICT = "c11_verdict"
EXPLAIN = "c11_explain"
CASES_PER_FILE = 40
CASE_FILE_BYTES = 110000
CASE_TIMEOUT = 60
TIERS = {"quick": {"n": 700}, "thorough": {"n": 9000}}
RULE = ("histories of add/remove/discard/pop/clear/sort/reverse, update/intersection_update/difference_update/"
        "symmetric_difference_update (method and operator forms, 0-3 operands of type set/frozenset/list/tuple/"
        "IndexedSet, generators for update), union/intersection/difference/symmetric_difference/rsub, "
        "issubset/issuperset/isdisjoint, == != <= < >= >, the same calls with the set itself as operand, s[i], s[a:b:k], index, count, in, len, iter, reversed; after every "
        "operation len(s) and digests of [s[i] for i in range(len(s))] and list(s) are recorded, at snapshot "
        "operations every s[i] for -len<=i<len, index() of every item and reversed().  Streams: mixed, "
        "deletion-heavy (compaction, right-trim), directed stale-interval, directed empty-and-refill, set-algebra, spec-validation.  non-trivial = a deletion away from the tail is later followed by a positional read, or a "
        "set operation has >= 2 operands; distinct = distinct canonical history hash")
ASSUMPTIONS = ["items are hashable with lawful __eq__/__hash__ (tokens mapped to pairwise unequal Python objects)",
               "index arguments are valid for a list of the same length, slice steps positive (the property's quantifier); "
               "a history is judged up to its first operation outside it",
               "operands are set, frozenset, list, tuple or another IndexedSet (generators only for update)"]
TRUSTED = ["Model/C11_Model.v is hand-written; tied to boltons.setutils.IndexedSet by the correspondence run",
           "bisect_left (on a sorted list), sorted(), itertools.islice/chain, list and dict primitives are modelled by contract",
           "harness/c11.py serialiser; the two 61-bit polynomial digests (multiplier 1000003, truncated to 61 bits) stand for the full lists between snapshots",
           "harness/translators/c11_consts.py (reads _COMPACTION_FACTOR and the 384 limit from the source)",
           "harness/translators/{py2coq,c11_src}.py (Gen/C11_Src.v: _get_real_index and _get_apparent_index regenerated from "
           "the source each run; C11_source_real_index / C11_source_apparent_index prove them equal to the model's loops)",
           "harness/translators/c11_cull.py (Gen/C11_Cull.v: _cull regenerated from the source each run - branch order, "
           "conditions, constants, both right-trim loops - and _add_dead; C11_source_cull / C11_source_add_dead prove them equal to the model)",
           "harness/translators/c11_ops.py (Gen/C11_Ops.v: remove, pop, add, discard, clear, reverse, sort, index, __getitem__(int), the predicates and the whole set algebra regenerated from the source each run, calling the "
           "regenerated _get_real_index/_add_dead/_cull; C11_source_remove, _pop, _add, _discard, _clear, _reverse, _sort prove them equal to the model)"]

DG_MOD = 2305843009213693951
BAD_TOK = 999999


def translators(repo):
    import os
    import sys
    sys.path.insert(0, os.path.join(os.path.dirname(os.path.abspath(__file__)), "translators"))
    import c11_consts
    import c11_src
    import c11_cull
    out = {"C11_Gen": c11_consts.render(repo)}
    out.update(c11_src.generate(repo))       # Gen/C11_Src.v: _get_real_index / _get_apparent_index from the source
    out.update(c11_cull.generate(repo))      # Gen/C11_Cull.v: _cull and _add_dead from the source
    import c11_ops
    out.update(c11_ops.generate(repo))       # Gen/C11_Ops.v: remove and pop from the source
    return out


# ---------------------------------------------------------------------------
# tokens -> python objects (monotone for the sortable key modes)
# ---------------------------------------------------------------------------
MIXED = [0, "a", (1, 2), None, 3.5, "b", frozenset([7]), -1, "key", (), 17, "z", b"y", 99, "q", ("t", None)]


def key(mode, tok):
    if mode == "int":
        return tok * 3 - 40
    if mode == "str":
        return "k%05d" % tok
    if mode == "tuple":
        return (tok // 5, tok % 5)
    if mode == "float":
        return tok + 0.5
    return MIXED[tok] if tok < len(MIXED) else "m%d" % tok


class Toks:
    def __init__(self, mode):
        self.mode = mode
        self.inv = {}

    def obj(self, tok):
        o = key(self.mode, tok)
        self.inv[o] = tok
        return o

    def tok(self, o):
        try:
            return self.inv.get(o, BAD_TOK)
        except TypeError:
            return BAD_TOK


def digest(toks):
    h = 7
    for t in toks:
        h = (h * 1000003 + t + 1) & DG_MOD
    return h


# ---------------------------------------------------------------------------
# generation (the reference list kept here only steers the generator towards
# valid indexes and present items; it takes no part in any verdict)
# ---------------------------------------------------------------------------
OPD_KINDS = ["set", "frozenset", "list", "tuple", "iset"]


def _uniq(xs):
    out = []
    for x in xs:
        if x not in out:
            out.append(x)
    return out


class Ref:
    """bookkeeping for the generator"""

    def __init__(self):
        self.l = []

    def apply(self, op):
        l = self.l
        k = op[0]
        if k == "add":
            if op[1] not in l:
                l.append(op[1])
        elif k in ("remove", "discard"):
            if op[1] in l:
                l.remove(op[1])
        elif k == "pop":
            if l:
                if op[1] is None:
                    l.pop()
                elif -len(l) <= op[1] < len(l):
                    l.pop(op[1])
        elif k == "clear":
            del l[:]
        elif k == "sort":
            l.sort(reverse=op[1])
        elif k == "sortkey":
            l.sort(key=lambda t: t % op[1], reverse=op[2])
        elif k == "reverse":
            l.reverse()
        elif k == "update":
            l[:] = _uniq(l + [x for o in op[1] for x in o[1]])
        elif k == "iupdate":
            l[:] = [x for x in l if all(x in o[1] for o in op[1])]
        elif k == "dupdate":
            l[:] = [x for x in l if not any(x in o[1] for o in op[1])]
        elif k == "sdupdate":
            o = op[1][1]
            l[:] = [x for x in l if x not in o] + _uniq([x for x in o if x not in l])
        elif k == "self" and op[1] in ("dupdate", "sdupdate"):
            del l[:]
        elif k == "selfmix":
            others = [list(l) if o is None else o[1] for o in op[2]]
            if op[1] == "update":
                l[:] = _uniq(l + [x for o in others for x in o])
            elif op[1] == "iupdate":
                l[:] = [x for x in l if all(x in o for o in others)]
            elif op[1] == "dupdate":
                l[:] = [x for x in l if not any(x in o for o in others)]


def _operand(rng, ref, univ, kinds=OPD_KINDS, maxlen=7):
    n = rng.choice([0, 1, 2, 3, 4, maxlen])
    xs = []
    for _ in range(n):
        r = rng.random()
        if ref.l and r < 0.6:
            xs.append(rng.choice(ref.l))
        else:
            xs.append(rng.randrange(univ))
    kind = rng.choice(kinds)
    if rng.random() < 0.25 and ref.l:
        # derived from the set itself: same items in the same / another order, one more, one less, a duplicate
        xs = list(ref.l)
        if rng.random() < 0.6:
            rng.shuffle(xs)
        q = rng.random()
        if q < 0.2:
            xs.append(xs[0])
        elif q < 0.4:
            xs.insert(rng.randrange(len(xs) + 1), univ + 2)
        elif q < 0.6:
            xs.pop(rng.randrange(len(xs)))
        if "iset" in kinds and rng.random() < 0.4:
            kind = "iset"
    return [kind, xs]


def _operands(rng, ref, univ, kinds=OPD_KINDS):
    return [_operand(rng, ref, univ, kinds) for _ in range(rng.choice([0, 1, 1, 1, 2, 2, 3]))]


def _idx(rng, n):
    """a valid index for a list of length n > 0, biased to the ends"""
    r = rng.random()
    if r < 0.2:
        return rng.choice([0, n - 1, -1, -n])
    if r < 0.3:
        return rng.choice([max(n - 2, 0), min(1, n - 1), -min(2, n)])
    return rng.randrange(-n, n)


def _bound(rng, n):
    if rng.random() < 0.2:
        return None
    return rng.randrange(-n - 3, n + 4)


def _read_op(rng, ref, univ):
    n = len(ref.l)
    r = rng.random()
    if r < 0.30 and n:
        return ["get", _idx(rng, n)]
    if r < 0.50:
        return ["slice", _bound(rng, n), _bound(rng, n), rng.choice([None, None, 1, 2, 3, 5])]
    if r < 0.70:
        return ["index", rng.choice(ref.l) if n and rng.random() < 0.9 else rng.randrange(univ)]
    if r < 0.75:
        return ["count", rng.randrange(univ)]
    if r < 0.80:
        return ["contains", rng.randrange(univ)]
    if r < 0.84:
        return ["len"]
    if r < 0.88:
        return ["iter"]
    if r < 0.92:
        return ["reversed"]
    return ["snap"]


def _delete_op(rng, ref, univ):
    n = len(ref.l)
    r = rng.random()
    if not n:
        return rng.choice([["discard", rng.randrange(univ)], ["pop", None], ["remove", rng.randrange(univ)]])
    if r < 0.30:
        return ["remove", rng.choice(ref.l) if rng.random() < 0.93 else rng.randrange(univ)]
    if r < 0.50:
        return ["discard", rng.choice(ref.l) if rng.random() < 0.85 else rng.randrange(univ)]
    if r < 0.62:
        return ["pop", None]
    return ["pop", _idx(rng, n)]


SELF_KINDS = ["update", "iupdate", "dupdate", "sdupdate", "union", "inter", "diff", "symdiff",
              "issubset", "issuperset", "isdisjoint"]


def _setop(rng, ref, univ, sortable):
    if rng.random() < 0.06:
        # several operands, some of them the set itself
        k = rng.choice(["update", "iupdate", "dupdate", "union", "inter", "diff"])
        os_ = [_operand(rng, ref, univ) for _ in range(rng.choice([1, 1, 2]))]
        for _ in range(rng.choice([1, 1, 2])):
            os_.insert(rng.randrange(len(os_) + 1), None)
        return ["selfmix", k, os_]
    if rng.random() < 0.10:
        # the operand is the set itself
        k = rng.choice(SELF_KINDS)
        form = rng.choice(["method", "operator"]) if k not in ("issubset", "issuperset", "isdisjoint") else "method"
        return ["self", k, form]
    r = rng.random()
    if r < 0.14:
        kinds = OPD_KINDS + ["gen", "iter"]
        os_ = _operands(rng, ref, univ, kinds)
        form = "operator" if len(os_) == 1 and os_[0][0] not in ("gen", "iter") and rng.random() < 0.4 else "method"
        return ["update", os_, form]
    if r < 0.26:
        os_ = _operands(rng, ref, univ)
        return ["iupdate", os_, "operator" if len(os_) == 1 and rng.random() < 0.4 else "method"]
    if r < 0.38:
        os_ = _operands(rng, ref, univ)
        return ["dupdate", os_, "operator" if len(os_) == 1 and rng.random() < 0.4 else "method"]
    if r < 0.48:
        return ["sdupdate", _operand(rng, ref, univ), rng.choice(["method", "operator"])]
    if r < 0.58:
        os_ = _operands(rng, ref, univ)
        form = "method"
        if len(os_) == 1:
            form = rng.choice(["method", "operator"] + (["roperator"] if os_[0][0] in ("set", "frozenset") else []))
        return ["union", os_, form]
    if r < 0.68:
        os_ = _operands(rng, ref, univ)
        if rng.random() < 0.3 and len(ref.l) >= 2:
            # an IndexedSet operand with the same number of items in another order: the result must follow self
            xs = list(ref.l)
            rng.shuffle(xs)
            if rng.random() < 0.5:
                xs[rng.randrange(len(xs))] = univ + 3
            os_ = [["iset", xs]]
        form = "method"
        if len(os_) == 1:
            form = rng.choice(["method", "operator"] + (["roperator"] if os_[0][0] in ("set", "frozenset") else []))
        return ["inter", os_, form]
    if r < 0.77:
        os_ = _operands(rng, ref, univ)
        return ["diff", os_, "operator" if len(os_) == 1 and rng.random() < 0.5 else "method"]
    if r < 0.84:
        o = _operand(rng, ref, univ)
        form = rng.choice(["method", "operator"] + (["roperator"] if o[0] in ("set", "frozenset") else []))
        return ["symdiff", o, form]
    if r < 0.885:
        ck = rng.choice(["eq", "ne", "le", "lt", "ge", "gt"])
        kinds = OPD_KINDS if ck in ("eq", "ne") else ["set", "frozenset", "iset"]
        o = _operand(rng, ref, univ, kinds)
        if rng.random() < 0.5 and ref.l:             # same items: equal / reordered / one more / one less
            xs = list(ref.l)
            q = rng.random()
            if q < 0.4:
                rng.shuffle(xs)
            elif q < 0.55:
                xs.append(univ + 1)
            elif q < 0.7:
                xs.pop(rng.randrange(len(xs)))
            o = ["iset" if rng.random() < 0.5 else o[0], xs]
        return ["cmp", ck, o]
    if r < 0.91:
        return ["rsub", _operand(rng, ref, univ, ["set", "frozenset"])]
    if r < 0.94:
        return ["issubset", _operand(rng, ref, univ)]
    if r < 0.97:
        return ["issuperset", _operand(rng, ref, univ)]
    return ["isdisjoint", _operand(rng, ref, univ)]


def _gen_mixed(rng, tier, weights):
    """weights = (add, delete, read, setop, order)"""
    mode = rng.choice(["int", "str", "tuple", "float", "mixed"])
    sortable = mode != "mixed"
    n0 = rng.choice([0, 1, 2, 5, 9, 16, 24, 40, 64])
    univ = n0 + rng.choice([3, 8, 20])
    ref = Ref()
    ops = []
    if n0:
        first = ["update", [[rng.choice(["list", "tuple", "gen", "iter", "set", "iset"]), list(range(n0))]],
                 rng.choice(["ctor", "method", "from_iterable"])]
        if rng.random() < 0.3:
            rng.shuffle(first[1][0][1])
        ops.append(first)
        ref.apply(first)
    nops = rng.randint(4, 45 if tier == "quick" else 90)
    wa, wd, wr, ws, wo = weights
    tot = float(wa + wd + wr + ws + wo)
    for _ in range(nops):
        r = rng.random() * tot
        if r < wa:
            op = ["add", rng.randrange(univ)]
        elif r < wa + wd:
            op = _delete_op(rng, ref, univ)
        elif r < wa + wd + wr:
            op = _read_op(rng, ref, univ)
        elif r < wa + wd + wr + ws:
            op = _setop(rng, ref, univ, sortable)
        else:
            q = rng.random()
            if q < 0.15:
                op = ["sortkey", rng.choice([1, 2, 3, 5]), rng.random() < 0.4]    # needs no ordering of the items
            elif q < 0.45 and sortable:
                op = ["sort", rng.random() < 0.3]
            elif q < 0.8:
                op = ["reverse"]
            else:
                # clear, refill, read positions: stale bookkeeping surviving clear() shows at once
                op = ["clear"]
                ops.append(op)
                ref.apply(op)
                op = ["update", [[rng.choice(["list", "tuple", "gen"]), rng.sample(range(univ), min(univ, rng.randint(2, 9)))]],
                      "method"]
                ops.append(op)
                ref.apply(op)
                op = ["snap"] if rng.random() < 0.5 else ["get", _idx(rng, len(ref.l))]
        ops.append(op)
        ref.apply(op)
    ops.append(["snap"])
    return {"keymode": mode, "digests": True, "ops": ops, "stream": "mixed"}


def _gen_deletion(rng, tier):
    """deletion-heavy: 20-400 items, mostly removals so that compaction and right-trim fire"""
    mode = rng.choice(["int", "str", "tuple"])
    n0 = rng.choice([20, 33, 48, 64, 100, 130] + ([200, 400] if tier != "quick" or rng.random() < 0.15 else []))
    univ = n0 + 10
    ref = Ref()
    ops = [["update", [["list", list(range(n0))]], "ctor"]]
    ref.apply(ops[0])
    nops = rng.randint(10, 60 if tier == "quick" else 140)
    style = rng.choice(["scatter", "tail", "front", "runs"])
    for j in range(nops):
        n = len(ref.l)
        r = rng.random()
        if r < 0.62 and n:
            if style == "scatter":
                op = _delete_op(rng, ref, univ)
            elif style == "tail":
                i = n - 1 - min(n - 1, int(rng.expovariate(0.4)))
                op = rng.choice([["pop", i], ["remove", ref.l[i]], ["pop", i - n], ["pop", None]])
            elif style == "front":
                i = min(n - 1, int(rng.expovariate(0.5)))
                op = rng.choice([["pop", i], ["remove", ref.l[i]], ["discard", ref.l[i]]])
            else:
                i = rng.randrange(n)
                op = ["remove", ref.l[i]]
                ops.append(op)
                ref.apply(op)
                for _ in range(rng.randint(0, 4)):          # a run of neighbours, downwards or upwards
                    if not ref.l:
                        break
                    i = min(len(ref.l) - 1, max(0, i - rng.choice([0, 1])))
                    op = ["remove", ref.l[i]]
                    ops.append(op)
                    ref.apply(op)
                continue
        elif r < 0.72:
            op = ["add", rng.randrange(univ + j)]
        elif r < 0.76:
            op = rng.choice([["sort", False], ["reverse"], ["sort", True], ["sortkey", 3, False], ["sortkey", 2, True]])
            if rng.random() < 0.12 and n > 4:
                # clear while tombstones exist, refill with part of the old content
                ops.append(["clear"])
                ref.apply(ops[-1])
                op = ["update", [["list", list(range(max(4, n // 2)))]], "method"]
        elif r < 0.80:
            op = _setop(rng, ref, univ, True)
        elif r < 0.83:
            op = ["self", rng.choice(SELF_KINDS), "method"]      # the set itself as operand while tombstones exist
        else:
            op = _read_op(rng, ref, univ)
        ops.append(op)
        ref.apply(op)
    ops.append(["snap"])
    return {"keymode": mode, "digests": n0 <= 130, "ops": ops, "stream": "deletion"}


def _gen_stale(rng, tier):
    """directed: remove a descending run of neighbours just below the tail, pop from the end until the run
    becomes trailing, then append and read positions (the stale-interval defect of _cull's right-trim)"""
    mode = rng.choice(["int", "str"])
    n0 = rng.choice([24, 40, 56, 80])
    ref = Ref()
    ops = [["update", [["list", list(range(n0))]], "ctor"]]
    ref.apply(ops[0])
    for _ in range(rng.randint(0, 2)):            # some earlier, separate tombstones
        op = ["remove", rng.choice(ref.l[: n0 // 2])]
        ops.append(op)
        ref.apply(op)
    gap = rng.randint(1, 5)                        # live items above the run
    run = rng.randint(2, 4)
    top = len(ref.l) - 1 - gap
    victims = [ref.l[top - t] for t in range(run)]     # descending neighbours
    if rng.random() < 0.3:
        rng.shuffle(victims)
    for v in victims:
        op = [rng.choice(["remove", "discard"]), v]
        ops.append(op)
        ref.apply(op)
    for _ in range(gap):
        op = rng.choice([["pop", None], ["pop", -1], ["pop", len(ref.l) - 1], ["remove", ref.l[-1]]])
        ops.append(op)
        ref.apply(op)
    fresh = n0 + 1
    for _ in range(rng.randint(1, 3)):
        op = ["add", fresh]
        fresh += 1
        ops.append(op)
        ref.apply(op)
    n = len(ref.l)
    ops += [["get", -1], ["index", ref.l[-1]], ["get", n - 1], ["pop", rng.choice([n - 2, 0, -2])]]
    ref.apply(ops[-1])
    ops.append(["snap"])
    return {"keymode": mode, "digests": True, "ops": ops, "stream": "stale"}


def _gen_clear(rng, tier):
    """directed: leave a few separate tombstones (fewer than 1/8 of the slots, so nothing compacts), empty the
    set in one of four ways (clear(), -= an equal operand [the `self in others` shortcut], &= an empty operand,
    popping everything), refill it past the old tombstone positions and read positions: bookkeeping that
    survives the emptying (stale dead intervals, stale map entries) shifts every later s[i] / index()"""
    mode = rng.choice(["int", "str", "tuple"])
    n0 = rng.choice([17, 24, 33, 48, 64])
    ref = Ref()
    ops = [["update", [[rng.choice(["list", "tuple", "gen"]), list(range(n0))]], "ctor"]]
    ref.apply(ops[0])
    ntomb = rng.randint(1, max(1, n0 // 8 - 1))
    for p_ in sorted(rng.sample(range(1, n0 - 2), ntomb), reverse=rng.random() < 0.5):
        op = rng.choice([["remove", p_], ["discard", p_]])
        ops.append(op)
        ref.apply(op)
    how = rng.choice(["clear", "clear", "dupdate_eq", "iupdate_empty", "popall", "self_dupdate", "self_sdupdate"])
    if how == "clear":
        new = [["clear"]]
    elif how == "dupdate_eq":
        new = [["dupdate", [[rng.choice(["set", "list", "iset", "frozenset"]), list(ref.l)]], rng.choice(["method", "operator"])]]
    elif how == "iupdate_empty":
        new = [["iupdate", [[rng.choice(["set", "list", "tuple"]), []]], rng.choice(["method", "operator"])]]
    elif how == "self_dupdate":
        new = [["self", "dupdate", rng.choice(["method", "operator"])]]
    elif how == "self_sdupdate":
        new = [["self", "sdupdate", rng.choice(["method", "operator"])]]
    else:
        new = [rng.choice([["pop", None], ["pop", 0], ["pop", -1]]) for _ in range(len(ref.l))]
    for op in new:
        ops.append(op)
        ref.apply(op)
    k = rng.randint(max(4, n0 // 2), n0 + 6)
    base = rng.choice([0, 0, n0 + 10])
    op = ["update", [[rng.choice(["list", "tuple", "gen", "iset"]), [base + t for t in range(k)]]], "method"]
    ops.append(op)
    ref.apply(op)
    n = len(ref.l)
    ops.append(["get", n - 1])
    ops.append(["index", ref.l[rng.randrange(n)]])
    ops.append(["get", -1 - rng.randrange(n)])
    if rng.random() < 0.5:
        op = ["pop", rng.randrange(n)]
        ops.append(op)
        ref.apply(op)
        ops.append(["slice", rng.randrange(n), None, rng.choice([None, 2])])
    ops.append(["snap"])
    return {"keymode": mode, "digests": True, "ops": ops, "stream": "clear"}


def _gen_setalg(rng, tier):
    return _gen_mixed(rng, tier, (1, 2, 2, 9, 1))


def _gen_large_real(rng, tier):
    """The `len(ded) > 384` branch of _cull with the SHIPPED constants: 3200+ items, one item in eight of the
    first 3080+ removed (385+ separate tombstones stay below 1/8 of the slots, so only the interval count
    triggers the compaction).  Affordable since tokens are binary numbers."""
    n0 = rng.choice([3200, 3300, 3500])
    ref = Ref()
    ops = [["update", [["list", list(range(n0))]], "ctor"]]
    ref.apply(ops[0])
    nrem = rng.choice([385, 387, 392])
    pos = [1 + 8 * t for t in range(nrem)]
    if rng.random() < 0.5:
        head, tail_ = pos[:-5], pos[-5:]
        rng.shuffle(head)
        pos = head + tail_
    for t, v in enumerate(pos):
        ops.append([rng.choice(["remove", "remove", "discard"]), v])
        ref.apply(ops[-1])
        if t % 64 == 63 or t >= nrem - 8:
            n = len(ref.l)
            ops.append(["get", rng.randrange(n)])
            ops.append(["index", ref.l[rng.randrange(n)]])
            ops.append(["get", -1 - rng.randrange(min(n, 9))])
    ops.append(["slice", 5, 600, 70])
    ops.append(["pop", 3])
    ref.apply(ops[-1])
    ops.append(["add", n0 + 5])
    ref.apply(ops[-1])
    ops.append(["get", len(ref.l) - 1])
    ops.append(["index", n0 + 5])
    ops.append(["len"])
    return {"keymode": "int", "digests": False, "ops": ops, "stream": "large_real"}


def _gen_large(rng, tier):
    """More than `limit` (384) separate dead intervals, so that _cull takes its `len(ded) > 384` branch on the
    real code.  With the shipped _COMPACTION_FACTOR = 8 that needs > 3080 items (385 tombstones must stay below
    1/8 of the slots), which unary-nat tokens make too slow for vm_compute; the history is therefore run with
    the module constant set to 2 from outside (case["factor"]; the model gets the same factor through
    c_factor, the theorems hold for every factor): ~800 items, every other one of the first 770+ removed."""
    n0 = rng.choice([800, 820, 860])
    ref = Ref()
    ops = [["update", [["list", list(range(n0))]], "ctor"]]
    ref.apply(ops[0])
    nrem = rng.choice([385, 386, 390])
    pos = [1 + 2 * t for t in range(nrem)]              # separate slots: one interval each
    if rng.random() < 0.5:
        head, tail_ = pos[:-5], pos[-5:]
        rng.shuffle(head)
        pos = head + tail_
    for t, v in enumerate(pos):
        ops.append([rng.choice(["remove", "remove", "discard"]), v])
        ref.apply(ops[-1])
        if t % 64 == 63 or t >= nrem - 8:
            n = len(ref.l)
            ops.append(["get", rng.randrange(n)])
            ops.append(["index", ref.l[rng.randrange(n)]])
            ops.append(["get", -1 - rng.randrange(min(n, 9))])
    n = len(ref.l)
    ops.append(["slice", 5, 60, 7])
    ops.append(["pop", 3])
    ref.apply(ops[-1])
    ops.append(["add", n0 + 5])
    ref.apply(ops[-1])
    ops.append(["get", len(ref.l) - 1])
    ops.append(["index", n0 + 5])
    ops.append(["snap"])
    return {"keymode": "int", "digests": False, "factor": 2, "ops": ops, "stream": "large"}


def _slice_grid():
    """thorough tier: every slice s[a:b:k] with a, b in {None, -11..11} and k in {None, 1, 2, 3} on a set of 8 live
    items with one tombstone in the middle (9 slots: 1 dead is below 1/8, so it stays) - the whole grid of bounds
    around and beyond both ends, 2304 slices in 16 histories"""
    bounds = [None] + list(range(-11, 12))
    grid = [(a, b, k) for k in (None, 1, 2, 3) for a in bounds for b in bounds]
    for lo in range(0, len(grid), 144):
        ops = [["update", [["list", list(range(9))]], "ctor"], ["remove", 4]]
        ops += [["slice", a, b, k] for (a, b, k) in grid[lo:lo + 144]]
        ops.append(["snap"])
        yield {"keymode": "int", "digests": False, "ops": ops, "stream": "slicegrid"}


def _pop_grid():
    """thorough tier: pop(i) for every valid i (negative too) on 17 slots with two separate tombstones, and on
    9 slots with one, each from a fresh set, followed by a snapshot"""
    for n0, dead_ in ((9, [4]), (17, [4, 11]), (17, [11, 4]), (25, [3, 4, 20])):
        live = n0 - len(dead_)
        for i in list(range(-live, live)) + [None]:
            ops = [["update", [["list", list(range(n0))]], "ctor"]] + [["remove", d] for d in dead_]
            ops += [["pop", i], ["snap"], ["add", n0 + 1], ["get", -1], ["index", n0 + 1]]
            yield {"keymode": "int", "digests": True, "ops": ops, "stream": "popgrid"}


def generate(rng, tier, n):
    """generated histories, shortest first: the driver shrinks the first violating cases it meets, and a short
    history costs a fraction of a long one per shrink round"""
    cases = list(_generate(rng, tier, n))
    cases.sort(key=lambda c: len(c["ops"]))
    return cases


def _generate(rng, tier, n):
    if tier == "thorough" and n >= 1000:
        for c in _slice_grid():
            yield c
        for c in _pop_grid():
            yield c
    n_large = 0 if n < 100 else (2 if tier == "quick" else 6)
    for i in range(n):
        if i < n_large:
            # even: shipped constants, > 3080 items; odd: factor set to 2 from outside, ~800 items
            yield _gen_large_real(rng, tier) if i % 2 == 0 else _gen_large(rng, tier)
            continue
        r = rng.random()
        if i % 12 == 11:
            c = _gen_mixed(rng, tier, (3, 4, 6, 6, 2))          # run on Python's own list/set: tests the Spec
            c["stream"] = "specval"
            yield c
        elif r < 0.34:
            yield _gen_mixed(rng, tier, (3, 5, 5, 4, 1))
        elif r < 0.62:
            yield _gen_deletion(rng, tier)
        elif r < 0.70:
            yield _gen_stale(rng, tier)
        elif r < 0.77:
            yield _gen_clear(rng, tier)
        else:
            yield _gen_setalg(rng, tier)


# ---------------------------------------------------------------------------
# spec validation: the same histories run on Python's own list / set / dict
# (builtin slicing, list.pop/remove/index/sort/reverse, set algebra, dict.fromkeys
# for first-appearance order).  Coq then checks these observations against Spec
# (and Model): this tests the *reference*, not boltons, and is counted separately.
# ---------------------------------------------------------------------------
class ListRef:
    def __init__(self, other=None):
        self.l = list(dict.fromkeys(other)) if other is not None else []

    @classmethod
    def from_iterable(cls, it):
        return cls(it)

    def __iter__(self):
        return iter(list(self.l))

    def __reversed__(self):
        return reversed(list(self.l))

    def __len__(self):
        return len(self.l)

    def __contains__(self, x):
        return x in set(self.l)

    def add(self, x):
        if x not in set(self.l):
            self.l.append(x)

    def remove(self, x):
        if x not in set(self.l):
            raise KeyError(x)
        self.l.remove(x)

    def discard(self, x):
        if x in set(self.l):
            self.l.remove(x)

    def pop(self, *a):
        return self.l.pop(*a)

    def clear(self):
        self.l.clear()

    def sort(self, **kw):
        self.l.sort(**kw)

    def reverse(self):
        self.l.reverse()

    @staticmethod
    def _sets(others):
        return [set(o) for o in others]

    def _ordered(self, keep, extra=()):
        return [x for x in dict.fromkeys(list(self.l) + [y for o in extra for y in o]) if x in keep]

    def union(self, *others):
        others = [list(o) for o in others]
        return ListRef(self._ordered(set(self.l).union(*self._sets(others)), others))

    def intersection(self, *others):
        others = [list(o) for o in others]
        return ListRef(self._ordered(set(self.l).intersection(*self._sets(others))))

    def difference(self, *others):
        others = [list(o) for o in others]
        return ListRef(self._ordered(set(self.l).difference(*self._sets(others))))

    def symmetric_difference(self, other):
        other = list(other)
        return ListRef(self._ordered(set(self.l).symmetric_difference(set(other)), [other]))

    __or__ = __ror__ = union
    __and__ = __rand__ = intersection
    __sub__ = difference
    __xor__ = __rxor__ = symmetric_difference

    def __rsub__(self, other):
        return type(other)(set(other) - set(self.l))

    def update(self, *others):
        self.l[:] = self.union(*others).l

    def intersection_update(self, *others):
        self.l[:] = self.intersection(*others).l

    def difference_update(self, *others):
        self.l[:] = self.difference(*others).l

    def symmetric_difference_update(self, other):
        self.l[:] = self.symmetric_difference(other).l

    def __ior__(self, o):
        self.update(o)
        return self

    def __iand__(self, o):
        self.intersection_update(o)
        return self

    def __isub__(self, o):
        self.difference_update(o)
        return self

    def __ixor__(self, o):
        self.symmetric_difference_update(o)
        return self

    def __eq__(self, o):
        return self.l == o.l if isinstance(o, ListRef) else set(self.l) == set(o)

    def __ne__(self, o):
        return not self.__eq__(o)

    __hash__ = None

    def __le__(self, o):
        return set(self.l) <= set(o)

    def __lt__(self, o):
        return set(self.l) < set(o)

    def __ge__(self, o):
        return set(self.l) >= set(o)

    def __gt__(self, o):
        return set(self.l) > set(o)

    def issubset(self, o):
        return set(self.l).issubset(set(o))

    def issuperset(self, o):
        return set(self.l).issuperset(set(o))

    def isdisjoint(self, o):
        return set(self.l).isdisjoint(set(o))

    def __getitem__(self, i):
        return ListRef(self.l[i]) if isinstance(i, slice) else self.l[i]

    def index(self, x):
        return self.l.index(x)

    def count(self, x):
        return self.l.count(x)


# ---------------------------------------------------------------------------
# running the implementation
# ---------------------------------------------------------------------------
ALLOWED = (KeyError, IndexError, ValueError, TypeError)


def _mk_operand(cls, T, kind, toks):
    objs = [T.obj(t) for t in toks]
    if kind == "set":
        return set(objs)
    if kind == "frozenset":
        return frozenset(objs)
    if kind == "list":
        return list(objs)
    if kind == "tuple":
        return tuple(objs)
    if kind == "iset":
        return cls(objs)
    if kind == "gen":
        return (o for o in objs)
    if kind == "iter":
        return iter(list(objs))
    raise AssertionError(kind)


def _spoil(operand):
    """mutate an operand after the call: a result or the set itself must not alias it"""
    try:
        if isinstance(operand, list):
            operand.append("spoiled")
        elif isinstance(operand, set):
            operand.add("spoiled")
        elif hasattr(operand, "item_list") or isinstance(operand, ListRef):
            operand.add("spoiled")
    except Exception:
        pass


def run_impl(case):
    if case.get("stream") == "specval":
        IndexedSet = ListRef
    else:
        from boltons.setutils import IndexedSet
    if case.get("factor") is not None and case.get("stream") != "specval":
        import boltons.setutils as _su
        saved = _su._COMPACTION_FACTOR          # AttributeError (renamed constant) = crash = fail closed
        _su._COMPACTION_FACTOR = case["factor"]
        try:
            return _run_history(case, IndexedSet)
        finally:
            _su._COMPACTION_FACTOR = saved
    return _run_history(case, IndexedSet)


def _run_history(case, IndexedSet):
    T = Toks(case["keymode"])
    for t in range(0, 64):
        T.obj(t)
    s = IndexedSet()
    out = []
    stats = {"max_dead_intervals": 0, "compactions": 0, "adjacent_unmerged": 0, "max_items": 0}

    def tl(it):
        return [T.tok(x) for x in it]

    def newset(res):
        """list(result) of an operation that must return a fresh IndexedSet; the result is then emptied"""
        if not isinstance(res, IndexedSet) or res is s:
            return ["raise", "NotAFreshIndexedSet"]
        r = ["list", tl(res)]
        res.clear()
        return r

    for pos, op in enumerate(case["ops"]):
        k = op[0]
        orders = []
        operands = []
        try:
            if k in ("update", "iupdate", "dupdate", "union", "inter", "diff"):
                for kind, toks in op[1]:
                    o = _mk_operand(IndexedSet, T, kind, toks)
                    operands.append(o)
                    orders.append(list(toks) if kind in ("gen", "iter") else tl(o))
            elif k == "cmp":
                o = _mk_operand(IndexedSet, T, op[2][0], op[2][1])
                operands.append(o)
                orders.append(tl(o))
            elif k == "selfmix":
                for od in op[2]:
                    if od is None:
                        orders.append(None)
                    else:
                        o = _mk_operand(IndexedSet, T, od[0], od[1])
                        operands.append(o)
                        orders.append(tl(o))
            elif k in ("sdupdate", "symdiff", "rsub", "issubset", "issuperset", "isdisjoint"):
                o = _mk_operand(IndexedSet, T, op[1][0], op[1][1])
                operands.append(o)
                orders.append(tl(o))
            form = op[2] if len(op) > 2 and isinstance(op[2], str) else "method"
            ret = ["none"]
            if k == "add":
                s.add(T.obj(op[1]))
            elif k == "remove":
                s.remove(T.obj(op[1]))
            elif k == "discard":
                s.discard(T.obj(op[1]))
            elif k == "pop":
                ret = ["item", T.tok(s.pop() if op[1] is None else s.pop(op[1]))]
            elif k == "clear":
                s.clear()
            elif k == "sort":
                if op[1]:
                    s.sort(reverse=True)
                else:
                    s.sort()
            elif k == "sortkey":
                m_ = op[1]
                s.sort(key=lambda o_: T.tok(o_) % m_, reverse=bool(op[2]))
            elif k == "reverse":
                s.reverse()
            elif k == "update":
                if form == "ctor" and pos == 0 and len(operands) == 1:
                    s = IndexedSet(operands[0])
                elif form == "from_iterable" and pos == 0 and len(operands) == 1:
                    s = IndexedSet.from_iterable(operands[0])
                    assert type(s) is IndexedSet
                elif form == "operator":
                    s0 = s
                    s |= operands[0]
                    assert s is s0
                else:
                    s.update(*operands)
            elif k == "iupdate":
                if form == "operator":
                    s0 = s
                    s &= operands[0]
                    assert s is s0
                else:
                    s.intersection_update(*operands)
            elif k == "dupdate":
                if form == "operator":
                    s0 = s
                    s -= operands[0]
                    assert s is s0
                else:
                    s.difference_update(*operands)
            elif k == "sdupdate":
                if form == "operator":
                    s0 = s
                    s ^= operands[0]
                    assert s is s0
                else:
                    s.symmetric_difference_update(operands[0])
            elif k == "union":
                ret = newset(s | operands[0] if form == "operator" else
                             operands[0] | s if form == "roperator" else s.union(*operands))
            elif k == "inter":
                ret = newset(s & operands[0] if form == "operator" else
                             operands[0] & s if form == "roperator" else s.intersection(*operands))
            elif k == "diff":
                ret = newset(s - operands[0] if form == "operator" else s.difference(*operands))
            elif k == "symdiff":
                ret = newset(s ^ operands[0] if form == "operator" else
                             operands[0] ^ s if form == "roperator" else s.symmetric_difference(operands[0]))
            elif k == "rsub":
                res = operands[0] - s
                if type(res) is not type(operands[0]):
                    ret = ["raise", "WrongResultType"]
                else:
                    ret = ["list", sorted(tl(res))]
            elif k == "issubset":
                ret = ["bool", s.issubset(operands[0])]
            elif k == "issuperset":
                ret = ["bool", s.issuperset(operands[0])]
            elif k == "isdisjoint":
                ret = ["bool", s.isdisjoint(operands[0])]
            elif k == "self":
                sk, op_form = op[1], form == "operator"
                if sk == "update":
                    if op_form:
                        s0 = s
                        s |= s
                        assert s is s0
                    else:
                        s.update(s)
                elif sk == "iupdate":
                    if op_form:
                        s0 = s
                        s &= s
                        assert s is s0
                    else:
                        s.intersection_update(s)
                elif sk == "dupdate":
                    if op_form:
                        s0 = s
                        s -= s
                        assert s is s0
                    else:
                        s.difference_update(s)
                elif sk == "sdupdate":
                    if op_form:
                        s0 = s
                        s ^= s
                        assert s is s0
                    else:
                        s.symmetric_difference_update(s)
                elif sk == "union":
                    ret = newset(s | s if op_form else s.union(s))
                elif sk == "inter":
                    ret = newset(s & s if op_form else s.intersection(s))
                elif sk == "diff":
                    ret = newset(s - s if op_form else s.difference(s))
                elif sk == "symdiff":
                    ret = newset(s ^ s if op_form else s.symmetric_difference(s))
                elif sk == "issubset":
                    ret = ["bool", s.issubset(s)]
                elif sk == "issuperset":
                    ret = ["bool", s.issuperset(s)]
                elif sk == "isdisjoint":
                    ret = ["bool", s.isdisjoint(s)]
                else:
                    raise AssertionError(op)
            elif k == "selfmix":
                it = iter(operands)
                args = [s if od is None else next(it) for od in op[2]]
                if op[1] == "update":
                    s.update(*args)
                elif op[1] == "iupdate":
                    s.intersection_update(*args)
                elif op[1] == "dupdate":
                    s.difference_update(*args)
                elif op[1] == "union":
                    ret = newset(s.union(*args))
                elif op[1] == "inter":
                    ret = newset(s.intersection(*args))
                elif op[1] == "diff":
                    ret = newset(s.difference(*args))
                else:
                    raise AssertionError(op)
            elif k == "cmp":
                o = operands[0]
                ret = ["bool", {"eq": lambda: s == o, "ne": lambda: s != o, "le": lambda: s <= o,
                                "lt": lambda: s < o, "ge": lambda: s >= o, "gt": lambda: s > o}[op[1]]()]
            elif k == "get":
                ret = ["item", T.tok(s[op[1]])]
            elif k == "slice":
                ret = newset(s[op[1]:op[2]:op[3]])
            elif k == "index":
                ret = ["nat", s.index(T.obj(op[1]))]
            elif k == "count":
                ret = ["nat", s.count(T.obj(op[1]))]
            elif k == "contains":
                ret = ["bool", T.obj(op[1]) in s]
            elif k == "len":
                ret = ["nat", len(s)]
            elif k == "iter":
                ret = ["list", tl(iter(s))]
            elif k == "reversed":
                ret = ["list", tl(reversed(s))]
            elif k == "snap":
                lst = list(s)
                n = len(s)
                ret = ["snap", tl(lst), tl(s[i] for i in range(n)), tl(s[i] for i in range(-n, 0)),
                       tl(reversed(s)), [s.index(x) for x in lst]]
            else:
                raise AssertionError("unknown op %r" % (op,))
            if ret[0] in ("bool",) and type(ret[1]) is not bool:
                ret = ["raise", "NotABool"]
            if ret[0] == "nat" and (type(ret[1]) is not int or ret[1] < 0):
                ret = ["raise", "NotANat"]
        except ALLOWED as e:
            ret = ["raise", type(e).__name__]
        for o in operands:
            _spoil(o)
        ob = {"ret": ret, "len": len(s), "orders": orders}
        if case["digests"]:
            try:
                g = digest(T.tok(s[i]) for i in range(len(s)))
            except IndexError:
                g = 0
            ob["dg"] = [g, digest(tl(s))]
        out.append(ob)
        # coverage statistics only (never part of a verdict; tolerate a refactoring that renames these)
        ded = getattr(s, "dead_indices", None)
        comp_now = getattr(s, "_compactions", 0)
        if stats.get("_prev_ded", 0) >= 384 and comp_now > stats["compactions"]:
            stats["compaction_at_interval_limit"] = stats.get("compaction_at_interval_limit", 0) + 1
        stats["_prev_ded"] = len(ded) if isinstance(ded, list) else 0
        if isinstance(ded, list):
            stats["max_dead_intervals"] = max(stats["max_dead_intervals"], len(ded))
            adj = sum(1 for a, b in zip(ded, ded[1:]) if a[1] == b[0])
            stats["adjacent_unmerged"] = max(stats["adjacent_unmerged"], adj)
        nslots = len(getattr(s, "item_list", ()))
        if k in ("remove", "discard", "pop") and comp_now == stats["compactions"] and \
                nslots < stats.get("_prev_slots", 0) - 1:
            stats["right_trims"] = stats.get("right_trims", 0) + 1      # several trailing slots dropped at once
        if isinstance(ded, list) and k in ("remove", "discard", "pop") and comp_now == stats["compactions"] and \
                nslots == stats.get("_prev_slots", 0) and len(ded) == stats.get("_prev_ded_n", -1) and \
                ob["len"] < stats.get("_prev_len", 0):
            stats["interval_merges"] = stats.get("interval_merges", 0) + 1   # a tombstone joined an existing interval
        stats["_prev_slots"] = nslots
        stats["_prev_ded_n"] = len(ded) if isinstance(ded, list) else -1
        stats["_prev_len"] = ob["len"]
        stats["compactions"] = getattr(s, "_compactions", 0)
        stats["max_items"] = max(stats["max_items"], nslots)
    return {"steps": out, "stats": stats}


# ---------------------------------------------------------------------------
# rendering for Coq
# ---------------------------------------------------------------------------
def _n(n):
    """token numeral (N); the case files open N_scope, so tokens carry no suffix (parsing cost)"""
    assert isinstance(n, int) and n >= 0, n
    return "%d" % n


def _nat(n):
    """nat numeral (lengths, positions, steps)"""
    assert isinstance(n, int) and 0 <= n < 5000, n
    return "%d%%nat" % n


EXN = {"KeyError": "KeyError", "IndexError": "IndexError", "ValueError": "ValueError", "TypeError": "TypeError",
       "NotAFreshIndexedSet": "(OtherExn 21%nat)", "WrongResultType": "(OtherExn 22%nat)",
       "NotABool": "(OtherExn 23%nat)", "NotANat": "(OtherExn 24%nat)"}


def _toks(l):
    if len(l) >= 32 and l == list(range(l[0], l[0] + len(l))):
        return "(nseq %s %s)" % (_nat(l[0]), _nat(len(l)))       # computed by Coq, not parsed as a literal
    return clist(_n(t) for t in l)


def _nats(l):
    if len(l) >= 32 and l == list(range(l[0], l[0] + len(l))):
        return "(seq %s %s)" % (_nat(l[0]), _nat(len(l)))
    return "(" + clist("%d" % t for t in l) + ")%nat"


def _oz(x):
    return "None" if x is None else "(Some %s)" % cZ(x)


def _opd(kind, order):
    return "(Opd %s %s)" % (cbool(kind == "iset"), _toks(order))


def _op(op, orders):
    k = op[0]
    if k == "add":
        return "Add %s" % _n(op[1])
    if k == "remove":
        return "Remove %s" % _n(op[1])
    if k == "discard":
        return "Discard %s" % _n(op[1])
    if k == "pop":
        return "Pop %s" % _oz(op[1])
    if k == "clear":
        return "Clear"
    if k == "sort":
        return "Sort %s" % cbool(op[1])
    if k == "sortkey":
        return "SortKey %s %s" % (_nat(op[1]), cbool(op[2]))
    if k == "reverse":
        return "Reverse"
    multi = {"update": "Update", "iupdate": "IntersectionUpdate", "dupdate": "DifferenceUpdate",
             "union": "Union", "inter": "Intersection", "diff": "Difference"}
    if k in multi:
        assert len(orders) == len(op[1])
        return "%s %s" % (multi[k], clist(_opd(o[0], order) for o, order in zip(op[1], orders)))
    single = {"sdupdate": "SymDiffUpdate", "symdiff": "SymDiff", "rsub": "RSub", "issubset": "IsSubset",
              "issuperset": "IsSuperset", "isdisjoint": "IsDisjoint"}
    if k in single:
        assert len(orders) == 1
        return "%s %s" % (single[k], _opd(op[1][0], orders[0]))
    if k == "selfmix":
        assert len(orders) == len(op[2])
        return "SelfMix %s %s" % (
            {"update": "MUpdate", "iupdate": "MIntersectionUpdate", "dupdate": "MDifferenceUpdate", "union": "MUnion",
             "inter": "MIntersection", "diff": "MDifference"}[op[1]],
            clist("None" if od is None else "(Some %s)" % _opd(od[0], order) for od, order in zip(op[2], orders)))
    if k == "cmp":
        assert len(orders) == 1
        return "Cmp %s %s" % ({"eq": "CEq", "ne": "CNe", "le": "CLe", "lt": "CLt", "ge": "CGe", "gt": "CGt"}[op[1]],
                              _opd(op[2][0], orders[0]))
    if k == "self":
        return "SelfOp %s" % {"update": "SUpdate", "iupdate": "SIntersectionUpdate", "dupdate": "SDifferenceUpdate",
                              "sdupdate": "SSymDiffUpdate", "union": "SUnion", "inter": "SIntersection",
                              "diff": "SDifference", "symdiff": "SSymDiff", "issubset": "SIsSubset",
                              "issuperset": "SIsSuperset", "isdisjoint": "SIsDisjoint"}[op[1]]
    if k == "get":
        return "GetItem %s" % cZ(op[1])
    if k == "slice":
        return "Slice %s %s %s" % (_oz(op[1]), _oz(op[2]), "None" if op[3] is None else "(Some %s)" % _nat(op[3]))
    if k == "index":
        return "Index %s" % _n(op[1])
    if k == "count":
        return "Count %s" % _n(op[1])
    if k == "contains":
        return "Contains %s" % _n(op[1])
    return {"len": "Len", "iter": "Iter", "reversed": "Reversed", "snap": "Snapshot"}[k]


def _ret(r):
    t = r[0]
    if t == "raise":
        return "(Raise %s)" % EXN[r[1]]
    if t == "none":
        return "(Ok RNone)"
    if t == "item":
        return "(Ok (RItem %s))" % _n(r[1])
    if t == "list":
        return "(Ok (RList %s))" % _toks(r[1])
    if t == "bool":
        return "(Ok (RBool %s))" % cbool(r[1])
    if t == "nat":
        return "(Ok (RNat %s))" % _nat(r[1])
    if t == "snap":
        return "(Ok (RSnap %s %s %s %s %s))" % (_toks(r[1]), _toks(r[2]), _toks(r[3]), _toks(r[4]), _nats(r[5]))
    raise AssertionError(r)


def to_coq(case, obs):
    steps = []
    assert len(obs["steps"]) == len(case["ops"])
    for op, ob in zip(case["ops"], obs["steps"]):
        if "dg" not in ob:
            dg = "None"
        elif ob["dg"][0] == ob["dg"][1]:
            dg = "(dd %s)" % cN(ob["dg"][0])
        else:
            dg = "(Some (%s, %s))" % (cN(ob["dg"][0]), cN(ob["dg"][1]))
        steps.append("(%s, mkObs %s %s %s)" % (_op(op, ob["orders"]), _ret(ob["ret"]), _nat(ob["len"]), dg))
    factor = case.get("factor")
    return "mkCase %s %s %s" % (cbool(case["digests"]), "None" if factor is None else "(Some %s)" % _nat(factor),
                                clist(steps))


# ---------------------------------------------------------------------------
# canary, statistics
# ---------------------------------------------------------------------------
_canary_turn = [0]


def corrupt(case, obs):
    """A wrong observation: in turn, a wrong len, a wrong returned item/list, a wrong digest."""
    bad = copy.deepcopy(obs)
    steps = bad["steps"]
    if not steps:
        return None
    turn = _canary_turn[0] % 3
    _canary_turn[0] += 1
    if turn == 1:
        for ob in reversed(steps):
            r = ob["ret"]
            if r[0] == "item":
                r[1] = r[1] + 1
                return bad
            if r[0] in ("list", "snap") and len(r[1]) >= 2:
                r[1][0], r[1][1] = r[1][1], r[1][0]
                return bad
    if turn == 2:
        for ob in reversed(steps):
            if "dg" in ob:
                ob["dg"][0] = (ob["dg"][0] + 1) & DG_MOD
                return bad
    steps[-1]["len"] += 1
    return bad


def shrink(case):
    """Few, well-chosen candidates per round (the verdict is monotone in the prefix: a history that fails at
    step k fails for every prefix containing k): prefixes first, then dropping a quarter / an eighth / one op."""
    ops = case["ops"]
    n = len(ops)
    if n <= 1:
        return
    seen = set()

    def cand(new_ops):
        key = repr(new_ops)
        if new_ops and len(new_ops) < n and key not in seen:
            seen.add(key)
            c = dict(case)
            c["ops"] = new_ops
            return c
        return None
    out = []
    for m in (n // 4, n // 2, (3 * n) // 4, n - 1):
        out.append(cand(ops[:m]))
    if n > 300:                      # the large stream: one evaluation costs ~20 CPU-s, prefixes only
        for c in out:
            if c is not None:
                yield c
        return
    size = max(1, n // 4)            # at most 4 + 4 (+ n when short) candidates per round
    for s in range(0, n, size):
        out.append(cand(ops[:s] + ops[s + size:]))
    if n <= 10:
        for s in range(n):
            out.append(cand(ops[:s] + ops[s + 1:]))
    for c in out:
        if c is not None:
            yield c


POSITIONAL = ("get", "slice", "index", "snap", "pop")


def nontrivial(case, obs):
    ref = Ref()
    tomb = False
    for op in case["ops"]:
        k = op[0]
        if k in POSITIONAL and tomb and (case["digests"] or k != "pop"):
            return True
        if k in ("union", "inter", "diff", "update", "iupdate", "dupdate") and len(op[1]) >= 2:
            return True
        n = len(ref.l)
        if k in ("remove", "discard") and op[1] in ref.l and ref.l.index(op[1]) < n - 1:
            tomb = True
        if k == "pop" and op[1] is not None and n and -n <= op[1] < n and op[1] % n < n - 1:
            tomb = True
        if k in ("iupdate", "dupdate", "sdupdate") or (k == "selfmix" and op[1] in ("iupdate", "dupdate")):
            tomb = True
        if k in ("clear", "sort", "reverse", "sortkey"):
            tomb = False
        ref.apply(op)
        if tomb and case["digests"]:
            return True
    return False


def distribution(d, case, obs):
    st = d.setdefault("streams", {})
    st[case.get("stream", "corpus")] = st.get(case.get("stream", "corpus"), 0) + 1
    ops = d.setdefault("ops", {})
    kinds = d.setdefault("operand_kinds", {})
    arity = d.setdefault("operand_arity", {})
    for op in case["ops"]:
        name = op[0] + (":" + op[1] if op[0] in ("self", "cmp", "selfmix") else "") + \
            (":" + op[2] if len(op) > 2 and isinstance(op[2], str) and op[2] != "method" else "")
        ops[name] = ops.get(name, 0) + 1
        if op[0] in ("update", "iupdate", "dupdate", "union", "inter", "diff"):
            arity[str(len(op[1]))] = arity.get(str(len(op[1])), 0) + 1
            for o in op[1]:
                kinds[o[0]] = kinds.get(o[0], 0) + 1
        elif op[0] in ("sdupdate", "symdiff", "rsub", "issubset", "issuperset", "isdisjoint"):
            kinds[op[1][0]] = kinds.get(op[1][0], 0) + 1
    errs = d.setdefault("raised", {})
    for ob in obs["steps"]:
        if ob["ret"][0] == "raise":
            errs[ob["ret"][1]] = errs.get(ob["ret"][1], 0) + 1
    stt = obs.get("stats", {})
    dep = d.setdefault("depth", {"histories_with_compaction": 0, "compactions": 0, "max_dead_intervals": 0,
                                 "histories_with_adjacent_unmerged_intervals": 0,
                                 "histories_over_384_intervals": 0, "max_item_list": 0, "max_len": 0})
    if stt.get("compactions"):
        dep["histories_with_compaction"] += 1
        dep["compactions"] += stt["compactions"]
    dep["max_dead_intervals"] = max(dep["max_dead_intervals"], stt.get("max_dead_intervals", 0))
    if stt.get("adjacent_unmerged"):
        dep["histories_with_adjacent_unmerged_intervals"] += 1
    dep["right_trims_of_several_slots"] = dep.get("right_trims_of_several_slots", 0) + stt.get("right_trims", 0)
    dep["interval_merges"] = dep.get("interval_merges", 0) + stt.get("interval_merges", 0)
    if stt.get("compaction_at_interval_limit"):
        dep["histories_over_384_intervals"] += 1
    dep["max_item_list"] = max(dep["max_item_list"], stt.get("max_items", 0))
    dep["max_len"] = max([dep["max_len"]] + [ob["len"] for ob in obs["steps"]])


def extra_evidence(results):
    sv = [r for r in results if r["case"].get("stream") == "specval"]
    grid = [r for r in results if r["case"].get("stream") == "slicegrid"]
    return {"exhaustive_grids": {"slices": {"what": "all s[a:b:k], a, b in {None, -11..11}, k in {None, 1, 2, 3}, on 8 live items + 1 tombstone",
                                            "slices": sum(len(r["case"]["ops"]) - 3 for r in grid), "histories": len(grid)},
                                 "pops": {"what": "pop(i) for every valid i and pop() on 9/17/17/25 slots with 1/2/2/3 tombstones, fresh set each",
                                          "histories": sum(1 for r in results if r["case"].get("stream") == "popgrid")}},
            "spec_validation": {"what": "histories run on Python's own list/set/dict (ListRef in harness/c11.py) instead of "
                                        "IndexedSet and checked against Spec.C11_Spec by the same Coq verdict",
                                "cases": len(sv), "failed": sum(1 for r in sv if not (r["agree"] and r["holds"]))}}


def sample(case, obs):
    return {"keymode": case["keymode"], "ops": case["ops"][:8],
            "obs_first": [{k: v for k, v in ob.items() if k != "orders"} for ob in obs["steps"][:8]],
            "stats": obs.get("stats")}
