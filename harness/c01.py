"""C01 OrderedMultiDict == insertion-ordered list of pairs: plug-in.

A case is a history over TWO live OrderedMultiDicts (registers 0/1): mutators, constructors/copies and
reads, applied to one register, possibly with the other object (or the object itself) as the argument.
Python only moves data: every return value / exception type / snapshot is turned into a Coq term and
Coq decides agree (model) and holds (pair-list reference)."""
import json

ID = "C01"
IMPORTS = ("From Boltons Require Import Lib.Prelude Spec.C01_Spec Model.C01_Model Check.C01_Check.\n"
           "Open Scope nat_scope.")
CASE_TYPE = "c01_case"
VERDICT = "c01_verdict"
EXPLAIN = "c01_explain"
CASES_PER_FILE = 60
CASE_FILE_BYTES = 120000
TIERS = {"quick": {"n": 1400}, "thorough": {"n": 16000, "exhaustive": True}}
RULE = ("EXHAUSTIVE part: all histories of length <= 2 (quick, 600) / <= 3 (thorough, 14 424) over a fixed alphabet of 24 "
        "core mutator calls on two keys and two values, each followed by items/reversed/counts/len/copy.copy/== ; plus the "
        "864-case drain grid (4 prefixes x 8 ways of removing a key x 9 probes x 3 second probes); plus the 216-case cycle "
        "grid (an OMD reachable from its own values - itself, through an attribute holder, through a list - under copy(), "
        "copy.copy, copy.deepcopy and pickle protocols 0/2/5, then both objects driven and read: the copy's inner "
        "reference must be the copy for deep kinds, the original for shallow ones, and nothing may raise); "
        "RANDOM part (n cases): class under test OrderedMultiDict (3/4) or its subclass urlutils.QueryParamDict (1/4); histories of 1-40 (thorough: 1-70) public operations over two live OrderedMultiDicts, 2-5 key tokens and "
        "3-6 value tokens (20 hashable objects of varied types + an unhashable list and dict as values), arguments rotated over list/tuple/generator/iterator/list-of-lists, dict/OrderedDict/"
        "mappingproxy/keys()+__getitem__ object, the other OMD, the object itself, kwargs; returned and passed "
        "containers are mutated after the call; ~5 % malformed calls (iterable ending in a non-pair / unhashable key, "
        "non-iterable addlist argument, unhashable key to 14 methods); non-trivial = some key reached >= 2 pairs and a later operation "
        "removed or replaced pairs; distinct = distinct canonical history hash")
ASSUMPTIONS = ["keys/values are hashable with lawful __eq__/__hash__ (tokens mapped to pairwise unequal Python objects)",
               "CPython dict preserves insertion order; sorted() is stable (Spec.py_sorted)",
               "arguments are not mutated concurrently with the call; mappings passed have distinct keys"]
TRUSTED = ["Model/C01_Model.v is hand-written (pointer surgery abstracted to identified cells); tied to "
           "boltons.dictutils.OrderedMultiDict by the correspondence run",
           "harness/c01.py serialiser and token<->object map"]

def translators(repo):
    """Regenerates coq/Gen/C01_Gen.v (API surface of the current class, see translators/c01_api.py) and keeps the
    two models in step:
    coq/Model/C01_PModel.v (pointer level) must be exactly what translators/c01_pmodel.py derives from
    coq/Model/C01_Model.v (fail closed otherwise)."""
    import os
    import sys
    here = os.path.join(os.path.dirname(os.path.abspath(__file__)), "translators")
    if here not in sys.path:
        sys.path.insert(0, here)
    import c01_pmodel
    want = c01_pmodel.generate()
    have = open(os.path.join(c01_pmodel.COQ, "Model", "C01_PModel.v")).read()
    if want != have:
        raise RuntimeError("coq/Model/C01_PModel.v is not the translation of coq/Model/C01_Model.v; "
                           "run harness/translators/c01_pmodel.py")
    # (T): the public callables the current class defines + the dict mutators it fails to override
    import c01_api
    # (T): the bodies of 17 methods, regenerated from the ast of the current source as programs of
    # Model/C01_SrcLang.v; Proofs/C01_SrcEq*.v prove each equal to the pointer-level model's method
    import c01_src
    return {"C01_Gen": c01_api.generate(repo), "C01_Src": c01_src.generate(repo)}


# tokens -> pairwise unequal hashable python objects with eval()-able reprs; token 0 is None
TOK = [None, "a", (1, 2), "k0", 3.5, "b", frozenset([7]), -1, "key", (), 17, "zz", b"y", 99, "q", ("t", None),
       2.5, "", (0,), -0.5]
N_HASHABLE = len(TOK)                     # tokens 0..19 may be keys or values
TOK += [[7], {"z": 1}]                    # tokens 20, 21: UNHASHABLE objects, used as values only (Spec.unhashable)
JUNK_T = 63
JUNK = "~junk~"
IDENT = [t for t, o in enumerate(TOK) if isinstance(o, str) and o.isidentifier()]
INV = {o: t for t, o in enumerate(TOK[:N_HASHABLE])}
INV[JUNK] = JUNK_T
assert len(INV) == N_HASHABLE + 1 and N_HASHABLE == 20


# Reference tokens 24..29 (Spec.is_ref): values that refer BACK to one of the two live objects of the running
# history (even: register 0, odd: register 1): 24/25 the OMD itself, 26/27 a Holder whose .params is the OMD,
# 28/29 a one-element list containing it.  Recognised structurally (by identity of the OMD they reach).
_REGS = None


class Holder:
    __hash__ = None

    def __init__(self, params):
        self.params = params


def obj(t):
    if 24 <= t <= 29:
        target = _REGS[t % 2]
        return target if t < 26 else (Holder(target) if t < 28 else [target])
    return JUNK if t == JUNK_T else TOK[t]


class Unrepresentable(Exception):
    pass


def tok(o):
    if _REGS is not None:
        for i in (0, 1):
            if o is _REGS[i]:
                return 24 + i
        if type(o) is Holder:
            for i in (0, 1):
                if o.params is _REGS[i]:
                    return 26 + i
            raise Unrepresentable("holder of an object that is neither live OMD")
        if type(o) is list and len(o) == 1:
            for i in (0, 1):
                if o[0] is _REGS[i]:
                    return 28 + i
        if isinstance(o, dict) and type(o) is not dict:
            raise Unrepresentable("an OMD that is neither live object")
    try:
        t = INV[o]
    except KeyError:
        raise Unrepresentable(repr(o)[:80])
    except TypeError:                     # unhashable: one of the unhashable value tokens, by type and equality
        for t in range(N_HASHABLE, len(TOK)):
            if type(TOK[t]) is type(o) and TOK[t] == o:
                return t
        raise Unrepresentable(repr(o)[:80])
    if type(obj(t)) is not type(o):
        raise Unrepresentable(repr(o)[:80])
    return t


# --------------------------------------------------------------------------------------------
# generation (a python shadow of the pair lists is used ONLY to bias arguments towards interesting ones)
# --------------------------------------------------------------------------------------------
MUTATORS = ["add", "addlist", "setitem", "delitem", "update", "update_extend", "ior", "setdefault", "pop",
            "popall", "poplast", "popitem", "clear"]
MAKERS = ["new", "fromkeys", "copy"]
READS = ["items", "keys", "values", "len", "iter", "reversed", "get", "getlist", "getitem", "contains", "todict",
         "counts", "inverted", "sorted", "sortedvalues", "repr", "eq", "view"]
VIEWS = ["ViewKeys", "ViewValues", "ViewItems", "DictOf", "Truth"]
KEYFNS = ["KfKey", "KfVal", "KfLex", "KfValPar", "KfConst"]
PAIR_KINDS = ["list", "tuple", "gen", "iter", "lol"]
MAP_KINDS = ["dict", "odict", "proxy", "keysobj"]
BAD = ["updatebad", "updatebad", "extendbad", "extendbad", "addlistbad", "badkey"]
BADKINDS = ["BkInt", "BkLong", "BkShort", "BkUnhashable"]
N_BADKEY = 17
REMOVERS = {"setitem", "delitem", "update", "ior", "pop", "popall", "poplast", "popitem", "clear"}


def _replace_with(l, new):
    ks = {k for k, _ in new}
    return [p for p in l if p[0] not in ks] + [list(p) for p in new]


def _items1(l):
    seen, out = [], []
    for k, _ in l:
        if k not in seen:
            seen.append(k)
    for k in seen:
        out.append([k, [v for kk, v in l if kk == k][-1]])
    return out


def _shadow(regs, r, op):
    """Best-effort reference update of the generator's shadow (bias only)."""
    l, o = regs[r], regs[1 - r]
    n = op["op"]
    if n == "add":
        l = l + [[op["k"], op["v"]]]
    elif n == "addlist":
        l = l + [[op["k"], v] for v in op["vs"]]
    elif n == "setitem":
        l = _replace_with(l, [[op["k"], op["v"]]])
    elif n in ("delitem", "pop", "popall"):
        l = [p for p in l if p[0] != op["k"]]
    elif n in ("update", "ior"):
        a = op["a"]
        if a[0] in ("pairs", "map"):
            l = _replace_with(l, a[1])
        elif a[0] == "other":
            l = _replace_with(l, o)
        l = _replace_with(l, op.get("kw", []))
    elif n == "update_extend":
        a = op["a"]
        ext = a[1] if a[0] in ("pairs", "map") else (o if a[0] == "other" else _items1(l))
        l = l + [list(p) for p in ext] + [list(p) for p in op.get("kw", [])]
    elif n == "setdefault":
        if not any(p[0] == op["k"] for p in l):
            l = l + [[op["k"], op["d"] if op["d"] is not None else 0]]
    elif n == "poplast":
        k = op["k"] if op["k"] is not None else (l[-1][0] if l else None)
        idx = [i for i, p in enumerate(l) if p[0] == k]
        if idx:
            l = l[:idx[-1]] + l[idx[-1] + 1:]
    elif n == "popitem":
        if l:
            l = [p for p in l if p[0] != l[-1][0]]
    elif n == "clear":
        l = []
    elif n == "updatebad":
        l = _replace_with(l, op["l"])
    elif n == "extendbad":
        l = l + [list(p) for p in op["l"]]
    elif n == "new":
        a = op["a"]
        base = [] if a is None else (a[1] if a[0] in ("pairs", "map") else (o if a[0] == "other" else l))
        l = _replace_with([list(p) for p in base], op.get("kw", []))
    elif n == "fromkeys":
        l = [[k, op["d"] if op["d"] is not None else 0] for k in op["ks"]]
    elif n == "copy":
        l = [list(p) for p in o]
    elif n == "copycyc":
        deep = op["c"] in ("CkDeepCopy", "CkPickle")
        l = [[k, (v + 1 if r else v - 1) if (deep and 24 <= v <= 29 and (v % 2 == 0) == bool(r)) else v] for k, v in o]
    regs[r] = l


def _gen_case(rng, tier):
    nk = rng.choice([2, 2, 3, 3, 4, 5])
    keys = rng.sample(range(N_HASHABLE), nk)
    if rng.random() < 0.8 and not set(keys) & set(IDENT):
        keys[0] = rng.choice(IDENT)
    vals = rng.sample(range(len(TOK)), rng.choice([3, 4, 6]))
    if rng.random() < 0.5:
        vals[0] = keys[0]          # a token that is both key and value
    idkeys = [k for k in keys if k in IDENT]
    nops = rng.randint(1, 40 if tier == "quick" else 70)
    regs = [[], []]
    ops = []
    style = rng.choice(["mixed", "mixed", "addheavy", "removeheavy", "updateheavy"])

    def K():
        return rng.choice(keys)

    def V():
        return rng.choice(vals)

    def D():
        return rng.choice([None, None, V()])

    def pairs(maxn=5):
        return [[K(), V()] for _ in range(rng.choice([0, 1, 2, 2, 3, 3, 4, maxn]))]

    def mapping():
        ks = rng.sample(keys, rng.randint(0, len(keys)))
        return [[k, V()] for k in ks]

    def kwargs():
        if not idkeys or rng.random() < 0.6:
            return []
        return [[k, V()] for k in rng.sample(idkeys, rng.randint(1, len(idkeys)))]

    def arg(allow_self=True):
        c = rng.random()
        if c < 0.45:
            return ["pairs", pairs(), rng.choice(PAIR_KINDS)]
        if c < 0.65:
            return ["map", mapping(), rng.choice(MAP_KINDS)]
        if c < 0.9 or not allow_self:
            return ["other"]
        return ["self"]

    while len(ops) < nops:
        r = rng.randrange(2) if rng.random() < 0.35 else 0
        c = rng.random()
        w = {"mixed": (0.45, 0.10), "addheavy": (0.5, 0.05), "removeheavy": (0.55, 0.05),
             "updateheavy": (0.5, 0.1)}[style]
        if c < w[0]:
            if style == "addheavy":
                n = rng.choice(["add", "add", "addlist", "update_extend", "add", "setitem", "pop", "poplast"] + MUTATORS)
            elif style == "removeheavy":
                n = rng.choice(["add", "add", "addlist", "pop", "popall", "poplast", "poplast", "popitem", "delitem",
                                "setitem"] + MUTATORS)
            elif style == "updateheavy":
                n = rng.choice(["update", "update", "update_extend", "ior", "add", "addlist", "setitem"] + MUTATORS)
            else:
                n = rng.choice(MUTATORS + ["add", "add", "addlist", "setitem", "update", "update_extend"])
        elif c < w[0] + w[1]:
            n = rng.choice(MAKERS)
        elif c < w[0] + w[1] + 0.05:
            n = rng.choice(BAD)
        else:
            n = rng.choice(READS + ["eq", "eq", "items", "get", "getitem", "or"])
        if n in ("poplast", "pop", "popitem") and rng.random() < 0.3:
            # drain burst: the same removal repeated on one key, with and without default
            kk = K()
            for _ in range(rng.randint(2, 4)):
                b = {"r": r, "op": n, "snap": True, "mut": rng.random() < 0.7}
                if n == "poplast":
                    b.update(k=rng.choice([kk, kk, None]), d=D())
                elif n == "pop":
                    b.update(k=kk, d=D(), kwd=rng.random() < 0.4)
                _shadow(regs, r, b)
                ops.append(b)
            continue
        op = {"r": r, "op": n}
        if n in ("add", "setitem"):
            op.update(k=K(), v=V())
        elif n == "addlist":
            op.update(k=K(), vs=[V() for _ in range(rng.choice([0, 1, 2, 2, 3, 4]))],
                      it=rng.choice(["list", "tuple", "gen", "iter"]))
        elif n in ("delitem", "getitem", "contains"):
            op.update(k=K())
        elif n in ("update", "update_extend"):
            a = arg()
            op.update(a=a, kw=kwargs())
        elif n == "ior":
            op.update(a=arg())
        elif n in ("setdefault", "pop", "popall", "get", "getlist"):
            op.update(k=K(), d=D(), kwd=rng.random() < 0.4)      # kwd: pass the default by keyword
        elif n == "poplast":
            op.update(k=rng.choice([None, K(), K()]), d=D())
        elif n == "new":
            op.update(a=rng.choice([None, arg(), arg(), arg()]), kw=kwargs())
        elif n == "fromkeys":
            op.update(ks=[K() for _ in range(rng.randint(0, 4))], d=D())
        elif n == "copy":
            op.update(c=rng.choice(["CkCopy", "CkCopyCopy", "CkDeepCopy", "CkPickle"]), proto=rng.randrange(6))
        elif n in ("items", "keys", "values", "todict"):
            op.update(multi=rng.random() < 0.5, how=rng.randrange(3))
        elif n in ("sorted", "sortedvalues"):
            op.update(f=rng.choice(KEYFNS), rev=rng.random() < 0.4)
        elif n == "or":
            op.update(m=mapping(), refl=rng.random() < 0.5)
        elif n == "view":
            op.update(w=rng.choice(VIEWS))
        elif n in ("updatebad", "extendbad"):
            op.update(l=pairs(4), b=rng.choice(BADKINDS), it=rng.choice(["list", "tuple", "gen", "iter"]))
        elif n == "addlistbad":
            op.update(k=K())
        elif n == "badkey":
            op.update(n=rng.randrange(N_BADKEY), v=V(), u=rng.randrange(3))
        elif n == "eq":
            ne = rng.random() < 0.3
            cur = regs[r]
            c2 = rng.random()
            if c2 < 0.15:
                op.update(w="other", ne=ne)
            elif c2 < 0.2:
                op.update(w="self", ne=ne)
            elif c2 < 0.25:
                op.update(w="junk", ne=ne, junk=rng.randrange(4))
            elif c2 < 0.6:
                l = [list(p) for p in cur]
                m = rng.random()
                if m < 0.45:
                    pass
                elif m < 0.6 and l:
                    l[rng.randrange(len(l))][1] = V()
                elif m < 0.7 and l:
                    del l[rng.randrange(len(l))]
                elif m < 0.8 and len(l) > 1:
                    i = rng.randrange(len(l) - 1)
                    l[i], l[i + 1] = l[i + 1], l[i]
                elif m < 0.9:
                    l.insert(rng.randint(0, len(l)), [K(), V()])
                else:
                    l = pairs()
                op.update(w="pairs", ne=ne, l=l)
            else:
                d = {}
                for k, v in _items1(cur):
                    d[k] = v
                m = rng.random()
                ks = list(d)
                if m < 0.4:
                    pass
                elif m < 0.6 and ks:
                    d[rng.choice(ks)] = V()
                elif m < 0.7 and ks:
                    del d[rng.choice(ks)]
                elif m < 0.8 and ks:
                    # same size, one key exchanged
                    del d[rng.choice(ks)]
                    d[rng.choice(range(N_HASHABLE))] = V()
                elif m < 0.9:
                    d[K()] = V()
                else:
                    d = {k: v for k, v in mapping()}
                items = list(d.items())
                rng.shuffle(items)
                op.update(w="map", ne=ne, m=[list(p) for p in items], kind=rng.choice(MAP_KINDS[:3]))
            op["refl"] = rng.random() < 0.3 and (op["w"] in ("other", "self", "pairs") or op.get("kind") == "dict")
        is_read = n in READS or n == "or"
        op["snap"] = (not is_read) or rng.random() < 0.12
        op["mut"] = rng.random() < 0.7       # mutate returned / passed containers after the call
        if not is_read:
            _shadow(regs, r, op)
        ops.append(op)
    ops[-1]["snap"] = True
    return {"cls": rng.choice(["OMD", "OMD", "OMD", "QPD"]), "ops": ops}


def _grid_alphabet():
    """the core mutators over two keys (a = token 1, b = token 5) and two values (x = 10, y = 13)"""
    a, b, x, y = 1, 5, 10, 13

    def op(name, **kw):
        d = {"r": 0, "op": name, "snap": True, "mut": True}
        d.update(kw)
        return d
    return [
        op("add", k=a, v=x), op("add", k=a, v=y), op("add", k=b, v=x),
        op("setitem", k=a, v=y), op("setitem", k=b, v=y),
        op("delitem", k=a), op("delitem", k=b),
        op("pop", k=a, d=None), op("popall", k=b, d=x),
        op("poplast", k=None, d=None), op("poplast", k=a, d=None), op("poplast", k=b, d=y),
        op("popitem"), op("clear"),
        op("update", a=["pairs", [[a, x], [a, y]], "iter"], kw=[]),
        op("update", a=["pairs", [[b, y], [a, x]], "list"], kw=[]),
        op("update", a=["map", [[a, y]], "dict"], kw=[[b, x]]),
        op("update", a=["self"], kw=[]),
        op("update_extend", a=["pairs", [[b, x], [a, y]], "gen"], kw=[]),
        op("update_extend", a=["self"], kw=[]),
        op("setdefault", k=a, d=None), op("setdefault", k=b, d=y),
        op("addlist", k=a, vs=[x, y], it="iter"),
        op("new", a=["self"], kw=[[a, x]]),
    ]


def _grid_tail():
    """reads appended to every enumerated history"""
    def rd(name, **kw):
        d = {"r": 0, "op": name, "snap": False, "mut": True}
        d.update(kw)
        return d
    return [rd("items", multi=False, how=0), rd("reversed"), rd("counts"), rd("len"),
            rd("copy", r=1, c="CkCopyCopy", proto=2), rd("eq", w="other", ne=False, refl=False)]


def grid(maxlen):
    """ALL histories of length 1..maxlen over the alphabet, each followed by the read tail"""
    import itertools
    import copy
    alpha = _grid_alphabet()
    tail = _grid_tail()
    tail[-2]["snap"] = True       # the copy is a non-read: snapshot both objects after it
    kinds = ["CkCopyCopy", "CkCopy", "CkDeepCopy", "CkPickle"]
    idx = 0
    for ln in range(1, maxlen + 1):
        for combo in itertools.product(range(len(alpha)), repeat=ln):
            c = {"cls": "OMD", "grid": list(combo), "ops": copy.deepcopy([alpha[i] for i in combo] + tail)}
            c["ops"][-2].update(c=kinds[idx % 4], proto=idx % 6)      # rotate the way the copy is made
            idx += 1
            yield c


def drain_grid():
    """prefix x removal x probe (x second probe): what is left behind by one way of emptying a key must not
    disturb any later operation on that (now absent or shorter) key"""
    import copy
    a, b, x, y = 1, 5, 10, 13

    def op(name, **kw):
        d = {"r": 0, "op": name, "snap": True, "mut": True}
        d.update(kw)
        return d
    prefixes = [[op("add", k=a, v=x)], [op("add", k=a, v=x), op("add", k=a, v=y)],
                [op("add", k=a, v=x), op("add", k=b, v=x)], [op("add", k=b, v=y), op("addlist", k=a, vs=[x, y, x], it="gen")]]
    removals = [op("pop", k=a, d=None), op("popall", k=a, d=None), op("delitem", k=a), op("poplast", k=a, d=None),
                op("poplast", k=None, d=None), op("popitem"), op("setitem", k=a, v=y),
                op("update", a=["pairs", [[a, y]], "iter"], kw=[])]
    probes = [op("poplast", k=a, d=None), op("poplast", k=a, d=y), op("poplast", k=None, d=y), op("pop", k=a, d=x),
              op("popall", k=a, d=None), op("popitem"), op("delitem", k=a), op("add", k=a, v=x),
              op("setdefault", k=a, d=None)]
    tail = _grid_tail()
    tail[-2]["snap"] = True
    for i, p in enumerate(prefixes):
        for j, r in enumerate(removals):
            for k, q in enumerate(probes):
                for k2, q2 in enumerate(probes[:3]):
                    c = {"cls": "OMD", "grid": ["drain", i, j, k, k2],
                         "ops": copy.deepcopy(p + [r, q, q2] + tail)}
                    c["ops"][-2].update(c=["CkCopyCopy", "CkCopy", "CkDeepCopy", "CkPickle"][(j + k + k2) % 4],
                                        proto=(i + j + k) % 6)
                    yield c


def cycle_grid():
    """OMDs reachable from their own values (directly, through an attribute holder, through a list) under every way of
    copying them: prefix (register 0) x kind of back-reference x copy into register 1 x follow-up on both objects"""
    import copy
    a, b, me, x, y, z = 1, 5, 3, 10, 13, 7

    def op(name, r=0, **kw):
        d = {"r": r, "op": name, "snap": True, "mut": True}
        d.update(kw)
        return d

    def rd(name, r=0, **kw):
        d = {"r": r, "op": name, "snap": False, "mut": True}
        d.update(kw)
        return d
    kinds = [("CkCopy", 0), ("CkCopyCopy", 0), ("CkDeepCopy", 0), ("CkPickle", 0), ("CkPickle", 2), ("CkPickle", 5)]
    for ref in (24, 26, 28):
        prefixes = [
            [op("add", k=a, v=x), op("add", k=me, v=ref), op("add", k=a, v=y)],
            [op("setitem", k=a, v=ref)],
            [op("update", a=["pairs", [[a, x], [b, ref], [a, y]], "list"], kw=[]), op("add", k=b, v=y)],
            [op("addlist", k=a, vs=[x, ref, ref], it="list")],
        ]
        for i, pre in enumerate(prefixes):
            for kind, proto in kinds:
                followups = [
                    [],
                    [op("add", r=1, k=a, v=z), op("add", r=0, k=b, v=z)],
                    [op("poplast", r=1, k=None, d=None), op("add", r=1, k=me, v=ref + 1), op("pop", r=0, k=a, d=z)],
                ]
                for j, fol in enumerate(followups):
                    tail = [rd("items", r=1, multi=False, how=0), rd("getlist", r=1, k=me, d=None),
                            rd("get", r=1, k=a, d=None), rd("values", r=0, multi=True, how=0),
                            rd("todict", r=1, multi=True, how=1), rd("counts", r=1), rd("inverted", r=1),
                            rd("len", r=0)]
                    tail[-1]["snap"] = True
                    yield {"cls": "OMD", "grid": ["cycle", ref, i, kind, proto, j],
                           "ops": copy.deepcopy(pre + [op("copycyc", r=1, c=kind, proto=proto)] + fol + tail)}


GRID_LEN = {"quick": 2, "thorough": 3}


def generate(rng, tier, n):
    for c in grid(GRID_LEN[tier]):
        yield c
    for c in drain_grid():
        yield c
    for c in cycle_grid():
        yield c
    for _ in range(n):
        yield _gen_case(rng, tier)


# --------------------------------------------------------------------------------------------
# running the implementation
# --------------------------------------------------------------------------------------------
EXN = {"KeyError": "KeyError", "IndexError": "IndexError", "TypeError": "TypeError", "ValueError": "ValueError",
       "RuntimeError": "RuntimeError", "AttributeError": "(OtherExn 2)", "StopIteration": "StopIteration"}
UNREP = ["raise", "(OtherExn 9)"]      # a result that is not of the shape the operation documents


class KeysObj:
    """a minimal mapping: keys() + __getitem__ (+ __len__)"""
    def __init__(self, d):
        self._d = d

    def keys(self):
        return list(self._d.keys())

    def __getitem__(self, k):
        return self._d[k]

    def __len__(self):
        return len(self._d)


def _pairs_arg(l, kind):
    ps = [(obj(k), obj(v)) for k, v in l]
    if kind == "list":
        return ps
    if kind == "tuple":
        return tuple(ps)
    if kind == "gen":
        return (p for p in ps)
    if kind == "iter":
        return iter(ps)
    return [[k, v] for k, v in ps]


def _map_arg(l, kind):
    import collections
    import types
    d = {obj(k): obj(v) for k, v in l}
    assert len(d) == len(l)
    if kind == "dict":
        return d
    if kind == "odict":
        return collections.OrderedDict(d)
    if kind == "proxy":
        return types.MappingProxyType(d)
    return KeysObj(d)


def _spoil(x, deep=False):
    """mutate a container the implementation returned or was given (deep: also the value lists of a
    todict(multi=True) result; never a value object itself)"""
    try:
        if any(x is o for o in TOK[N_HASHABLE:]):
            return
        if isinstance(x, list):
            if len(x) % 2:
                x.append(JUNK)
            else:
                del x[:]
                x.append((JUNK, JUNK))
        elif type(x) is dict:
            if deep:
                for v in x.values():
                    if isinstance(v, list):
                        v.append(JUNK)
            x[JUNK] = [JUNK]
    except Exception:
        pass


def _c_pairs(l):
    return ["pairs", [[tok(k), tok(v)] for k, v in l]]


def _view(d):
    it = d.items(multi=True)
    td = d.todict(multi=True)
    v = [[[tok(k), tok(v)] for k, v in it], [[tok(k), [tok(x) for x in vs]] for k, vs in td.items()]]
    _spoil(it)
    _spoil(td, deep=True)
    return v


def _kf_item(f):
    return {"KfKey": lambda p: tok(p[0]), "KfVal": lambda p: tok(p[1]), "KfLex": lambda p: tok(p[0]) * 64 + tok(p[1]),
            "KfValPar": lambda p: tok(p[1]) % 2, "KfConst": lambda p: 0}[f]


def _kf_val(f):
    return {"KfValPar": lambda v: tok(v) % 2, "KfConst": lambda v: 0}.get(f, lambda v: tok(v))


def _do(OMD, regs, op):
    """perform one operation; returns (raw result converter output, containers to spoil)"""
    import copy
    import pickle
    r = op["r"]
    d, o = regs[r], regs[1 - r]
    n = op["op"]
    spoil = []

    def argval(a):
        if a[0] == "pairs":
            x = _pairs_arg(a[1], a[2])
        elif a[0] == "map":
            x = _map_arg(a[1], a[2])
        elif a[0] == "other":
            return o
        else:
            return d
        spoil.append(x)
        return x

    def kw(l):
        return {obj(k): obj(v) for k, v in l}

    def val(x):
        return ["val", tok(x)]

    def omd_pairs(x):
        if type(x) is not type(d) or x is d:
            return UNREP
        r = ["pairs", [[tok(k), (v if n == "counts" else tok(v))] for k, v in x.items(multi=True)]]
        if op.get("mut"):                 # the result must be an independent object: drive it, then drop it
            x.add(JUNK, JUNK)
            x[JUNK] = JUNK
            x.poplast()
            x.clear()
        return r

    if n == "add":
        return val(d.add(obj(op["k"]), obj(op["v"]))), spoil
    if n == "addlist":
        vs = [obj(v) for v in op["vs"]]
        x = {"list": vs, "tuple": tuple(vs), "gen": (v for v in vs), "iter": iter(vs)}[op["it"]]
        spoil.append(x)
        return val(d.addlist(obj(op["k"]), x)), spoil
    if n == "setitem":
        d[obj(op["k"])] = obj(op["v"])
        return val(None), spoil
    if n == "delitem":
        del d[obj(op["k"])]
        return val(None), spoil
    if n == "update":
        return val(d.update(argval(op["a"]), **kw(op["kw"]))), spoil
    if n == "update_extend":
        return val(d.update_extend(argval(op["a"]), **kw(op["kw"]))), spoil
    if n == "ior":
        dd = d
        dd |= argval(op["a"])
        return (val(None) if dd is d else ["bool", False]), spoil
    if n == "setdefault":
        k = obj(op["k"])
        if op["d"] is not None and op.get("kwd"):
            return val(d.setdefault(k, default=obj(op["d"]))), spoil
        return val(d.setdefault(k) if op["d"] is None else d.setdefault(k, obj(op["d"]))), spoil
    if n == "pop":
        k = obj(op["k"])
        if op["d"] is not None and op.get("kwd"):
            return val(d.pop(k, default=obj(op["d"]))), spoil
        return val(d.pop(k) if op["d"] is None else d.pop(k, obj(op["d"]))), spoil
    if n == "popall":
        k = obj(op["k"])
        if op["d"] is not None and op.get("kwd"):
            x = d.popall(k, default=obj(op["d"]))
        else:
            x = d.popall(k) if op["d"] is None else d.popall(k, obj(op["d"]))
        if isinstance(x, list) and not (op["d"] is not None and x is obj(op["d"])):
            spoil.append(x)
            return ["list", [tok(v) for v in x]], spoil
        return val(x), spoil
    if n == "poplast":
        args = []
        kws = {}
        if op["k"] is not None:
            args.append(obj(op["k"]))
        if op["d"] is not None:
            kws["default"] = obj(op["d"])
        return val(d.poplast(*args, **kws)), spoil
    if n == "popitem":
        x = d.popitem()
        if type(x) is not tuple or len(x) != 2:
            return UNREP, spoil
        return ["item", tok(x[0]), tok(x[1])], spoil
    if n == "clear":
        return val(d.clear()), spoil
    if n == "new":
        a = op["a"]
        regs[r] = OMD(**kw(op["kw"])) if a is None else OMD(argval(a), **kw(op["kw"]))
        return val(None), spoil
    if n == "fromkeys":
        ks = [obj(k) for k in op["ks"]]
        regs[r] = OMD.fromkeys(ks) if op["d"] is None else OMD.fromkeys(iter(ks), obj(op["d"]))
        return val(None), spoil
    if n == "copycyc":
        c = op["c"]
        x = {"CkCopy": lambda: o.copy(), "CkCopyCopy": lambda: copy.copy(o), "CkDeepCopy": lambda: copy.deepcopy(o),
             "CkPickle": lambda: pickle.loads(pickle.dumps(o, op["proto"]))}[c]()
        ok = (x is not o) and type(x) is type(o)
        regs[r] = x
        return ["bool", ok], spoil
    if n == "copy":
        c = op["c"]
        if c == "CkCopy":
            x = o.copy()
        elif c == "CkCopyCopy":
            x = copy.copy(o)
        elif c == "CkDeepCopy":
            x = copy.deepcopy(o)
        else:
            x = pickle.loads(pickle.dumps(o, op["proto"]))
        ok = (x is not o) and type(x) is type(o) and (x == o) and not (x != o)
        regs[r] = x
        return ["bool", ok], spoil
    if n == "items":
        if not op["multi"] and op["how"] == 2:
            x = d.items()                  # multi defaults to False
        else:
            x = [d.items, lambda multi: list(d.iteritems(multi=multi)), d.items][op["how"]](multi=op["multi"])
        spoil.append(x)
        return _c_pairs(x), spoil
    if n == "keys":
        if not op["multi"] and op["how"] == 2:
            x = d.keys()
        else:
            x = [d.keys, lambda multi: list(d.iterkeys(multi=multi)), d.keys][op["how"]](multi=op["multi"])
        spoil.append(x)
        return ["list", [tok(k) for k in x]], spoil
    if n == "values":
        if not op["multi"] and op["how"] == 2:
            x = d.values()
        else:
            x = [d.values, lambda multi: list(d.itervalues(multi=multi)), d.values][op["how"]](multi=op["multi"])
        spoil.append(x)
        return ["list", [tok(k) for k in x]], spoil
    if n == "len":
        x = len(d)
        return (["nat", x] if type(x) is int and x >= 0 else UNREP), spoil
    if n == "iter":
        return ["list", [tok(k) for k in iter(d)]], spoil
    if n == "reversed":
        return ["list", [tok(k) for k in reversed(d)]], spoil
    if n == "get":
        k = obj(op["k"])
        if op["d"] is not None and op.get("kwd"):
            return val(d.get(k, default=obj(op["d"]))), spoil
        return val(d.get(k) if op["d"] is None else d.get(k, obj(op["d"]))), spoil
    if n == "getlist":
        k = obj(op["k"])
        if op["d"] is not None and op.get("kwd"):
            x = d.getlist(k, default=obj(op["d"]))
        else:
            x = d.getlist(k) if op["d"] is None else d.getlist(k, obj(op["d"]))
        if isinstance(x, list) and not (op["d"] is not None and x is obj(op["d"])):
            spoil.append(x)
            return ["list", [tok(v) for v in x]], spoil
        return val(x), spoil
    if n == "getitem":
        return val(d[obj(op["k"])]), spoil
    if n == "contains":
        x = obj(op["k"]) in d
        return (["bool", x] if type(x) is bool else UNREP), spoil
    if n == "todict":
        x = d.todict(multi=op["multi"]) if op["multi"] or op["how"] else d.todict()
        if type(x) is not dict:
            return UNREP, spoil
        if op["multi"]:
            spoil.append(("deep", x))
        else:
            spoil.append(x)
        if op["multi"]:
            return ["multi", [[tok(k), [tok(v) for v in vs]] for k, vs in x.items()]], spoil
        return _c_pairs(list(x.items())), spoil
    if n == "counts":
        x = d.counts()
        if not all(type(c) is int and c >= 0 for c in x.values(multi=True)):
            return UNREP, spoil
        return omd_pairs(x), spoil
    if n == "inverted":
        return omd_pairs(d.inverted()), spoil
    if n == "sorted":
        if not op["rev"] and op.get("mut"):
            return omd_pairs(d.sorted(key=_kf_item(op["f"]))), spoil          # reverse defaults to False
        return omd_pairs(d.sorted(key=_kf_item(op["f"]), reverse=op["rev"])), spoil
    if n == "sortedvalues":
        if not op["rev"] and op.get("mut"):
            return omd_pairs(d.sortedvalues(key=_kf_val(op["f"]))), spoil
        return omd_pairs(d.sortedvalues(key=_kf_val(op["f"]), reverse=op["rev"])), spoil
    if n == "repr":
        x = eval(repr(d), {"__builtins__": {"frozenset": frozenset}, type(d).__name__: lambda l: ("ok", l)})
        if type(x) is not tuple or x[0] != "ok" or type(x[1]) is not list:
            return UNREP, spoil
        return _c_pairs(x[1]), spoil
    if n == "view":
        w = op["w"]
        if w == "ViewKeys":
            vw = d.viewkeys()
            x = list(vw)
            if len(vw) != len(x) or any((k in vw) is not True for k in x) or (JUNK in vw):
                return UNREP, spoil
            return ["list", [tok(k) for k in x]], spoil
        if w == "ViewValues":
            return ["list", [tok(v) for v in d.viewvalues()]], spoil
        if w == "ViewItems":
            vw = d.viewitems()
            x = list(vw)
            if len(vw) != len(x):
                return UNREP, spoil
            return _c_pairs(x), spoil
        if w == "DictOf":
            x = dict(d)
            spoil.append(x)
            return _c_pairs(list(x.items())), spoil
        x = bool(d)
        return ["bool", x], spoil
    if n == "or":
        m = _map_arg(op["m"], "dict")
        x = (m | d) if op["refl"] else (d | m)
        if type(x) is not dict:
            return UNREP, spoil
        spoil.append(x)
        return _c_pairs(list(x.items())), spoil
    if n in ("updatebad", "extendbad"):
        ps = [(obj(k), obj(v)) for k, v in op["l"]]
        bad = {"BkInt": 5, "BkLong": (obj(0), obj(0), obj(0)), "BkShort": (obj(0),), "BkUnhashable": ([], obj(0))}[op["b"]]
        ps.append(bad)
        x = {"list": ps, "tuple": tuple(ps), "gen": (q for q in ps), "iter": iter(ps)}[op["it"]]
        return val(d.update(x) if n == "updatebad" else d.update_extend(x)), spoil
    if n == "addlistbad":
        return val(d.addlist(obj(op["k"]), 5)), spoil
    if n == "badkey":
        u = [[], {}, set()][op["u"]]
        v = obj(op["v"])
        i = op["n"]
        if i == 0:
            return val(d.add(u, v)), spoil
        if i == 1:
            d[u] = v
            return val(None), spoil
        if i == 2:
            del d[u]
            return val(None), spoil
        if i == 3:
            return val(d.pop(u)), spoil
        if i == 4:
            return val(d.pop(u, v)), spoil
        if i == 5:
            return val(d.popall(u, v)), spoil
        if i == 6:
            return val(d.poplast(u)), spoil
        if i == 7:
            return val(d.poplast(u, v)), spoil
        if i == 8:
            return val(d.get(u, v)), spoil
        if i == 9:
            d.getlist(u)
            return val(None), spoil
        if i == 10:
            return val(d[u]), spoil
        if i == 11:
            return ["bool", u in d], spoil
        if i == 12:
            return val(d.setdefault(u, v)), spoil
        if i == 13:
            return val(d.addlist(u, [v])), spoil
        if i == 14:
            OMD([], [])                      # more than one positional argument
            return val(None), spoil
        if i == 15:
            OMD.fromkeys([u], v)
            return val(None), spoil
        OMD([(u, v)])
        return val(None), spoil
    if n == "eq":
        w = op["w"]
        if w == "other":
            x = o
        elif w == "self":
            x = d
        elif w == "pairs":
            from boltons.dictutils import OMD as BaseOMD      # for a subclass this is a cross-class comparison
            x = BaseOMD([(obj(k), obj(v)) for k, v in op["l"]])
        elif w == "map":
            x = _map_arg(op["m"], op["kind"])
        else:
            x = [[(k, v) for k, v in d.items(multi=True)], None, 7, "abc"][op["junk"]]
        if op["ne"]:
            b = (x != d) if op["refl"] else (d != x)
        else:
            b = (x == d) if op["refl"] else (d == x)
        return (["bool", b] if type(b) is bool else UNREP), spoil
    raise AssertionError("unknown op %r" % (n,))


def run_impl(case):
    if case.get("cls", "OMD") == "QPD":
        from boltons.urlutils import QueryParamDict as OMD      # inherits dictutils.OrderedMultiDict
    elif case.get("cls") == "FIOMD":
        from boltons.dictutils import FastIterOrderedMultiDict as OMD   # skip-list variant (see notes)
    else:
        from boltons.dictutils import OrderedMultiDict as OMD
    global _REGS
    regs = [OMD(), OMD()]
    _REGS = regs                      # the reference tokens 24..29 denote whatever object is in the register
    obs = []
    for op in case["ops"]:
        spoil = []
        try:
            try:
                res, spoil = _do(OMD, regs, op)
            except Unrepresentable:
                res = UNREP
            except (KeyError, IndexError, TypeError, ValueError, RuntimeError, AttributeError, StopIteration) as e:
                res = ["raised" if op["op"] in BAD else "raise",
                       EXN[[c.__name__ for c in type(e).__mro__ if c.__name__ in EXN][0]]]
        except AssertionError:
            raise
        if op.get("mut"):
            for x in spoil:
                if isinstance(x, tuple) and len(x) == 2 and x[0] == "deep":
                    _spoil(x[1], deep=True)
                else:
                    _spoil(x)
        snap = None
        if op["snap"]:
            try:
                snap = [_view(regs[0]), _view(regs[1])]
            except (Unrepresentable, KeyError, IndexError, TypeError, ValueError, RuntimeError, AttributeError):
                snap = "raise"
        obs.append({"res": res, "snap": snap})
    return obs


# --------------------------------------------------------------------------------------------
# rendering
# --------------------------------------------------------------------------------------------
def _n(x):
    assert isinstance(x, int) and not isinstance(x, bool) and 0 <= x < 5000, x
    return str(x)


def _l(xs):
    return "[" + ";".join(xs) + "]"


def _ps(l):
    return _l("(%s,%s)" % (_n(k), _n(v)) for k, v in l)


def _ns(l):
    return _l(_n(x) for x in l)


def _ms(l):
    return _l("(%s,%s)" % (_n(k), _ns(vs)) for k, vs in l)


def _opt(d):
    return "None" if d is None else "(Some %s)" % _n(d)


def _b(b):
    return "true" if b else "false"


def _arg(a):
    if a[0] == "pairs":
        return "(APairs %s)" % _ps(a[1])
    if a[0] == "map":
        return "(AMap %s)" % _ps(a[1])
    return "AOther" if a[0] == "other" else "ASelf"


def _op(op):
    n = op["op"]
    if n == "add":
        return "Add %s %s" % (_n(op["k"]), _n(op["v"]))
    if n == "addlist":
        return "AddList %s %s" % (_n(op["k"]), _ns(op["vs"]))
    if n == "setitem":
        return "SetItem %s %s" % (_n(op["k"]), _n(op["v"]))
    if n == "delitem":
        return "DelItem %s" % _n(op["k"])
    if n == "update":
        return "Update %s %s" % (_arg(op["a"]), _ps(op["kw"]))
    if n == "update_extend":
        return "UpdateExtend %s %s" % (_arg(op["a"]), _ps(op["kw"]))
    if n == "ior":
        return "IOr %s" % _arg(op["a"])
    if n in ("setdefault", "pop", "popall", "get", "getlist"):
        return "%s %s %s" % ({"setdefault": "SetDefault", "pop": "Pop", "popall": "PopAll", "get": "Get",
                              "getlist": "GetList"}[n], _n(op["k"]), _opt(op["d"]))
    if n == "poplast":
        return "PopLast %s %s" % (_opt(op["k"]), _opt(op["d"]))
    if n == "popitem":
        return "PopItem"
    if n == "clear":
        return "Clear"
    if n == "new":
        return "New %s %s" % ("None" if op["a"] is None else "(Some %s)" % _arg(op["a"]), _ps(op["kw"]))
    if n == "fromkeys":
        return "FromKeys %s %s" % (_ns(op["ks"]), _opt(op["d"]))
    if n == "copycyc":
        return "CopyCyc %s %s" % (op["c"], _b(op["r"]))
    if n == "copy":
        return "CopyOther %s" % op["c"]
    if n in ("items", "keys", "values", "todict"):
        return "%s %s" % ({"items": "Items", "keys": "Keys", "values": "Values", "todict": "ToDict"}[n], _b(op["multi"]))
    if n in ("len", "iter", "reversed", "counts", "inverted", "repr"):
        return {"len": "Len", "iter": "Iter", "reversed": "Reversed", "counts": "Counts", "inverted": "Inverted",
                "repr": "Repr"}[n]
    if n == "getitem":
        return "GetItem %s" % _n(op["k"])
    if n == "contains":
        return "Contains %s" % _n(op["k"])
    if n == "sorted":
        return "Sorted %s %s" % (op["f"], _b(op["rev"]))
    if n == "sortedvalues":
        return "SortedValues %s %s" % (op["f"], _b(op["rev"]))
    if n == "or":
        return "%s %s" % ("ROrMap" if op["refl"] else "OrMap", _ps(op["m"]))
    if n == "updatebad":
        return "UpdateBad %s %s" % (_ps(op["l"]), op["b"])
    if n == "extendbad":
        return "UpdateExtendBad %s %s" % (_ps(op["l"]), op["b"])
    if n == "addlistbad":
        return "AddListBad %s" % _n(op["k"])
    if n == "badkey":
        return "BadKey %s" % _n(op["n"])
    if n == "view":
        return op["w"]
    if n == "eq":
        w, ne = op["w"], _b(op["ne"])
        if w == "other":
            return "EqOther %s" % ne
        if w == "self":
            return "EqSelf %s" % ne
        if w == "pairs":
            return "EqPairs %s %s" % (ne, _ps(op["l"]))
        if w == "map":
            return "EqMap %s %s" % (ne, _ps(op["m"]))
        return "EqJunk %s" % ne
    raise AssertionError(n)


def _res(r):
    t = r[0]
    if t == "raise":
        return "(Raise %s)" % r[1]
    if t == "raised":
        return "(Ok (ORaised %s))" % r[1]
    if t == "val":
        return "(Ok (OVal %s))" % _n(r[1])
    if t == "bool":
        return "(Ok (OBool %s))" % _b(r[1])
    if t == "nat":
        return "(Ok (ONat %s))" % _n(r[1])
    if t == "list":
        return "(Ok (OList %s))" % _ns(r[1])
    if t == "pairs":
        return "(Ok (OPairs %s))" % _ps(r[1])
    if t == "multi":
        return "(Ok (OMulti %s))" % _ms(r[1])
    if t == "item":
        return "(Ok (OItem %s %s))" % (_n(r[1]), _n(r[2]))
    raise AssertionError(t)


def _snap(s):
    if s is None:
        return "None"
    if s == "raise":
        # a snapshot read raised: render a view no model/spec state can have
        return "(Some (([(63,63)],[]),([],[])))"
    return "(Some ((%s,%s),(%s,%s)))" % (_ps(s[0][0]), _ms(s[0][1]), _ps(s[1][0]), _ms(s[1][1]))


def to_coq(case, obs):
    assert len(obs) == len(case["ops"])
    return _l("St %s (%s) %s %s" % (_b(op["r"]), _op(op), _res(o["res"]), _snap(o["snap"]))
              for op, o in zip(case["ops"], obs))


# --------------------------------------------------------------------------------------------
def corrupt(case, obs):
    """canary: one value of a snapshot (else one result) changed"""
    import copy
    bad = copy.deepcopy(obs)
    for o in bad:
        s = o["snap"]
        if s and s != "raise":
            for reg in (0, 1):
                if s[reg][0]:
                    s[reg][0][-1][1] = (s[reg][0][-1][1] + 1) % len(TOK)
                    return bad
    for o in bad:
        if o["res"][0] == "val":
            o["res"][1] = (o["res"][1] + 1) % len(TOK)
            return bad
    return None


def nontrivial(case, obs):
    multi = False
    for op, o in zip(case["ops"], obs):
        if multi and op["op"] in REMOVERS and o["res"][0] not in ("raise", "raised"):
            return True
        s = o["snap"]
        if s and s != "raise":
            for reg in (0, 1):
                if any(len(vs) >= 2 for _, vs in s[reg][1]):
                    multi = True
    return False


def distribution(d, case, obs):
    ops = d.setdefault("ops", {})
    errs = d.setdefault("raised", {})
    cl = d.setdefault("class", {})
    cl[case.get("cls", "OMD")] = cl.get(case.get("cls", "OMD"), 0) + 1
    args = d.setdefault("arg_kinds", {})
    for op, o in zip(case["ops"], obs):
        n = op["op"]
        if n == "eq":
            n = "eq:" + op["w"] + (":ne" if op["ne"] else "")
        if n == "copy":
            n = "copy:" + op["c"]
        if n == "view":
            n = "view:" + op["w"]
        ops[n] = ops.get(n, 0) + 1
        if o["res"][0] in ("raise", "raised"):
            errs[op["op"] + ":" + o["res"][1]] = errs.get(op["op"] + ":" + o["res"][1], 0) + 1
        a = op.get("a")
        if a:
            kind = a[0] + (":" + a[2] if len(a) > 2 else "")
            args[kind] = args.get(kind, 0) + 1
        if n.startswith("eq") and o["res"][0] == "bool":
            key = "eq_true" if (o["res"][1] != op["ne"]) else "eq_false"
            d[key] = d.get(key, 0) + 1
    mx = 0
    for o in obs:
        s = o["snap"]
        if s and s != "raise":
            mx = max(mx, len(s[0][0]), len(s[1][0]))
    h = d.setdefault("max_pairs_hist", {})
    b = "0" if mx == 0 else "1-4" if mx <= 4 else "5-9" if mx <= 9 else "10-19" if mx <= 19 else "20+"
    h[b] = h.get(b, 0) + 1
    ln = d.setdefault("history_len_hist", {})
    lb = "1-9" if len(obs) < 10 else "10-19" if len(obs) < 20 else "20-39" if len(obs) < 40 else "40+"
    ln[lb] = ln.get(lb, 0) + 1


if __import__("os").environ.get("C01_NO_SHRINK"):      # used only by the mutant-validation script (speed)
    def shrink(case):
        return iter(())


def extra_evidence(results):
    """Spec validation (testing the SPEC, not the code): the generator's independent Python pair-list
    reference (_shadow) is compared with the snapshots on which Coq found holds=true; a disagreement would
    point at a wrong Spec (or shadow).  Reported only, never part of a verdict."""
    same = diff = 0
    first = None
    for r in results:
        if r.get("abnormal") or not (r["agree"] and r["holds"]):
            continue
        regs = [[], []]
        for op, o in zip(r["case"]["ops"], r["obs"]):
            failed = o["res"][0] == "raise"
            if op["op"] not in READS and op["op"] not in ("or", "addlistbad", "badkey") and not failed:
                _shadow(regs, op["r"], op)
            s = o["snap"]
            if s and s != "raise":
                for reg in (0, 1):
                    if [list(p) for p in regs[reg]] == [list(p) for p in s[reg][0]]:
                        same += 1
                    else:
                        diff += 1
                        first = first or {"ops": r["case"]["ops"][:8], "shadow": regs[reg], "observed": s[reg][0]}
    ngrid = sum(1 for r in results if isinstance(r.get("case"), dict) and "grid" in r["case"])
    return {"exhaustive_grid": {"alphabet": len(_grid_alphabet()), "cases": ngrid,
                                "what": "every history of length <= L over the alphabet (L=2 quick, L=3 thorough)"},
            "spec_validation": {"what": "independent python pair-list reference vs snapshots accepted by the Coq Spec",
                                "snapshots_equal": same, "snapshots_different": diff, "first_difference": first}}


def sample(case, obs):
    return {"cls": case.get("cls", "OMD"), "ops": case["ops"][:5], "obs": obs[:5]}
