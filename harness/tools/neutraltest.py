#!/venv/bin/python
"""Property-PRESERVING changes (written by sub-agents that saw only the property text): a check must not report a
concrete violation on them.  usage: neutraltest.py /tmp/seed/neutral/C10/out/n1 ...
For each: confirm (scratch worktree of /repo) that the patch applies, the pinned suite passes with it and the agent's
demonstration passes on the clean AND on the changed tree; file it under neutral/<id>/; run the registered quick check
against the changed tree (private Coq tree).  Outcome: SILENT (exit 0) | TIE-ONLY (exit 1, only `no-failing-input-found`:
the accepted residual alarm of source ties) | ALARM (exit 1 with a concrete replay: to be investigated - either the change
does break the property or the check demands more than the property)."""
import json, os, shutil, subprocess, sys, tempfile, time
VERIF = os.path.dirname(os.path.dirname(os.path.dirname(os.path.abspath(__file__))))
PYTEST = ["/venv/bin/python", "-m", "pytest", "-q", "-p", "no:cacheprovider", "--timeout=900", "-x", "tests/"]
def run(cmd, cwd=None, env=None, timeout=3600):
    p = subprocess.run(cmd, cwd=cwd, env=env, stdout=subprocess.PIPE, stderr=subprocess.STDOUT, text=True, timeout=timeout)
    return p.returncode, p.stdout
for src in sys.argv[1:]:
    src = src.rstrip("/")
    notes = json.load(open(os.path.join(src, "notes.json")))
    pid = notes["property"]
    sid = "%s-%s" % (pid, os.path.basename(src))
    scratch = tempfile.mkdtemp(prefix="neutral_", dir="/tmp")
    wt = scratch + "/r"
    try:
        run(["git", "-C", "/repo", "worktree", "add", "--detach", "-f", wt, "HEAD"])
        head = run(["git", "-C", "/repo", "rev-parse", "--short", "HEAD"])[1].strip().splitlines()[-1]
        env = dict(os.environ, PYTHONPATH=wt, PYTHONHASHSEED="0")
        demo = os.path.join(src, "demo.py")
        rc_clean, _ = run(["/venv/bin/python", demo], cwd=scratch, env=env, timeout=900)
        rc_ap, out_ap = run(["git", "-C", wt, "apply", os.path.join(src, "patch.diff")])
        if rc_ap != 0:
            print("%s REJECTED patch does not apply" % sid); continue
        rc_pat, out_pat = run(["/venv/bin/python", demo], cwd=scratch, env=env, timeout=900)
        rc_t, out_t = run(PYTEST, cwd=wt, env=dict(os.environ, PYTHONHASHSEED="0"))
        if not (rc_clean == 0 and rc_pat == 0 and rc_t == 0):
            print("%s REJECTED demo clean=%d patched=%d tests=%d" % (sid, rc_clean, rc_pat, rc_t)); continue
        subprocess.run(["cp", "-a", os.path.join(VERIF, "coq"), scratch + "/coq"], check=True)
        env2 = dict(os.environ, VERIF_REPO=wt, VERIF_EVIDENCE_DIR=scratch + "/ev", VERIF_REPLAY_DIR=scratch + "/replays",
                    VERIF_COQ=scratch + "/coq", VERIF_BUILD=scratch + "/build")
        t0 = time.time()
        p = subprocess.run(["/venv/bin/python", os.path.join(VERIF, "harness/vcheck.py"), pid, "--tier", "quick"],
                           cwd=VERIF, env=env2, stdout=subprocess.PIPE, stderr=subprocess.STDOUT, text=True)
        vl = [l for l in p.stdout.splitlines() if l.startswith("VIOLATION")]
        if p.returncode == 0 and not vl:
            verdict = "SILENT"
        elif p.returncode == 1 and vl and all("no-failing-input-found" in l for l in vl):
            verdict = "TIE-ONLY"
        else:
            verdict = "ALARM rc=%d" % p.returncode
        keep = ""
        if verdict.startswith("ALARM"):
            keep = os.path.join("/tmp/seed/neutral", "alarm_" + sid)
            shutil.rmtree(keep, ignore_errors=True)
            shutil.copytree(scratch + "/replays", keep) if os.path.isdir(scratch + "/replays") else None
            open(keep + ".out", "w").write(p.stdout[-6000:])
        dst = os.path.join(VERIF, "neutral", sid)
        os.makedirs(dst, exist_ok=True)
        shutil.copy(os.path.join(src, "patch.diff"), dst); shutil.copy(demo, dst)
        json.dump({"id": sid, "property": pid, "kind": notes.get("kind"), "what_changed": notes.get("what_changed"),
                   "why_property_still_holds": notes.get("why_property_still_holds"), "observable_difference": notes.get("observable_difference"),
                   "author": "independent sub-agent given only the property text and its own scratch worktree", "base_commit": head,
                   "confirmed_by_coordinator": "patch applies; demo exit 0 on clean and changed tree; pinned suite passes with the change",
                   "check_result": verdict, "check_seconds": round(time.time() - t0)}, open(os.path.join(dst, "meta.json"), "w"), indent=1)
        print("%s %s %s %.0fs %s" % (sid, pid, verdict, time.time() - t0, keep))
    finally:
        run(["git", "-C", "/repo", "worktree", "remove", "--force", wt])
        shutil.rmtree(scratch, ignore_errors=True)
    sys.stdout.flush()
