#!/usr/bin/env python3
"""Merge seedtest log lines into seeded/RESULTS.json, keeping the first verdict of every seed.
usage: seedrecord.py <logfile>... [--note 'text' id...]"""
import json, re, sys, os
V = os.path.dirname(os.path.dirname(os.path.dirname(os.path.abspath(__file__))))
rp = os.path.join(V, "seeded", "RESULTS.json")
res = json.load(open(rp)) if os.path.exists(rp) else {}
args = sys.argv[1:]
if "--note" in args:
    i = args.index("--note"); note = args[i + 1]; ids = args[i + 2:]; args = args[:i]
    for k in ids:
        res.setdefault(k, {})["note"] = note
for f in args:
    for l in open(f):
        m = re.match(r'(C\d\d-\w+) (C\d\d) (DETECTED|MISSED|ERROR.*?) (\d+)s ?(.*)', l)
        if not m or m.group(3).startswith("ERROR"):
            continue
        how = ""
        if m.group(3) == "DETECTED":
            how = "no-failing-input-found (broken tie)" if ("no-failing-input-found" in m.group(5) and m.group(5).count("VIOLATION") == 1) else "concrete replay"
        e = res.setdefault(m.group(1), {})
        e.setdefault("first_verdict", m.group(3))
        e.setdefault("first_how", how)
        e["verdict"], e["how"], e["seconds"] = m.group(3), how, int(m.group(4))
        e.setdefault("round", {"1":1,"2":1,"3":1,"4":2,"5":2,"6":3,"7":3,"8":4,"9":4}.get(m.group(1)[-1], 5))
for k, e in res.items():
    e.setdefault("first_verdict", e.get("verdict"))
json.dump(res, open(rp, "w"), indent=1, sort_keys=True)
miss = sorted(k for k, e in res.items() if e.get("verdict") != "DETECTED")
print(len(res), "seeds recorded; not detected now:", miss)
