#!/venv/bin/python
"""Run the registered check of a seeded change against a scratch copy of /repo with the
patch applied (never touches /repo).  usage: seedtest.py <seeded-id>... [--tier quick] [--inplace]
With --inplace the patch is applied to /repo itself (git -C /repo apply), the check runs against /repo,
and the patch is undone straight afterwards (git -C /repo checkout -- .): only when nobody else works in /repo.
Prints one line per seed: DETECTED (exit 1 + VIOLATION line) / MISSED (exit 0) / ERROR."""
import json, os, shutil, subprocess, sys, tempfile, time
VERIF = os.path.dirname(os.path.dirname(os.path.dirname(os.path.abspath(__file__))))
tier = "quick"
inplace = False
ids = []
args = sys.argv[1:]
while args:
    a = args.pop(0)
    if a == "--tier":
        tier = args.pop(0)
    elif a == "--inplace":
        inplace = True
    else:
        ids.append(a)
if not ids:
    ids = sorted(os.listdir(os.path.join(VERIF, "seeded")))
for sid in ids:
    d = os.path.join(VERIF, "seeded", sid)
    meta = json.load(open(os.path.join(d, "meta.json")))
    pid = meta["property"]
    scratch = tempfile.mkdtemp(prefix="seed_%s_" % sid, dir="/tmp")
    try:
        if inplace:
            dirty = subprocess.run(["git", "-C", "/repo", "status", "--porcelain", "--untracked-files=no"],
                                   stdout=subprocess.PIPE, text=True).stdout.strip()
            if dirty:
                print("%s %s ERROR /repo has uncommitted edits; not applying in place" % (sid, pid))
                continue
            target = "/repo"
        else:
            subprocess.run(["git", "-C", "/repo", "worktree", "add", "--detach", "-f", scratch + "/r", "HEAD"],
                           check=True, stdout=subprocess.DEVNULL, stderr=subprocess.DEVNULL)
            target = scratch + "/r"
        r = subprocess.run(["git", "-C", target, "apply", os.path.join(d, "patch.diff")],
                           stdout=subprocess.PIPE, stderr=subprocess.STDOUT, text=True)
        if r.returncode != 0:
            print("%s %s ERROR patch does not apply: %s" % (sid, pid, r.stdout.strip()[:200]))
            continue
        # private copy of the Coq tree (sources + compiled files, mtimes kept): regenerated Gen/*.v of the
        # changed source never touch /verif/coq, so runs on the unchanged tree cannot be disturbed
        subprocess.run(["cp", "-a", os.path.join(VERIF, "coq"), scratch + "/coq"], check=True)
        env = dict(os.environ, VERIF_REPO=target, VERIF_EVIDENCE_DIR=scratch + "/ev",
                   VERIF_REPLAY_DIR=scratch + "/replays", VERIF_COQ=scratch + "/coq", VERIF_BUILD=scratch + "/build")
        t0 = time.time()
        p = subprocess.run(["/venv/bin/python", os.path.join(VERIF, "harness/vcheck.py"), pid, "--tier", tier],
                           cwd=VERIF, env=env, stdout=subprocess.PIPE, stderr=subprocess.STDOUT, text=True)
        lines = [l for l in p.stdout.splitlines() if l.startswith("VIOLATION") or l.startswith("HARNESS")]
        verdict = "DETECTED" if p.returncode == 1 and lines else ("MISSED" if p.returncode == 0 else "ERROR rc=%d" % p.returncode)
        print("%s %s %s %.0fs %s" % (sid, pid, verdict, time.time() - t0, " | ".join(lines)[:300]))
        sys.stdout.flush()
    finally:
        if inplace:
            subprocess.run(["git", "-C", "/repo", "checkout", "--", "."], stdout=subprocess.DEVNULL, stderr=subprocess.DEVNULL)
        subprocess.run(["git", "-C", "/repo", "worktree", "remove", "--force", scratch + "/r"],
                       stdout=subprocess.DEVNULL, stderr=subprocess.DEVNULL)
        shutil.rmtree(scratch, ignore_errors=True)
