#!/venv/bin/python
"""Confirm a candidate seeded change and file it under /verif/seeded/<id>/.
usage: seedverify.py /tmp/seed/C10/out/1 [more dirs...]
Confirms, in a scratch git worktree of /repo (outside /repo and /verif, removed afterwards):
  (a) patch applies to HEAD, (b) demo exits 0 on the clean tree, (c) demo exits non-zero with the patch,
  (d) the pinned test suite passes with the patch.
Only then writes seeded/<Cxx>-<i>/{patch.diff,demo.py,meta.json}."""
import json, os, shutil, subprocess, sys, tempfile, time
VERIF = os.path.dirname(os.path.dirname(os.path.dirname(os.path.abspath(__file__))))
PYTEST = ["/venv/bin/python", "-m", "pytest", "-q", "-p", "no:cacheprovider", "--timeout=900", "-x", "tests/"]

def run(cmd, cwd=None, env=None, timeout=1800):
    p = subprocess.run(cmd, cwd=cwd, env=env, stdout=subprocess.PIPE, stderr=subprocess.STDOUT, text=True, timeout=timeout)
    return p.returncode, p.stdout

for src in sys.argv[1:]:
    src = src.rstrip("/")
    notes = json.load(open(os.path.join(src, "notes.json")))
    pid = notes["property"]
    sid = "%s-%s" % (pid, os.path.basename(src))
    scratch = tempfile.mkdtemp(prefix="seedv_", dir="/tmp")
    wt = scratch + "/wt"
    ran = []
    try:
        run(["git", "-C", "/repo", "worktree", "add", "--detach", "-f", wt, "HEAD"])
        head = run(["git", "-C", "/repo", "rev-parse", "--short", "HEAD"])[1].strip().splitlines()[-1]
        env = dict(os.environ, PYTHONPATH=wt, PYTHONHASHSEED="0")
        demo = os.path.join(src, "demo.py")
        rc_clean, out_clean = run(["/venv/bin/python", demo], cwd=scratch, env=env, timeout=600)
        ran.append("clean tree %s: PYTHONPATH=<wt> python demo.py -> exit %d" % (head, rc_clean))
        rc_ap, out_ap = run(["git", "-C", wt, "apply", os.path.join(src, "patch.diff")])
        ran.append("git apply patch.diff -> exit %d" % rc_ap)
        if rc_ap != 0:
            print("%s REJECTED patch does not apply: %s" % (sid, out_ap.strip()[-200:])); continue
        rc_pat, out_pat = run(["/venv/bin/python", demo], cwd=scratch, env=env, timeout=600)
        ran.append("patched tree: python demo.py -> exit %d" % rc_pat)
        rc_t, out_t = run(PYTEST, cwd=wt, env=dict(os.environ, PYTHONHASHSEED="0"))
        tail = [l for l in out_t.strip().splitlines() if "passed" in l or "failed" in l][-1:] or out_t.strip().splitlines()[-1:]
        ran.append("patched tree: %s -> exit %d (%s)" % (" ".join(PYTEST[1:]), rc_t, tail[0] if tail else ""))
        ok = rc_clean == 0 and rc_pat != 0 and rc_t == 0
        if not ok:
            print("%s REJECTED clean=%d patched=%d tests=%d" % (sid, rc_clean, rc_pat, rc_t)); continue
        dst = os.path.join(VERIF, "seeded", sid)
        os.makedirs(dst, exist_ok=True)
        shutil.copy(os.path.join(src, "patch.diff"), dst)
        shutil.copy(demo, dst)
        meta = {"id": sid, "property": pid, "what_changed": notes.get("what_changed"),
                "needs_to_manifest": notes.get("needs_to_manifest"), "failure_class": notes.get("failure_class"),
                "author": "independent sub-agent given only the property text and its own scratch worktree",
                "base_commit": head, "confirmed_by_coordinator": ran,
                "demo_output_patched": out_pat.strip()[-600:], "confirmed_at": time.strftime("%Y-%m-%d %H:%M UTC", time.gmtime())}
        json.dump(meta, open(os.path.join(dst, "meta.json"), "w"), indent=1)
        print("%s CONFIRMED" % sid)
    finally:
        run(["git", "-C", "/repo", "worktree", "remove", "--force", wt])
        shutil.rmtree(scratch, ignore_errors=True)
    sys.stdout.flush()
