#!/venv/bin/python
"""Run the quick (or thorough) command of every check registered in MANIFEST.json, one after the other,
and print one summary line each.  usage: runall.py [--tier thorough] [ids...]"""
import json, os, subprocess, sys, time
VERIF = os.path.dirname(os.path.dirname(os.path.dirname(os.path.abspath(__file__))))
tier = "quick"; ids = []
args = sys.argv[1:]
while args:
    a = args.pop(0)
    if a == "--tier": tier = args.pop(0)
    else: ids.append(a)
m = json.load(open(os.path.join(VERIF, "MANIFEST.json")))
bad = 0
for c in m["checks"]:
    if ids and c["property_id"] not in ids: continue
    cmd = c["quick_cmd"] if tier == "quick" else c.get("thorough_cmd", c["quick_cmd"])
    t0 = time.time()
    p = subprocess.run(cmd, shell=True, cwd=VERIF, stdout=subprocess.PIPE, stderr=subprocess.STDOUT, text=True)
    out = [l for l in p.stdout.splitlines() if l.startswith(("VIOLATION", "KNOWN-FINDING", "HARNESS", c["property_id"] + " tier"))]
    print("%s rc=%d %.0fs" % (c["property_id"], p.returncode, time.time() - t0)); [print("    " + l[:260]) for l in out]
    sys.stdout.flush()
    bad += p.returncode != 0
sys.exit(1 if bad else 0)
