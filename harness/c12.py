"""C12 BufferedSocket / NetstringSocket framing: plug-in.

The implementation is driven over a scripted socket object (recv/send/
settimeout/gettimeout): the receiving network is a list of deliveries and
time-outs, the sending network a list of partial-send sizes and time-outs.
Python only moves data: the outcome of every call, getrecvbuffer()/
getsendbuffer() after it and the scripted socket's counters are handed to Coq,
which evaluates agree (Model.C12_Model) and holds (Spec.C12_Spec)."""
import itertools
import socket

from common import cnat, cN, clist, cbool

ID = "C12"
IMPORTS = ("From Boltons Require Import Lib.Prelude Lib.C12_Base Spec.C12_Spec "
           "Model.C12_Model Check.C12_Check.")
CASE_TYPE = "c12_case"
VERDICT = "c12_verdict"
EXPLAIN = "c12_explain"
CASES_PER_FILE = 120
CASE_FILE_BYTES = 120000
CASE_TIMEOUT = 10
TIERS = {"quick": {"n": 2600}, "thorough": {"n": 24000, "exhaustive": True}}
RULE = ("BufferedSocket over a scripted socket: random byte streams over a 2-4 letter alphabet (delimiters recur and "
        "overlap), random and exhaustive compositions into deliveries (1-byte delivery included) with time-outs "
        "interleaved, recvsize 1-6 or large, maxsize around the delimiter position, call sequences of recv_until "
        "(1-3 byte delimiters taken from the stream)/recv_size/peek/recv_close/recv/setmaxsize, repeated after Timeout; "
        "send/sendall/buffer/flush under partial sends and time-outs; NetstringSocket write_ns -> chunked wire -> "
        "read_ns with arbitrary payload bytes; thorough adds every network (all compositions x time-out placements) of every "
        "stream over {a,b} up to length 5 and every send script of length <= 4 over {1 byte, 2 bytes, all, time-out, "
        "EWOULDBLOCK, slow} and every composition of a three-netstring wire.  non-trivial = a delimiter or a size boundary straddles a delivery "
        "edge, or a call needed >= 2 deliveries, or a Timeout left partial data buffered, or a send needed >= 2 "
        "partial sends / timed out with bytes unsent, or a netstring was read across >= 2 deliveries; distinct = "
        "distinct canonical case hash")
ASSUMPTIONS = ["an interruption of the underlying socket is socket.timeout or an OSError raised by recv/send "
               "before it transfers any byte (scripted: EWOULDBLOCK, EINTR, EPIPE, ECONNRESET, EIO, errno-less)",
               "every delivery of the network carries at least one byte and recvsize >= 1 (an empty delivery is a close)",
               "sock.send accepts at least one byte of a non-empty buffer or times out",
               "time is the scripted clock (socketutils.time replaced): it moves only when a slow event is delivered, "
               "then far beyond any deadline; timeout is None, 0 or 1000 s",
               "flags=0, sizes >= 0, one thread"]
TRUSTED = ["Model/C12_Model.v is hand-written; tied to boltons.socketutils by the correspondence run and, for the three "
           "loop bodies and the slicing statements, by harness/translators/c12_loops.py + Proofs/C12_SrcEq.v",
           "harness/c12.py scripted socket, scripted clock (boltons.socketutils.time replaced by assignment) and serialiser",
           "bytes/bytearray slicing, find and join of CPython (py_find/firstn/skipn in the model)",
           "int() of a bytes object in base 10 (py_int models white space, sign, underscores), "
           "str() of a non-negative int (py_str = decimal notation)"]

EXN = {"ValueError": "ValueError", "Timeout": "Timeout", "ConnectionClosed": "ConnectionClosed", "MessageTooLong": "MessageTooLong",
       "NetstringInvalidSize": "NetstringInvalidSize", "NetstringMessageTooLong": "NetstringMessageTooLong",
       "NetstringProtocolError": "NetstringProtocolError"}


def translators(repo):
    """(T) constants of boltons.socketutils the model relies on; fail closed."""
    import os
    import sys
    sys.path.insert(0, os.path.join(os.path.dirname(os.path.abspath(__file__)), "translators"))
    import c12_consts
    import c12_loops
    # C12_Gen: constants; C12_Src: the bodies of the recv_until / recv_size / send loops and the slicing
    # statements after them, as Gallina text (proved equal to the model's iteration in Proofs/C12_SrcEq.v)
    return {"C12_Gen": c12_consts.translate(repo), "C12_Src": c12_loops.translate(repo)}


# --------------------------------------------------------------------------
# the scripted socket
# --------------------------------------------------------------------------
ERR_KINDS = {11: lambda: BlockingIOError(11, "Resource temporarily unavailable"),      # EWOULDBLOCK / EAGAIN
             4: lambda: InterruptedError(4, "Interrupted system call"),
             32: lambda: BrokenPipeError(32, "Broken pipe"),
             104: lambda: ConnectionResetError(104, "Connection reset by peer"),
             5: lambda: OSError(5, "Input/output error"),
             0: lambda: socket.error("scripted socket error without errno")}
ERR_CODES = sorted(ERR_KINDS)
LAST_RAISED = [None]      # the very exception object the scripted socket raised last


class Clock:
    """Stands in for the `time` module inside boltons.socketutils: time() is frozen except when the scripted
    socket delivers a *slow* event, which moves it far beyond any deadline."""
    now = 1000.0

    def time(self):
        return Clock.now


CLOCK = Clock()
JUMP = 1.0e6


def is_err(e):
    return isinstance(e, list) and len(e) == 2 and e[0] == "E"


def is_slow(e):
    return isinstance(e, list) and len(e) == 2 and e[0] == "S"


def is_intr(e):
    return e == "T" or is_err(e)


def _raise(ev):
    exc = socket.timeout("timed out") if ev == "T" else ERR_KINDS[ev[1]]()
    LAST_RAISED[0] = exc
    raise exc


class ScriptSock:
    """net: deliveries (lists of byte values), "T" (socket.timeout) or ["E", errno] (another socket
    error); script: k (the kernel takes min(k+1, len) bytes), "T" or ["E", errno]."""

    def __init__(self, net, script, sock_timeout=None):
        self.net = [e if is_intr(e) else (["S", bytes(e[1])] if is_slow(e) else bytes(e)) for e in net]
        self.script = list(script)
        self.tmo = sock_timeout
        self.consumed = 0
        self.edges = []          # cumulative offsets at which a recv returned
        self.recv_calls = 0      # recv calls that returned data
        self.send_calls = 0
        self.wire = bytearray()

    def settimeout(self, t):
        self.tmo = t

    def gettimeout(self):
        return self.tmo

    def recv(self, n, flags=0):
        if not self.net:
            return b""
        e = self.net[0]
        if is_intr(e):
            self.net.pop(0)
            _raise(e)
        if is_slow(e):              # the delivery arrives after the caller's deadline
            Clock.now += JUMP
            e = self.net[0] = e[1]
        if len(e) <= n:
            self.net.pop(0)
            out = e
        else:
            out, self.net[0] = e[:n], e[n:]
        self.consumed += len(out)
        self.edges.append(self.consumed)
        self.recv_calls += 1
        return out

    def recv_left(self):
        return sum(1 for e in self.net if is_intr(e))

    def send_left(self):
        return sum(1 for e in self.script if is_intr(e))

    def send(self, data, flags=0):
        self.send_calls += 1
        if not self.script:
            k = len(data)
        else:
            ev = self.script.pop(0)
            if is_intr(ev):
                _raise(ev)
            if is_slow(ev):
                Clock.now += JUMP
                ev = ev[1]
            k = min(ev + 1, len(data))
        self.wire += bytes(data[:k])
        return k


def _outcome(fn):
    """Call fn; only the exception types the property names, and the very error object the scripted
    socket raised (propagated unchanged), are outcomes; anything else escapes (= violation)."""
    from boltons import socketutils as su
    try:
        v = fn()
    except su.Error as e:
        name = type(e).__name__
        if type(e) is not getattr(su, name, None) or name not in EXN:
            raise
        return ["exn", name]
    except OSError as e:
        if e is not LAST_RAISED[0] or isinstance(e, socket.timeout):
            raise
        return ["oserr", e.errno or 0]
    if v is None:
        return ["none"]
    if type(v) is bytes:
        return ["b", list(v)]
    if type(v) is int:
        return ["n", v]
    raise TypeError("unexpected return value %r" % (v,))


def interrupted(out):
    return out == ["exn", "Timeout"] or out[0] == "oserr"


def _msz_kw(m):
    return {} if m == "unset" else {"maxsize": m}


def run_bs(case):
    from boltons import socketutils as su
    from boltons.socketutils import BufferedSocket
    su.time = CLOCK
    sock = ScriptSock(case["net"], case["script"])
    tmo = case.get("timeout")
    bs = BufferedSocket(sock, timeout=tmo, maxsize=case["maxsize"], recvsize=case["recvsize"])
    ntmo = sum(1 for e in case["net"] + case["script"] if is_intr(e) or is_slow(e))
    steps = []
    marks = {"multi_recv": 0, "timeout_partial": 0, "error_partial": 0, "partial_send": 0,
             "send_timeout_unsent": 0, "send_error_after_partial": 0, "send_error_unsent": 0,
             "straddle_delim": 0, "size_inside_chunk": 0, "size_at_edge": 0, "deadline_timeout": 0,
             "deadline_timeout_send": 0}
    delivered = 0
    for idx, op in enumerate(case["ops"]):
        k = op[0]
        tries = 0
        while True:
            rc0, sc0, cons0 = sock.recv_calls, sock.send_calls, sock.consumed
            rl0, sl0 = sock.recv_left(), sock.send_left()
            tkw = {} if (idx + tries) % 2 else {"timeout": tmo}     # per-call timeout in rotation
            if k == "until":
                kw = dict(_msz_kw(op[2]), **tkw)
                if op[3] or idx % 3 == 0:
                    kw["with_delimiter"] = bool(op[3])
                out = _outcome(lambda: bs.recv_until(bytes(op[1]), **kw))
            elif k == "size":
                out = _outcome(lambda: bs.recv_size(op[1], **tkw))
            elif k == "peek":
                out = _outcome(lambda: bs.peek(op[1], **tkw))
            elif k == "close":
                out = _outcome(lambda: bs.recv_close(**dict(_msz_kw(op[1]), **tkw)))
            elif k == "recv":
                out = _outcome(lambda: bs.recv(op[1], **tkw))
            elif k == "setmax":
                out = _outcome(lambda: bs.setmaxsize(op[1]))
            elif k == "send":
                meth = bs.sendall if op[2] == "sendall" else bs.send
                out = _outcome(lambda: meth(bytes(op[1]), **tkw))
            elif k == "buffer":
                out = _outcome(lambda: bs.buffer(bytes(op[1])))
            elif k == "flush":
                out = _outcome(lambda: bs.flush())
            elif k == "badflags":
                # a malformed call: flags != 0 is refused with ValueError before anything happens
                fl = 1 + idx % 3
                try:
                    if op[1]:
                        (bs.sendall if idx % 2 else bs.send)(bytes(op[2]), fl)
                    else:
                        bs.recv(1 + idx % 2, flags=fl)
                    raise TypeError("flags=%d accepted" % fl)
                except ValueError:
                    out = ["exn", "ValueError"]
            else:
                raise ValueError(op)
            if k in ("send", "buffer", "flush"):
                buf, cnt, left = bs.getsendbuffer(), len(sock.wire), sock.send_left()
                if out == ["exn", "Timeout"] and left == sl0:
                    marks["deadline_timeout_send"] += 1
                if sock.send_calls - sc0 >= 2:
                    marks["partial_send"] += 1
                if out == ["exn", "Timeout"] and buf:
                    marks["send_timeout_unsent"] += 1
                if out[0] == "oserr" and buf:
                    marks["send_error_unsent"] += 1
                    if sock.send_calls - sc0 >= 2:
                        marks["send_error_after_partial"] += 1
            else:
                buf, cnt, left = bs.getrecvbuffer(), sock.consumed, sock.recv_left()
                if out == ["exn", "Timeout"] and left == rl0:
                    marks["deadline_timeout"] += 1
                if sock.recv_calls - rc0 >= 2:
                    marks["multi_recv"] += 1
                if out == ["exn", "Timeout"] and buf:
                    marks["timeout_partial"] += 1
                if out[0] == "oserr" and buf:
                    marks["error_partial"] += 1
                inner = set(sock.edges) - {sock.consumed}
                if out[0] == "b":
                    if k == "until":
                        n_val = len(out[1]) - (len(op[1]) if op[3] else 0)
                        a = delivered + n_val
                        if any(a < e < a + len(op[1]) for e in sock.edges):
                            marks["straddle_delim"] += 1
                        delivered += n_val + len(op[1])
                    elif k in ("size", "recv", "close"):
                        delivered += len(out[1])
                        if k == "size" and sock.consumed > cons0:
                            marks["size_at_edge" if delivered == sock.consumed else "size_inside_chunk"] += 1
            if type(buf) is not bytes:
                raise TypeError("buffer view is %r" % type(buf))
            steps.append([op, out, list(buf), cnt, left])
            tries += 1
            if not (case.get("retry") and interrupted(out) and tries <= ntmo):
                break
            if k == "send":          # the data is in the send buffer: a caller retries with flush()
                op, k = ["flush"], "flush"
    final = {"rbuf": list(bs.getrecvbuffer()), "consumed": sock.consumed,
             "sbuf": list(bs.getsendbuffer()), "wire": list(sock.wire)}
    return {"steps": steps, "final": final, "marks": marks}


def cut_stream(stream, cuts):
    """Deliveries: cut sizes (>= 1) and "T" in order; what is left is the last delivery."""
    net, i = [], 0
    for c in cuts:
        if is_intr(c):
            net.append(c)
        elif is_slow(c):
            if i < len(stream):
                net.append(["S", list(stream[i:i + c[1]])])
                i += c[1]
        elif i < len(stream):
            net.append(list(stream[i:i + c]))
            i += c
    if i < len(stream):
        net.append(list(stream[i:]))
    return net


def run_ns(case):
    from boltons import socketutils as su
    from boltons.socketutils import NetstringSocket
    su.time = CLOCK
    wsock = ScriptSock([], case["wscript"])
    w = NetstringSocket(wsock, maxsize=case["wmax"])
    wsteps = []
    werr_after_partial = 0

    def wstep(op):
        nonlocal werr_after_partial
        sc0 = wsock.send_calls
        if op[0] == "write":
            out = _outcome(lambda: w.write_ns(bytes(op[1])))
        elif op[0] == "flush":
            out = _outcome(lambda: w.bsock.flush())
        else:
            out = _outcome(lambda: w.setmaxsize(op[1]))
        if interrupted(out) and wsock.send_calls - sc0 >= 2:
            werr_after_partial += 1
        wsteps.append([op, out, list(w.bsock.getsendbuffer()), len(wsock.wire), wsock.send_left()])
        return out

    for op in case["wops"]:
        wstep(op)
    # an interrupted write_ns leaves (part of) its frame in the send buffer: the writer flushes
    for _ in range(len(case["wscript"]) + 1):
        if not w.bsock.getsendbuffer():
            break
        wstep(["flush"])
    wire = bytes(wsock.wire)
    stream = wire + bytes(case["junk"])
    net = cut_stream(stream, case["cuts"])
    rsock = ScriptSock(net, [])
    r = NetstringSocket(rsock, timeout=case.get("rtimeout", 10), maxsize=case["rmax"])
    ntmo = sum(1 for e in net if is_intr(e) or is_slow(e))
    rsteps = []
    multi = 0
    for idx, op in enumerate(case["rops"]):
        tries = 0
        while True:
            rc0 = rsock.recv_calls
            if op[0] == "read":
                kw = {} if op[1] is None else {"maxsize": op[1]}
                out = _outcome(lambda: r.read_ns(**kw))
            else:
                out = _outcome(lambda: r.setmaxsize(op[1]))
            if out[0] == "b" and rsock.recv_calls - rc0 >= 2:
                multi += 1
            rsteps.append([op, out, list(r.bsock.getrecvbuffer()), rsock.consumed, rsock.recv_left()])
            tries += 1
            if not (case.get("retry") and interrupted(out) and tries <= ntmo):
                break
    return {"wsteps": wsteps, "wwire": list(wire), "net": net, "rsteps": rsteps,
            "marks": {"ns_multi_recv": multi, "ns_write_interrupted_after_partial": werr_after_partial,
                      "ns_timeouts": sum(1 for s in rsteps if s[1] == ["exn", "Timeout"]),
                      "ns_errors": sum(1 for s in rsteps if s[1][0] == "oserr"),
                      "ns_payloads_read": sum(1 for s in rsteps if s[1][0] == "b")}}


def run_impl(case):
    return run_ns(case) if case["kind"] == "ns" else run_bs(case)


# --------------------------------------------------------------------------
# rendering
# --------------------------------------------------------------------------
def cb(bs):
    return clist(cN(int(b)) for b in bs)


def c_msz(m):
    if m == "unset":
        return "MUnset"
    if m is None:
        return "MNone"
    return "(MVal %s)" % cnat(m)


def c_lim(m):
    return "None" if m is None else "(Some %s)" % cnat(m)


def c_op(op):
    k = op[0]
    if k == "until":
        return "RecvUntil %s %s %s" % (cb(op[1]), c_msz(op[2]), cbool(op[3]))
    if k == "size":
        return "RecvSize %s" % cnat(op[1])
    if k == "peek":
        return "Peek %s" % cnat(op[1])
    if k == "close":
        return "RecvClose %s" % c_msz(op[1])
    if k == "recv":
        return "Recv %s" % cnat(op[1])
    if k == "setmax":
        return "SetMaxsize %s" % c_lim(op[1])
    if k == "send":
        return "Send %s" % cb(op[1])
    if k == "buffer":
        return "Buffer %s" % cb(op[1])
    if k == "flush":
        return "Flush"
    if k == "badflags":
        return "BadFlags %s %s" % (cbool(op[1]), cb(op[2]))
    raise ValueError(op)


def c_nsop(op):
    if op[0] == "read":
        return "ReadNs %s" % c_lim(op[1])
    if op[0] == "write":
        return "WriteNs %s" % cb(op[1])
    if op[0] == "flush":
        return "NsFlush"
    return "NsSetMaxsize %s" % cnat(op[1])


def c_out(o):
    if o[0] == "b":
        return "(OBytes %s)" % cb(o[1])
    if o[0] == "n":
        return "(ONat %s)" % cnat(o[1])
    if o[0] == "none":
        return "ONone"
    if o[0] == "oserr":
        return "(OExn (OSErr %s))" % cnat(o[1])
    return "(OExn %s)" % EXN[o[1]]


def c_net(net):
    return clist("TimeoutEv" if e == "T" else ("ErrorEv %s" % cnat(e[1]) if is_err(e) else
                                                ("SlowChunk %s" % cb(e[1]) if is_slow(e) else "Chunk %s" % cb(e)))
                 for e in net)


def c_script(sc):
    return clist("STimeoutEv" if e == "T" else ("SErrorEv %s" % cnat(e[1]) if is_err(e) else
                                                 ("SSlowAccept %s" % cnat(e[1]) if is_slow(e) else "SAccept %s" % cnat(e)))
                 for e in sc)


def c_steps(steps, render):
    return clist("(%s, mkObs %s %s %s %s)" % (render(op), c_out(o), cb(buf), cnat(cnt), cnat(left))
                 for (op, o, buf, cnt, left) in steps)


def to_coq(case, obs):
    if case["kind"] == "ns":
        return "NSCase %s %s %s %s %s %s %s %s %s" % (
            cnat(case["wmax"]), c_script(case["wscript"]), c_steps(obs["wsteps"], c_nsop),
            cb(obs["wwire"]), cnat(case["rmax"]), cbool(bool(case.get("rtimeout", 10))), c_net(obs["net"]),
            cb(case["junk"]),
            c_steps(obs["rsteps"], c_nsop))
    f = obs["final"]
    return "BSCase %s %s %s %s %s %s (mkFinal %s %s %s %s)" % (
        cnat(case["maxsize"]), cnat(case["recvsize"]), cbool(bool(case.get("timeout"))), c_net(case["net"]),
        c_script(case["script"]),
        c_steps(obs["steps"], c_op), cb(f["rbuf"]), cnat(f["consumed"]), cb(f["sbuf"]), cb(f["wire"]))


# --------------------------------------------------------------------------
# generation
# --------------------------------------------------------------------------
ALPHABETS = [[97, 98], [97, 98], [97, 98, 99], [13, 10, 97], [97, 98, 99, 0]]


def compositions(n):
    """All ways of writing n as an ordered sum of positive integers."""
    if n == 0:
        yield []
        return
    for bits in itertools.product([0, 1], repeat=n - 1):
        parts, cur = [], 1
        for b in bits:
            if b:
                parts.append(cur)
                cur = 1
            else:
                cur += 1
        parts.append(cur)
        yield parts


def rand_cuts(rng, n, style=None):
    style = style or rng.choice(["one", "small", "small", "mixed", "big", "whole"])
    cuts, left = [], n
    while left > 0:
        if style == "one":
            c = 1
        elif style == "small":
            c = rng.randint(1, 3)
        elif style == "mixed":
            c = rng.choice([1, 1, 2, 3, 5, 8])
        elif style == "big":
            c = rng.randint(4, 12)
        else:
            c = left
        c = min(c, left)
        cuts.append(c)
        left -= c
    return cuts


def rand_intr(rng, perr=0.4):
    """A time-out, or (40 %) another socket error."""
    return ["E", rng.choice([11, 11, 11, 4, 32, 104, 5, 0])] if rng.random() < perr else "T"


def add_timeouts(rng, cuts, p):
    out = []
    for c in cuts:
        while rng.random() < p:
            out.append(rand_intr(rng))
        if p and rng.random() < 0.12:
            c = ["S", c]                 # a delivery that arrives after the deadline
        out.append(c)
    while rng.random() < p:
        out.append(rand_intr(rng))
    return out


def rand_stream(rng, n, alpha):
    style = rng.choice(["uniform", "runs", "runs"])
    if style == "uniform":
        return [rng.choice(alpha) for _ in range(n)]
    out = []
    while len(out) < n:          # runs of one letter: overlapping partial matches of multi-byte delimiters
        out += [rng.choice(alpha)] * rng.randint(1, 3)
    return out[:n]


def rand_delim(rng, stream, alpha):
    ln = rng.choice([1, 1, 2, 2, 3])
    if stream and rng.random() < 0.75 and len(stream) >= ln:
        i = rng.randrange(len(stream) - ln + 1)
        return stream[i:i + ln]
    return [rng.choice(alpha) for _ in range(ln)]


def first_occ(stream, d, frm=0):
    for i in range(frm, len(stream) - len(d) + 1):
        if stream[i:i + len(d)] == d:
            return i
    return None


def rand_msz(rng, around):
    r = rng.random()
    if r < 0.3:
        return "unset"
    if r < 0.4:
        return None
    if r < 0.85 and around is not None:
        return max(0, around + rng.choice([-2, -1, -1, 0, 0, 0, 1, 1, 2]))
    return rng.choice([0, 1, 2, 3, 5, 8, 50])


def gen_recv_ops(rng, stream, alpha, nops, want_recv=True):
    ops, pos = [], 0           # pos: rough guess of how much has been consumed
    for _ in range(nops):
        r = rng.random()
        rest = len(stream) - pos
        if r < 0.42:
            d = rand_delim(rng, stream[pos:], alpha)
            o = first_occ(stream, d, pos)
            around = (o - pos + len(d)) if o is not None else max(0, rest)
            m = rand_msz(rng, around)
            ops.append(["until", d, m, rng.random() < 0.35])
            if o is not None:
                pos = o + len(d)
        elif r < 0.62:
            n = rng.choice([0, 1, 1, 2, 2, 3, 4, 5, 7, max(0, rest), max(0, rest + 1), max(0, rest - 1)])
            ops.append(["size", n])
            if n <= rest:
                pos += n
        elif r < 0.74:
            n = rng.choice([0, 1, 2, 3, 4, 6, max(0, rest), rest + 1])
            ops.append(["peek", n])
        elif r < 0.80:
            ops.append(["close", rand_msz(rng, max(0, rest))])
        elif r < 0.91 and want_recv:
            ops.append(["recv", rng.choice([0, 1, 1, 2, 3, 5, 9])])
        elif r < 0.93 and want_recv:
            ops.append(["badflags", False, []])
        else:
            ops.append(["setmax", rng.choice([None, 0, 1, 2, 3, 4, 6, 10, 50])])
    return ops


def rand_payload(rng, full=False):
    n = rng.choice([0, 1, 2, 3, 5, 9, 10, 11, 17])
    if full and rng.random() < 0.06:
        n = rng.choice([99, 100, 101, 128])        # three-digit size prefixes
    return [rng.choice([rng.randrange(256), 58, 44, 48, 49, 97]) if full else rng.choice([97, 98])
            for _ in range(n)]


def gen_send_ops(rng, nops):
    ops = []
    for _ in range(nops):
        r = rng.random()
        if r < 0.5:
            ops.append(["send", rand_payload(rng), rng.choice(["send", "sendall"])])
        elif r < 0.8:
            ops.append(["buffer", rand_payload(rng)])
        elif r < 0.84:
            ops.append(["badflags", True, rand_payload(rng)])
        else:
            ops.append(["flush"])
    return ops


def rand_script(rng, n):
    out = []
    for _ in range(n):
        r = rng.random()
        k = rng.choice([0, 0, 1, 2, 4, 8, 30])
        out.append(rand_intr(rng, 0.5) if r < 0.3 else (["S", k] if r < 0.4 else k))
    return out


def gen_bs(rng, tier, flavour):
    alpha = rng.choice(ALPHABETS)
    big = tier != "quick"
    n = rng.choice([0, 1, 2, 3, 4, 5, 6, 8, 10, 12, 16, 24] + ([40, 60] if big else []))
    stream = rand_stream(rng, n, alpha)
    cuts = add_timeouts(rng, rand_cuts(rng, n), rng.choice([0.0, 0.15, 0.3, 0.5]))
    net = cut_stream(stream, cuts)
    script, ops = [], []
    if flavour == "recv":
        ops = gen_recv_ops(rng, stream, alpha, rng.randint(1, 7))
    elif flavour == "send":
        ops = gen_send_ops(rng, rng.randint(1, 8))
        script = rand_script(rng, rng.randint(0, 10))
        net = net[:3]
    else:
        a = gen_recv_ops(rng, stream, alpha, rng.randint(1, 5))
        b = gen_send_ops(rng, rng.randint(1, 5))
        script = rand_script(rng, rng.randint(0, 8))
        while a or b:
            src = a if (a and (not b or rng.random() < 0.5)) else b
            ops.append(src.pop(0))
    return {"kind": "bs", "maxsize": rng.choice([0, 1, 2, 3, 4, 6, 10, 20, 100, 4096]),
            "recvsize": rng.choice([1, 1, 2, 2, 3, 4, 5, 6, 64, 4096]),
            "timeout": rng.choice([None, 1000.0, 1000.0, 0]), "net": net, "script": script, "ops": ops,
            "retry": rng.random() < 0.7}


def gen_exhaustive_family(rng, tier):
    """One (stream, call sequence) pair under EVERY composition of the stream into
    deliveries (optionally a time-out before some deliveries)."""
    alpha = rng.choice(ALPHABETS[:3])
    n = rng.randint(2, 5 if tier == "quick" else 7)
    stream = rand_stream(rng, n, alpha)
    ops = gen_recv_ops(rng, stream, alpha, rng.randint(1, 4), want_recv=False)
    base = {"kind": "bs", "maxsize": rng.choice([1, 2, 3, 4, 6, 100]),
            "recvsize": rng.choice([1, 2, 3, 64]), "timeout": rng.choice([None, 1000.0]), "script": [], "ops": ops,
            "retry": True}
    for parts in compositions(n):
        cuts = []
        for p in parts:
            if rng.random() < 0.25:
                cuts.append(rand_intr(rng, 0.3))
            cuts.append(["S", p] if rng.random() < 0.12 else p)
        yield dict(base, net=cut_stream(stream, cuts))


def gen_delim_family(rng, tier):
    """One stream and one chunking under EVERY delimiter of length 1-2 over its alphabet (plus two of
    length 3) x EVERY maxsize 0..len+1 x with/without delimiter."""
    alpha = rng.choice([[97, 98], [13, 10]])
    n = rng.randint(2, 4 if tier == "quick" else 6)
    stream = rand_stream(rng, n, alpha)
    cuts = add_timeouts(rng, rand_cuts(rng, n, rng.choice(["one", "small", "whole"])), rng.choice([0.0, 0.2]))
    net = cut_stream(stream, cuts)
    delims = [[a] for a in alpha] + [[a, b] for a in alpha for b in alpha] + [stream[:3], [alpha[0]] * 3]
    rs = rng.choice([1, 2, 64])
    tmo = rng.choice([None, 1000.0])
    for d in delims:
        for m in range(0, n + 2):
            w = rng.random() < 0.5
            yield {"kind": "bs", "maxsize": 100, "recvsize": rs, "timeout": tmo, "net": net, "script": [],
                   "ops": [["until", d, m, w], ["until", d, "unset", not w], ["close", None]], "retry": True}


def gen_ns(rng, tier):
    wmax = rng.choice([5, 9, 10, 11, 99, 100, 999, 4096])
    nw = rng.randint(0, 4)
    wops = []
    for _ in range(nw):
        if rng.random() < 0.1:
            wops.append(["setmax", rng.choice([5, 9, 10, 99, 4096])])
        else:
            wops.append(["write", rand_payload(rng, full=True)])
    r = rng.random()
    junk = []
    if r < 0.2:        # truncated / malformed tail: error behaviour is only tied to the model
        junk = rng.choice([[51], [51, 58, 97], [97, 58], [58], [50, 58, 97, 98, 59], [48, 58], [48, 58, 44],
                           [57, 57, 57, 57, 57, 57, 57], [49, 50, 51, 52, 53, 54, 58], [51, 58, 97, 98, 99],
                           # int() syntax: white space, sign, underscores; negative and malformed sizes
                           [32, 51, 58, 97, 98, 99, 44], [43, 50, 58, 97, 98, 44, 49, 58, 120, 44], [45, 49, 58, 97, 44],
                           [45, 49, 58, 44, 50, 58, 97, 98, 44], [49, 95, 48, 58] + [120] * 10 + [44], [95, 49, 58, 97, 44],
                           [49, 95, 95, 48, 58], [49, 95, 58, 97, 44], [9, 50, 10, 58, 97, 98, 44], [43, 58], [45, 58, 44],
                           [43, 32, 53, 58], [48, 120, 49, 58], [255, 58], [49, 0, 50, 58], [11, 49, 12, 58, 122, 44],
                           [45, 48, 58, 44], [48, 95, 48, 58, 44, 49, 58, 97, 44]])
    total_guess = sum(len(o[1]) + 4 for o in wops if o[0] == "write") + len(junk)
    cuts = add_timeouts(rng, rand_cuts(rng, total_guess), rng.choice([0.0, 0.0, 0.15, 0.35]))
    rops = []
    for _ in range(nw + rng.randint(0, 2)):
        x = rng.random()
        if x < 0.08:
            rops.append(["setmax", rng.choice([5, 9, 10, 99, 100, 4096])])
        else:
            rops.append(["read", None if x < 0.85 else rng.choice([5, 9, 10, 11, 99, 100])])
    wscript = [(rand_intr(rng, 0.5) if rng.random() < 0.25 else
                (["S", rng.choice([0, 2, 30])] if rng.random() < 0.1 else rng.choice([0, 1, 2, 5, 30])))
               for _ in range(rng.randint(0, 6))]
    if rng.random() < 0.5:
        wscript = [e for e in wscript if not is_intr(e)]
    if wops and rng.random() < 0.2:
        wops.insert(rng.randrange(len(wops) + 1), ["flush"])
    return {"kind": "ns", "wmax": wmax, "wscript": wscript,
            "rtimeout": rng.choice([10, 10, None]),
            "wops": wops, "rmax": rng.choice([5, 9, 10, 11, 99, 100, 101, 999, 4096, 4096]), "cuts": cuts, "junk": junk,
            "rops": rops, "retry": rng.random() < 0.8}


def gen_sweep(rng):
    """Thorough tier: EVERY network for EVERY stream over {a,b} of length <= 5 (all compositions into
    deliveries x a time-out or not before each delivery and at the end; 12 442 networks), each with a random
    delimiter of length 1-3, maxsize 0..len+1 or default, with/without delimiter, under the call sequence
    recv_until, peek, recv_size, recv_until, recv_close (repeated after Timeout)."""
    delims = [[97], [98], [97, 98], [98, 97], [97, 97], [97, 97, 98], [97, 98, 97]]
    for n in range(0, 6):
        for bits in itertools.product([97, 98], repeat=n):
            stream = list(bits)
            nets = []
            for parts in compositions(n):
                for tm in itertools.product([0, 1], repeat=len(parts) + 1):
                    cuts = []
                    for t, p in zip(tm, parts):
                        if t:
                            cuts.append(rand_intr(rng, 0.3))
                        cuts.append(["S", p] if rng.random() < 0.1 else p)
                    if tm[-1]:
                        cuts.append(rand_intr(rng, 0.3))
                    nets.append(cut_stream(stream, cuts))
            for net in nets:
                d = rng.choice(delims)
                m = rng.choice(list(range(0, n + 2)) + ["unset"])
                w = rng.random() < 0.5
                ops = [["until", d, m, w], ["peek", rng.randint(0, 2)], ["size", rng.randint(0, 2)],
                       ["until", d, "unset", not w], ["close", rng.choice(["unset", 0, 1, None])]]
                yield {"kind": "bs", "maxsize": rng.choice([2, 3, 100]), "recvsize": rng.choice([1, 2, 3, 64]),
                       "timeout": rng.choice([None, 1000.0]), "net": net, "script": [], "ops": ops, "retry": True}


def gen_send_sweep(rng):
    """Thorough tier: buffer(a); send(b); buffer(c); flush(); flush() under EVERY script of length <= 4 over
    {take 1 byte, take 2 bytes, take all, socket.timeout, EWOULDBLOCK, slow 1 byte, slow all} (2 801 scripts),
    with a/b/c of length 0-3,
    repeated after an interruption."""
    alphabet = [0, 1, 30, "T", ["E", 11], ["S", 0], ["S", 30]]
    for ln in range(0, 5):
        for sc in itertools.product(alphabet, repeat=ln):
            a, b, c = ([rng.randrange(256) for _ in range(rng.randint(0, 3))] for _ in range(3))
            yield {"kind": "bs", "maxsize": 10, "recvsize": 4, "timeout": rng.choice([None, 0, 1000.0, 1000.0]), "net": [],
                   "script": list(sc), "ops": [["buffer", a], ["send", b, rng.choice(["send", "sendall"])],
                                               ["buffer", c], ["flush"], ["flush"]], "retry": True}


def gen_ns_sweep(rng):
    """Thorough tier: the wire of three netstrings (payloads with ':' and ',' inside, an empty one) under EVERY
    composition into deliveries (2^(len-1)), each with interruptions/slow deliveries at random gaps, read with
    retry."""
    payloads = [[97], [44, 58], []]
    total = sum(len(str(len(p))) + 2 + len(p) for p in payloads)      # 1:a, 2:,:, 0:,  = 12 bytes
    for parts in compositions(total):
        cuts = []
        for p in parts:
            if rng.random() < 0.2:
                cuts.append(rand_intr(rng, 0.4))
            cuts.append(["S", p] if rng.random() < 0.1 else p)
        yield {"kind": "ns", "wmax": 100, "wscript": [], "wops": [["write", p] for p in payloads],
               "rmax": rng.choice([2, 10, 100]), "rtimeout": rng.choice([10, None]), "cuts": cuts, "junk": [],
               "rops": [["read", None]] * 4, "retry": True}


def generate(rng, tier, n):
    made = 0
    if tier == "thorough":
        for c in gen_sweep(rng):
            yield c
        for c in gen_send_sweep(rng):
            yield c
        for c in gen_ns_sweep(rng):
            yield c
    while made < n:
        r = rng.random()
        if r < 0.08:
            for c in gen_exhaustive_family(rng, tier):
                if made >= n:
                    break
                yield c
                made += 1
            continue
        if r < 0.095:
            for c in gen_delim_family(rng, tier):
                if made >= n:
                    break
                yield c
                made += 1
            continue
        if r < 0.55:
            c = gen_bs(rng, tier, "recv")
        elif r < 0.67:
            c = gen_bs(rng, tier, "send")
        elif r < 0.80:
            c = gen_bs(rng, tier, "mixed")
        else:
            c = gen_ns(rng, tier)
        yield c
        made += 1


# --------------------------------------------------------------------------
# canary, evidence helpers, shrinking
# --------------------------------------------------------------------------
def corrupt(case, obs):
    """A wrong observation: one returned byte changed, or a byte dropped from a
    buffer view, or a counter off by one."""
    import copy
    bad = copy.deepcopy(obs)
    key = "rsteps" if case["kind"] == "ns" else "steps"
    for st in bad[key]:
        if st[1][0] == "b" and st[1][1]:
            st[1][1][0] = (st[1][1][0] + 1) % 256
            return bad
    for st in bad[key]:
        if st[2]:
            st[2].pop()
            return bad
    for st in bad[key]:
        st[3] += 1
        return bad
    return None


def nontrivial(case, obs):
    return any(v for v in obs["marks"].values())


def distribution(d, case, obs):
    kinds = d.setdefault("kind", {})
    kinds[case["kind"]] = kinds.get(case["kind"], 0) + 1
    mk = d.setdefault("depth_markers", {})
    for k, v in obs["marks"].items():
        mk[k] = mk.get(k, 0) + (1 if v else 0)
    oh = d.setdefault("ops", {})
    outs = d.setdefault("outcomes", {})
    if case["kind"] == "bs":
        for st in obs["steps"]:
            k = st[0][0]
            oh[k] = oh.get(k, 0) + 1
            o = st[1][1] if st[1][0] == "exn" else ("OSErr" if st[1][0] == "oserr" else "ok")
            outs[k + ":" + o] = outs.get(k + ":" + o, 0) + 1
        tm = d.setdefault("timeout_mode", {})
        tm[str(case.get("timeout"))] = tm.get(str(case.get("timeout")), 0) + 1
        rs = d.setdefault("recvsize", {})
        rs[str(case["recvsize"])] = rs.get(str(case["recvsize"]), 0) + 1
    else:
        for st in obs["rsteps"]:
            k = "ns_" + st[0][0]
            oh[k] = oh.get(k, 0) + 1
            o = st[1][1] if st[1][0] == "exn" else ("OSErr" if st[1][0] == "oserr" else "ok")
            outs[k + ":" + o] = outs.get(k + ":" + o, 0) + 1
        for st in obs["wsteps"]:
            k = "ns_" + st[0][0]
            oh[k] = oh.get(k, 0) + 1


def sample(case, obs):
    if case["kind"] == "ns":
        return {"case": case, "net": obs["net"], "reads": [s[1] for s in obs["rsteps"]][:6]}
    return {"net": case["net"], "recvsize": case["recvsize"], "maxsize": case["maxsize"], "ops": case["ops"][:6],
            "steps": obs["steps"][:8]}


def shrink(case):
    if case["kind"] == "ns":
        for key in ("wops", "rops", "cuts", "junk", "wscript"):
            for i in range(len(case[key])):
                c = dict(case)
                c[key] = case[key][:i] + case[key][i + 1:]
                yield c
        return
    ops = case["ops"]
    for i in range(len(ops)):
        if len(ops) > 1:
            yield dict(case, ops=ops[:i] + ops[i + 1:])
    net = case["net"]
    for i in range(len(net)):
        yield dict(case, net=net[:i] + net[i + 1:])
        if is_slow(net[i]):
            yield dict(case, net=net[:i] + [net[i][1]] + net[i + 1:])
            continue
        if not is_intr(net[i]) and len(net[i]) > 1:
            yield dict(case, net=net[:i] + [net[i][:-1]] + net[i + 1:])
        if not is_intr(net[i]) and i + 1 < len(net) and not is_intr(net[i + 1]) and not is_slow(net[i + 1]):
            yield dict(case, net=net[:i] + [net[i] + net[i + 1]] + net[i + 2:])
    sc = case["script"]
    for i in range(len(sc)):
        yield dict(case, script=sc[:i] + sc[i + 1:])
    if case.get("timeout") is not None:
        yield dict(case, timeout=None)
